#!/bin/bash
# tools/seedconfirm.sh <round> <group>: confirm (demo passes clean; patched: builds, suite ok, demo fails) every change an agent
# left in /tmp/mut<round>_<group>/out and store the confirmed ones as /verif/seeded/<P>-r<round>-<group>-<n>; no checks are run.
r=$1; g=$2
for m in $(ls /tmp/mut${r}_$g/out/meta*.json 2>/dev/null | sort -V); do
  n=$(basename $m .json); n=${n#meta}
  p=$(python3 -c "import json; print(json.load(open('$m')).get('property','C00')[:3])")
  python3 /verif/tools/seedcheck.py $g $n --round $r --confirm-only --keep-as $p-r$r-$g-$n 2>&1 | python3 -c "
import json,sys
try: d=json.load(sys.stdin)
except Exception as e: print('$g $n unparsable', e); sys.exit()
print('$g', '$n', '$p', 'confirmed' if d['confirmed'] else 'NOT-CONFIRMED ' + str({k:d[k] for k in ('demo_on_clean','applies_and_builds','suite_with_change','demo_with_change')})[:300])
"
done
