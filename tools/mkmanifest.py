#!/usr/bin/env python3
"""Regenerates MANIFEST.json from propcfg.py (run after adding a property check)."""
import json, os, sys
V = os.path.dirname(os.path.dirname(os.path.abspath(__file__)))
sys.path.insert(0, V)
from propcfg import PROPS, NOT_APPLICABLE  # noqa
ids = [json.loads(l)["id"] for l in open(os.path.join(V, "properties.jsonl"))]
checks = []
for pid in ids:
    if pid not in PROPS:
        continue
    c = PROPS[pid]
    checks.append({
        "property_id": pid,
        "quick_cmd": f"./check {pid} --tier quick",
        "thorough_cmd": f"./check {pid} --tier thorough",
        "evidence_file": f"evidence/{pid}.json",
        "replay_cmd_template": f"./check {pid} --replay {{path}}",
        "engine": "lean4-model+correspondence",
        "level_claimed": {"category": "proof", "text": c["level_text"], "design_ref": c.get("design_ref", "DESIGN.md section 7")},
        "level_note": c["level_note"],
        "technique": c.get("technique", "Lean 4 theorems over a hand-written executable model; model tied to /repo by differential correspondence (Go harness vs compiled Lean driver) and regenerated fact tables"),
    })
na = [{"property_id": p, "reason": NOT_APPLICABLE.get(p, "check not built yet in this round (work in progress; see DESIGN.md section 7)")}
      for p in ids if p not in PROPS]
m = {
    "version": 1,
    "setup_cmd": "./setup.sh",
    "hooks": {"guard": "verif", "enable": "go build -tags verif (the harness is built with the tag on; no hook code is currently needed in /repo)",
              "baseline_off_cmd": "cd /repo && go test -mod=mod -vet=off -count=1 ./...", "source_commits": [], "add_only": True},
    "engines": [{"name": "lean4-model+correspondence", "path": "lean/ harness/ check",
                 "serves_properties": [c["property_id"] for c in checks],
                 "kind_free_text": "Lean 4 model + machine-checked theorems (lake build, #print axioms audit, leanchecker in thorough tier); Go harness executes /repo's working tree on generated cases, compiled Lean driver computes model outcome and spec-oracle verdict per case"}],
    "checks": checks,
    "not_applicable": na,
    "notes": "See DESIGN.md. Every check rebuilds the harness against /repo's working tree, regenerates fact tables, rebuilds the Lean theorems that depend on them, audits axioms, then runs the differential correspondence and the spec oracle.",
}
json.dump(m, open(os.path.join(V, "MANIFEST.json"), "w"), indent=1)
# root module of the Lean library: everything a fresh `lake build` must build
mods = ["AvroModel.Audit"]
for pid in ids:
    if pid in PROPS:
        for m in PROPS[pid]["lean_modules"]:
            if m not in mods:
                mods.append(m)
open(os.path.join(V, "lean", "AvroModel.lean"), "w").write("".join(f"import {m}\n" for m in mods))
print("checks:", [c["property_id"] for c in checks])
