#!/usr/bin/env python3
"""One-off: rename the round-8 seeded directories to descriptive names, record in meta.json which check catches each
(from the annotation run) and what had to be strengthened, and print the DESIGN table rows."""
import json, os, re, sys
V = "/verif"
ann = {}
for l in open(f"{V}/.work/seed9_ann.txt"):
    m = re.match(r"(\S+) CAUGHT-BY:(.*)", l.strip())
    if m: ann[m.group(1)] = m.group(2).strip()
strength = {
 "C16-r9-G6-9": "FileWriter used directly (WriteHeader, WriteBlock with row counts 0, 1, 0, 3) with the destination failing at every write",
 "C13-r9-G3-9": "every fifth WR13 case is zero-heavy: most fields omitempty, every second scalar the zero value (null-second unions included)",
 "C11-r9-G1-9": "on every other record the callback forces collections and examines the record BEFORE it copies it",
 "C20-r9-G10-8": "custom types registered with array and map schemas in every position",
}
notcaught = {
 "C14-r9-G4-10": "NOT caught, by design: it needs json.Unmarshal into a caller-reused, non-zero Schema value; SchemaFromString, FileSchema and the header reader always parse into fresh values, the unchanged code keeps stale state for string and union documents in the same situation, and the property quantifies over documents, not over destination states",
}
stop = set("the a an of to in is are and or when with for its it as by from that this instead on at be not no than which into".split())
rows = []
used = set(os.listdir(f"{V}/seeded"))
for d in sorted(os.listdir(f"{V}/seeded")):
    m = re.match(r"(C\d\d)-r9-(G\d+)-(\d+)$", d)
    if not m: continue
    prop, g, n = m.groups()
    meta = json.load(open(f"{V}/seeded/{d}/meta.json"))
    words = [w for w in re.findall(r"[A-Za-z0-9]+", meta.get("summary", "")) if w.lower() not in stop][:5]
    slug = "-".join(w.lower() for w in words)[:48].strip("-") or "change"
    new = f"{prop}-r9{g.lower()}n{n}-{slug}"
    assert new not in used, new
    used.add(new)
    who = ann.get(d)
    if who is None:
        print("no annotation for", d, file=sys.stderr); continue
    meta["round"] = 9
    meta["caught_by_current_checks"] = who
    if d in notcaught:
        meta["history"] = notcaught[d]
    elif d in strength:
        meta["history"] = f"initially caught by no check; added: {strength[d]}; now caught by {who}"
    elif not who.split()[0].startswith(prop):
        meta["history"] = f"not caught by the check of the property its author named ({prop}); it is caught by {who}, whose subject it is"
    else:
        meta["history"] = f"caught at once by {who}"
    json.dump(meta, open(f"{V}/seeded/{d}/meta.json", "w"), indent=1)
    os.rename(f"{V}/seeded/{d}", f"{V}/seeded/{new}")
    needs = (meta.get("needs") or "").replace("|", "/").replace("\n", " ")[:140]
    note = notcaught[d][:60] + "…" if d in notcaught else who if d not in strength else f"initially MISSED ⇒ {strength[d]} ⇒ {who}"
    rows.append(f"| {new} | {needs} | {note} |")
open(f"{V}/.work/round9_rows.md", "w").write("\n".join(rows) + "\n")
print(len(rows), "rows")
