#!/bin/bash
# Every stored behaviour-preserving rewrite (/verif/harmless/<id>/patch.diff) against every quick check; none may raise an alarm.
#   tools/harmlessall.sh <shard> <nshards> <out-file>      (private worktree /tmp/wt_hl<shard>, private copy /tmp/repo_hl<shard>)
set -u
sh=$1; n=$2; out=$3
WT=/tmp/wt_hl$sh; RP=/tmp/repo_hl$sh
[ -d $WT ] || git -C /verif worktree add -f --detach $WT HEAD >/dev/null 2>&1
git -C $WT checkout -q -f --detach $(git -C /verif rev-parse HEAD)
rm -rf $RP; git clone -q /repo $RP
cd $WT
export VERIF_REPO=$RP VERIF_SEED=1
./check --setup >/dev/null 2>&1
i=0
for d in /verif/harmless/*/; do
  i=$((i+1)); [ $((i % n)) = $sh ] || continue
  id=$(basename $d)
  git -C $RP apply $d/patch.diff 2>/dev/null || git -C $RP apply -C1 $d/patch.diff 2>/dev/null || { echo "$id APPLY-FAILED" >> $out; continue; }
  (cd $RP && go build ./... >/dev/null 2>&1 && go test -mod=mod -vet=off -count=1 ./... >/dev/null 2>&1) || { echo "$id SUITE-FAILS" >> $out; git -C $RP checkout -q -- .; git -C $RP clean -fdq; continue; }
  bad=""
  for c in C01 C02 C03 C04 C05 C06 C07 C08 C09 C10 C11 C12 C13 C14 C15 C16 C17 C18 C19 C20; do
    o=$(./check $c 2>&1 | grep -E "^(C[0-9]+: |VIOLATION)" | tail -2)
    if echo "$o" | grep -q "VIOLATION\|FAIL"; then
      kind="oracle"; echo "$o" | grep -q "no-failing-input-found" && kind="break"
      bad="$bad $c($kind)"
      mkdir -p /verif/.work/refalarms; cp $(echo "$o" | grep -o "replay=[^ ]*" | cut -d= -f2) /verif/.work/refalarms/${id}_${c}.json 2>/dev/null
    fi
  done
  git -C $RP checkout -q -- . ; git -C $RP clean -fdq
  echo "$id ALARMS:${bad:- none}" >> $out
done
rm -rf $RP; git -C /verif worktree remove --force $WT
