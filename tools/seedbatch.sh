#!/bin/bash
# tools/seedbatch.sh <round> <group>: confirm and check every change an agent left in /tmp/mut<round>_<group>/out
r=$1; g=$2
for m in $(ls /tmp/mut${r}_$g/out/meta*.json 2>/dev/null | sort -V); do
  n=$(basename $m .json); n=${n#meta}
  p=$(python3 -c "import json; print(json.load(open('$m')).get('property','C00')[:3])")
  /verif/tools/seedrun.sh $r $g $n $p $p-r$r-$g-$n 2>&1 | sed "s/^$g /$g($p) /"
done
