#!/bin/bash
# usage: [VERIF_REPO=/tmp/repo_copy] muttest.sh <prop> <file> <sed-expr>
# Applies a one-line mutation to the repository copy (default /repo), checks that it still
# builds and passes its own tests, runs ./check <prop> against it, and restores the file.
prop=$1; file=$2; expr=$3
R=${VERIF_REPO:-/repo}
V=$(cd "$(dirname "$0")/.." && pwd)
cd $R && cp $file /tmp/muttest.$$.bak && sed -i "$expr" $file
if diff -q $file /tmp/muttest.$$.bak >/dev/null; then echo "MUTATION DID NOT APPLY"; fi
(go build ./... 2>&1 | head -3)
if [ -n "$MUT_RUN_TESTS" ]; then go test -mod=mod -vet=off -count=1 ./... 2>&1 | tail -3; fi
cd $V && VERIF_REPO=$R ./check $prop | tail -3
cd $R && cp /tmp/muttest.$$.bak $file && rm /tmp/muttest.$$.bak && git status --short | head -3
