#!/bin/bash
# usage: muttest.sh <prop> <file> <sed-expr>  — applies a one-line mutation to /repo, runs the check, restores.
prop=$1; file=$2; expr=$3
cd /repo && cp $file /tmp/muttest.bak && sed -i "$expr" $file && if diff -q $file /tmp/muttest.bak >/dev/null; then echo "MUTATION DID NOT APPLY"; fi
(go build ./... 2>&1 | head -3)
cd /verif && ./check $prop | tail -3
cd /repo && git checkout -- . && git status --short | head -3
