#!/bin/bash
# Unchanged-tree sweep in a private worktree of /verif and a private copy of /repo:
#   tools/sweep.sh <tier> <seed> [props...]
# prints one summary line per property; a FAIL here on the unchanged tree is a false alarm or a new finding.
set -u
tier=$1; seed=$2; shift 2
props=${*:-C01 C02 C03 C04 C05 C06 C07 C08 C09 C10 C11 C12 C13 C14 C15 C16 C17 C18 C19 C20}
WT=/tmp/wt_sweep${SWEEPTAG:-}; RP=/tmp/repo_sweep${SWEEPTAG:-}
if [ ! -d $WT ]; then git -C /verif worktree add -f --detach $WT HEAD >/dev/null 2>&1; fi
git -C $WT checkout -q -f --detach $(git -C /verif rev-parse HEAD)
rm -rf $RP; git clone -q /repo $RP
cd $WT
export VERIF_REPO=$RP VERIF_SEED=$seed VERIF_TIER=$tier
./check --setup >/dev/null 2>&1
for p in $props; do
  ./check $p --tier $tier 2>&1 | grep -E "^(C[0-9]+: |VIOLATION)" | cut -c1-300
done
rm -rf $RP
