#!/bin/bash
# tools/seedrun.sh <round> <prop> <n> <checks> [keep-as]   -> one summary line
r=$1; p=$2; n=$3; c=$4; k=${5:-$p-r$r-$n-tmp}
python3 /verif/tools/seedcheck.py $p $n --round "$r" --checks $c --keep-as $k 2>&1 | python3 -c "
import json,sys
try:
    d=json.load(sys.stdin)
except Exception as e:
    print('seedcheck output unparsable', e); sys.exit()
print(d['property'],d['n'],'confirmed' if d['confirmed'] else 'NOT-CONFIRMED',{k:(v['verdict'] if isinstance(v,dict) else v) for k,v in d['checks'].items()}, 'restored' if d.get('repo_restored') else 'REPO-NOT-RESTORED?')
if not d['confirmed']: print({k:d[k] for k in ('demo_on_clean','applies_and_builds','suite_with_change','demo_with_change')})
"
