#!/bin/bash
# tools/seedannot.sh <shard> <nshards> <out-file> <id-glob>: for every stored seeded change matching the glob (shard k of n),
# which check catches it?  named property first, then the others.  Private worktree of /verif + private copy of /repo.
set -u
sh=$1; n=$2; out=$3; glob=$4
WT=/tmp/wt_seedann${TAG:-}$sh; RP=/tmp/repo_seedann${TAG:-}$sh
[ -d $WT ] || git -C /verif worktree add -f --detach $WT HEAD >/dev/null 2>&1
git -C $WT checkout -q -f --detach $(git -C /verif rev-parse HEAD)
rm -rf $RP; git clone -q /repo $RP
cd $WT
export VERIF_REPO=$RP VERIF_SEED=${VERIF_SEED:-1}
./check --setup >/dev/null 2>&1
i=0
for d in /verif/seeded/$glob/; do
  i=$((i+1)); [ $((i % n)) = $sh ] || continue
  id=$(basename $d); prop=${id%%-*}
  hit=""
  for c in $prop C03 C01 C13 C06 C05 C11 C10 C04 C02 C17 C19 C20 C12 C07 C09 C14 C15 C16 C18 C08; do
    [ "$c" = "$prop" ] && [ -n "$hit" ] && continue
    git -C $RP apply $d/patch.diff 2>/dev/null || { hit=" APPLY-FAILED"; break; }
    o=$(./check $c 2>&1 | grep -E "^(C[0-9]+: |VIOLATION)" | tail -2)
    git -C $RP checkout -q -- . ; git -C $RP clean -fdq
    if echo "$o" | grep -q VIOLATION; then
      if echo "$o" | grep -q no-failing-input-found; then hit="$hit $c(break)"; else hit="$hit $c"; break; fi
    fi
    [ "$c" = "$prop" ] && hit="$hit" 
  done
  echo "$id CAUGHT-BY:${hit:- none}" >> $out
done
rm -rf $RP; git -C /verif worktree remove --force $WT
