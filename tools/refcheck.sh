#!/bin/bash
# Behaviour-preserving refactorings must not raise alarms:
#   tools/refcheck.sh <dir with patch<N>.diff files> <tag>     (private worktree /tmp/wt_ref_<tag>, private copy /tmp/repo_ref_<tag>)
# prints, per patch, the properties whose quick check does not pass.
set -u
dir=$1; tag=$2
WT=/tmp/wt_ref_$tag; RP=/tmp/repo_ref_$tag
if [ ! -d $WT ]; then git -C /verif worktree add -f --detach $WT HEAD >/dev/null 2>&1; fi
git -C $WT checkout -q -f --detach $(git -C /verif rev-parse HEAD)
rm -rf $RP; git clone -q /repo $RP
cd $WT
export VERIF_REPO=$RP VERIF_SEED=1
./check --setup >/dev/null 2>&1
for p in $dir/patch*.diff; do
  n=$(basename $p .diff)
  git -C $RP apply $p 2>/dev/null || { echo "$tag $n APPLY-FAILED"; continue; }
  (cd $RP && go build ./... >/dev/null 2>&1 && go test -mod=mod -vet=off -count=1 ./... >/dev/null 2>&1) || { echo "$tag $n SUITE-FAILS"; git -C $RP checkout -q -- .; git -C $RP clean -fdq; continue; }
  bad=""
  for c in C01 C02 C03 C04 C05 C06 C07 C08 C09 C10 C11 C12 C13 C14 C15 C16 C17 C18 C19 C20; do
    out=$(./check $c 2>&1 | grep -E "^(C[0-9]+: |VIOLATION)" | tail -2)
    if echo "$out" | grep -q "VIOLATION\|FAIL"; then
      kind="oracle"; echo "$out" | grep -q "no-failing-input-found" && kind="break"
      bad="$bad $c($kind)"
      mkdir -p /verif/.work/refalarms; cp $(echo "$out" | grep -o "replay=[^ ]*" | cut -d= -f2) /verif/.work/refalarms/${tag}_${n}_${c}.json 2>/dev/null
    fi
  done
  git -C $RP checkout -q -- . ; git -C $RP clean -fdq
  echo "$tag $n ALARMS:${bad:- none}"
done
rm -rf $RP
