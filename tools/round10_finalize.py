#!/usr/bin/env python3
"""One-off: rename the round-8 seeded directories to descriptive names, record in meta.json which check catches each
(from the annotation run) and what had to be strengthened, and print the DESIGN table rows."""
import json, os, re, sys
V = "/verif"
ann = {}
for l in open(f"{V}/.work/seed10_ann.txt"):
    m = re.match(r"(\S+) CAUGHT-BY:(.*)", l.strip())
    if m: ann[m.group(1)] = m.group(2).strip()
strength = {
 "C08-r10-G8-1": "op big-cut: a first block above the reader's 1 MiB chunk, cut at payloadStart + k*2^20 + {-1,0,1} and at every edge of the block",
 "C10-r10-G10-1": "fileretain cases with strings, byte slices and map keys of 64 KiB and more, one record per block, all retained",
 "C11-r10-G6-10": "the same large-value fileretain cases (the change is an aliasing, not a collector, defect: caught by C10)",
 "C10-r10-G10-5": "op timeretain: records holding a time.Time with unusual numeric offsets; instant, offset and the zone name reachable through its Location are snapshotted in the callback and compared after the remaining blocks",
 "C15-r10-G10-7": "zoo type ZUnicode (exported fields Aerger/Omega/Elan/Nandu spelled with non-ASCII capitals, unexported ones with non-ASCII lower case)",
 "C15-r10-G10-9": "nesting depths 31, 32, 33, 34, 48, 70 of slices, maps, pointers, structs and a rotation of all four",
}
notcaught = {
}
stop = set("the a an of to in is are and or when with for its it as by from that this instead on at be not no than which into".split())
rows = []
used = set(os.listdir(f"{V}/seeded"))
for d in sorted(os.listdir(f"{V}/seeded")):
    m = re.match(r"(C\d\d)-r10-(G\d+)-(\d+)$", d)
    if not m: continue
    prop, g, n = m.groups()
    meta = json.load(open(f"{V}/seeded/{d}/meta.json"))
    words = [w for w in re.findall(r"[A-Za-z0-9]+", meta.get("summary", "")) if w.lower() not in stop][:5]
    slug = "-".join(w.lower() for w in words)[:48].strip("-") or "change"
    new = f"{prop}-r10{g.lower()}n{n}-{slug}"
    assert new not in used, new
    used.add(new)
    who = ann.get(d)
    if who is None:
        print("no annotation for", d, file=sys.stderr); continue
    meta["round"] = 10
    meta["caught_by_current_checks"] = who
    if d in notcaught:
        meta["history"] = notcaught[d]
    elif d in strength:
        meta["history"] = f"initially caught by no check; added: {strength[d]}; now caught by {who}"
    elif not who.split()[0].startswith(prop):
        meta["history"] = f"not caught by the check of the property its author named ({prop}); it is caught by {who}, whose subject it is"
    else:
        meta["history"] = f"caught at once by {who}"
    json.dump(meta, open(f"{V}/seeded/{d}/meta.json", "w"), indent=1)
    os.rename(f"{V}/seeded/{d}", f"{V}/seeded/{new}")
    needs = (meta.get("needs") or "").replace("|", "/").replace("\n", " ")[:140]
    note = notcaught[d][:60] + "…" if d in notcaught else who if d not in strength else f"initially MISSED ⇒ {strength[d]} ⇒ {who}"
    rows.append(f"| {new} | {needs} | {note} |")
open(f"{V}/.work/round10_rows.md", "w").write("\n".join(rows) + "\n")
print(len(rows), "rows")
