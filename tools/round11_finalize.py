#!/usr/bin/env python3
"""One-off: rename the round-8 seeded directories to descriptive names, record in meta.json which check catches each
(from the annotation run) and what had to be strengthened, and print the DESIGN table rows."""
import json, os, re, sys
V = "/verif"
ann = {}
for l in open(f"{V}/.work/seed11_ann.txt"):
    m = re.match(r"(\S+) CAUGHT-BY:(.*)", l.strip())
    if m: ann[m.group(1)] = m.group(2).strip()
strength = {
 "C01-r11-G1-3": "BIG stream: 20000 / 40000 identical one-byte records in one block (snappy at its best ratio, above 21 : 1)",
 "C03-r11-G3-2": "BIG stream: 20000 / 40000 identical one-byte records in one block (snappy at its best ratio, above 21 : 1)",
 "C07-r11-G7-4": "BIG stream: 20000 / 40000 identical one-byte records in one block (snappy at its best ratio, above 21 : 1)",
 "C01-r11-G1-1": "BIG stream: one block of 65535 / 65536 / 65537 / 70001 records",
 "C09-r11-G9-5": "BIG stream: one block of 65535 / 65536 / 65537 / 70001 records",
 "C02-r11-G2-4": "scenario same-named-types: two distinct function-local types called row through NewEncoderFor, ReadFile, SchemaForType, Schema.Codec",
 "C20-r11-G8-7": "scenario same-named-unregistered: a registration for one local type called ID, another local type called ID used unregistered",
 "C07-r11-G7-2": "the callback fails with a private sentinel, io.EOF or io.ErrUnexpectedEOF in turn",
 "C07-r11-G7-1": "mutation fill: every sync marker replaced by 16 zero bytes and by 16 0xFF bytes",
 "C06-r11-G6-3": "mal-schema: complex type names without their object in every position, for a field the target has and one it has not",
 "C11-r11-G10-5": "RD stream: every third case decodes twice with the same codec; the caller writes into the empty maps and slices of the first result",
 "C12-r11-G10-10": "RD stream: the caller edits the byte strings of the first of two decodes in place and appends to them",
 "C11-r11-G10-1": "GC stream: slices whose backing store is exactly 4096 bytes (256 strings, 512 pointers), half and double, in one block and in two",
 "C16-r11-G7-9": "the failing writer also returns an error with an Unwrap chain (pointer error -> timeout error -> sentinel); the returned error itself must stay reachable",
 "C16-r11-G7-7": "fwd: direct blocks of 1 MiB + 1, 1.5 MiB and 2 MiB + 77 bytes with every write index failing",
}
notcaught = {
}
stop = set("the a an of to in is are and or when with for its it as by from that this instead on at be not no than which into".split())
rows = []
used = set(os.listdir(f"{V}/seeded"))
for d in sorted(os.listdir(f"{V}/seeded")):
    m = re.match(r"(C\d\d)-r11-(G\d+)-(\d+)$", d)
    if not m: continue
    prop, g, n = m.groups()
    meta = json.load(open(f"{V}/seeded/{d}/meta.json"))
    words = [w for w in re.findall(r"[A-Za-z0-9]+", meta.get("summary", "")) if w.lower() not in stop][:5]
    slug = "-".join(w.lower() for w in words)[:48].strip("-") or "change"
    new = f"{prop}-r11{g.lower()}n{n}-{slug}"
    assert new not in used, new
    used.add(new)
    who = ann.get(d)
    if who is None:
        print("no annotation for", d, file=sys.stderr); continue
    meta["round"] = 11
    meta["caught_by_current_checks"] = who
    if d in notcaught:
        meta["history"] = notcaught[d]
    elif d in strength:
        meta["history"] = f"initially caught by no check; added: {strength[d]}; now caught by {who}"
    elif not who.split()[0].startswith(prop):
        meta["history"] = f"not caught by the check of the property its author named ({prop}); it is caught by {who}, whose subject it is"
    else:
        meta["history"] = f"caught at once by {who}"
    json.dump(meta, open(f"{V}/seeded/{d}/meta.json", "w"), indent=1)
    os.rename(f"{V}/seeded/{d}", f"{V}/seeded/{new}")
    needs = (meta.get("needs") or "").replace("|", "/").replace("\n", " ")[:140]
    note = notcaught[d][:60] + "…" if d in notcaught else who if d not in strength else f"initially MISSED ⇒ {strength[d]} ⇒ {who}"
    rows.append(f"| {new} | {needs} | {note} |")
open(f"{V}/.work/round11_rows.md", "w").write("\n".join(rows) + "\n")
print(len(rows), "rows")
