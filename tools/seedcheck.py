#!/usr/bin/env python3
"""Confirms a seeded change produced by an independent sub-agent and runs our checks against it.

  tools/seedcheck.py C03 1 [--checks C03,C01] [--keep-as C03-map-scratch]

1. in the scratch worktree /tmp/mut_<P>: the demo passes on the clean tree; with the patch the
   packages build, the existing suite passes and the demo fails;
2. applies the patch to /repo, runs ./check for each listed property, restores /repo;
3. stores patch, demo and meta.json under /verif/seeded/<id>/ when confirmed.
"""
import argparse, json, os, re, shutil, subprocess, sys

V = os.path.dirname(os.path.dirname(os.path.abspath(__file__)))


def sh(cmd, cwd=None, timeout=1800):
    r = subprocess.run(cmd, shell=True, cwd=cwd, stdout=subprocess.PIPE, stderr=subprocess.STDOUT, text=True, timeout=timeout)
    return r.returncode, r.stdout


def main():
    ap = argparse.ArgumentParser()
    ap.add_argument("prop")
    ap.add_argument("n")
    ap.add_argument("--checks", default=None)
    ap.add_argument("--keep-as", default=None)
    ap.add_argument("--tier", default="quick")
    ap.add_argument("--round", default="")
    ap.add_argument("--confirm-only", action="store_true")
    a = ap.parse_args()
    wt = f"/tmp/mut{a.round}_{a.prop}"
    out = f"{wt}/out"
    patch = f"{out}/patch{a.n}.diff"
    demo = f"{out}/demo{a.n}_test.go"
    meta = json.load(open(f"{out}/meta{a.n}.json"))
    loc = meta.get("demo_location", "") or ""
    sub = "."
    m = re.search(r"(null|time)/?\s*$|in (?:the )?`?(null|time)`?", loc)
    if "null/" in loc or loc.strip().endswith("null"):
        sub = "null"
    elif "time/" in loc or loc.strip().endswith("time"):
        sub = "time"
    demo_dst = os.path.join(wt, sub, f"zz_demo{a.n}_test.go")
    tmp_out = f"/tmp/mut{a.round}_{a.prop}_out"
    report = {"property": a.prop, "n": a.n, "summary": meta.get("summary"), "needs": meta.get("needs")}
    sh("git checkout -- . ", cwd=wt)
    # keep out/ away from `go test ./...`
    if os.path.exists(tmp_out):
        shutil.rmtree(tmp_out)
    shutil.move(out, tmp_out)
    try:
        shutil.copy(f"{tmp_out}/demo{a.n}_test.go", demo_dst)
        rc, o = sh(f"go test -mod=mod -vet=off -count=1 ./{sub}/ 2>&1 | tail -5", cwd=wt)
        report["demo_on_clean"] = "ok" if "FAIL" not in o and "ok" in o else "FAILS: " + o[-400:]
        os.remove(demo_dst)
        rc, o = sh(f"git apply {tmp_out}/patch{a.n}.diff && go build ./... 2>&1 | tail -3", cwd=wt)
        report["applies_and_builds"] = (rc == 0 and o.strip() == "")
        rc, o = sh("go test -mod=mod -vet=off -count=1 ./... 2>&1 | tail -5", cwd=wt)
        report["suite_with_change"] = "ok" if "FAIL" not in o and o.count("ok") >= 3 else "FAILS: " + o[-400:]
        shutil.copy(f"{tmp_out}/demo{a.n}_test.go", demo_dst)
        rc, o = sh(f"go test -mod=mod -vet=off -count=1 ./{sub}/ 2>&1 | tail -8", cwd=wt, timeout=600)
        report["demo_with_change"] = "fails (as required)" if "FAIL" in o or "panic" in o else "PASSES?: " + o[-300:]
        os.remove(demo_dst)
        sh("git checkout -- .", cwd=wt)
    finally:
        if os.path.exists(demo_dst):
            os.remove(demo_dst)
        shutil.move(tmp_out, out)
    confirmed = (report["demo_on_clean"] == "ok" and report["applies_and_builds"] and report["suite_with_change"] == "ok"
                 and report["demo_with_change"].startswith("fails"))
    report["confirmed"] = confirmed
    # our checks against the change
    checks = (a.checks.split(",") if a.checks else [a.prop])
    report["checks"] = {}
    if confirmed and not a.confirm_only:
        rc, o = sh(f"git -C /repo apply {patch}")
        if rc != 0:
            report["checks"]["apply_to_repo"] = "FAILED: " + o[-300:]
        else:
            try:
                for c in checks:
                    rc, o = sh(f"./check {c} --tier {a.tier} 2>&1 | grep -v '^KNOWN-FINDING' | tail -3", cwd=V, timeout=3000)
                    verdict = "VIOLATION" if "VIOLATION" in o else ("PASS" if "PASS" in o else "?")
                    nofail = "no-failing-input-found" in o
                    report["checks"][c] = {"verdict": verdict + (" (no-failing-input-found)" if nofail else ""), "tail": o[-400:]}
            finally:
                sh("git -C /repo checkout -- .")
                rc, o = sh("git -C /repo status --short")
                report["repo_restored"] = (o.strip() == "")
    print(json.dumps(report, indent=1))
    if confirmed and a.keep_as:
        d = os.path.join(V, "seeded", a.keep_as)
        os.makedirs(d, exist_ok=True)
        shutil.copy(patch, os.path.join(d, "patch.diff"))
        shutil.copy(demo, os.path.join(d, os.path.basename(demo).replace(f"demo{a.n}", "demo")))
        meta_out = {"property": (meta.get("property") if str(meta.get("property", "")).startswith("C") else a.prop), "summary": meta.get("summary"), "breaks": meta.get("breaks"), "needs": meta.get("needs"),
                    "demo_location": meta.get("demo_location"), "author_verified": meta.get("verified"),
                    "confirmed_by_us": {k: report[k] for k in ("demo_on_clean", "applies_and_builds", "suite_with_change", "demo_with_change")},
                    "our_checks": {c: r["verdict"] for c, r in report["checks"].items() if isinstance(r, dict)},
                    "what_we_ran": f"tools/seedcheck.py {a.prop} {a.n} --checks {','.join(checks)} --tier {a.tier}"}
        json.dump(meta_out, open(os.path.join(d, "meta.json"), "w"), indent=1)


if __name__ == "__main__":
    main()
