#!/bin/bash
# Re-runs every stored seeded change against the current checks, in a private worktree of /verif and a private
# copy of /repo:   tools/seedall.sh [tier] [id-prefix...]     (one line per seeded change: CAUGHT / MISSED)
set -u
tier=${1:-quick}; shift || true
WT=/tmp/wt_seed; RP=/tmp/repo_seed
if [ ! -d $WT ]; then git -C /verif worktree add -f --detach $WT HEAD >/dev/null 2>&1; fi
git -C $WT checkout -q -f --detach $(git -C /verif rev-parse HEAD)
rm -rf $RP; git clone -q /repo $RP
cd $WT
export VERIF_REPO=$RP VERIF_SEED=${VERIF_SEED:-1}
./check --setup >/dev/null 2>&1
for d in /verif/seeded/*/; do
  id=$(basename $d)
  if [ $# -gt 0 ]; then ok=0; for p in "$@"; do case $id in $p*) ok=1;; esac; done; [ $ok = 1 ] || continue; fi
  prop=${id%%-*}
  git -C $RP apply $d/patch.diff 2>/dev/null || { echo "$id APPLY-FAILED"; continue; }
  out=$(./check $prop --tier $tier 2>&1 | grep -E "^(C[0-9]+: |VIOLATION)" | tail -2)
  git -C $RP checkout -q -- . ; git -C $RP clean -fdq
  if echo "$out" | grep -q "VIOLATION"; then
    nf=""; echo "$out" | grep -q "no-failing-input-found" && nf=" (no-failing-input-found)"
    echo "$id CAUGHT by $prop$nf"
  else
    # changes whose failure lies in another property's territory (e.g. needs two goroutines): the checks recorded in meta.json
    others=$(python3 -c "import json,sys; m=json.load(open('$d/meta.json')); print(' '.join(k for k,v in m.get('our_checks',{}).items() if v.startswith('VIOLATION') and k!='$prop'))" 2>/dev/null)
    hit=""
    for o in $others; do
      git -C $RP apply $d/patch.diff 2>/dev/null
      out2=$(./check $o --tier $tier 2>&1 | grep -E "^(C[0-9]+: |VIOLATION)" | tail -2)
      git -C $RP checkout -q -- . ; git -C $RP clean -fdq
      if echo "$out2" | grep -q "VIOLATION"; then hit=$o; break; fi
    done
    if [ -n "$hit" ]; then echo "$id CAUGHT by $hit (not by $prop: see meta.json history)"
    else echo "$id MISSED by $prop :: $(echo "$out" | tail -1 | cut -c1-120)"; fi
  fi
done
rm -rf $RP
