#!/bin/bash
# tools/seedwho.sh <seeded-id> [checks...]: which check catches this stored change? (applies it to /repo, restores afterwards)
id=$1; shift
checks=${*:-C03 C01 C13 C05 C11 C10 C04 C02 C17 C19 C06 C20 C12}
git -C /repo apply /verif/seeded/$id/patch.diff || { echo "$id APPLY-FAILED"; exit; }
hit=""
for c in $checks; do
  out=$(cd /verif && ./check $c 2>&1 | grep -E "^(C[0-9]+: |VIOLATION)" | tail -2)
  if echo "$out" | grep -q VIOLATION; then
    k=""; echo "$out" | grep -q no-failing-input-found && k="(break)"
    hit="$hit $c$k"; [ -z "$k" ] && break
  fi
done
git -C /repo checkout -- .
echo "$id CAUGHT-BY:${hit:- none}"
