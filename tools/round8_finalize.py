#!/usr/bin/env python3
"""One-off: rename the round-8 seeded directories to descriptive names, record in meta.json which check catches each
(from the annotation run) and what had to be strengthened, and print the DESIGN table rows."""
import json, os, re, sys
V = "/verif"
ann = {}
for l in open(f"{V}/.work/seed8_ann.txt"):
    m = re.match(r"(\S+) CAUGHT-BY:(.*)", l.strip())
    if m: ann[m.group(1)] = m.group(2).strip()
strength = {
 "C06-r8-G2-10": "negative and overflowing sizes for fixed / sized blocks in the malformed stream",
 "C06-r8-G4-1": "union selectors equal to the branch count (and other small selectors) in the malformed stream",
 "C06-r8-G5-4": "negative and overflowing block sizes on the Skip path of the malformed stream",
 "C06-r8-G6-2": "damaged map counts as a role of their own (mcount), repeated-decode soak, and the D14 tag no longer covering map-side allocation",
 "C01-r8-G2-13": "the E2E stream passes ONE reused variable to every Encode call",
 "C10-r8-G2-11": "three *[40]byte targets decoded from one bank (C03 stream)",
 "C10-r8-G6-10": "null-valued wide maps decoded from a recycled bank (C03 stream)",
 "C13-r8-G3-7": "WR13 generates null-typed positions outside unions (zero Go value there)",
 "C13-r8-G8-4": "every date-w case also writes through a [null, date] field",
}
stop = set("the a an of to in is are and or when with for its it as by from that this instead on at be not no than which into".split())
rows = []
used = set(os.listdir(f"{V}/seeded"))
for d in sorted(os.listdir(f"{V}/seeded")):
    m = re.match(r"(C\d\d)-r8-(G\d+)-(\d+)$", d)
    if not m: continue
    prop, g, n = m.groups()
    meta = json.load(open(f"{V}/seeded/{d}/meta.json"))
    words = [w for w in re.findall(r"[A-Za-z0-9]+", meta.get("summary", "")) if w.lower() not in stop][:5]
    slug = "-".join(w.lower() for w in words)[:48].strip("-") or "change"
    new = f"{prop}-r8{g.lower()}n{n}-{slug}"
    assert new not in used, new
    used.add(new)
    who = ann.get(d)
    if who is None:
        print("no annotation for", d, file=sys.stderr); continue
    meta["round"] = 8
    meta["caught_by_current_checks"] = who
    if d in strength:
        meta["history"] = f"initially caught by no check; added: {strength[d]}; now caught by {who}"
    elif not who.split()[0].startswith(prop):
        meta["history"] = f"not caught by the check of the property its author named ({prop}); it is caught by {who}, whose subject it is"
    else:
        meta["history"] = f"caught at once by {who}"
    json.dump(meta, open(f"{V}/seeded/{d}/meta.json", "w"), indent=1)
    os.rename(f"{V}/seeded/{d}", f"{V}/seeded/{new}")
    needs = (meta.get("needs") or "").replace("|", "/").replace("\n", " ")[:140]
    note = who if d not in strength else f"initially MISSED ⇒ {strength[d]} ⇒ {who}"
    rows.append(f"| {new} | {needs} | {note} |")
open(f"{V}/.work/round8_rows.md", "w").write("\n".join(rows) + "\n")
print(len(rows), "rows")
