"""Per-property configuration of ./check: Lean modules, theorems that must exist, harness
generators, evidence texts."""

TRUSTED_COMMON = [
    "Lean 4.33.0 kernel (thorough tier re-checks the compiled modules with leanchecker)",
    "axioms: only propext, Classical.choice, Quot.sound are accepted (audited per theorem on every run); no native_decide, no sorry",
    "the theorem statements and the model definitions in /verif/lean/AvroModel (hand-written model of /repo)",
    "the correspondence check: Go harness (/verif/harness, built against /repo's working tree on every run) + compiled Lean driver `modeldriver` + ./check's comparison",
    "Go toolchain and runtime, encoding/binary, reflect internals reached through go:linkname",
]

PROPS = {
    "C17": {
        "lean_modules": ["AvroModel.Props.C17"],
        "required_theorems": [
            "varint_roundtrip", "varint_length", "varint_canonical", "varint_shortest", "varint_eof",
            "varint_overflow", "varint_errors_complete", "width", "width_reject", "int_roundtrip",
            "f32_roundtrip", "f64_roundtrip", "f32_as_double", "zigzag_spec", "readVarint_inRange",
        ],
        "harness": ["C17"],
        "level_text": "Proof: varint/zig-zag round trip, length <= 10, canonical shortest form, complete characterisation of the three "
                      "error classes, width acceptance iff in range, float/double little-endian bit-exact round trip and the bit-level "
                      "zig-zag specification are Lean theorems over all 64-bit integers / all byte strings (26 theorems, no bound). "
                      "The model (AvroModel/Bytes.lean) is tied to the code by differential execution of the real codecs, obtained through "
                      "Schema.Codec, against the compiled model on ~175k cases per quick run (all int16 values, all 2-byte strings).",
        "level_note": "Trusted: Lean kernel; model-to-code tie is differential (not a translation); hardware float conversion is a hypothesis of f32_as_double.",
        "rule": "Generated from one PRNG: boundary integers of every varint length and width, random 64-bit values, "
                "every int16 value (exhaustive round trip through the codec the library builds for an int16 field), "
                "every byte string of length <= 2 as candidate varint for int16 (<= 1 for int32/int64), random candidate "
                "varints of length <= 11, float specials/sub-normals/NaN payloads/random bit patterns, every byte as bool.",
        "trusted": ["hardware float32<->float64 conversion (hypothesis of f32_as_double, exercised on every generated float32)"],
        "assumptions": ["IntCodec/floatCodec/BoolCodec are reached through Schema.Codec for one-field structs and directly for floats/bools"],
    },
}

PROPS["C09"] = {
    "lean_modules": ["AvroModel.Props.C09"],
    "required_theorems": ["refines", "run_refines", "flush_drains", "spec_preserves", "spec_nonempty",
                          "spec_flush_drains", "spec_pending_below", "spec_blocks_minimal", "frame_shape"],
    "harness": [("ENC9", "C09")],
    "level_text": "Proof: for every finite history of Encode/Flush calls, every block size and any compression function, the model of "
                  "Encoder/FileWriter emits header ++ frames of the reference partition's blocks (exact count, exact byte length, payload, sync), "
                  "loses/duplicates/reorders nothing, never writes an empty block, closes a block as soon as the threshold is reached and "
                  "drains on Flush (induction over the call list). Tie: real NewEncoderFor/Encode/Flush with a recording io.Writer on "
                  "generated histories (sizes around the threshold, three codecs); every Write call is compared with the model and judged "
                  "by a spec container-header reader; compressed payloads are inflated by independent library calls.",
    "level_note": "Trusted: Lean kernel; compress/flate, snappy, crc32 (parameters of the model, inverted independently by the harness); record encodings of the two test struct types.",
    "rule": "Histories over {encode(record of chosen encoded size), flush} from one PRNG, sizes chosen around the block-size threshold, block sizes {0,1,n,2n±1,3n±2,huge}, codecs null/deflate/snappy, record types struct{B []byte} and struct{}.",
    "trusted": ["compress/flate, snappy, hash/crc32 (model parameter `compress`; harness inflates with direct library calls)"],
}
PROPS["C16"] = {
    "lean_modules": ["AvroModel.Props.C16", "AvroModel.Props.C16b"],
    "required_theorems": ["accepted_prefix", "error_surfaces", "runFrom_surfaces", "writeAll_sim", "step_sim", "runFrom_sim", "accepted_eq_take", "crash_consistent", "crash_delivers_prefix", "crash_ok_only_at_boundary",
                          "direct_accepted_prefix", "direct_error_surfaces", "direct_fault_free", "fwRunFrom_sim", "fwRunFrom_surfaces"],
    "harness": [("ENC16", "C16")],
    "level_text": "Proof: for every failing write index k, every number of bytes accepted by the failing call, every call history and any "
                  "compressor, what the writer accepted is a byte-for-byte prefix of the fault-free output (simulation between the faulty and the "
                  "fault-free run), and the call reported as failed is exactly the one that issued write k (earlier calls succeed). Tie: for each "
                  "generated history every k from 1 to the number of writes (+1) is executed against the real encoder with an injected failing "
                  "io.Writer (0 / some / all bytes accepted); error identity via errors.Is; accepted bytes compared with the implementation's own "
                  "fault-free run after substituting the sync marker. The same two clauses are proved for the file writer driven directly "
                  "(C16b: histories of WriteHeader / WriteBlock with any row count, empty blocks included) and tied by the fwd stream: every failing "
                  "write index of generated direct histories against the real FileWriter, compared with the model on which call fails and how many writes "
                  "were accepted whole; a panic is a failing input.",
    "level_note": "Trusted: Lean kernel; model assumes each w.Write error is checked and returned at once (shape of writeAll) - validated by the exhaustive-per-history fault injection.",
    "rule": "Same history generator as C09; per history every failing write index k (exhaustive) x acceptance length {0, random proper prefix, all}.",
    "trusted": ["compress/flate, snappy determinism (fault-free and faulty runs compress identically)"],
}
PROPS["C12"] = {
    "lean_modules": ["AvroModel.Props.C12"],
    "required_theorems": ["discipline_no_race", "lockOK_preserved", "inv_preserved", "disciplined_state_no_race",
                          "sections_isolated", "lockfree_steps_commute", "section_step_delays", "section_step_advances", "unlock_never_faults", "all_guarded", "guarded_rows", "all_guarded_rows",
                          "guarded_programs_checked", "library_no_race", "codecs_immutable", "per_call_state_not_shared",
                          "registry_confluent", "registry_lookup_insert", "registry_inserts_commute"],
    "harness": ["C12"],
    "race": True,
    "level_text": "PARTIAL BY NATURE (the Go scheduler and memory model are not modelled). Proved in Lean: (1) in an interleaving "
                  "semantics of threads x RW-mutexes x plain shared variables, every execution of programs that respect a lock "
                  "discipline (writes under the variable's mutex held exclusively, reads under it in any mode, unguarded variables "
                  "never written, well-bracketed locking) is free of data races - with the two preservation lemmas (steps keep the "
                  "mutex state consistent; checked programs stay checked), isolation of critical sections on the same mutex, lock-free steps of disciplined threads are both-movers "
                  "(they commute with adjacent steps of other threads to the same state, so a critical section can be gathered into "
                  "one uninterrupted block; the full reduction theorem is not proved) and unlock-never-faults; (2) the discipline predicate Guarded evaluates to true (kernel `decide`) on the table of "
                  "every syntactic access to every package-level variable of avro, avro/time, avro/null with the mutexes held there, "
                  "REGENERATED from the Go sources by go/ast on every run (removing or narrowing a lock breaks theorem all_guarded); "
                  "(3) no Codec method assigns through its receiver or writes package state; per-call state types are never stored in "
                  "package-level variables; registry look-ups are unaffected by registrations of other keys. Not modelled: the Go "
                  "memory model below lock acquire/release, sync.Pool internals (atomic steps), the scheduler, pointer aliasing, the "
                  "call graph. Searched: a -race build of the harness runs N goroutines x random mixes of the operations the "
                  "property lists (codec building, Register/RegisterSchema of private types, shared-codec decode/encode, Encoder + "
                  "ReadFile, banks closed on other goroutines, timestamp parsing with 1681 zone offsets) under several GOMAXPROCS; "
                  "a race report or a concurrent-vs-alone result mismatch is a failing input.",
    "level_note": "PARTIAL: proved = lock discipline => race freedom in the model + discipline holds for the regenerated facts + codec "
                  "immutability; not modelled = Go memory model, sync.Pool internals, scheduler; searched = race-detector runs. "
                  "Trusted: Lean kernel; factgen's syntactic extraction (go/ast, no alias analysis); the Go race detector.",
    "rule": "One PRNG: cases (mix seed goroutines opsPerGoroutine gomaxprocs) with goroutines in {2,4,8,16,32}, GOMAXPROCS cycling "
            "through {1,2,4,8,16}; per goroutine a seeded sequence over 10 kinds of operation; plus one (facts) case evaluating the "
            "discipline on the regenerated table and one (sample) case.",
    "trusted": ["harness/cmd/factgen: syntactic (go/ast) extraction of package-level accesses and held mutexes; no alias or call-graph analysis",
                "the Go race detector (happens-before detector of the real runtime) as search tool",
                "result equivalence is judged by the harness itself (concurrent results vs the same operations run alone, same process)"],
    "assumptions": ["user code does not write the library's exported package-level variables",
                    "a fact row is one access under its syntactic lock set; thread programs are arbitrary sequences of rows"],
}

PROPS["C18"] = {
    "lean_modules": ["AvroModel.Props.C18"],
    "required_theorems": ["total", "stringCodecRead_total", "parse_render", "rfc3339", "rfc3339_instant", "date_only",
                          "format_parse", "fracNanos_trim", "parseFrac_render", "parseZone_render", "parseTime_safe"],
    "harness": ["C18"],
    "level_text": "Proof: over a model of time/parse.go that mirrors parseTime index by index (every in[k], in[a:b], remaining[i+1:] and the "
                  "atoi bounds hints are possible panic outcomes; the range loop with its i/val/mult variables is modelled as such) Lean proves: "
                  "(total) no byte string whatsoever makes parseTime or StringCodec.Read panic; (rfc3339) for every field tuple that fits the grammar's "
                  "digit widths - in particular every valid one - every fraction of ANY length, both separators, Z or any +-hh:mm zone, parsing the "
                  "rendered RFC 3339 string yields exactly the fields, nanoseconds = first nine fraction digits right-padded, offset = zone seconds; "
                  "(date_only) every YYYY-MM-DD yields midnight UTC; (format_parse) parseTime(formatNano f) = f for all valid fields, nsec < 1e9, "
                  "whole-minute offsets below 100 h. Tie: every generated string is parsed by the real library through StringCodec{}.Read, a record "
                  "field of type time.Time and a null.Time field, AND by time.Parse; the driver requires implementation = time.Parse = Lean expectation "
                  "(Unix seconds, nanoseconds, zone offset), Format(RFC3339Nano) = formatNano, written bytes = model, and model = implementation on a "
                  "position-exhaustive mutation stream (drop/insert/replace/truncate, non-ASCII bytes) where any panic is a failing input.",
    "level_note": "Trusted: Lean kernel; time.Date/time.FixedZone/time.Parse/Format (stdlib, compared with the Lean calendar arithmetic unixOf and with the renderer on every case); "
                  "model-to-code tie is differential. Offsets of 100 h and more (three hour digits in Format) are outside format_parse.",
    "rule": "One PRNG. Renderer-based valid strings: fraction length 0..30 x {'.', ','} x {Z, +05:30, -23:59} with digit patterns (zeros, nines, "
            "trailing non-zero, random); every offset -23:59..+23:59; every day of the year for years 0,1,4,100,400,1900,1970,2000,2023,2024,9999 "
            "(also as date-only strings); every hour/minute/second; years 0000..9999 (step 13 quick, every year thorough); random valid fields. "
            "Formatted times: boundary and random instants in years 0000-9999, nanosecond patterns, whole-minute offsets up to +-99:59. "
            "Mutation stream: 21 base strings (valid, truncated, non-ASCII, out-of-range fields) x every position x {truncate, drop, insert b, replace by b} "
            "for 20 byte sequences b incl. 0x00 0x80 0xBF 0xC3 0xFF and multi-byte runes; random byte strings; random edits of valid strings; "
            "length-prefix cases for StringCodec.Read (zero, negative, too long, boundary varints, truncated body).",
    "trusted": ["time.Date, time.FixedZone (the model stops at their arguments; unixOf models their documented normalisation and is compared on every case)",
                "time.Parse / Time.Format as the reference the property names (their output is compared with the Lean renderer / formatNano on every case)"],
    "assumptions": ["the rune-decoding range loop is modelled on bytes: every byte visited before the loop stops is an ASCII digit, so rune starts and byte indices coincide (exercised with invalid UTF-8 and multi-byte runes at every position)"],
}
PROPS["C19"] = {
    "lean_modules": ["AvroModel.Props.C19"],
    "required_theorems": ["date_decode", "dateDecode_eq", "long_decode", "long_decode_nanos", "encode_inverts", "date_encode_inverts",
                          "long_encode_inverts", "dateEncodeDay_floor", "longEncode_floor", "long_ns_exact", "long_decode_wraps"],
    "harness": ["C19"],
    "level_text": "Proof: integer model of DateCodec/LongCodec Read and Write (Go's int32/int64 wrap-around and truncated division explicit). Lean proves: "
                  "every int32 day count d (negative included) decodes to instant d*86400 s; for each multiplier (1 ns, 1000 = timestamp-micros, 1e6 = "
                  "timestamp-millis) every long l with l*mult representable in int64 decodes to exactly l*mult ns; Write then Read yields the floor of "
                  "the time to the type's resolution for times before and after 1970 whenever that floor is representable (day in int32 / nanoseconds in int64); "
                  "nanosecond resolution is lossless. Tie: real Codec.Read/Write built by Schema.Codec under caller-supplied schemas "
                  "({type:int,logicalType:date}, {type:long}, timestamp-micros, timestamp-millis) and DateCodec{} directly; decoded instants and written "
                  "bytes are judged by the specification (l*mult, floor) and compared with the model, including the overflowing regions.",
    "level_note": "Trusted: Lean kernel; time.Date / time.Unix / UnixNano / UnixMicro / UnixMilli (modelled as goDateUnix, ofUnixNano, sec*k + nsec/(1e9/k); compared on every case); Int32/Int64 varint codecs (C17).",
    "rule": "One PRNG. Days: 0, +-1, +-365/366, leap days, year 0000 / 9999 days, int32 limits and just outside, random int32 (uniform and small). "
            "Longs per resolution: around 0, +-10^k, around +-2^63/mult, int64 limits, random (uniform, small, scaled). "
            "Times for the write direction: boundary seconds (+-1, +-86400+-1, day -2 noon, leap days, years 0001/0000/9999, int64-nanosecond limits, int32-day limits) "
            "x sub-resolution nanosecond patterns, random instants before and after 1970 in several magnitudes, with and without zone offsets.",
    "trusted": ["time.Date day normalisation, time.Unix(0, n), Time.UnixNano/UnixMicro/UnixMilli"],
    "assumptions": ["the multiplier chosen for each logicalType is observed through the schemas the harness supplies (swapping them is caught by the oracle)"],
}

CODEC_TRUST = ["the codec model (AvroModel/Codec.lean, Build.lean) is hand-written; tied to /repo by differential execution of "
               "Schema.Codec + Codec.Read/Skip/Write on generated (schema, Go type, datum, plan) cases",
               "reflect.StructOf-built target types stand for declared struct types",
               "hardware float32<->float64 conversion, time.Date/Format (parameters of the model: Env)"]
PROPS["C03"] = {
    "lean_modules": ["AvroModel.Props.C03"],
    "required_theorems": ["decode", "decode_ok", "misfit_is_error", "int_out_of_range", "array_plan_irrelevant", "read_never_panics", "decode_budget", "decode_ok_budget", "misfit_is_error_budget", "file_decode"],
    "harness": [("RD", "C03")],
    "level_text": "Proof: `decode` - for every schema the specification defines, every datum, every writer plan (any block partition of arrays "
                  "and maps, with or without byte-size prefixes, null in either union position, multi-branch unions), every Go target for which "
                  "the model of build.go constructs a decoder, every trailing input and every step budget, the model of Codec.Read returns the Go "
                  "value the datum denotes (ofAvro) and the exact remainder; a datum that does not fit the target is an error (induction over the "
                  "step budget; ~1500 lines of Lean incl. the construction lemma buildOkAt). Tie: generated (schema, datum, plan, compatible "
                  "target) cases; the harness's encoding is re-computed by the Lean specification encoder, the real decoder's result is compared "
                  "with the model's and with ofAvro. Budgeted forms without any 'out of budget' disjunct: decode_budget / decode_ok_budget / misfit_is_error_budget (explicit budget readBudget c v = c.sz + 2*v.sz + 2, independent of the writer's plan), and file_decode: ANY grouping of spec-encoded records into file blocks (empty blocks included), any compressor the decompressor undoes, one decoder with one fixed budget - readFile delivers exactly the records' values in order.",
    "level_note": "Trusted: Lean kernel; spec transcription (Wire.lean) of Avro 1.8 binary encoding; model-to-code tie is differential. File-level partition/compression is covered by C07/C01.",
    "rule": "Random record schemas (depth <= 4 quick / 6 thorough; all primitive types, fixed, nested records, arrays, maps, nullable unions with "
            "null first or second, single- and multi-branch unions), random datums with boundary integers/float specials, random plans "
            "(multi-block, size-prefixed), compatible targets varying pointer indirection / integer width / float width / null.* wrappers.",
    "trusted": CODEC_TRUST,
}
PROPS["C04"] = {
    "lean_modules": ["AvroModel.Props.C04"],
    "required_theorems": ["skip_exact", "skip_exact_built", "skip_eq_read", "untargeted_field_untouched", "no_matching_fields", "remaining_field_value", "skip_exact_budget", "skip_exact_built_budget"],
    "harness": [("RD", "C04")],
    "level_text": "Proof: skip consumes exactly the bytes of a datum for every codec, datum, plan (incl. the block-size fast path) and budget "
                  "(skip_exact); skip and read leave the same remainder (skip_eq_read); untargeted Go fields keep their value, a struct with no "
                  "matching field is returned unchanged, and the value delivered into a remaining field depends only on that field's codec, datum "
                  "and initial value (projection invariance). Tie: every generated encoding is read into a full target, a projected target "
                  "(fields deleted, permuted, added, at every depth), a no-match target, and skipped; remaining lengths and values compared. skip_exact_budget: with the explicit budget readBudget c v the skip result is exactly the remainder (no 'out of budget' disjunct).",
    "level_note": "Trusted: Lean kernel; Wire.lean spec; differential tie for the model.",
    "rule": "Same generator as C03 plus projected targets (each field dropped with probability 1/3 at every nesting level, extra unrelated "
            "fields, shuffled order) and a struct with no matching field; Skip on the full codec.",
    "trusted": CODEC_TRUST,
}
PROPS["C10"] = {
    "lean_modules": ["AvroModel.Props.C10"],
    "required_theorems": ["bank_inv", "step_inv", "run_inv", "alloc_zeroed", "alloc_disjoint", "step_frame", "string_stable",
                          "toString_content", "toString_disjoint", "close_other_bank", "close_other_bank_str",
                          "delivered_stable", "delivered_string_stable", "no_block_alias", "runChecked_sound"],
    "harness": ["C10"],
    "level_text": "Proof over the bank state machine (AvroModel/Bank.lean: per-type arenas with find-or-append, growth to a fresh array without "
                  "copying, typedmemclr, the append-only string arena with Go append growth, Close resetting lengths on the same arrays, "
                  "sync.Pool as a nondeterministic choice, a heap of cells, handles tagged (bank, epoch)): for every finite history of "
                  "get/alloc/toString/store/close over any number of banks that obeys the documented ownership discipline, every pool choice, "
                  "every growth capacity, no step faults and an invariant holds (induction over the history) from which: live pointers are "
                  "pairwise different cells and live strings disjoint byte ranges; every new allocation is zero and disjoint from everything "
                  "live; a cell / string that is live at the end of any continuation holds what it held when delivered unless stored through "
                  "that very pointer; operations on other banks (allocate, close, reuse from the pool) change nothing. Provenance of decoded "
                  "data (string -> bank arena, []byte/slice backing/map -> fresh heap, pointer targets -> bank) never is the block buffer or "
                  "the input (table-level theorem). Tie: (a) random operation sequences over several read buffers and banks executed against the "
                  "real NewReadBuf/Alloc/NextAsString/ExtractResourceBank/ResourceBank.Alloc/ToString/Close (GC off, one goroutine) and replayed "
                  "through the Lean step function: every returned address (array, index, capacity), every string (array, offset) and every pool "
                  "decision is compared with the model, and zeroing / non-overlap / unchanged contents of all live handles are judged after every "
                  "operation; (b) multi-block files of all three codecs (strings, bytes, nested slices, maps, pointers) read with a retaining "
                  "callback, random banks closed, all harness-owned buffers overwritten, pool churned, retained records compared.",
    "level_note": "Trusted: Lean kernel; the tie is differential replay, not a translation of buffer.go; Go allocator returns memory disjoint from "
                  "reachable objects and sync.Pool returns only objects that were Put (the model's Allowed for get); provenance table is hand-written "
                  "from the Read/New methods and checked only by the file-retention runs; concurrency of the pool is out of scope here (C12).",
    "rule": "Bank sequences from one PRNG: 1-4 read buffers, 1-3 of 8 Go types per case (sizes 1..32 bytes, with and without pointers) so that arenas "
            "fill and grow, string lengths {0,1,3,8,40,200}, weighted mix of alloc/string/extract/close/direct-bank use/re-store/new buffer, "
            "5..125 operations (thorough: ..305). File cases: codec x block size {64,300,1000,4000} x 1..40 records x close probability {0,30,60,100}%.",
    "trusted": ["Go runtime allocator and sync.Pool semantics (fresh memory is disjoint from reachable memory; Get returns New() or a Put object)",
                "reflect read-only access to the unexported fields ReadBuf.rb, ResourceBank.sData/types used by the harness to observe capacities and bank identity"],
    "assumptions": ["ownership discipline of the caller: a bank is used and closed only between the pool handing it out and its Close; no writes through dead handles",
                    "the growth policy of Alloc (max(16, 2*cap)) is a parameter: theorems hold for every capacity above the old one"],
}

PROPS["C13"] = {
    "lean_modules": ["AvroModel.Props.C13", "AvroModel.Props.C13b"],
    "required_theorems": ["write_valid", "write_valid_built", "write_then_read", "null_second_selector", "general_union_write_panics", "timeLong_units", "built_roundtrip", "built_roundtrip_exact"],
    "harness": [("WR13", "C13")],
    "level_text": "Proof: for every codec the model of build.go constructs for a caller-supplied schema, every Go value and every budget, the bytes "
                  "the model of Codec.Write produces are exactly the specification's encoding (canonical plan) of the datum the value denotes "
                  "(write_valid: null first or second, every numeric width, logical types, wrappers, nested records/arrays/maps), and reading them "
                  "back delivers that datum's value with nothing left over (write_then_read = write correctness composed with the read theorem of "
                  "C03). Tie: generated caller schemas + covering Go types + in-range values through the real Schema.Codec/Write/Read; the written "
                  "bytes are decoded by the Lean reference decoder under the caller's schema alone and compared with toAvro of the value; the "
                  "read-back value is compared with ofAvro of the datum; model bytes must equal implementation bytes (map order taken from the output).",
    "level_note": "Trusted: Lean kernel; Wire.lean spec; differential tie; time formatting/parsing enter through Env (verified in C18); general unions have no writer (proved fact, outside the quantifier).",
    "rule": "Random caller schemas (nullable unions with null first/second, int/long/float/double vs Go int16/32/64/int/float32/float64, fixed, nested "
            "records, arrays, maps, date / timestamp-millis / timestamp-micros / plain-long / string time fields, null.* wrappers), covering "
            "struct types, values within the schema type's range incl. boundaries, NaN payloads, nil/empty collections.",
    "trusted": CODEC_TRUST,
}
PROPS["C02"] = {
    "lean_modules": ["AvroModel.Props.C02", "AvroModel.Props.C02b"],
    "required_theorems": ["direct_container_valid", "spec_reader_reads_direct", "direct_blocks_output", "record_valid", "independent_reader_recovers", "reference_decoder_inverts", "null_branch_iff", "omits_cases", "null_clause_full_false", "null_clause_partial", "container_frames", "spec_reader_reads_frames", "container_valid", "spec_reader_reads_header", "file_valid"],
    "harness": [("WR2", "C02")],
    "level_text": "Proof: every record the encoder buffers is the specification's encoding of the datum its value denotes under the schema "
                  "(record_valid), the null branch is written exactly when Omit holds and Omit is characterised in value terms (null_branch_iff, "
                  "omits_cases), the container is header ++ exact frames (C09.refines). The full null clause is false behind a pointer to an invalid "
                  "wrapper (null_clause_full_false, known finding D27); null_clause_partial covers everything else. Tie: random Go types of the C01 "
                  "domain with the schema the library itself generates; bytes judged by the Lean reference decoder under that schema alone, datum "
                  "compared with the specification's reading (specNull) of the value, read-back compared.",
    "level_note": "Trusted: Lean kernel; Wire.lean spec; differential tie. File-level framing is judged in C09 (spec header reader) and C01 (end to end).",
    "rule": "Random struct types (bool, ints, floats, string, []byte, time.Time, null.*, slices, string-keyed maps, pointers at any depth, nested "
            "structs, json name / omitempty tags) with type-directed random values: nil/empty collections, nil pointers at every level, invalid "
            "wrappers, zero omitempty fields, NaN/Inf/-0, non-UTF-8 strings.",
    "trusted": CODEC_TRUST,
}

PROPS["C06"] = {
    "lean_modules": ["AvroModel.Props.C06"],
    "required_theorems": ["read_total", "skip_total", "next_total", "next_rejects", "array_count_overflow_rejected", "parse_time_total", "read_fuel_mono", "skip_fuel_mono", "read_terminates", "skip_terminates", "read_result", "skip_result", "termination_needs_sane", "built_decoder_result"],
    "harness": [("MAL", "C06")],
    "careful": True,
    "level_text": "Proof (partial by the allocation clause): for every codec tree, every byte string, every destination and every step budget the "
                  "model of Codec.Read / Codec.Skip never panics (induction over the budget through all ten mutually recursive functions; slice "
                  "bounds of ReadBuf.Next, union selector range, array count overflow), and timestamp parsing never panics (C18.total); the "
                  "container reader and the schema parser are covered by C07.no_panic and C14. TERMINATION is proved too: the modelled loops and "
                  "recursion of Read and Skip halt on every input (read_terminates, skip_terminates: there is a budget from which on the result is "
                  "stable and is not 'out of budget'; read_result / skip_result: that result is a value with no more unread input than before, or an "
                  "error), by induction over the codec tree, the input length for block loops and the count for item loops (zero-width items "
                  "included); the budget is monotone (read_fuel_mono). The only hypothesis, Env.Sane - a user-registered custom codec does not "
                  "return more unread input than it was given - is necessary (termination_needs_sane exhibits a diverging environment). "
                  "Not proved: an allocation / step bound proportional to the input - it is false "
                  "for arrays (known finding D14: pre-allocation and iteration driven by the declared block count). Tie: a malformed stream against "
                  "the real Read, Skip, ReadFile and SchemaFromString+Codec: every single-field mutation of every varint of generated valid "
                  "encodings to negative / zero / maximal / overflowing / truncated, truncation at every field boundary, bit flips, random bytes, "
                  "byte-level mutations of container files, mutated schema documents; outcome class (ok/err with remaining length) must equal the "
                  "model's, panics/crashes/hangs and allocation above 4 MiB + 1 KiB per input byte are failing inputs; fatal crashes are isolated "
                  "per case.",
    "level_note": "Trusted: Lean kernel; differential tie; runtime.MemStats.TotalAlloc as allocation measure; hang = no result within 4 s. Allocation bound is checked, not proved.",
    "rule": "Per generated (schema, datum, plan, target): all role-tagged varint mutations x {decode, skip}; plus container-file byte mutations for three "
            "codecs, declared lengths beyond the input, truncations, random bytes with and without magic; schema JSON: every prefix of a document, "
            "single-character edits, bare complex type names.",
    "trusted": CODEC_TRUST,
}
FILE_TRUST = ["the container-reader model (AvroModel/File.lean) is hand-written from file.go; tied to /repo by differential execution of avro.ReadFile "
              "on every generated, damaged and truncated file",
              "encoding/binary.ReadVarint, io.ReadFull, bufio.Reader (modelled from their sources: clean EOF only before the first byte, ErrUnexpectedEOF after a partial read)",
              "compress/flate, golang/snappy, hash/crc32 and the schema JSON parser + Schema.Codec are parameters of the model (Ext); the harness calls the "
              "decompression libraries directly and hands their verdict per payload to the model",
              "the record decoder is the codec model's `read` (C03/C04) into the zero value of the Go type (typedmemclr + codec.Read)",
              "readN's chunked reading (1 MiB chunks) is modelled as such; memory consumption is outside the model (the harness measures it for unbacked declared lengths)",
    "the snappy block format as modelled in AvroModel/Snappy.lean for the D34 guard (element sizes from the format description, not derived from the snappy library sources); tied from the other side by best-ratio blocks written and read back by the real library",
]
PROPS["C07"] = {
    "lean_modules": ["AvroModel.Props.C07", "AvroModel.Props.C07b"],
    "required_theorems": ["snappy_guard_accepts_valid", "delivers", "callback_error", "callback_error_count", "sync", "crc", "inflate", "damaged_block", "snappy_short",
                          "snappy_garbled", "magic", "no_schema", "bad_schema", "unknown_codec", "no_codec_means_null", "no_panic",
                          "valid_mkHeader", "fuel_enough", "written_callback_error"],
    "harness": ["C07"],
    "level_text": "Proof over a model of ReadFile / readFileHeader / readBytes / FileHeader.schema / the three decompress methods (AvroModel/File.lean; "
                  "binary.ReadVarint and io.ReadFull modelled from their sources, flate / snappy / crc32 / schema parsing + codec construction as "
                  "parameters, the record codec abstract): for every valid file (any header layout the reader accepts, any of the three codecs with "
                  "decompress(compress x) = x as the only law, any block partition incl. empty blocks and left-over bytes, any record type whose records "
                  "decode exactly) the reader delivers all declared records in order and returns nil (delivers); a callback failing first at record i "
                  "gets exactly records 0..i and its own error value comes back (callback_error); a block whose trailing 16 bytes differ from the "
                  "header's marker yields an error after delivering exactly the blocks up to it, nothing later (sync); a snappy CRC mismatch, an "
                  "inflate/snappy failure or a snappy block shorter than 4 bytes yield an error with nothing of that block delivered (crc, inflate, "
                  "snappy_garbled, snappy_short); wrong magic, missing or unusable schema, unknown codec yield an error with nothing delivered; a header "
                  "without avro.codec behaves exactly like one with codec null; no input whatsoever makes the model panic (no_panic: negative lengths, short "
                  "snappy blocks, lengths nothing backs - read in 1 MiB chunks by readN - are errors). Induction over the block list. "
                  "Tie: files written by the real encoder (4 static struct types) and by the harness's own container writer from spec-level datums "
                  "(random schemas/types, arbitrary partitions, metadata layouts), 3 codecs, read by the real avro.ReadFile through bufio.Reader; every "
                  "bit of every sync marker, of the magic and of every snappy CRC trailer, sampled/all bits of compressed payloads, the callback failing "
                  "at every record index, ~35 damaged-header variants and blocks no writer produces; the model is run on each derived input with the "
                  "independent decompressors' verdicts and compared (delivered records, result class, error identity).",
    "level_note": "Trusted: Lean kernel; the model-to-code tie is differential; decompressors and JSON/codec construction are parameters; "
                  "expected records come from the generator (Go values written / datums via the specification function ofAvro), not from the reader. "
                  "Each case line covers many derived inputs (class suffix nK); a deflate payload change that still inflates cannot be detected "
                  "(no checksum in the format) and is judged against the decoding of what the independent inflater yields.",
    "rule": "One PRNG. Static types struct{B []byte} (140+ records, blocks of 64+ records), struct{}, two richer structs (strings, slices, maps, "
            "pointers, nested structs, omitempty) written by NewEncoderFor with block sizes {1,40,120,400,1500,1e5} and random flushes; random record "
            "schemas (depth <= 3) with compatible targets written by the harness's own container writer: 1-7 blocks of 0-70 records, left-over bytes, "
            "six metadata layouts (order, two map blocks, duplicate keys, empty key/value, no codec entry). Per file: intact + callback failing at every "
            "index 0..n; every bit of magic, header sync, every block sync, every snappy CRC; compressed payload bits: all for payloads <= 24 B quick / "
            "2 kB thorough, else 64 / 512 sampled. Header variants: missing/misspelt schema and codec keys, 8 unknown codec names, unparsable or "
            "unfitting schema JSON, negative map counts, counts beyond the entries, negative lengths, unbacked lengths 2^20..2^63-1 (allocation measured: more than 64 MiB "
            "is a failing input), 10-byte and overlong "
            "varints; data blocks with negative length, negative count, count beyond the payload, oversized length, trailing garbage; snappy and "
            "deflate payloads of 0-4 random bytes.",
    "trusted": FILE_TRUST,
    "assumptions": ["`Tame`: the record decoder returns a value or an error (C06 for the codec model) - hypothesis of no_panic only",
                    "the callback is a function of the global record index (it fails at a chosen index with a sentinel error)"],
}
PROPS["C08"] = {
    "lean_modules": ["AvroModel.Props.C08"],
    "required_theorems": ["truncation", "truncation_prefix", "ok_iff_boundary", "length_mem_boundaries", "written_file_truncation"],
    "harness": ["C08"],
    "level_text": "Proof over the same model: for every valid file f = header ++ frames (any codec, partition, record type) and EVERY cut position "
                  "k <= length, reading the first k bytes delivers exactly the records of the blocks whose payload ends at or before k (each whole, in "
                  "order: a prefix of the file's records) and returns nil iff k is the end of the header or of a block; every other k is an error "
                  "(truncation, truncation_prefix, ok_iff_boundary). The boundary is decided from the code: records are handed over once the payload "
                  "is complete, before the sync marker is read, so a cut inside a sync marker delivers that block and then reports an error. "
                  "Induction over the block list with case analysis of k (inside count varint / length varint / payload / sync marker / on a boundary), "
                  "using the modelled ReadVarint (io.EOF only before the first byte) and ReadFull; the compressor enters only through "
                  "decompress(compress x) = x on complete payloads. Tie: for every generated file every cut position 0..len is executed against the real "
                  "avro.ReadFile and the model, and judged by the layout the reference reader (Container.lean) finds in the intact file.",
    "level_note": "Trusted: as C07. Files <= 4 kB quick, <= 16 kB (plus a few up to 64 kB, beyond bufio's buffer) thorough, all cuts each.",
    "rule": "Same file generators as C07 (real encoder for 4 static types, own writer for random schemas; 3 codecs; arbitrary partitions incl. empty "
            "blocks, count 0, left-over bytes, zero-length payloads, two-byte count varints). Per file every cut position 0..len (exhaustive per file).",
    "trusted": FILE_TRUST,
    "assumptions": ["the callback never fails in C08 runs"],
}
PROPS["C14"] = {
    "lean_modules": ["AvroModel.Props.C14"],
    "required_theorems": ["marshal_parse", "parse_wf", "parse_marshal_parse", "layout_invariant", "key_order", "unknown_attr",
                          "structure_preserved", "malformed_toplevel", "malformed_attr", "malformed_nested", "malformed_branch",
                          "malformed_duplicate", "malformed_duplicate_in_unknown", "malformed_field", "malformed_field_duplicate",
                          "marshal_parse_full_false"],
    "harness": ["C14"],
    "level_text": "Proof: over a model of Schema.UnmarshalJSONFrom / MarshalJSONTo plus the JSON library's default struct decoding "
                  "rules (documents are trees with ordered members, duplicates representable), for schemas and documents nested to any depth: "
                  "parse(marshal s) = s for every well-formed schema value; what parsing returns for a document in the grammar is well-formed "
                  "(so parse.marshal.parse = parse); the result is invariant under permuting the members of every object and under adding "
                  "unknown attributes with arbitrary values at every depth (one master theorem, by mutual structural induction, with key_order, "
                  "unknown_attr and structure_preserved as corollaries); wrong JSON kind for any known attribute, non-schema values in schema "
                  "position, duplicate member names (also inside unknown values and record fields) are rejected wherever they occur. "
                  "Tie: the real SchemaFromString / Schema.Marshal are run on generated JSON texts (random nesting, shuffled members, whitespace, "
                  "escapes, unknown attributes, and a malformed stream of tree- and text-level damage); the text is turned into a tree by "
                  "encoding/json (independent of the library under test); the compiled model must produce the same Schema value (dumped by "
                  "reflection), an independent lookup-based reading of in-grammar documents must agree (structure oracle), the Marshal output must "
                  "be valid JSON that both the model and the implementation read back as the identical value; schemas from SchemaForType on six "
                  "Go struct types go through Marshal -> SchemaFromString and must come back identical.",
    "level_note": "Trusted: Lean kernel; go-json-experiment tokenizer (JSON text -> tokens: whitespace, escapes, syntax errors, UTF-8) is outside "
                  "the model and covered only by the differential run; library struct-decoding rules were determined by experiment and are re-validated "
                  "on every run by the fixed corpus; nil and empty slices are identified; the full-strength round trip for EVERY parsed value is false "
                  "(attributes not belonging to the type are parsed but not serialised: marshal_parse_full_false) and is claimed only on WF values / in-grammar documents.",
    "rule": "From one PRNG: schema documents of depth <= 6 over records (0-4 fields), enums, fixed, arrays, maps, unions, primitives in string and "
            "object form with logicalType, name/namespace, odd and non-ASCII names; every tenth document is union-in-map-in-array-in-record; two thirds "
            "carry unknown attributes (doc/default/aliases/order/precision/scale/case variants, arbitrary nested JSON values); members shuffled; "
            "half with random whitespace, half with random \\u escapes. Malformed stream: one tree-level mutation (wrong kind for a member, duplicate member, "
            "attribute of another type, key case change / member removal, scalar or empty union in schema position, non-schema top level, document nested "
            "as `type`) or one text-level mutation (truncation, trailing comma, byte deletion/replacement, trailing/leading junk, unpaired surrogate / invalid "
            "UTF-8, control character / bad escape, non-JSON literals). Fixed corpus of 66 documents pinning every library rule the model relies on, "
            "nesting depth up to 2000.",
    "trusted": ["github.com/go-json-experiment/json tokenizer and its default struct-decoding rules (modelled from experiment; re-validated by the fixed corpus on every run)",
                "encoding/json (harness: text -> tree for the Lean side, and the judge of 'Marshal output is valid JSON')"],
    "assumptions": ["Go strings in schema values are valid UTF-8 (Lean `String`); SchemaFromString never produces others",
                    "Go `int` is 64-bit"],
}

PROPS["C01"] = {
    "lean_modules": ["AvroModel.Props.C01", "AvroModel.Props.C01b"],
    "required_theorems": ["record_roundtrip", "record_exact", "two_records", "blocks_partition", "flush_leaves_nothing", "file_roundtrip", "value_roundtrip", "value_roundtrip_exact", "value_roundtrip_spec", "norm_idempotent", "typed_codec_exists", "typed_roundtrip", "record_exact_budget", "value_roundtrip_budget", "value_roundtrip_exact_budget", "value_roundtrip_spec_budget", "value_roundtrip_go", "file_value_roundtrip", "file_value_roundtrip_go", "file_roundtrip_mkHeader"],
    "harness": [("E2E", "C01")],
    "level_text": "Proof in layers that are composed formally. (1) records: record_roundtrip / record_exact - Codec.Read of what "
                  "Codec.Write appended, followed by anything, delivers the written datum's value and the exact rest, for every codec tree, "
                  "value and budget. (2) values: value_roundtrip - that value IS the normal form normCodec of the value written (RoundTrip.lean: "
                  "ofAvro (toAvro g) zero = normCodec g under the explicit side conditions RTOk: integers in their Go range, distinct map keys, "
                  "all fields targeted; nothing about nil/empty, omitempty zeros, wrappers or time resolution), normCodec is idempotent "
                  "(norm_idempotent) and the identity on plain values (value_roundtrip_exact); value_roundtrip_spec ties normCodec to the "
                  "type-directed normSpec written from the property text, on the stated fragment (NormSpec.normSpec_agrees), including the "
                  "three recorded deviations D27/D30/D32 as normSpecD 7. (3) files: file_roundtrip - for every Encode/Flush history ended by "
                  "Flush, every block size and every compressor undone by the decompressor, readFile of the bytes encRun wrote delivers "
                  "exactly the written records in order and succeeds (EndToEnd.lean shows the writer's frames are the reader's ValidFile; "
                  "C09.refines + C07.delivers). End-to-end tie on the real code: random struct types of the whole C01 domain (run-time built, "
                  "writer assembled from the exported pieces exactly as encoder.go does) and static types through the real generic Encoder, "
                  "all three codecs, block sizes 0..2^14, random flush patterns, zero-width and dense blocks; ORACLE independent of the codec "
                  "model: normSpec applied to the value written and to the value delivered must agree in number, order and value; the model "
                  "round trip is checked against the implementation separately (correspondence).",
    "level_note": "Trusted: Lean kernel; EnvLaws (float32<->float64 conversion exact, RFC 3339 format/parse inverse - proved for the time model in C18/C19 - as hypotheses about the abstract Env); typed_roundtrip (Props/C01b.lean) removes the codec hypothesis: for every Go type of the fragment Frag (scalars, strings, bytes, slices, maps, pointers, structs with distinct encoded names incl. skipped fields, time.Time, null.*) the codec built from the generated schema IS fieldCodec T (TypeCodec.built_is_fieldCodec), so the value read back equals the value written up to normSpec and the recorded deviations; skipped fields (unexported, json/bq \"-\") are not part of the data and read back as zero; differential tie per layer + end-to-end run. Known findings D27, D30, D32 (round-trip deviations, keyed by driver tags).",
    "rule": "Random struct types (bool, ints, floats, string, []byte, time.Time, null.*, slices, maps, pointers, nested structs, json/omitempty tags), "
            "0-9 records per file with nulls following non-nulls, boundary values, NaN/Inf/-0, nil/empty collections, nil pointers at every level.",
    "trusted": CODEC_TRUST,
}

NOT_APPLICABLE = {}

PROPS["C15"] = {
    "lean_modules": ["AvroModel.Props.C15"],
    "required_theorems": ["total", "total_closed", "cyclic_not_ok", "cyclic_is_error", "deterministic",
                          "mapping_bool", "mapping_int", "mapping_float32", "mapping_float64", "mapping_string",
                          "mapping_named_scalar", "mapping_bytes", "mapping_slice", "mapping_array", "mapping_map",
                          "mapping_map_key", "mapping_ptr", "mapping_struct", "mapping_registered", "mapping_time",
                          "mapping_null", "mapping_unsupported", "mapping_unsupported_named", "ptrWrap_plain",
                          "ptrWrap_stays", "omitWrap_plain", "omitWrap_union", "fields_spec", "fields_names",
                          "excluded_unexported", "excluded_bq", "excluded_json_dash", "name_default",
                          "no_nested_union", "no_dup_branch", "never_null", "named_once_witness", "named_once_partial",
                          "field_names_unique_witness", "field_names_unique_partial", "codec_builds", "codec_total"],
    "harness": ["C15"],
    "careful": True,
    "level_text": "Proof: over a model of buildschema.go (schemaForType with the schema registry, the parents check and push for every "
                  "composite kind, schemaForStruct/Array/Map, nullableSchema; Go's stack is the fuel, self-referential types are written with "
                  "back-references into a type environment) Lean proves for ALL type trees, registries and environments: (total) with fuel "
                  "|names|*W + depth + 1 the result is a schema or an error, never a stack overflow - also for recursive slices, maps and pointers; "
                  "(cyclic_is_error) every type that contains itself through any non-empty path of pointers, slices, arrays, map values and "
                  "included fields is an error; (deterministic) the result depends only on the registry's contents; one lemma per clause of the "
                  "documented mapping (integers->long, floats->double, bool, string, []byte->bytes, slices->array, string-keyed maps->map and "
                  "other keys->error, struct->record with exactly the exported non-excluded fields in declaration order under their JSON names, "
                  "pointer->[null,T] null first, *[]T / *map / already-union stay plain, omitempty->nullable unless union, registered->registered "
                  "schema first, unsigned/complex/chan/func/interface->error); (no_nested_union, no_dup_branch) every union occurring anywhere in a "
                  "generated schema is [null,X] with X neither union nor null, provided the registered schemas are flat; (codec_builds) for the "
                  "fragment bool/int16-64/floats/string/[]byte/slices/string-keyed maps/pointers/structs with distinct JSON names, buildCodec "
                  "succeeds on the generated schema for the same type under every codec registry. named_once and field_names_unique are FALSE "
                  "for the code as it is (known findings D22, D24): refuted on concrete types (named_once_witness, field_names_unique_witness) and "
                  "proved under the hypotheses 'no struct name occurs twice' / 'JSON names distinct' (…_partial). Tie: avro.SchemaForType and "
                  "Schema.Codec run on a committed zoo of ~90 static Go types (named structs in several positions, embedded, unexported, tag "
                  "combinations, self-referential through pointer/slice/map/array, mutually recursive, recursive non-struct types, named "
                  "primitives, generics, foreign packages, time.Time and null.* and user-registered types in every position) and on random "
                  "reflect.StructOf type trees with random tags; result compared with the model and judged by an independent relational oracle "
                  "(documented mapping as a relation type~schema, Avro union rules, names defined once, unique field names, error expected iff "
                  "an unsupported kind, non-string map key or self-reference is reachable).",
    "level_note": "Trusted: Lean kernel; the hand-written model (tied differentially, every run); descriptors of Go types are derived from reflect.Type by the harness (descOf), "
                  "so the model sees Name/PkgPath/IsExported/Tag.Get as reflect reports them; type identity is modelled as structural equality of the "
                  "descriptor trees. D22/D24 are unrepaired known findings (twin lines tagged dup-named-struct / dup-json-name judge only that finding; "
                  "on the main line the check is skipped only when the driver itself finds the theorem's hypothesis violated).",
    "rule": "1) every zoo type; 2) every zoo leaf, library type, registered/unregistered custom type, plain and unsupported kind in 7 positions "
            "(direct, *T, []T, map[string]T, **T, *[]T, [2]T) x with/without omitempty; 3) random anonymous struct trees (depth<=4, <=6 fields, "
            "json names from a small pool so that duplicates occur, options omitempty / omitempty,string / string / trailing comma / omitemptyX, "
            "bq '-', unsupported kinds with probability 0/2/6 % per leaf, named/registered leaves 0/15/30 %). Self-referential cases run in a "
            "child process (2 MB stack) so that a regression to unbounded recursion is an outcome, not the end of the run.",
    "trusted": ["reflect (Type.Name, PkgPath, Field, Tag.Get, StructOf) as used by harness/sgen.go descOf / sgTypeOf"],
    "assumptions": ["time.RegisterCodecs and null.RegisterCodecs have run (the harness calls them at start-up); user registrations are "
                    "re-applied per case from the case's own history, a fixed set of types is never registered"],
}
PROPS["C20"] = {
    "lean_modules": ["AvroModel.Props.C20"],
    "required_theorems": ["governs_schema", "governs_codec", "unaffected_schema", "unaffected_codec", "last_wins_schema",
                          "last_wins_codec", "register_other", "byte_element_bypasses", "null_schema_bypasses",
                          "lib_time_string", "lib_time_long", "lib_time_micros", "lib_time_millis", "lib_time_date",
                          "lib_time_refuses", "lib_null_int", "lib_null_bool", "lib_null_float", "lib_null_string",
                          "lib_null_time", "lib_self_consistent", "governs_time", "governs_null"],
    "harness": ["C20"],
    "level_text": "Proof: for a type R registered with builder b and schema rs (plain, or the nullable union of a plain core), and EVERY position "
                  "of R in a type tree - a context with a hole through pointers, slices, map values and struct fields with arbitrary siblings, "
                  "with or without omitempty - Lean proves (governs_schema) that schema generation emits rs at the hole wrapped by exactly the "
                  "wrappers of the path, and (governs_codec) that in the codec tree buildCodec builds for that generated schema and type the codec "
                  "at the hole is exactly b(core) - by induction over contexts mirroring the order of checks in buildCodec (pointer unwrapping "
                  "before the registry, unions and null bypass the registry and recurse with the same Go type); (unaffected_schema/codec) a "
                  "registration changes neither schemaForType nor buildCodec (all five mutually recursive builders) for types in which R does not "
                  "occur; (last_wins_*) the later registration replaces the earlier; the library's own registrations: time.Time under string / long / "
                  "timestamp-micros / timestamp-millis / int-date schemas, what each null.* builder accepts, and governs_time / governs_null as "
                  "instances. Exceptions are theorems too: a slice of a registered uint8-kind type is bytes (byte_element_bypasses), a type "
                  "registered with the null schema gets the null codec (null_schema_bypasses); positions in Go arrays have a schema but no codec; a "
                  "later sibling with the same JSON name shadows the field (hypothesis NoShadow). Tie: real Register/RegisterSchema with "
                  "instrumented codecs (struct, int64, string and slice kinds) that log (type, builder instance, operation); every composition of "
                  "<=2 (thorough 3) of {pointer, slice, map value, struct field, omitempty struct field} around the type, with/without omitempty on "
                  "the outer field; registration histories (plain, nullable, null-second, re-registration in both orders, refuse-then-accept and "
                  "accept-then-refuse builders); never-registered control types; time.Time and all null.* types in every position; random values "
                  "written with Codec.Write and read back. Oracle: schema conforms with the registered schema at the registered positions, log "
                  "shows only the most recent instance and exactly the expected occurrences, round trip equality; model: bytes and decoded value "
                  "equal the model codec tree's.",
    "level_note": "Trusted: Lean kernel; the shared codec model (Build.lean / Codec.lean); user builders are modelled by the set of schema types "
                  "they accept; registered types of pointer kind are outside the model (buildCodec unwraps pointers before the registry, so a "
                  "registration of a pointer type never governs codec construction). Known finding D27: a non-nil pointer to an invalid null.* "
                  "value is written as the non-null branch with a zero payload (twin lines tagged ptr-to-invalid-null).",
    "rule": "For each registrable kind (struct, int64, slice, string) and each registration history: all compositions of position constructors up "
            "to depth 2 (quick) / 3 (thorough) x omitempty on the outer field x 2-3 random values; plus random structs with two registered types "
            "and the same registered type twice in random positions. nil pointers to slices/maps and pointers to nil pointers are not generated "
            "(they have no encoding of their own).",
    "trusted": ["the instrumented codecs of harness/sgen.go and their model in Drv/SchemaGen.lean (sgCustomCodec)"],
    "assumptions": ["Register / RegisterSchema are global and permanent: every case re-applies its own registration history, so the final state "
                    "of each type depends only on the case; types SG*U are never registered by any case"],
}

PROPS["C05"] = {
    "lean_modules": ["AvroModel.Props.C05"],
    "required_theorems": ["build_wt", "build_wt_kind", "build_wt_union", "build_wt_branches", "build_wt_fields",
                          "wt_no_stuck", "wt_preserves", "wt_fields_preserve", "decode_stays_typed", "zero_hasType",
                          "int_width_exact_long", "int_width_exact", "kind_mismatch_rejected", "mismatch_rejected",
                          "mismatch_rejected_ptr", "mismatch_rejected_elem", "mismatch_rejected_value",
                          "long_rejected", "unsigned_rejected", "fixed_size_rejected", "fixed_kind_rejected", "bytes_rejected",
                          "string_rejected", "boolean_rejected", "float_rejected", "double_rejected", "record_rejected",
                          "array_rejected", "map_rejected", "map_key_rejected", "enum_rejected",
                          "leaf_table_sound", "leaf_sound", "leaf_model_table", "leaf_model_agrees", "leaf_accepted_wt",
                          "null_element_witness"],
    "harness": ["C05"],
    "careful": True,
    "level_text": "Proof: over the codec model a typing judgement wt c T says that every load/store of codec c through p:*T fits T (integer store "
                  "width = field size, fixed length = array length, record targets = field indices of this struct, element / pointee / value "
                  "types of this slice / pointer / map). Lean proves, for every schema, Go type, omit flag and recursion budget (library "
                  "registrations): (build_wt, with components for buildKind / unions / branches / record fields) whatever buildCodec returns "
                  "for a Go type is wt against it; (wt_no_stuck, wt_preserves, decode_stays_typed) a wt codec reading ANY bytes into ANY "
                  "destination of that type never stores through a pointer of the wrong shape and leaves a value of the destination's own type "
                  "(int16 field: 16-bit range; [n]byte: n bytes; struct: its fields) - induction on the step budget over the six mutually "
                  "recursive read functions; (kind_mismatch_rejected + one lemma per clause) every kind the guards of build.go rule out - "
                  "long/int against anything but int16/int32/int64/int, fixed against another length or a non-byte array, bytes against a non-byte "
                  "slice, string/boolean/float/double/record/array/map kind mismatches, maps with non-string keys, enum - is a build error at every "
                  "budget, also behind pointers and as slice element / map value; (int_width_exact) an integer field gets the codec of exactly its "
                  "width. Tie to the code: factgen re-measures on EVERY run, by executing the real Schema.Codec and Read, a table of 23 schema "
                  "types x 44 Go kinds (1012 rows): accepted?, and for accepted pairs the byte range modified when valid all-ones-like encodings "
                  "are decoded into field A of struct{Pre [2]uint64; A T; Post [2]uint64} pre-filled with a canary; leaf_sound (kernel decide, "
                  "lifted to all rows) proves every accepted pair stays inside [0,sizeof T) without panic/crash, leaf_model_agrees that the model "
                  "accepts exactly the implementation's pairs, leaf_accepted_wt that the model codec of every accepted pair is wt. Differential "
                  "run: the same matrix alone / behind * and ** / nullable pointer / slice element / map value / nested struct with in- and "
                  "out-of-range values, destination struct between canaries with pre-filled sibling fields not named in the schema; random "
                  "records with one leaf type replaced by a random kind.",
    "level_note": "Trusted: Lean kernel; the shared codec model; stores are modelled at the level of abstract Go values (stuck = store through a "
                  "pointer of the wrong shape), raw byte footprints are measured, not modelled (regenerated LeafTable + canaries). Side condition "
                  "allocOK (every array item / map value / pointer target codec allocates) fails only for null-typed elements (theorem "
                  "null_element_witness); Go types where a named type names another named type or time.Time / null.* are outside build_wt "
                  "(hypothesis T.wf). Known finding D28: map<null> (or a union of nulls) as map value builds and panics in mapassign at decode time.",
    "rule": "One (leaf) case evaluating the regenerated table; for every schema type (23) x Go kind (42) x context (alone, *T, **T, nullable *T, "
            "[]T, map[string]T, nested struct) x value (all values alone, first three elsewhere in quick tier): one tread case; plus random "
            "records (wgen) decoded into the compatible struct with one leaf type replaced by a random kind (3 of 4) or unchanged (1 of 4).",
    "trusted": ["harness/cmd/factgen/leaf.go: measurement of the store footprint by comparing the holder's bytes with a canary fill "
                "(pointer-carrying fields are zero-filled instead, their inside footprint is reported as the whole field)"],
    "assumptions": ["amd64 layout; one PRNG; the holder struct is built with reflect.StructOf"],
}

PROPS["C11"] = {
    "lean_modules": ["AvroModel.Props.C11"],
    "required_theorems": ["new_matches_read", "new_matches_type", "wt_allocTyped", "alloc_typed", "pointer_words",
                          "pinned_map_counterfactual", "write_nil_flag_free", "alloc_facts_ok", "alloc_facts_ok_rows",
                          "alloc_facts_complete", "slice_header_layout_ok", "mapiter_layout_ok"],
    "harness": ["C11"],
    "careful": True,
    "level_text": "PARTIAL BY NATURE (the garbage collector is not modelled). Contract assumed: an object survives iff it is reachable through "
                  "words that the type it was allocated with marks as pointers. Under that contract GC-visibility is a static property of codec "
                  "trees, proved in Lean over a typed-allocation model (AllocShape: n scalar bytes / pointer slot / string header / slice header / "
                  "struct allocated with its own reflect.Type / nothing): (new_matches_read) every codec's New allocates exactly what its own Read "
                  "assumes behind p; (new_matches_type) a well-typed allocating codec allocates the collector-visible shape of the Go type it was "
                  "built for; (alloc_typed) for EVERY codec tree buildCodec produces (all schemas, Go types, budgets; library registrations) at every "
                  "pointer-target, map-value and array-item position the allocation referenced from the parent has the shape of the parent's static "
                  "element type - so every pointer the decoder stores lands in a pointer-typed word of a correctly typed object (uses C05.build_wt). "
                  "Tie to the source, regenerated by go/ast on every run: what every `return` of every New method of avro, avro/time, avro/null "
                  "yields (r.Alloc(<reflect.Type var>) with the variable's initialiser, unsafe_NewArray(elem, n), nil, delegation, other), the "
                  "element type arrayCodec.resizeSlice allocates with, the layout of sliceHeader and mapiter; alloc_facts_ok (kernel decide) proves "
                  "every row has an allowed form and agrees with newShape (reverting the map-slot repair, allocating the pointer slot as uintptr or "
                  "a backing array as bytes breaks it), slice_header_layout_ok / mapiter_layout_ok check the overlay structs (pointer prefix, size "
                  ">= reflect's iterator state of the toolchain in use). SEARCHED (not proved): a GC-stress harness decodes generated encodings "
                  "into generated targets - forced shapes *map[string]T, map[string]map[string]T, *map[string]*map, map[string][]T, map[string]*[]T, "
                  "*[]T, *[]*[]T, *[4]byte, []*[16]byte, []*T, *struct, []*struct, map[string]*struct, nullable unions of those, time.Time, null.* "
                  "plus random schemas - with runtime.GC() and same-size-class allocation churn (a) inside the ReadFile callback between records "
                  "with earlier records retained, (b) after decode before inspection, (c) before encode and during encode from another goroutine "
                  "with SetGCPercent(1); every value is dumped and compared with a control decode; a changed value, panic or fatal crash is the "
                  "failing schedule.",
    "level_note": "PARTIAL: proved = allocation typing of codec trees + agreement of the New methods with the model (regenerated facts); not "
                  "modelled = the collector, escape analysis / stack maps, reflect.MakeMap / mapassign / typedslicecopy internals, the exact layout of "
                  "the runtime's map iterator (only size and pointer prefix of the library's overlay are checked; the runtime iterator size is taken "
                  "from reflect.MapIter's state field by reflection, an upper bound of the legacy iterator the linkname entry points use); searched "
                  "= GC-stress runs. Trusted: Lean kernel; factgen's go/ast extraction of New methods; dumpVal comparison in the harness.",
    "rule": "One (facts) case; 28 forced target shapes x 3 (thorough 25) random values x 3 modes (after / filecb / encode); 150 (thorough 3000) "
            "random record schemas (no general unions) with derived covering targets x 3 modes. Values are drawn until at least two leaves are "
            "non-empty.",
    "trusted": ["harness/cmd/factgen/alloc.go: syntactic (go/ast) extraction of what New methods return; measure.go: for a New of unrecognised form, which arena element type the pointee of a decoded *X field really came from (reads the bank's unexported fields by type / position)",
                "the Go runtime's own checks (bad pointer in heap, fault on reclaimed memory) as crash oracle of the search"],
    "assumptions": ["collector contract: survival iff reachable through pointer-typed words of typed allocations"],
}

# the container clause of C02 (magic, metadata, exact counts and sizes, markers) is judged on the recorded writes of the
# real Encoder / FileWriter by the C09 driver (specification-side header and block reader)
PROPS["C02"]["harness"] = [("WR2", "C02"), ("E2E", "C02"), ("ENC9", "C09")]
PROPS["C01"]["harness"] = [("E2E", "C01"), ("BIG", "C01")]
PROPS["C03"]["harness"] = [("RD", "C03"), ("BIG", "C03")]
PROPS["C07"]["harness"] = list(PROPS["C07"]["harness"]) + [("BIG", "C07")]
# timestamp parsing is one of the reading entry points of C06: its malformed-string stream is judged by the C18 driver
PROPS["C06"]["harness"] = list(PROPS["C06"]["harness"]) + [("C18", "C18")]
# ... and so are decoding VALID encodings of every schema shape (a panic on legal input is a panic) and files with blocks
# above the reader's 1 MiB chunk: the RD and BIG streams, judged by the C03 / C07 drivers
PROPS["C06"]["harness"] = list(PROPS["C06"]["harness"]) + [("RD", "C03"), ("BIG", "C07")]

# ---- additions to the generators made while testing with seeded changes (appended to the `rule` texts of the evidence) ----
_EXTRA_RULES = {
    "C01": " Also: twin fields whose Avro names differ only in case; blocks with more records than bytes (zero-width records, 1500 identical tiny records); slices of boundary lengths (63..65, 127, 128, 4095..4097, 8192); pointer chains ending in collections; the zero instant in a non-UTC zone; the destination handed to ReadFile is, for half the cases, a pointer to a struct pre-filled with an earlier record; records are collected and examined only after ReadFile has returned (banks closed afterwards); large-block files (BIG). Rounds 8-9: ONE reused variable is passed to every Encode call; single-f64 records; records examined after ReadFile returns. Round 10: blocks of 63, 64, 65, 127, 128, 129 distinct records.",
    "C02": " Also the recorded writes of the real Encoder / FileWriter (ENC9 stream, judged by the specification-side header and block reader) incl. the scenario two-destinations; boundary slice lengths; twin case-variant fields. Round 10: stream fwd (fault-free direct WriteHeader / WriteBlock histories incl. empty blocks: the specification-side block reader reads the recorded bytes as exactly the blocks written - C02b.direct_container_valid).",
    "C03": " Also: null as field / item / map-value type, general unions with a null branch in any position, narrow integer targets for general unions, unions of 65/70/130 distinct named fixed types (branches 0, 1, 63, 64, 65, last), time-typed fields in a third of the cases; every bank is returned to the pool after the value has been dumped (later cases decode into recycled banks); large-block files (BIG). Rounds 8-9: zero-width arrays systematically, three *[40]byte targets from one bank, null-valued wide maps on a recycled bank.",
    "C05": " Also: the schema-named field inside an embedded struct that is not at offset 0; well-formed multi-block arrays with growing / shrinking block sizes (plain and size-prefixed); schemas referring to an earlier record by name; non-canonical boolean bytes (a bool holding a byte other than 0/1 is reported).",
    "C06": " Also: the C18 malformed-timestamp stream, the RD stream of valid encodings and the BIG stream run under C06; block counts that overflow the slice length after earlier blocks (every tier); len > cap check on every decoded slice (also on the error path); mal-soak: one small record decoded 200000 times with banks closed at once, steady-state allocation must stay below 1 MiB + n/4 bytes. Rounds 8-9: damaged MAP counts as a role of their own (mcount), selectors equal to the branch count, negative / overflowing fixed and block sizes on the Skip path, values around 1<<21, repeated-decode soak; panics are never attributed to D14.",
    "C07": " Also: combined mutation cbflip (callback failure at the first / last record of a block whose marker has a flipped bit); every other read gets a pointer to a pre-filled destination struct. Round 10: the source alternates default bufio / 16-byte buffer over a half-reader (every multi-byte read is short) / 37-byte buffer.",
    "C09": " Also: 63..129 records per block, the scenario two-destinations (one FileWriter, two headers, interleaved blocks).",
    "C10": " Also: every other string operation uses a content that depends on the length only (equal strings recur within and across bank uses); every fourth fileretain case stops the read by a callback error after retaining the record. Round 10: fileretain with strings, byte slices and map keys of 64 KiB and more; op timeretain (instant, offset and zone name of retained time.Time values).",
    "C11": " Also: allocation-order shapes (a pointer-free 8-byte value first, then pointer-carrying slots), mode bigmap (thousands of entries, GC percent 1), mode filedrop (records retained, banks dropped without Close, finalizer sentinel, pooled banks scribbled over, more decoding); the records of a file hold two different datums in the pattern d1,d2,d2,d1. Round 9: on every other record the ReadFile callback forces collections and examines the record before copying it.",
    "C12": " Also: op 9 (file whose records mostly allocate nothing, selective closing, retained records), callbacks that close their bank and return an error, goroutines renaming their own SchemaForType results, regstorm (8 goroutines x 250 registrations of distinct types, each used at once).",
    "C14": " Also: every document is read as the avro.schema entry of a container header through FileSchema (twice, the first result edited by the caller in between); the slice returned by the previous Marshal is re-checked after the next call.",
    "C15": " Also: a registered union with null last, unnamed registered types ([]T, map[string]T), double registration, determinism probes (registry before/after, schema twice, caller renaming its result in between), Schema.Codec called with a pointer, a typed nil pointer and a value. Round 10: zoo type ZUnicode (non-ASCII exported / unexported field names); nesting depths 31..70.",
    "C16": " Also: injected error kinds (plain, Timeout()-typed, joined with os.ErrDeadlineExceeded), blocks above 64 KiB and 128 KiB, 63..129 records per block, a recording writer with a Flush() method. Round 9: stream fwd and scenario direct-blocks-fault (FileWriter driven directly: WriteHeader, WriteBlock with row counts 0..3 incl. empty blocks; failure at every write index and one past the end, 0 or 1 bytes accepted).",
    "C17": " Also: Skip of every built integer codec on every valid and malformed varint (op int-s). Round 10: every other write goes into a WriteBuf that already holds 1-7 bytes (codecs append; the earlier bytes must stay).",
    "C18": " Also: the library's string-codec route decodes every case from one reused backing array; an invalid neighbour (month before, day + 32) is parsed immediately before every third valid date-only string.",
    "C19": " Also: every decode case decodes the value twice into a struct with two *time.Time fields; every long-w case writes the value through a [null, T] field too. Round 8: every date-w case writes the value through a [null, date] field too.",
    "C20": " Also: maps of up to four entries; histories [user registration for time.Time / null.Int, the library package's RegisterCodecs again]; scenarios c20x (a user registration for one library type must survive the other library package's RegisterCodecs). Round 9: custom types registered under array and map schemas.",
    "C13": " Rounds 8-9: null-typed positions outside unions (Go zero value there); every fifth case zero-heavy (most fields omitempty, every second scalar zero). Round 10: every other write goes into a WriteBuf that already holds bytes; string / bytes lengths at the varint steps (63..65, 127, 128, 8191..8193).",
    "C08": " Round 10: op big-cut (first block above the reader's 1 MiB chunk, cut at payloadStart + k*2^20 + {-1,0,1} and every block edge); the source alternates default bufio / 16-byte buffer over a half-reader / 37-byte buffer.",
    "C04": " Round 10: string / bytes lengths at the varint steps in every value generator.",
}
for _p, _t in _EXTRA_RULES.items():
    PROPS[_p]["rule"] = PROPS[_p].get("rule", "") + _t
