"""Per-property configuration of ./check: Lean modules, theorems that must exist, harness
generators, evidence texts."""

TRUSTED_COMMON = [
    "Lean 4.33.0 kernel (thorough tier re-checks the compiled modules with leanchecker)",
    "axioms: only propext, Classical.choice, Quot.sound are accepted (audited per theorem on every run); no native_decide, no sorry",
    "the theorem statements and the model definitions in /verif/lean/AvroModel (hand-written model of /repo)",
    "the correspondence check: Go harness (/verif/harness, built against /repo's working tree on every run) + compiled Lean driver `modeldriver` + ./check's comparison",
    "Go toolchain and runtime, encoding/binary, reflect internals reached through go:linkname",
]

PROPS = {
    "C17": {
        "lean_modules": ["AvroModel.Props.C17"],
        "required_theorems": [
            "varint_roundtrip", "varint_length", "varint_canonical", "varint_shortest", "varint_eof",
            "varint_overflow", "varint_errors_complete", "width", "width_reject", "int_roundtrip",
            "f32_roundtrip", "f64_roundtrip", "f32_as_double", "zigzag_spec", "readVarint_inRange",
        ],
        "harness": ["C17"],
        "level_text": "Proof: varint/zig-zag round trip, length <= 10, canonical shortest form, complete characterisation of the three "
                      "error classes, width acceptance iff in range, float/double little-endian bit-exact round trip and the bit-level "
                      "zig-zag specification are Lean theorems over all 64-bit integers / all byte strings (26 theorems, no bound). "
                      "The model (AvroModel/Bytes.lean) is tied to the code by differential execution of the real codecs, obtained through "
                      "Schema.Codec, against the compiled model on ~175k cases per quick run (all int16 values, all 2-byte strings).",
        "level_note": "Trusted: Lean kernel; model-to-code tie is differential (not a translation); hardware float conversion is a hypothesis of f32_as_double.",
        "rule": "Generated from one PRNG: boundary integers of every varint length and width, random 64-bit values, "
                "every int16 value (exhaustive round trip through the codec the library builds for an int16 field), "
                "every byte string of length <= 2 as candidate varint for int16 (<= 1 for int32/int64), random candidate "
                "varints of length <= 11, float specials/sub-normals/NaN payloads/random bit patterns, every byte as bool.",
        "trusted": ["hardware float32<->float64 conversion (hypothesis of f32_as_double, exercised on every generated float32)"],
        "assumptions": ["IntCodec/floatCodec/BoolCodec are reached through Schema.Codec for one-field structs and directly for floats/bools"],
    },
}

PROPS["C09"] = {
    "lean_modules": ["AvroModel.Props.C09"],
    "required_theorems": ["refines", "run_refines", "flush_drains", "spec_preserves", "spec_nonempty",
                          "spec_flush_drains", "spec_pending_below", "spec_blocks_minimal", "frame_shape"],
    "harness": [("ENC9", "C09")],
    "level_text": "Proof: for every finite history of Encode/Flush calls, every block size and any compression function, the model of "
                  "Encoder/FileWriter emits header ++ frames of the reference partition's blocks (exact count, exact byte length, payload, sync), "
                  "loses/duplicates/reorders nothing, never writes an empty block, closes a block as soon as the threshold is reached and "
                  "drains on Flush (induction over the call list). Tie: real NewEncoderFor/Encode/Flush with a recording io.Writer on "
                  "generated histories (sizes around the threshold, three codecs); every Write call is compared with the model and judged "
                  "by a spec container-header reader; compressed payloads are inflated by independent library calls.",
    "level_note": "Trusted: Lean kernel; compress/flate, snappy, crc32 (parameters of the model, inverted independently by the harness); record encodings of the two test struct types.",
    "rule": "Histories over {encode(record of chosen encoded size), flush} from one PRNG, sizes chosen around the block-size threshold, block sizes {0,1,n,2n±1,3n±2,huge}, codecs null/deflate/snappy, record types struct{B []byte} and struct{}.",
    "trusted": ["compress/flate, snappy, hash/crc32 (model parameter `compress`; harness inflates with direct library calls)"],
}
PROPS["C16"] = {
    "lean_modules": ["AvroModel.Props.C16"],
    "required_theorems": ["accepted_prefix", "error_surfaces", "runFrom_surfaces", "writeAll_sim", "step_sim", "runFrom_sim"],
    "harness": [("ENC16", "C16")],
    "level_text": "Proof: for every failing write index k, every number of bytes accepted by the failing call, every call history and any "
                  "compressor, what the writer accepted is a byte-for-byte prefix of the fault-free output (simulation between the faulty and the "
                  "fault-free run), and the call reported as failed is exactly the one that issued write k (earlier calls succeed). Tie: for each "
                  "generated history every k from 1 to the number of writes (+1) is executed against the real encoder with an injected failing "
                  "io.Writer (0 / some / all bytes accepted); error identity via errors.Is; accepted bytes compared with the implementation's own "
                  "fault-free run after substituting the sync marker.",
    "level_note": "Trusted: Lean kernel; model assumes each w.Write error is checked and returned at once (shape of writeAll) - validated by the exhaustive-per-history fault injection.",
    "rule": "Same history generator as C09; per history every failing write index k (exhaustive) x acceptance length {0, random proper prefix, all}.",
    "trusted": ["compress/flate, snappy determinism (fault-free and faulty runs compress identically)"],
}
PROPS["C14"] = {
    "lean_modules": ["AvroModel.Props.C14"],
    "required_theorems": [],
    "harness": ["C14"],
    "level_text": "TBD",
    "level_note": "TBD",
    "rule": "TBD",
    "trusted": [],
}

NOT_APPLICABLE = {}
