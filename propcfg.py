"""Per-property configuration of ./check: Lean modules, theorems that must exist, harness
generators, evidence texts."""

TRUSTED_COMMON = [
    "Lean 4.33.0 kernel (thorough tier re-checks the compiled modules with leanchecker)",
    "axioms: only propext, Classical.choice, Quot.sound are accepted (audited per theorem on every run); no native_decide, no sorry",
    "the theorem statements and the model definitions in /verif/lean/AvroModel (hand-written model of /repo)",
    "the correspondence check: Go harness (/verif/harness, built against /repo's working tree on every run) + compiled Lean driver `modeldriver` + ./check's comparison",
    "Go toolchain and runtime, encoding/binary, reflect internals reached through go:linkname",
]

PROPS = {
    "C17": {
        "lean_modules": ["AvroModel.Props.C17"],
        "required_theorems": [
            "varint_roundtrip", "varint_length", "varint_canonical", "varint_shortest", "varint_eof",
            "varint_overflow", "varint_errors_complete", "width", "width_reject", "int_roundtrip",
            "f32_roundtrip", "f64_roundtrip", "f32_as_double", "zigzag_spec", "readVarint_inRange",
        ],
        "harness": ["C17"],
        "level_text": "Proof: varint/zig-zag round trip, length <= 10, canonical shortest form, complete characterisation of the three "
                      "error classes, width acceptance iff in range, float/double little-endian bit-exact round trip and the bit-level "
                      "zig-zag specification are Lean theorems over all 64-bit integers / all byte strings (26 theorems, no bound). "
                      "The model (AvroModel/Bytes.lean) is tied to the code by differential execution of the real codecs, obtained through "
                      "Schema.Codec, against the compiled model on ~175k cases per quick run (all int16 values, all 2-byte strings).",
        "level_note": "Trusted: Lean kernel; model-to-code tie is differential (not a translation); hardware float conversion is a hypothesis of f32_as_double.",
        "rule": "Generated from one PRNG: boundary integers of every varint length and width, random 64-bit values, "
                "every int16 value (exhaustive round trip through the codec the library builds for an int16 field), "
                "every byte string of length <= 2 as candidate varint for int16 (<= 1 for int32/int64), random candidate "
                "varints of length <= 11, float specials/sub-normals/NaN payloads/random bit patterns, every byte as bool.",
        "trusted": ["hardware float32<->float64 conversion (hypothesis of f32_as_double, exercised on every generated float32)"],
        "assumptions": ["IntCodec/floatCodec/BoolCodec are reached through Schema.Codec for one-field structs and directly for floats/bools"],
    },
}

PROPS["C09"] = {
    "lean_modules": ["AvroModel.Props.C09"],
    "required_theorems": ["refines", "run_refines", "flush_drains", "spec_preserves", "spec_nonempty",
                          "spec_flush_drains", "spec_pending_below", "spec_blocks_minimal", "frame_shape"],
    "harness": [("ENC9", "C09")],
    "level_text": "Proof: for every finite history of Encode/Flush calls, every block size and any compression function, the model of "
                  "Encoder/FileWriter emits header ++ frames of the reference partition's blocks (exact count, exact byte length, payload, sync), "
                  "loses/duplicates/reorders nothing, never writes an empty block, closes a block as soon as the threshold is reached and "
                  "drains on Flush (induction over the call list). Tie: real NewEncoderFor/Encode/Flush with a recording io.Writer on "
                  "generated histories (sizes around the threshold, three codecs); every Write call is compared with the model and judged "
                  "by a spec container-header reader; compressed payloads are inflated by independent library calls.",
    "level_note": "Trusted: Lean kernel; compress/flate, snappy, crc32 (parameters of the model, inverted independently by the harness); record encodings of the two test struct types.",
    "rule": "Histories over {encode(record of chosen encoded size), flush} from one PRNG, sizes chosen around the block-size threshold, block sizes {0,1,n,2n±1,3n±2,huge}, codecs null/deflate/snappy, record types struct{B []byte} and struct{}.",
    "trusted": ["compress/flate, snappy, hash/crc32 (model parameter `compress`; harness inflates with direct library calls)"],
}
PROPS["C16"] = {
    "lean_modules": ["AvroModel.Props.C16"],
    "required_theorems": ["accepted_prefix", "error_surfaces", "runFrom_surfaces", "writeAll_sim", "step_sim", "runFrom_sim"],
    "harness": [("ENC16", "C16")],
    "level_text": "Proof: for every failing write index k, every number of bytes accepted by the failing call, every call history and any "
                  "compressor, what the writer accepted is a byte-for-byte prefix of the fault-free output (simulation between the faulty and the "
                  "fault-free run), and the call reported as failed is exactly the one that issued write k (earlier calls succeed). Tie: for each "
                  "generated history every k from 1 to the number of writes (+1) is executed against the real encoder with an injected failing "
                  "io.Writer (0 / some / all bytes accepted); error identity via errors.Is; accepted bytes compared with the implementation's own "
                  "fault-free run after substituting the sync marker.",
    "level_note": "Trusted: Lean kernel; model assumes each w.Write error is checked and returned at once (shape of writeAll) - validated by the exhaustive-per-history fault injection.",
    "rule": "Same history generator as C09; per history every failing write index k (exhaustive) x acceptance length {0, random proper prefix, all}.",
    "trusted": ["compress/flate, snappy determinism (fault-free and faulty runs compress identically)"],
}
PROPS["C14"] = {
    "lean_modules": ["AvroModel.Props.C14"],
    "required_theorems": ["marshal_parse", "parse_wf", "parse_marshal_parse", "layout_invariant", "key_order", "unknown_attr",
                          "structure_preserved", "malformed_toplevel", "malformed_attr", "malformed_nested", "malformed_branch",
                          "malformed_duplicate", "malformed_duplicate_in_unknown", "malformed_field", "malformed_field_duplicate",
                          "marshal_parse_full_false"],
    "harness": ["C14"],
    "level_text": "Proof: over a model of Schema.UnmarshalJSONFrom / MarshalJSONTo plus the JSON library's default struct decoding "
                  "rules (documents are trees with ordered members, duplicates representable), for schemas and documents nested to any depth: "
                  "parse(marshal s) = s for every well-formed schema value; what parsing returns for a document in the grammar is well-formed "
                  "(so parse.marshal.parse = parse); the result is invariant under permuting the members of every object and under adding "
                  "unknown attributes with arbitrary values at every depth (one master theorem, by mutual structural induction, with key_order, "
                  "unknown_attr and structure_preserved as corollaries); wrong JSON kind for any known attribute, non-schema values in schema "
                  "position, duplicate member names (also inside unknown values and record fields) are rejected wherever they occur. "
                  "Tie: the real SchemaFromString / Schema.Marshal are run on generated JSON texts (random nesting, shuffled members, whitespace, "
                  "escapes, unknown attributes, and a malformed stream of tree- and text-level damage); the text is turned into a tree by "
                  "encoding/json (independent of the library under test); the compiled model must produce the same Schema value (dumped by "
                  "reflection), an independent lookup-based reading of in-grammar documents must agree (structure oracle), the Marshal output must "
                  "be valid JSON that both the model and the implementation read back as the identical value; schemas from SchemaForType on six "
                  "Go struct types go through Marshal -> SchemaFromString and must come back identical.",
    "level_note": "Trusted: Lean kernel; go-json-experiment tokenizer (JSON text -> tokens: whitespace, escapes, syntax errors, UTF-8) is outside "
                  "the model and covered only by the differential run; library struct-decoding rules were determined by experiment and are re-validated "
                  "on every run by the fixed corpus; nil and empty slices are identified; the full-strength round trip for EVERY parsed value is false "
                  "(attributes not belonging to the type are parsed but not serialised: marshal_parse_full_false) and is claimed only on WF values / in-grammar documents.",
    "rule": "From one PRNG: schema documents of depth <= 6 over records (0-4 fields), enums, fixed, arrays, maps, unions, primitives in string and "
            "object form with logicalType, name/namespace, odd and non-ASCII names; every tenth document is union-in-map-in-array-in-record; two thirds "
            "carry unknown attributes (doc/default/aliases/order/precision/scale/case variants, arbitrary nested JSON values); members shuffled; "
            "half with random whitespace, half with random \\u escapes. Malformed stream: one tree-level mutation (wrong kind for a member, duplicate member, "
            "attribute of another type, key case change / member removal, scalar or empty union in schema position, non-schema top level, document nested "
            "as `type`) or one text-level mutation (truncation, trailing comma, byte deletion/replacement, trailing/leading junk, unpaired surrogate / invalid "
            "UTF-8, control character / bad escape, non-JSON literals). Fixed corpus of 66 documents pinning every library rule the model relies on, "
            "nesting depth up to 2000.",
    "trusted": ["github.com/go-json-experiment/json tokenizer and its default struct-decoding rules (modelled from experiment; re-validated by the fixed corpus on every run)",
                "encoding/json (harness: text -> tree for the Lean side, and the judge of 'Marshal output is valid JSON')"],
    "assumptions": ["Go strings in schema values are valid UTF-8 (Lean `String`); SchemaFromString never produces others",
                    "Go `int` is 64-bit"],
}

NOT_APPLICABLE = {}
