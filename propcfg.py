"""Per-property configuration of ./check: Lean modules, theorems that must exist, harness
generators, evidence texts."""

TRUSTED_COMMON = [
    "Lean 4.33.0 kernel (thorough tier re-checks the compiled modules with leanchecker)",
    "axioms: only propext, Classical.choice, Quot.sound are accepted (audited per theorem on every run); no native_decide, no sorry",
    "the theorem statements and the model definitions in /verif/lean/AvroModel (hand-written model of /repo)",
    "the correspondence check: Go harness (/verif/harness, built against /repo's working tree on every run) + compiled Lean driver `modeldriver` + ./check's comparison",
    "Go toolchain and runtime, encoding/binary, reflect internals reached through go:linkname",
]

PROPS = {
    "C17": {
        "lean_modules": ["AvroModel.Props.C17"],
        "required_theorems": [
            "varint_roundtrip", "varint_length", "varint_canonical", "varint_shortest", "varint_eof",
            "varint_overflow", "varint_errors_complete", "width", "width_reject", "int_roundtrip",
            "f32_roundtrip", "f64_roundtrip", "f32_as_double", "zigzag_spec", "readVarint_inRange",
        ],
        "harness": ["C17"],
        "level_text": "Proof: varint/zig-zag round trip, length <= 10, canonical shortest form, complete characterisation of the three "
                      "error classes, width acceptance iff in range, float/double little-endian bit-exact round trip and the bit-level "
                      "zig-zag specification are Lean theorems over all 64-bit integers / all byte strings (26 theorems, no bound). "
                      "The model (AvroModel/Bytes.lean) is tied to the code by differential execution of the real codecs, obtained through "
                      "Schema.Codec, against the compiled model on ~175k cases per quick run (all int16 values, all 2-byte strings).",
        "level_note": "Trusted: Lean kernel; model-to-code tie is differential (not a translation); hardware float conversion is a hypothesis of f32_as_double.",
        "rule": "Generated from one PRNG: boundary integers of every varint length and width, random 64-bit values, "
                "every int16 value (exhaustive round trip through the codec the library builds for an int16 field), "
                "every byte string of length <= 2 as candidate varint for int16 (<= 1 for int32/int64), random candidate "
                "varints of length <= 11, float specials/sub-normals/NaN payloads/random bit patterns, every byte as bool.",
        "trusted": ["hardware float32<->float64 conversion (hypothesis of f32_as_double, exercised on every generated float32)"],
        "assumptions": ["IntCodec/floatCodec/BoolCodec are reached through Schema.Codec for one-field structs and directly for floats/bools"],
    },
}

NOT_APPLICABLE = {}
