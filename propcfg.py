"""Per-property configuration of ./check: Lean modules, theorems that must exist, harness
generators, evidence texts."""

TRUSTED_COMMON = [
    "Lean 4.33.0 kernel (thorough tier re-checks the compiled modules with leanchecker)",
    "axioms: only propext, Classical.choice, Quot.sound are accepted (audited per theorem on every run); no native_decide, no sorry",
    "the theorem statements and the model definitions in /verif/lean/AvroModel (hand-written model of /repo)",
    "the correspondence check: Go harness (/verif/harness, built against /repo's working tree on every run) + compiled Lean driver `modeldriver` + ./check's comparison",
    "Go toolchain and runtime, encoding/binary, reflect internals reached through go:linkname",
]

PROPS = {
    "C17": {
        "lean_modules": ["AvroModel.Props.C17"],
        "required_theorems": [
            "varint_roundtrip", "varint_length", "varint_canonical", "varint_shortest", "varint_eof",
            "varint_overflow", "varint_errors_complete", "width", "width_reject", "int_roundtrip",
            "f32_roundtrip", "f64_roundtrip", "f32_as_double", "zigzag_spec", "readVarint_inRange",
        ],
        "harness": ["C17"],
        "level_text": "Proof: varint/zig-zag round trip, length <= 10, canonical shortest form, complete characterisation of the three "
                      "error classes, width acceptance iff in range, float/double little-endian bit-exact round trip and the bit-level "
                      "zig-zag specification are Lean theorems over all 64-bit integers / all byte strings (26 theorems, no bound). "
                      "The model (AvroModel/Bytes.lean) is tied to the code by differential execution of the real codecs, obtained through "
                      "Schema.Codec, against the compiled model on ~175k cases per quick run (all int16 values, all 2-byte strings).",
        "level_note": "Trusted: Lean kernel; model-to-code tie is differential (not a translation); hardware float conversion is a hypothesis of f32_as_double.",
        "rule": "Generated from one PRNG: boundary integers of every varint length and width, random 64-bit values, "
                "every int16 value (exhaustive round trip through the codec the library builds for an int16 field), "
                "every byte string of length <= 2 as candidate varint for int16 (<= 1 for int32/int64), random candidate "
                "varints of length <= 11, float specials/sub-normals/NaN payloads/random bit patterns, every byte as bool.",
        "trusted": ["hardware float32<->float64 conversion (hypothesis of f32_as_double, exercised on every generated float32)"],
        "assumptions": ["IntCodec/floatCodec/BoolCodec are reached through Schema.Codec for one-field structs and directly for floats/bools"],
    },
}

PROPS["C09"] = {
    "lean_modules": ["AvroModel.Props.C09"],
    "required_theorems": ["refines", "run_refines", "flush_drains", "spec_preserves", "spec_nonempty",
                          "spec_flush_drains", "spec_pending_below", "spec_blocks_minimal", "frame_shape"],
    "harness": [("ENC9", "C09")],
    "level_text": "Proof: for every finite history of Encode/Flush calls, every block size and any compression function, the model of "
                  "Encoder/FileWriter emits header ++ frames of the reference partition's blocks (exact count, exact byte length, payload, sync), "
                  "loses/duplicates/reorders nothing, never writes an empty block, closes a block as soon as the threshold is reached and "
                  "drains on Flush (induction over the call list). Tie: real NewEncoderFor/Encode/Flush with a recording io.Writer on "
                  "generated histories (sizes around the threshold, three codecs); every Write call is compared with the model and judged "
                  "by a spec container-header reader; compressed payloads are inflated by independent library calls.",
    "level_note": "Trusted: Lean kernel; compress/flate, snappy, crc32 (parameters of the model, inverted independently by the harness); record encodings of the two test struct types.",
    "rule": "Histories over {encode(record of chosen encoded size), flush} from one PRNG, sizes chosen around the block-size threshold, block sizes {0,1,n,2n±1,3n±2,huge}, codecs null/deflate/snappy, record types struct{B []byte} and struct{}.",
    "trusted": ["compress/flate, snappy, hash/crc32 (model parameter `compress`; harness inflates with direct library calls)"],
}
PROPS["C16"] = {
    "lean_modules": ["AvroModel.Props.C16"],
    "required_theorems": ["accepted_prefix", "error_surfaces", "runFrom_surfaces", "writeAll_sim", "step_sim", "runFrom_sim"],
    "harness": [("ENC16", "C16")],
    "level_text": "Proof: for every failing write index k, every number of bytes accepted by the failing call, every call history and any "
                  "compressor, what the writer accepted is a byte-for-byte prefix of the fault-free output (simulation between the faulty and the "
                  "fault-free run), and the call reported as failed is exactly the one that issued write k (earlier calls succeed). Tie: for each "
                  "generated history every k from 1 to the number of writes (+1) is executed against the real encoder with an injected failing "
                  "io.Writer (0 / some / all bytes accepted); error identity via errors.Is; accepted bytes compared with the implementation's own "
                  "fault-free run after substituting the sync marker.",
    "level_note": "Trusted: Lean kernel; model assumes each w.Write error is checked and returned at once (shape of writeAll) - validated by the exhaustive-per-history fault injection.",
    "rule": "Same history generator as C09; per history every failing write index k (exhaustive) x acceptance length {0, random proper prefix, all}.",
    "trusted": ["compress/flate, snappy determinism (fault-free and faulty runs compress identically)"],
}

PROPS["C10"] = {
    "lean_modules": ["AvroModel.Props.C10"],
    "required_theorems": ["bank_inv", "step_inv", "run_inv", "alloc_zeroed", "alloc_disjoint", "step_frame", "string_stable",
                          "toString_content", "toString_disjoint", "close_other_bank", "close_other_bank_str",
                          "delivered_stable", "delivered_string_stable", "no_block_alias", "runChecked_sound"],
    "harness": ["C10"],
    "level_text": "Proof over the bank state machine (AvroModel/Bank.lean: per-type arenas with find-or-append, growth to a fresh array without "
                  "copying, typedmemclr, the append-only string arena with Go append growth, Close resetting lengths on the same arrays, "
                  "sync.Pool as a nondeterministic choice, a heap of cells, handles tagged (bank, epoch)): for every finite history of "
                  "get/alloc/toString/store/close over any number of banks that obeys the documented ownership discipline, every pool choice, "
                  "every growth capacity, no step faults and an invariant holds (induction over the history) from which: live pointers are "
                  "pairwise different cells and live strings disjoint byte ranges; every new allocation is zero and disjoint from everything "
                  "live; a cell / string that is live at the end of any continuation holds what it held when delivered unless stored through "
                  "that very pointer; operations on other banks (allocate, close, reuse from the pool) change nothing. Provenance of decoded "
                  "data (string -> bank arena, []byte/slice backing/map -> fresh heap, pointer targets -> bank) never is the block buffer or "
                  "the input (table-level theorem). Tie: (a) random operation sequences over several read buffers and banks executed against the "
                  "real NewReadBuf/Alloc/NextAsString/ExtractResourceBank/ResourceBank.Alloc/ToString/Close (GC off, one goroutine) and replayed "
                  "through the Lean step function: every returned address (array, index, capacity), every string (array, offset) and every pool "
                  "decision is compared with the model, and zeroing / non-overlap / unchanged contents of all live handles are judged after every "
                  "operation; (b) multi-block files of all three codecs (strings, bytes, nested slices, maps, pointers) read with a retaining "
                  "callback, random banks closed, all harness-owned buffers overwritten, pool churned, retained records compared.",
    "level_note": "Trusted: Lean kernel; the tie is differential replay, not a translation of buffer.go; Go allocator returns memory disjoint from "
                  "reachable objects and sync.Pool returns only objects that were Put (the model's Allowed for get); provenance table is hand-written "
                  "from the Read/New methods and checked only by the file-retention runs; concurrency of the pool is out of scope here (C12).",
    "rule": "Bank sequences from one PRNG: 1-4 read buffers, 1-3 of 8 Go types per case (sizes 1..32 bytes, with and without pointers) so that arenas "
            "fill and grow, string lengths {0,1,3,8,40,200}, weighted mix of alloc/string/extract/close/direct-bank use/re-store/new buffer, "
            "5..125 operations (thorough: ..305). File cases: codec x block size {64,300,1000,4000} x 1..40 records x close probability {0,30,60,100}%.",
    "trusted": ["Go runtime allocator and sync.Pool semantics (fresh memory is disjoint from reachable memory; Get returns New() or a Put object)",
                "reflect read-only access to the unexported fields ReadBuf.rb, ResourceBank.sData/types used by the harness to observe capacities and bank identity"],
    "assumptions": ["ownership discipline of the caller: a bank is used and closed only between the pool handing it out and its Close; no writes through dead handles",
                    "the growth policy of Alloc (max(16, 2*cap)) is a parameter: theorems hold for every capacity above the old one"],
}

NOT_APPLICABLE = {}
