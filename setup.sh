#!/bin/sh
# Builds the Lean model, theorems and driver, and the Go harness, offline.
set -e
cd "$(dirname "$0")"
exec python3 ./check --setup
