package main

import (
	"bytes"
	"fmt"
	"math"
	"strings"
	"time"
	"unsafe"

	"github.com/philpearl/avro"
	avronull "github.com/philpearl/avro/null"
	avrotime "github.com/philpearl/avro/time"
	"github.com/unravelin/null/v5"
)

// C18 (timestamp strings) and C19 (logical date / timestamp integers).
//
// The library is reached through its exported API only: avrotime.StringCodec{} and
// avrotime.DateCodec{} directly, and the codecs Schema.Codec builds for struct fields of type
// time.Time / null.Time under caller-supplied schemas (buildTimeCodec, buildNullTimeCodec).
func init() {
	props["C18"] = prop{gen: genC18, exec: newExecTime()}
	props["C19"] = prop{gen: genC19, exec: newExecTime()}
}

type recTime struct{ T time.Time }
type recNullTime struct{ T null.Time }

// rec2P: two pointer fields of one time schema, decoded from one buffer (their targets come from one bank)
type rec2P struct {
	A *time.Time
	B *time.Time
}

func twoPtrCodec(fieldSchema string) (avro.Codec, error) {
	s, err := avro.SchemaFromString(`{"type":"record","name":"r2","fields":[{"name":"A","type":` + fieldSchema + `},{"name":"B","type":` + fieldSchema + `}]}`)
	if err != nil {
		return nil, err
	}
	return s.Codec(rec2P{})
}

// ptrRoute decodes bs twice into the two pointer fields; nil when both equal want, else what was seen
func ptrRoute(c avro.Codec, bs []byte, want time.Time) *sx {
	var d rec2P
	r := avro.NewReadBuf(append(append([]byte(nil), bs...), bs...))
	if err := c.Read(r, unsafe.Pointer(&d)); err != nil || d.A == nil || d.B == nil {
		out := T("two-pointer-fields", errSx)
		return &out
	}
	same := func(t time.Time) bool {
		_, o1 := t.Zone()
		_, o2 := want.Zone()
		return t.Unix() == want.Unix() && t.Nanosecond() == want.Nanosecond() && o1 == o2
	}
	if !same(*d.A) || !same(*d.B) {
		out := T("two-pointer-fields", T("first", timeTriple(*d.A)...), T("second", timeTriple(*d.B)...))
		return &out
	}
	return nil
}

type timeCodecs struct {
	ptr2    map[string]avro.Codec // date / ns / us / ms / str: struct{A, B *time.Time}
	reuse   []byte
	nullStr avro.Codec            // struct{T null.Time} under {"type":"string"}
	recStr  avro.Codec            // struct{T time.Time} under {"type":"string"}
	date    avro.Codec            // struct{T time.Time} under {"type":"int","logicalType":"date"}
	dateU   avro.Codec            // the same under ["null", date]: only the zero time.Time is null
	long    map[string]avro.Codec // ns / us / ms
	longU   map[string]avro.Codec // the same under ["null", T]: only the zero time.Time is null
	err     error
}

func fieldCodec(fieldSchema string, out any) (avro.Codec, error) {
	s, err := avro.SchemaFromString(`{"type":"record","name":"r","fields":[{"name":"T","type":` + fieldSchema + `}]}`)
	if err != nil {
		return nil, err
	}
	return s.Codec(out)
}

func buildTimeCodecs() *timeCodecs {
	avrotime.RegisterCodecs()
	avronull.RegisterCodecs()
	tc := &timeCodecs{long: map[string]avro.Codec{}, longU: map[string]avro.Codec{}, ptr2: map[string]avro.Codec{}}
	for k, schema := range map[string]string{
		"date": `{"type":"int","logicalType":"date"}`, "ns": `{"type":"long"}`, "str": `"string"`,
		"us": `{"type":"long","logicalType":"timestamp-micros"}`, "ms": `{"type":"long","logicalType":"timestamp-millis"}`,
	} {
		c, err := twoPtrCodec(schema)
		if err != nil && tc.err == nil {
			tc.err = err
		}
		tc.ptr2[k] = c
	}
	set := func(dst *avro.Codec, schema string, out any) {
		c, err := fieldCodec(schema, out)
		if err != nil && tc.err == nil {
			tc.err = err
		}
		*dst = c
	}
	set(&tc.nullStr, `"string"`, recNullTime{})
	set(&tc.recStr, `"string"`, recTime{})
	set(&tc.date, `{"type":"int","logicalType":"date"}`, recTime{})
	set(&tc.dateU, `["null",{"type":"int","logicalType":"date"}]`, recTime{})
	for k, schema := range map[string]string{
		"ns": `{"type":"long"}`,
		"us": `{"type":"long","logicalType":"timestamp-micros"}`,
		"ms": `{"type":"long","logicalType":"timestamp-millis"}`,
	} {
		var c avro.Codec
		set(&c, schema, recTime{})
		tc.long[k] = c
		var cu avro.Codec
		set(&cu, `["null",`+schema+`]`, recTime{})
		tc.longU[k] = cu
	}
	return tc
}

func timeTriple(t time.Time) []sx {
	_, off := t.Zone()
	return []sx{I(t.Unix()), I(int64(t.Nanosecond())), I(int64(off))}
}

func okTime(t time.Time) sx { return T("ok", timeTriple(t)...) }

// guard converts a panic of one route into a (panic msg) outcome so that the other routes of the
// same case are still reported.
func guard(f func() sx) sx { return protectSx(f) }

func frame(s []byte) []byte { return append(refVarint(int64(len(s))), s...) }

func mkTime(unix, nsec, off int64) time.Time {
	t := time.Unix(unix, nsec)
	if off == 0 {
		return t.UTC()
	}
	return t.In(time.FixedZone("", int(off)))
}

func newExecTime() func(op string, args []sx) sx {
	var tc *timeCodecs
	return func(op string, a []sx) sx {
		if tc == nil {
			tc = buildTimeCodecs()
		}
		if tc.err != nil {
			return T("build-error", A(clean(tc.err.Error())))
		}
		// the three parsers on the bytes of one string
		libFramed := func(framed0 []byte) sx {
			// the same backing array for every case, as a reader that re-fills one block buffer has it
			tc.reuse = append(tc.reuse[:0], framed0...)
			framed := tc.reuse
			return guard(func() sx {
				var t time.Time
				r := avro.NewReadBuf(framed)
				if err := (avrotime.StringCodec{}).Read(r, unsafe.Pointer(&t)); err != nil {
					return errSx
				}
				return okTime(t)
			})
		}
		recFramed := func(framed []byte) sx {
			return guard(func() sx {
				var d recTime
				r := avro.NewReadBuf(framed)
				if err := tc.recStr.Read(r, unsafe.Pointer(&d)); err != nil {
					return errSx
				}
				return okTime(d.T)
			})
		}
		nullFramed := func(framed []byte) sx {
			return guard(func() sx {
				var d recNullTime
				r := avro.NewReadBuf(framed)
				if err := tc.nullStr.Read(r, unsafe.Pointer(&d)); err != nil {
					return errSx
				}
				if !d.T.Valid {
					return T("invalid")
				}
				return okTime(d.T.Time)
			})
		}
		std := func(layout string, s []byte) sx {
			t, err := time.Parse(layout, string(s))
			if err != nil {
				return errSx
			}
			return okTime(t)
		}
		parseAll := func(layout string, s []byte) sx {
			f := frame(s)
			return T("r", libFramed(f), recFramed(append([]byte(nil), f...)), nullFramed(append([]byte(nil), f...)), std(layout, s))
		}
		switch op {
		case "rfc": // (rfc y mo d h mi s frac sep zone hex)
			return parseAll(time.RFC3339, a[9].bytes())
		case "date": // (date y mo d hex)
			return parseAll("2006-01-02", a[3].bytes())
		case "str": // (str hex)
			return parseAll(time.RFC3339, a[0].bytes())
		case "frame": // (frame hex): raw bytes, length prefix included
			f := a[0].bytes()
			return T("r", libFramed(append([]byte(nil), f...)), recFramed(append([]byte(nil), f...)), nullFramed(append([]byte(nil), f...)))
		case "fmt": // (fmt unix nsec off)
			t := mkTime(a[0].int(), a[1].int(), a[2].int())
			s := t.Format(time.RFC3339Nano)
			lib := guard(func() sx {
				w := avro.NewWriteBuf(nil)
				(avrotime.StringCodec{}).Write(w, unsafe.Pointer(&t))
				bs := append([]byte(nil), w.Bytes()...)
				return T("w", H(bs), libFramed(bs))
			})
			nl := guard(func() sx {
				src := recNullTime{T: null.TimeFrom(t)}
				w := avro.NewWriteBuf(nil)
				tc.nullStr.Write(w, unsafe.Pointer(&src))
				bs := append([]byte(nil), w.Bytes()...)
				return T("w", H(bs), nullFramed(bs))
			})
			return T("f", H([]byte(s)), lib, nl)

		// ---- C19 ----
		case "date-r": // (date-r d): the harness's own varint encoder, both construction routes
			bs := refVarint(a[0].int())
			direct := guard(func() sx {
				var t time.Time
				r := avro.NewReadBuf(append([]byte(nil), bs...))
				if err := (avrotime.DateCodec{}).Read(r, unsafe.Pointer(&t)); err != nil {
					return errSx
				}
				return T("ok", append(timeTriple(t), I(int64(r.Len())))...)
			})
			built := guard(func() sx {
				var d recTime
				r := avro.NewReadBuf(append([]byte(nil), bs...))
				if err := tc.date.Read(r, unsafe.Pointer(&d)); err != nil {
					return errSx
				}
				if bad := ptrRoute(tc.ptr2["date"], bs, d.T); bad != nil {
					return *bad
				}
				return T("ok", append(timeTriple(d.T), I(int64(r.Len())))...)
			})
			return T("r", direct, built)
		case "date-w": // (date-w unix nsec off)
			src := recTime{T: mkTime(a[0].int(), a[1].int(), a[2].int())}
			return guard(func() sx {
				w := avro.NewWriteBuf(nil)
				tc.date.Write(w, unsafe.Pointer(&src))
				bs := append([]byte(nil), w.Bytes()...)
				var d recTime
				r := avro.NewReadBuf(append([]byte(nil), bs...))
				if err := tc.date.Read(r, unsafe.Pointer(&d)); err != nil || r.Len() != 0 {
					return T("w", H(bs), errSx)
				}
				// the same value in a nullable field: the non-null branch with the same bytes, unless it is the zero time.Time
				if tc.dateU != nil {
					wu := avro.NewWriteBuf(nil)
					tc.dateU.Write(wu, unsafe.Pointer(&src))
					expect := append([]byte{2}, bs...)
					if src.T.IsZero() {
						expect = []byte{0}
					}
					if !bytes.Equal(wu.Bytes(), expect) {
						return T("w", H(bs), T("nullable-field-wrote", H(wu.Bytes()), A("expected"), H(expect)))
					}
				}
				return T("w", H(bs), okTime(d.T))
			})
		case "long-r": // (long-r rho l)
			c, ok := tc.long[a[0].atom]
			if !ok {
				panic("harness: bad resolution " + a[0].atom)
			}
			bs := refVarint(a[1].int())
			return guard(func() sx {
				var d recTime
				r := avro.NewReadBuf(bs)
				if err := c.Read(r, unsafe.Pointer(&d)); err != nil {
					return errSx
				}
				if bad := ptrRoute(tc.ptr2[a[0].atom], bs, d.T); bad != nil {
					return *bad
				}
				return T("ok", append(timeTriple(d.T), I(int64(r.Len())))...)
			})
		case "long-w": // (long-w rho unix nsec off)
			c, ok := tc.long[a[0].atom]
			if !ok {
				panic("harness: bad resolution " + a[0].atom)
			}
			src := recTime{T: mkTime(a[1].int(), a[2].int(), a[3].int())}
			return guard(func() sx {
				w := avro.NewWriteBuf(nil)
				c.Write(w, unsafe.Pointer(&src))
				bs := append([]byte(nil), w.Bytes()...)
				var d recTime
				r := avro.NewReadBuf(append([]byte(nil), bs...))
				if err := c.Read(r, unsafe.Pointer(&d)); err != nil || r.Len() != 0 {
					return T("w", H(bs), errSx)
				}
				// the same value in a nullable field: the non-null branch with the same bytes, unless it is the zero time.Time
				if cu := tc.longU[a[0].atom]; cu != nil {
					wu := avro.NewWriteBuf(nil)
					cu.Write(wu, unsafe.Pointer(&src))
					expect := append([]byte{2}, bs...)
					if src.T.IsZero() {
						expect = []byte{0}
					}
					if !bytes.Equal(wu.Bytes(), expect) {
						return T("w", H(bs), T("nullable-field-wrote", H(wu.Bytes()), A("expected"), H(expect)))
					}
				}
				return T("w", H(bs), okTime(d.T))
			})
		}
		panic("harness: unknown time op " + op)
	}
}

// ---------------------------------------------------------------------------------------------
// C18 generators

type zoneT struct {
	z      bool
	neg    bool
	hh, mm int
}

func (z zoneT) sx() sx {
	if z.z {
		return A("Z")
	}
	if z.neg {
		return T("m", I(int64(z.hh)), I(int64(z.mm)))
	}
	return T("p", I(int64(z.hh)), I(int64(z.mm)))
}

func (z zoneT) String() string {
	if z.z {
		return "Z"
	}
	s := "+"
	if z.neg {
		s = "-"
	}
	return fmt.Sprintf("%s%02d:%02d", s, z.hh, z.mm)
}

type rfcCase struct {
	y, mo, d, h, mi, s int
	frac               string // digits
	comma              bool
	zone               zoneT
}

// render is the harness's own renderer; the driver re-renders the abstract fields with the Lean
// definition and rejects the case if the two differ.
func (r rfcCase) render() string {
	var b strings.Builder
	fmt.Fprintf(&b, "%04d-%02d-%02dT%02d:%02d:%02d", r.y, r.mo, r.d, r.h, r.mi, r.s)
	if r.frac != "" {
		if r.comma {
			b.WriteByte(',')
		} else {
			b.WriteByte('.')
		}
		b.WriteString(r.frac)
	}
	b.WriteString(r.zone.String())
	return b.String()
}

func (r rfcCase) emit(c *ctx) {
	sep := "dot"
	if r.comma {
		sep = "comma"
	}
	c.emit(T("rfc", I(int64(r.y)), I(int64(r.mo)), I(int64(r.d)), I(int64(r.h)), I(int64(r.mi)), I(int64(r.s)),
		A("f"+r.frac), A(sep), r.zone.sx(), H([]byte(r.render()))))
}

func isLeapYear(y int) bool { return y%4 == 0 && (y%100 != 0 || y%400 == 0) }

func monthLen(y, m int) int {
	switch m {
	case 2:
		if isLeapYear(y) {
			return 29
		}
		return 28
	case 4, 6, 9, 11:
		return 30
	}
	return 31
}

func randDigits(c *ctx, n int) string {
	b := make([]byte, n)
	switch c.rng.Intn(6) {
	case 0:
		for i := range b {
			b[i] = '0'
		}
	case 1:
		for i := range b {
			b[i] = '9'
		}
	case 2: // zeros then a single non-zero digit at the end
		for i := range b {
			b[i] = '0'
		}
		if n > 0 {
			b[n-1] = byte('1' + c.rng.Intn(9))
		}
	default:
		for i := range b {
			b[i] = byte('0' + c.rng.Intn(10))
		}
	}
	return string(b)
}

func randZone(c *ctx) zoneT {
	switch c.rng.Intn(4) {
	case 0:
		return zoneT{z: true}
	case 1:
		return zoneT{neg: c.rng.Intn(2) == 0, hh: c.rng.Intn(15), mm: []int{0, 30, 45}[c.rng.Intn(3)]}
	}
	return zoneT{neg: c.rng.Intn(2) == 0, hh: c.rng.Intn(24), mm: c.rng.Intn(60)}
}

func randRfc(c *ctx) rfcCase {
	var y int
	switch c.rng.Intn(5) {
	case 0:
		y = []int{0, 1, 4, 99, 100, 400, 1582, 1600, 1899, 1900, 1969, 1970, 1999, 2000, 2038, 2100, 9996, 9999}[c.rng.Intn(18)]
	case 1:
		y = 1900 + c.rng.Intn(200)
	default:
		y = c.rng.Intn(10000)
	}
	mo := 1 + c.rng.Intn(12)
	d := 1 + c.rng.Intn(monthLen(y, mo))
	if c.rng.Intn(6) == 0 {
		d = monthLen(y, mo)
	}
	return rfcCase{y: y, mo: mo, d: d, h: c.rng.Intn(24), mi: c.rng.Intn(60), s: c.rng.Intn(60),
		frac: randDigits(c, c.rng.Intn(31)), comma: c.rng.Intn(2) == 0, zone: randZone(c)}
}

func genC18(c *ctx) {
	base := rfcCase{y: 2006, mo: 1, d: 2, h: 15, mi: 4, s: 5, zone: zoneT{z: true}}
	// 1. fraction lengths 0..30 x both separators x Z / offset, several digit patterns
	for n := 0; n <= 30; n++ {
		for rep := 0; rep < c.scale(6, 40); rep++ {
			for _, comma := range []bool{false, true} {
				for _, z := range []zoneT{{z: true}, {hh: 5, mm: 30}, {neg: true, hh: 23, mm: 59}} {
					r := base
					r.frac, r.comma, r.zone = randDigits(c, n), comma, z
					r.emit(c)
				}
			}
		}
	}
	// 2. every offset -23:59 .. +23:59 (including -00:00 and +00:00)
	for _, neg := range []bool{false, true} {
		for hh := 0; hh < 24; hh++ {
			for mm := 0; mm < 60; mm++ {
				r := base
				r.zone = zoneT{neg: neg, hh: hh, mm: mm}
				if (hh+mm)%3 == 0 {
					r.frac = randDigits(c, 1+c.rng.Intn(12))
				}
				r.emit(c)
			}
		}
	}
	// 3. every day of the year for years with each leap rule, every hour / minute / second
	for _, y := range []int{0, 1, 4, 100, 400, 1900, 1970, 2000, 2023, 2024, 9999} {
		for mo := 1; mo <= 12; mo++ {
			for d := 1; d <= monthLen(y, mo); d++ {
				r := base
				r.y, r.mo, r.d = y, mo, d
				r.zone = randZone(c)
				r.emit(c)
				c.emit(T("date", I(int64(y)), I(int64(mo)), I(int64(d)), H([]byte(fmt.Sprintf("%04d-%02d-%02d", y, mo, d)))))
			}
		}
	}
	for v := 0; v < 60; v++ {
		r := base
		r.mi = v
		r.emit(c)
		r = base
		r.s = v
		r.emit(c)
		if v < 24 {
			r = base
			r.h = v
			r.emit(c)
		}
	}
	// 4. years 0000..9999 (every year in the thorough tier)
	step := c.scale(13, 1)
	for y := 0; y <= 9999; y += step {
		r := randRfc(c)
		r.y = y
		if r.d > monthLen(y, r.mo) {
			r.d = monthLen(y, r.mo)
		}
		r.emit(c)
	}
	for _, y := range []int{0, 9999} {
		for _, z := range []zoneT{{z: true}, {hh: 23, mm: 59}, {neg: true, hh: 23, mm: 59}} {
			r := rfcCase{y: y, mo: 1, d: 1, zone: z}
			r.emit(c)
			r = rfcCase{y: y, mo: 12, d: 31, h: 23, mi: 59, s: 59, frac: "999999999", zone: z}
			r.emit(c)
		}
	}
	// 5. random valid timestamps and dates
	for i := 0; i < c.scale(6000, 400000); i++ {
		randRfc(c).emit(c)
	}
	for i := 0; i < c.scale(1500, 60000); i++ {
		r := randRfc(c)
		if r.mo >= 2 && i%3 == 0 {
			// an invalid neighbour first (the same year, the month before, day + 32): the result of a parse must not depend on
			// what was parsed before it
			c.emit(T("str", H([]byte(fmt.Sprintf("%04d-%02d-%02d", r.y, r.mo-1, r.d+32)))))
		}
		c.emit(T("date", I(int64(r.y)), I(int64(r.mo)), I(int64(r.d)), H([]byte(fmt.Sprintf("%04d-%02d-%02d", r.y, r.mo, r.d)))))
	}
	// 6. format then parse: times in years 0000..9999, whole-minute offsets
	nsecs := []int64{0, 1, 9, 10, 100, 1000, 120, 500000, 1000000, 120000000, 100000000, 999999999, 999999990, 999000000, 123456789}
	const minUnix, maxUnix = -62167219200 + 5*86400, 253402300799 - 5*86400
	fmtCase := func(unix, nsec, off int64) { c.emit(T("fmt", I(unix), I(nsec), I(off))) }
	for _, u := range []int64{0, -1, 1, -86400, 86399, -62135596800, 951782400, 951868799, 4107542400, minUnix, maxUnix, -2208988800} {
		for _, ns := range nsecs {
			for _, off := range []int64{0, 60, -60, 3600, -3600, 19800, -34200, 86340, -86340, 50400, -43200} {
				fmtCase(u, ns, off)
			}
		}
	}
	for i := 0; i < c.scale(6000, 300000); i++ {
		u := minUnix + c.rng.Int63n(maxUnix-minUnix)
		if c.rng.Intn(3) == 0 {
			u = -4000000000 + c.rng.Int63n(8000000000)
		}
		var ns int64
		switch c.rng.Intn(4) {
		case 0:
			ns = nsecs[c.rng.Intn(len(nsecs))]
		case 1: // few significant digits
			ns = int64(c.rng.Intn(1000)) * []int64{1, 1000, 1000000}[c.rng.Intn(3)]
		default:
			ns = c.rng.Int63n(1000000000)
		}
		var off int64
		switch c.rng.Intn(5) {
		case 0:
			off = 0
		case 1: // beyond what RFC 3339 allows but printable with two hour digits
			off = int64(c.rng.Intn(2*5999+1)-5999) * 60
		default:
			off = int64(c.rng.Intn(2*1439+1)-1439) * 60
		}
		fmtCase(u, ns, off)
	}
	// 7. mutation stream for the no-panic clause: exhaustive over positions of each base string
	bases := []string{
		"2006-01-02",
		"2006-01-02T15:04:05Z",
		"2006-01-02T15:04:05+07:00",
		"2006-01-02T15:04:05-07:30",
		"2006-01-02T15:04:05.1Z",
		"2006-01-02T15:04:05,123456789Z",
		"2006-01-02T15:04:05.123456789012+01:00",
		"2006-01-02T15:04:05.000000000-23:59",
		"9999-12-31T23:59:59.999999999+23:59",
		"0000-01-01T00:00:00Z",
		"2006-01-02T15:04:05.",
		"2006-01-02T15:04:05.Z",
		"2006-01-02T15:04:05.12",
		"2006-01-02T15:04:05.12é",
		"2006-01-02T15:04:05.12é+01:00",
		"2006-01-02T15:04:05€",
		"2006-01-02T15:04:05.1\xff2Z",
		"2006-01-02T15:04:05+0700",
		"2006-01-02T15:04:05+07:0",
		"2006-13-45T25:61:61Z",
		"2006-00-00T00:00:00-99:99",
	}
	inserts := [][]byte{{'0'}, {'9'}, {'.'}, {','}, {'Z'}, {'+'}, {'-'}, {':'}, {'T'}, {' '}, {'/'}, {0}, {0x7f}, {0x80}, {0xbf}, {0xc3}, {0xff}, []byte("é"), []byte("€")}
	str := func(b []byte) { c.emit(T("str", H(b))) }
	str(nil)
	for _, bse := range bases {
		b := []byte(bse)
		str(b)
		for i := 0; i <= len(b); i++ {
			str(b[:i]) // truncate
			if i < len(b) {
				str(append(append([]byte(nil), b[:i]...), b[i+1:]...)) // drop
			}
			for _, ins := range inserts {
				str(append(append(append([]byte(nil), b[:i]...), ins...), b[i:]...)) // insert
				if i < len(b) {
					str(append(append(append([]byte(nil), b[:i]...), ins...), b[i+1:]...)) // replace
				}
			}
		}
	}
	// random byte strings and random edits of valid strings
	alphabet := []byte("0123456789-:TZ+.,tz \x00\x80\xc3\xa9\xff")
	for i := 0; i < c.scale(4000, 300000); i++ {
		var b []byte
		switch c.rng.Intn(3) {
		case 0:
			b = make([]byte, c.rng.Intn(45))
			for j := range b {
				b[j] = alphabet[c.rng.Intn(len(alphabet))]
			}
		case 1:
			b = make([]byte, c.rng.Intn(45))
			for j := range b {
				b[j] = byte(c.rng.Intn(256))
			}
		default:
			b = []byte(randRfc(c).render())
			for k := 1 + c.rng.Intn(3); k > 0 && len(b) > 0; k-- {
				j := c.rng.Intn(len(b))
				switch c.rng.Intn(3) {
				case 0:
					b[j] = alphabet[c.rng.Intn(len(alphabet))]
				case 1:
					b = append(b[:j], b[j+1:]...)
				default:
					b = append(b[:j], append([]byte{alphabet[c.rng.Intn(len(alphabet))]}, b[j:]...)...)
				}
			}
		}
		str(b)
	}
	// 8. the length prefix of StringCodec.Read: zero, negative, too long, huge, truncated varint
	body := []byte("2006-01-02T15:04:05.5+01:00")
	fr := func(b []byte) { c.emit(T("frame", H(b))) }
	fr(nil)
	fr([]byte{0})
	fr([]byte{0x80})
	for _, l := range append(boundaryInts(), int64(len(body)), int64(len(body))-1, int64(len(body))+1, -int64(len(body))) {
		fr(append(refVarint(l), body...))
	}
	for i := 0; i <= len(body); i++ {
		fr(append(refVarint(int64(len(body))), body[:i]...))
	}
}

// ---------------------------------------------------------------------------------------------
// C19 generators

func genC19(c *ctx) {
	// days: boundaries, leap days, int32 limits and just outside, random int32
	days := []int64{0, 1, -1, 2, -2, 58, 59, 60, 364, 365, 366, -365, -366, 730, 731, 789, 790, 11016, 11017, 19782, 19783,
		-25567, -25508, -719528, -719527, -719162, 2932896, 2932897, 573, math.MaxInt32, math.MinInt32, math.MaxInt32 - 1, math.MinInt32 + 1,
		math.MaxInt32 + 1, math.MinInt32 - 1, 1 << 40, -(1 << 40)}
	for i := 0; i < c.scale(3000, 300000); i++ {
		switch i % 3 {
		case 0:
			days = append(days, int64(int32(c.rng.Uint32())))
		case 1:
			days = append(days, int64(c.rng.Intn(80000)-40000))
		default:
			days = append(days, int64(int32(c.rng.Uint32()))>>uint(c.rng.Intn(31)))
		}
	}
	for _, d := range days {
		c.emit(T("date-r", I(d)))
	}
	// longs: around 0, around +-2^63/rho, random
	type res struct {
		name string
		mult int64
	}
	ress := []res{{"ns", 1}, {"us", 1000}, {"ms", 1000000}}
	for _, r := range ress {
		ls := []int64{0, 1, -1, 2, -2, 999, 1000, 1001, -999, -1000, -1001, 999999, 1000000, -999999, -1000000, -1000001,
			999999999, 1000000000, -999999999, -1000000000, -1000000001, 1136214245123456789, 1136214245123456, 1136214245123,
			-2208988800000, math.MaxInt64, math.MinInt64, math.MaxInt64 - 1, math.MinInt64 + 1}
		lim := math.MaxInt64 / r.mult
		for d := int64(-3); d <= 3; d++ {
			if r.mult > 1 {
				ls = append(ls, lim+d, -lim+d)
			}
		}
		for i := 0; i < c.scale(2000, 150000); i++ {
			switch i % 4 {
			case 0:
				ls = append(ls, int64(c.rng.Uint64()))
			case 1:
				ls = append(ls, int64(c.rng.Uint64())>>uint(c.rng.Intn(64)))
			case 2:
				ls = append(ls, -(int64(c.rng.Uint64()>>1) >> uint(c.rng.Intn(63))))
			default:
				v := c.rng.Int63n(lim) / int64(1+c.rng.Intn(1000))
				if c.rng.Intn(2) == 0 {
					v = -v
				}
				ls = append(ls, v)
			}
		}
		for _, l := range ls {
			c.emit(T("long-r", A(r.name), I(l)))
		}
	}
	// write direction: times with sub-resolution parts before and after 1970
	type tm struct{ unix, nsec, off int64 }
	var ts []tm
	nsecs := []int64{0, 1, 999, 1000, 1001, 999999, 1000000, 1000001, 500000000, 999000000, 999999000, 999999500, 999999999, 123456789}
	for _, u := range []int64{0, 1, -1, 2, -2, 86399, 86400, 86401, -86399, -86400, -86401, -129600, 129600, 172800, -172800,
		951782400, 951868799, -2208988800, -62135596800, -62167219200, 253402300799, 1136214245,
		9223372036, 9223372037, -9223372036, -9223372037, -9223372038, 9223372036854, 9223372036855, -9223372036855, -9223372036856,
		185542587187199, 185542587187200, -185542587187200, -185542587187201, 185542587100800, 200000000000000, -200000000000000} {
		for _, ns := range nsecs {
			ts = append(ts, tm{u, ns, 0})
		}
		ts = append(ts, tm{u, 5, 3600}, tm{u, 5, -34200})
	}
	for i := 0; i < c.scale(3000, 200000); i++ {
		var u int64
		switch i % 5 {
		case 0:
			u = c.rng.Int63n(2*9223372036) - 9223372036
		case 1:
			u = c.rng.Int63n(8000000000) - 4000000000
		case 2:
			u = c.rng.Int63n(200000) - 100000
		case 3:
			u = c.rng.Int63n(2*185542587187200) - 185542587187200
		default:
			u = c.rng.Int63n(2*9300000000000) - 9300000000000
		}
		ns := c.rng.Int63n(1000000000)
		if c.rng.Intn(3) == 0 {
			ns = nsecs[c.rng.Intn(len(nsecs))]
		}
		off := int64(0)
		if c.rng.Intn(4) == 0 {
			off = int64(c.rng.Intn(2*1439+1)-1439) * 60
		}
		ts = append(ts, tm{u, ns, off})
	}
	for i, t := range ts {
		c.emit(T("date-w", I(t.unix), I(t.nsec), I(t.off)))
		if (t.unix > 9300000000 || t.unix < -9300000000) && i%6 != 0 {
			continue // far outside the int64-nanosecond range: only a sample goes to the long codecs
		}
		for _, r := range ress {
			c.emit(T("long-w", A(r.name), I(t.unix), I(t.nsec), I(t.off)))
		}
	}
}
