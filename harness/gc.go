package main

// Property C11 (search part): GC-stress harness. The collector is not modelled in Lean; here generated encodings are
// decoded into generated targets while collections and same-size-class allocation churn are forced
//
//	(gc after  <type> <schema> <bytes>)   (b) after decode, before the value is inspected
//	(gc filecb <type> <schema> <bytes>)   (a) from inside a ReadFile callback, between records; earlier records are
//	                                          retained (bank not closed) and re-examined at the end
//	(gc encode <type> <schema> <bytes>)   (c) before Write, and during Write from another goroutine with
//	                                          debug.SetGCPercent(1); the written bytes are decoded again and compared
//
// Every examined value is dumped (dumpVal: maps sorted) and compared with the dump of a control decode of the same
// bytes done without pressure. Outcome (ok n) | (changed where) | (builderr) | (decodeerr); a fatal runtime error
// (bad pointer found by the collector, fault in freed memory) kills the process and is isolated by ./check.
//
//	(facts)                                what factgen extracted for the AllocFacts table on this run

import (
	"bufio"
	"bytes"
	"encoding/json"
	"fmt"
	"os"
	"reflect"
	"runtime"
	"runtime/debug"
	"sync/atomic"
	"time"
	"unsafe"

	"github.com/philpearl/avro"
)

func init() { props["C11"] = prop{gen: genC11, exec: execC11} }

var gcSink [][]byte
var gcKeep [][]any

// churn allocates objects in the small size classes (with and without pointers), filled with a recognisable
// pattern, so that storage the collector has wrongly freed is reused and overwritten.
func churn(rounds int) {
	sizes := []int{8, 16, 24, 32, 48, 64, 80, 96, 112, 128, 192, 256, 384, 512}
	for r := 0; r < rounds; r++ {
		runtime.GC()
		gcSink = gcSink[:0]
		for _, sz := range sizes {
			for i := 0; i < 300; i++ {
				b := make([]byte, sz)
				for j := range b {
					b[j] = 0xDB
				}
				gcSink = append(gcSink, b)
			}
		}
		// pointer-carrying objects of the same classes
		keep := make([]any, 0, 600)
		for i := 0; i < 200; i++ {
			m := map[string]int64{"churn": int64(i)}
			s := []string{"churn", "churn2"}
			p := new([4]uintptr)
			for j := range p {
				p[j] = 0xDBDBDBDBDBDBDBDB
			}
			keep = append(keep, m, s, p)
		}
		gcKeep = append(gcKeep[:0], keep)
		runtime.GC()
	}
}

// scribbleBanks draws banks from the pool (through fresh ReadBufs) and overwrites their storage
func scribbleBanks() {
	junk := bytes.Repeat([]byte{0xDB}, 4096)
	types := []reflect.Type{reflect.TypeOf(int64(0)), reflect.TypeOf(float64(0)), reflect.TypeOf(""), reflect.TypeOf([]byte(nil)),
		reflect.TypeOf(unsafe.Pointer(nil)), timeT, reflect.TypeOf([16]byte{}), reflect.TypeOf([4]byte{}), reflect.TypeOf(int32(0)), reflect.TypeOf(false)}
	var bufs []*avro.ReadBuf
	for i := 0; i < 32; i++ {
		r := avro.NewReadBuf(junk)
		bufs = append(bufs, r)
		for j := 0; j < 30; j++ {
			r.NextAsString(120)
		}
		for ti, t := range types {
			for j := 0; j < 48; j++ {
				p := r.Alloc(t)
				if ti < 2 {
					*(*uint64)(p) = 0xDBDBDBDBDBDBDBDB
				}
			}
		}
	}
	runtime.KeepAlive(bufs)
}

// which datum the i-th record of a file holds: neighbours at distance 1 and 2 differ (mostly), so that a bank handed
// out again while a record still lives in it shows
var gcPattern = [4]int{0, 1, 1, 0}

func gcControl(b builtVal, data []byte) (string, bool) {
	dst := reflect.New(b.typ)
	if err := b.codec.Read(avro.NewReadBuf(data), dst.UnsafePointer()); err != nil {
		return "", false
	}
	return dumpVal(dst.Elem()).String(), true
}

func execC11(op string, a []sx) sx {
	switch op {
	case "facts":
		return allocFactsOutcome()
	case "gc":
	default:
		panic("harness: unknown C11 op " + op)
	}
	mode := a[0].atom
	b := build(a[1], a[2])
	if b.err != nil {
		return T("builderr")
	}
	data := a[3].bytes()
	control, ok := gcControl(b, data)
	if !ok {
		return T("decodeerr")
	}
	// a second datum of the same schema: the records of a file differ, so that memory handed out twice shows
	data2, control2 := data, control
	if len(a) > 4 {
		if c2, ok2 := gcControl(b, a[4].bytes()); ok2 {
			data2, control2 = a[4].bytes(), c2
		}
	}
	examined := 0
	which := 0 // index of the record being examined (even: first datum, odd: second)
	check := func(where string, v reflect.Value) *sx {
		examined++
		control := control
		if gcPattern[which%4] == 1 {
			control = control2
		}
		if got := dumpVal(v).String(); got != control {
			if len(got) > 300 {
				got = got[:300]
			}
			out := T("changed", A(where), A(cleanLong(got)))
			return &out
		}
		return nil
	}
	switch mode {
	case "after":
		dst := reflect.New(b.typ)
		if err := b.codec.Read(avro.NewReadBuf(append([]byte(nil), data...)), dst.UnsafePointer()); err != nil {
			return T("decodeerr")
		}
		churn(2)
		if bad := check("after-decode", dst.Elem()); bad != nil {
			return *bad
		}
		churn(1)
		if bad := check("after-second-collection", dst.Elem()); bad != nil {
			return *bad
		}
		runtime.KeepAlive(dst)
	case "filecb", "filedrop":
		sch := schemaOf(a[2])
		js, err := (&sch).Marshal()
		if err != nil {
			return T("builderr")
		}
		sync := bytes.Repeat([]byte{0x42}, 16)
		file := headerBytes([][]metaEntry{{{[]byte("avro.schema"), js}, {[]byte("avro.codec"), []byte("null")}}}, sync)
		const nrec = 4
		for blk := 0; blk < 2; blk++ {
			var payload []byte
			for i := 0; i < nrec/2; i++ {
				if gcPattern[(blk*(nrec/2)+i)%4] == 0 {
					payload = append(payload, data...)
				} else {
					payload = append(payload, data2...)
				}
			}
			file = append(file, frameBytes(nrec/2, payload, sync)...)
		}
		var retained []reflect.Value // shallow copies, as the documentation of ReadFile asks users to make
		var banks []*avro.ResourceBank
		var bad *sx
		n := 0
		err = avro.ReadFile(bufio.NewReader(bytes.NewReader(file)), reflect.New(b.typ).Elem().Interface(), func(val unsafe.Pointer, rb *avro.ResourceBank) error {
			n++
			if n%2 == 1 {
				// before anything else refers to what was decoded: the record the callback is handed must itself keep
				// its slices, maps and pointers alive
				churn(1)
				if bad == nil {
					which = n - 1
					bad = check(fmt.Sprintf("in-callback-record-%d-before-copy", n), reflect.NewAt(b.typ, val).Elem())
				}
			}
			cp := reflect.New(b.typ)
			cp.Elem().Set(reflect.NewAt(b.typ, val).Elem())
			retained = append(retained, cp)
			if mode == "filecb" {
				banks = append(banks, rb)
			}
			// mode filedrop: the record is kept, the bank is simply dropped (never closed): the memory the record
			// points into must stay alive and must not be handed out again
			churn(1)
			if bad == nil {
				which = n - 1
				bad = check(fmt.Sprintf("in-callback-record-%d", n), reflect.NewAt(b.typ, val).Elem())
			}
			// earlier records are still owned by their (unclosed) banks
			for i, p := range retained {
				if bad == nil {
					which = i
					bad = check(fmt.Sprintf("record-%d-during-callback-%d", i+1, n), p.Elem())
				}
			}
			which = 0
			return nil
		})
		if err != nil {
			return T("decodeerr")
		}
		churn(1)
		if mode == "filedrop" {
			// give finalizers (if the banks had any) the time to run: a sentinel's finalizer is queued by the same collections
			sentinel := new([64]byte)
			ran := make(chan struct{})
			runtime.SetFinalizer(sentinel, func(*[64]byte) { close(ran) })
			sentinel = nil
			for k := 0; k < 20; k++ {
				runtime.GC()
				select {
				case <-ran:
					k = 20
				case <-time.After(50 * time.Millisecond):
				}
			}
			time.Sleep(20 * time.Millisecond)
			// whatever is in the bank pool now is taken out and written to: fresh allocations of the common slot types
			// (zeroed by Alloc, the pointer-free ones filled with a pattern) and strings copied into the banks
			scribbleBanks()
			// ... and more decoding
			for k := 0; k < 3; k++ {
				avro.ReadFile(bufio.NewReader(bytes.NewReader(file)), reflect.New(b.typ).Elem().Interface(), func(val unsafe.Pointer, rb *avro.ResourceBank) error {
					rb.Close()
					return nil
				})
				runtime.GC()
			}
		}
		for i, p := range retained {
			if bad == nil {
				which = i
				bad = check(fmt.Sprintf("record-%d-after-file", i+1), p.Elem())
			}
		}
		which = 0
		for _, rb := range banks {
			rb.Close()
		}
		if bad != nil {
			return *bad
		}
		if n != nrec {
			return T("changed", A("record-count"), I(int64(n)))
		}
	case "encode":
		src := reflect.New(b.typ)
		if err := b.codec.Read(avro.NewReadBuf(append([]byte(nil), data...)), src.UnsafePointer()); err != nil {
			return T("decodeerr")
		}
		// baseline: write -> decode -> dump without pressure (values that the library does not write back
		// faithfully, e.g. a nil pointer outside a union, are the business of C01/C13: here only the
		// influence of the collector is judged)
		roundTrip := func() string {
			w := avro.NewWriteBuf(nil)
			b.codec.Write(w, src.UnsafePointer())
			out := append([]byte(nil), w.Bytes()...)
			back := reflect.New(b.typ)
			r := avro.NewReadBuf(out)
			if err := b.codec.Read(r, back.UnsafePointer()); err != nil {
				return "undecodable"
			}
			return fmt.Sprintf("%s rest=%d", dumpVal(back.Elem()).String(), r.Len())
		}
		baseline := roundTrip()
		// A value the library cannot write back faithfully (the decoder leaves a nil pointer inside a struct whose [null, record]
		// union was null; written again, the nil pointer under a non-nullable type emits nothing) gives bytes that are not a valid
		// encoding, and what they decode to - or whether they decode - then depends on the iteration order of the maps in the
		// value. Such a value has no baseline to compare a run under collector pressure with: it is not judged here.
		for i := 0; i < 12; i++ {
			if again := roundTrip(); again != baseline {
				return T("ok", I(0), A("no-stable-baseline"))
			}
		}
		if baseline == "undecodable" {
			return T("ok", I(0), A("no-stable-baseline"))
		}
		churn(1) // before encode
		old := debug.SetGCPercent(1)
		var stop atomic.Bool
		done := make(chan struct{})
		go func() {
			defer close(done)
			for !stop.Load() {
				x := make([][]byte, 0, 64)
				for i := 0; i < 64; i++ {
					x = append(x, bytes.Repeat([]byte{0xDB}, 8+8*(i%16)))
				}
				m := map[string][]byte{"a": x[0], "b": x[1]}
				_ = m
				runtime.GC()
			}
		}()
		var bad *sx
		for k := 0; k < 6 && bad == nil; k++ {
			examined++
			if got := roundTrip(); got != baseline {
				if len(got) > 300 {
					got = got[:300]
				}
				x := T("changed", A(fmt.Sprintf("encode-under-gc-%d", k)), A(cleanLong(got)))
				bad = &x
			}
		}
		stop.Store(true)
		<-done
		debug.SetGCPercent(old)
		if bad == nil {
			bad = check("source-after-encode", src.Elem())
		}
		runtime.KeepAlive(src)
		if bad != nil {
			return *bad
		}
	case "bigmap":
		// a collection DURING the decode of a large, freshly created map: with GC percent 1 the allocations
		// of the decode itself (map growth, strings) start collections while entries are still being added
		for round := 0; round < 3; round++ {
			old := debug.SetGCPercent(1)
			dst := reflect.New(b.typ)
			err := b.codec.Read(avro.NewReadBuf(append([]byte(nil), data...)), dst.UnsafePointer())
			debug.SetGCPercent(old)
			if err != nil {
				return T("decodeerr")
			}
			churn(1)
			if bad := check(fmt.Sprintf("map-decoded-across-collections-%d", round), dst.Elem()); bad != nil {
				return *bad
			}
			runtime.KeepAlive(dst)
		}
	default:
		panic("harness: gc mode " + mode)
	}
	return T("ok", I(int64(examined)))
}

// ---- generation ----

type gcShape struct {
	s      *asch
	target sx
}

func gcForced() []gcShape {
	str := &asch{kind: "string"}
	long := &asch{kind: "long"}
	rec := func(fs ...*asch) *asch {
		r := &asch{kind: "record", recName: "Rg"}
		for i, f := range fs {
			r.names = append(r.names, fmt.Sprintf("f%d", i))
			r.fields = append(r.fields, f)
		}
		return r
	}
	strct := func(name string, ts ...sx) sx {
		out := T("struct", hs(name), hs(""))
		for i, t := range ts {
			out.list = append(out.list, T("field", hs(fmt.Sprintf("F%d", i)), A("true"), hs(fmt.Sprintf("f%d", i)), hs(""), t))
		}
		return out
	}
	mapOf := func(v *asch) *asch { return &asch{kind: "map", items: v} }
	arrOf := func(v *asch) *asch { return &asch{kind: "array", items: v} }
	nullable := func(v *asch) *asch { return &asch{kind: "union", fields: []*asch{{kind: "null"}, v}} }
	inner := rec(str, long)
	innerT := strct("In", tString, T("ptr", tInt(64)))
	ptr := func(t sx) sx { return T("ptr", t) }
	mp := func(t sx) sx { return T("map", tString, t) }
	sl := func(t sx) sx { return T("slice", t) }
	return []gcShape{
		{mapOf(long), ptr(mp(tInt(64)))},                                     // *map[string]T
		{mapOf(str), ptr(mp(tString))},                                       // *map[string]string
		{mapOf(mapOf(str)), mp(mp(tString))},                                 // map[string]map[string]T
		{mapOf(mapOf(long)), ptr(mp(ptr(mp(tInt(64)))))},                     // *map[string]*map[string]T
		{mapOf(arrOf(str)), mp(sl(tString))},                                 // map[string][]T
		{mapOf(arrOf(long)), mp(ptr(sl(tInt(64))))},                          // map[string]*[]T
		{arrOf(str), ptr(sl(tString))},                                       // *[]T
		{arrOf(arrOf(str)), ptr(sl(ptr(sl(tString))))},                       // *[]*[]T
		{&asch{kind: "fixed", n: 4}, ptr(T("array", I(4), T("uint", I(8))))}, // *[4]byte
		{arrOf(&asch{kind: "fixed", n: 16}), sl(ptr(T("array", I(16), T("uint", I(8)))))},
		{arrOf(long), sl(ptr(tInt(64)))},          // []*T
		{arrOf(str), sl(ptr(tString))},            // []*string
		{inner, ptr(innerT)},                      // *struct
		{arrOf(inner), sl(ptr(innerT))},           // []*struct
		{mapOf(inner), mp(ptr(innerT))},           // map[string]*struct
		{mapOf(nullable(inner)), mp(ptr(innerT))}, // map[string]*struct under a nullable union
		{nullable(mapOf(str)), ptr(mp(tString))},  // *map under a nullable union
		{nullable(arrOf(str)), ptr(sl(tString))},
		{nullable(str), ptr(tString)},
		{arrOf(nullable(str)), sl(ptr(tString))},
		{&asch{kind: "string", timeTarget: true}, ptr(A("time"))},
		{arrOf(&asch{kind: "string", timeTarget: true}), sl(A("time"))},
		{mapOf(&asch{kind: "long", logical: "timestamp-micros", timeTarget: true}), mp(A("time"))},
		{nullable(str), T("nullT", A("string"))},
		{arrOf(nullable(str)), sl(T("nullT", A("string")))},
		{mapOf(nullable(long)), mp(T("nullT", A("int")))},
		{mapOf(nullable(&asch{kind: "string", timeTarget: true})), mp(T("nullT", A("time")))},
		{mapOf(&asch{kind: "bytes"}), ptr(mp(tBytes))},
		// allocation ORDER inside one fresh bank: a pointer-free 8-byte value is allocated first, then
		// pointer-carrying 8-byte slots (map pointer, pointer to pointer), 16- and 24-byte headers
		{rec(long, mapOf(str), nullable(str), mapOf(mapOf(str)), &asch{kind: "double"}, arrOf(str), str),
			strct("Ord", ptr(tInt(64)), ptr(mp(tString)), ptr(ptr(tString)), mp(mp(tString)), ptr(A("f64")), ptr(sl(tString)), ptr(tString))},
		{rec(&asch{kind: "double"}, nullable(mapOf(long)), mapOf(arrOf(str))),
			strct("Ord2", ptr(A("f64")), ptr(mp(tInt(64))), mp(ptr(sl(tString))))},
	}
}

// nonEmpty draws a value until collections at the top levels are not empty
func gcValue(w *wgen, s *asch) *aval {
	var v *aval
	for try := 0; try < 20; try++ {
		v = w.value(s)
		if gcWeight(v) >= 2 {
			break
		}
	}
	return v
}

func gcWeight(v *aval) int {
	n := 0
	switch v.kind {
	case "array", "map", "record":
		n += len(v.vs)
		for _, x := range v.vs {
			n += gcWeight(x)
		}
	case "union":
		n += gcWeight(v.vs[0])
	case "bytes":
		if len(v.bs) > 0 {
			n++
		}
	default:
		n++
	}
	return n
}

func timeStrings(w *wgen, s *asch, v *aval) {
	// string leaves targeted at time.Time need RFC 3339 text
	switch s.kind {
	case "string":
		if s.timeTarget {
			v.bs = []byte(fmt.Sprintf("20%02d-0%d-1%dT0%d:%02d:%02d.%dZ", w.rng.Intn(90)+10, 1+w.rng.Intn(9), w.rng.Intn(9), w.rng.Intn(9), w.rng.Intn(60), w.rng.Intn(60), 1+w.rng.Intn(99999)))
		}
	case "record":
		for i, f := range s.fields {
			timeStrings(w, f, v.vs[i])
		}
	case "array", "map":
		for _, x := range v.vs {
			timeStrings(w, s.items, x)
		}
	case "union":
		timeStrings(w, s.fields[v.idx], v.vs[0])
	}
}

func genC11(c *ctx) {
	c.emitf("(facts)")
	modes := []string{"after", "filecb", "filedrop", "encode"}
	emit := func(w *wgen, rs *asch, target sx, v *aval) {
		p := w.plan(rs, v, c.rng.Intn(2) == 0)
		bs := encodeSpec(p, rs, v)
		v2 := gcValue(w, rs)
		timeStrings(w, rs, v2)
		bs2 := encodeSpec(w.plan(rs, v2, c.rng.Intn(2) == 0), rs, v2)
		for _, m := range modes {
			c.emit(T("gc", A(m), target, schemaSx(rs.toSchema()), H(bs), H(bs2)))
		}
	}
	reps := c.scale(3, 25)
	for _, sh := range gcForced() {
		for r := 0; r < reps; r++ {
			w := &wgen{rng: c.rng, maxDepth: 3, noGeneralUnion: true}
			rs := &asch{kind: "record", recName: "Top", names: []string{"f0", "pad"}, fields: []*asch{sh.s, {kind: "long"}}}
			target := T("struct", hs("Top"), hs(""),
				T("field", hs("F0"), A("true"), hs("f0"), hs(""), sh.target),
				T("field", hs("Pad"), A("true"), hs("pad"), hs(""), tInt(64)))
			v := gcValue(w, rs)
			timeStrings(w, rs, v)
			emit(w, rs, target, v)
		}
	}
	// large maps created by the decode itself (collections happen while entries are being added)
	for _, kind := range []string{"string", "map"} {
		val := sPrim("string")
		vt := tString
		if kind == "map" {
			val = sMap(sPrim("long"))
			vt = T("map", tString, tInt(64))
		}
		sch := sRecord("Big", avro.SchemaRecordField{Name: "m", Type: sMap(val)}, avro.SchemaRecordField{Name: "pad", Type: sPrim("long")})
		target := T("struct", hs("Big"), hs(""),
			T("field", hs("M"), A("true"), hs("m"), hs(""), T("map", tString, vt)),
			T("field", hs("Pad"), A("true"), hs("pad"), hs(""), tInt(64)))
		wb := avro.NewWriteBuf(nil)
		n := c.scale(3000, 12000)
		for blk := 0; blk < 3; blk++ {
			wb.Varint(int64(n / 3))
			for i := 0; i < n/3; i++ {
				k := fmt.Sprintf("key-%d-%d", blk, i)
				wb.Varint(int64(len(k)))
				wb.Write([]byte(k))
				if kind == "map" {
					wb.Varint(1)
					wb.Varint(1)
					wb.Write([]byte("x"))
					wb.Varint(int64(i))
					wb.Varint(0)
				} else {
					v := fmt.Sprintf("value-%d-%d-xxxxxxxxxxxxxxxx", blk, i)
					wb.Varint(int64(len(v)))
					wb.Write([]byte(v))
				}
			}
		}
		wb.Varint(0)
		wb.Varint(7)
		c.emit(T("gc", A("bigmap"), target, schemaSx(sch), H(wb.Bytes())))
	}
	// slices whose backing store is exactly one page (4096 bytes), half and double of it: 256 / 128 / 512 strings (16 bytes
	// each) and 512 / 256 / 1024 pointers, in one block and in two
	for _, items := range []int{128, 255, 256, 257, 512, 1024} {
		for _, kind := range []string{"string", "ptr"} {
			for _, split := range []bool{false, true} {
				it, vt := sPrim("string"), tString
				if kind == "ptr" {
					it, vt = sUnion(sPrim("null"), sPrim("long")), T("ptr", tInt(64))
				}
				sch := sRecord("Page", avro.SchemaRecordField{Name: "s", Type: sArray(it)}, avro.SchemaRecordField{Name: "pad", Type: sPrim("long")})
				target := T("struct", hs("Page"), hs(""),
					T("field", hs("S"), A("true"), hs("s"), hs(""), T("slice", vt)),
					T("field", hs("Pad"), A("true"), hs("pad"), hs(""), tInt(64)))
				wb := avro.NewWriteBuf(nil)
				item := func(i int) {
					if kind == "ptr" {
						wb.Varint(1)
						wb.Varint(int64(i * 1000003))
						return
					}
					v := fmt.Sprintf("item-%d-of-a-page-sized-slice", i)
					wb.Varint(int64(len(v)))
					wb.Write([]byte(v))
				}
				first := items
				if split {
					first = items / 2
				}
				wb.Varint(int64(first))
				for i := 0; i < first; i++ {
					item(i)
				}
				if split {
					wb.Varint(int64(items - first))
					for i := first; i < items; i++ {
						item(i)
					}
				}
				wb.Varint(0)
				wb.Varint(7)
				for _, m := range []string{"after", "filecb"} {
					c.emit(T("gc", A(m), target, schemaSx(sch), H(wb.Bytes()), H(wb.Bytes())))
				}
			}
		}
	}
	// random schemas with derived targets (pointers sprinkled in by tgen)
	n := c.scale(150, 3000)
	for i := 0; i < n; i++ {
		w := &wgen{rng: c.rng, maxDepth: 1 + c.rng.Intn(4), noGeneralUnion: true}
		rs := w.record(0)
		v := gcValue(w, rs)
		tg := &tgen{wgen: w, covering: true, wide: true}
		emit(w, rs, tg.structFor(rs), v)
	}
}

func allocFactsOutcome() sx {
	var f struct {
		Facts []struct {
			Pkg, Type, Method, Guard, Form, Arg, Init, Pos string
		} `json:"facts"`
		ReflectMapIterSize int `json:"reflectMapIterSize"`
	}
	for _, p := range []string{os.Getenv("VERIF_ALLOCFACTS"), "../.work/AllocFacts.json", ".work/AllocFacts.json"} {
		if p == "" {
			continue
		}
		b, err := os.ReadFile(p)
		if err != nil {
			continue
		}
		if err := json.Unmarshal(b, &f); err != nil {
			return T("factgen", A("unreadable"))
		}
		other := T("other")
		for _, x := range f.Facts {
			if x.Form == "other" {
				other.list = append(other.list, A(cleanLong(x.Pkg+"."+x.Type+"."+x.Method+"@"+x.Pos+":"+x.Arg)))
			}
		}
		return T("factgen", T("facts", I(int64(len(f.Facts)))), other)
	}
	return T("factgen", A("missing"))
}
