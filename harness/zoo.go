package main

// The zoo: static Go types that reflect.StructOf cannot make (named structs, the same named struct
// in several positions, embedded structs, unexported fields, self-referential types, named
// primitive / slice / map types, generic instantiations, types from other packages), used by the
// C15 / C20 generators (sgen.go). The descriptor of each type (the S-expression the Lean model
// receives) is derived from the reflect.Type itself by `descOf`, so type and descriptor cannot
// drift apart. Hand-written; keep the list `zooList` in sync when adding a type.

import (
	"bytes"
	"encoding/json"
	"math/big"
	"net"
	"net/url"
	"reflect"
	"sync"
	"time"
	"unsafe"

	"github.com/go-json-experiment/json/jsontext"
	"github.com/unravelin/null/v5"
)

// ---- plain named structs, the same struct in several positions (D22) ----

type ZInner struct {
	A int64
	B string
}
type ZOnce struct {
	X ZInner
	N int32
}
type ZTwice struct {
	X ZInner
	Y ZInner
}
type ZTwicePos struct {
	X ZInner
	P *ZInner
	L []ZInner
	M map[string]ZInner
}
type ZTwiceDeep struct {
	A struct{ In ZInner }
	B []map[string]*ZInner
}
type ZTwiceOneExcluded struct {
	X ZInner
	Y ZInner `json:"-"`
	z ZInner
}
type ZAnonTwice struct {
	A struct{ V int64 }
	B struct{ V int64 }
}
type ZNested struct {
	Once ZOnce
	S    string
}
type ZEmpty struct{}
type ZHoldsEmpty struct {
	E  ZEmpty
	PE *ZEmpty
	LE []ZEmpty
}

// ---- embedded structs, unexported fields ----

type ZEmbed struct {
	ZInner
	C bool
}
type ZEmbedPtr struct {
	*ZInner
	C bool
}
type zhidden struct{ H int64 }
type ZEmbedHidden struct {
	zhidden
	C bool
}
type ZEmbedTagged struct {
	ZInner `json:"in,omitempty"`
	C      bool
}
type ZEmbedTwice struct {
	ZInner
	Other ZInner
}
type ZUnexp struct {
	a int64
	B string
	c *ZInner
	D float32
}
type ZAllUnexp struct {
	a, b int64
}
type ZUnexpUnsupported struct {
	u  uint32
	ch chan int
	V  int64
}

// ---- tags ----

type ZTags struct {
	A int64   `json:"a"`
	B int64   `json:"b,omitempty"`
	C string  `json:"c,omitempty,string"`
	D int64   `json:"-"`
	E int64   `json:"-,"`
	F int64   `bq:"-"`
	G float64 `json:",omitempty"`
	H bool    `json:"h,string"`
	I int64   `json:"omitempty"`
	J int64   `json:"j,omitemptyX"`
	K []byte  `json:"k,omitempty" bq:"k"`
	L *int64  `json:"l,omitempty"`
	M int64   `json:"m," bq:""`
	N int64   `json:",string,omitempty"`
	O int64   `json:"o" bq:"-"`
	P int64   `xml:"p"`
}
type ZDupJSON struct {
	A int64 `json:"x"`
	B int64 `json:"x"`
}
type ZDupJSONGoName struct {
	A int64 `json:"B"`
	B string
}
type ZDupJSONThree struct {
	A int64  `json:"n,omitempty"`
	B string `json:"n"`
	C bool   `json:"n,string"`
	D int64
}
type ZDupExcluded struct {
	A int64 `json:"x"`
	B int64 `json:"x" bq:"-"`
	c int64 `json:"x"`
}
type ZDupInner struct {
	V  int64
	In ZDupJSON
}

// ---- self-referential types ----

type ZRecPtr struct {
	V    int64
	Next *ZRecPtr
}
type ZRecSlice struct {
	V    int64
	Kids []ZRecSlice
}
type ZRecMap struct {
	V    int64
	Kids map[string]ZRecMap
}
type ZRecOmit struct {
	V    int64
	Next *ZRecOmit `json:"next,omitempty"`
}
type ZRecLate struct {
	A, B, C int64
	D       []map[string]*ZRecLate
}
type ZMutA struct{ B *ZMutB }
type ZMutB struct{ A *ZMutA }
type ZMutC struct {
	V int64
	D []ZMutD
}
type ZMutD struct{ C map[string]*ZMutC }
type ZMutTwo struct {
	A ZMutA
	B ZMutB
}
type ZRecExcluded struct {
	V    int64
	Next *ZRecExcluded `json:"-"`
}
type ZRecBq struct {
	V    int64
	Next *ZRecBq `bq:"-"`
}
type ZRecUnexp struct {
	V    int64
	next *ZRecUnexp
}
type ZRecAnon struct {
	A struct{ B []map[string]*ZRecAnon }
}
type ZHasRec struct {
	N int64
	R ZRecPtr
}
type ZHasRecExcluded struct {
	N int64
	R *ZRecExcluded
}
type ZRecAfterError struct {
	U    uint32
	Next *ZRecAfterError
}
type ZSelfSlice []ZSelfSlice
type ZHasSelfSlice struct{ F ZSelfSlice }
type ZSelfMap map[string]ZSelfMap
type ZHasSelfMap struct{ F ZSelfMap }
type ZSelfPtr *ZSelfPtr
type ZHasSelfPtr struct{ F ZSelfPtr }
type ZSelfArr [2]*ZSelfArr
type ZHasSelfArr struct{ F ZSelfArr }
type ZViaSlice []ZViaStruct
type ZViaStruct struct{ K ZViaSlice }
type ZSelfPtrSlice []*ZSelfPtrSlice
type ZHasSelfPtrSlice struct {
	V int64
	F *ZSelfPtrSlice `json:"f,omitempty"`
}

// ---- named primitive / slice / map / array types ----

type ZInt int64
type ZInt8 int8
type ZStr string
type ZBool bool
type ZF32 float32
type ZBytes []byte
type ZByte uint8
type ZByteSlice []ZByte
type ZStrs []string
type ZMapNamed map[string]int64
type ZKey string
type ZUint uint32
type ZArr [4]int64
type ZFixed [16]byte
type ZPtrInt *int64
type ZNamedPrims struct {
	I  ZInt
	I8 ZInt8
	S  ZStr
	B  ZBool
	F  ZF32
	By ZBytes
	BS ZByteSlice
	SS ZStrs
	M  ZMapNamed
	MK map[ZKey]int64
	A  ZArr
	Fx ZFixed
	P  ZPtrInt
	PI *ZInt
	LI []ZInt
	OI ZInt `json:"oi,omitempty"`
}
type ZNamedUnsupported struct {
	V int64
	U ZUint
}
type ZNamedTwice struct {
	A ZInt
	B ZInt
	C []ZStrs
	D ZStrs
}

// ---- pointers, maps, arrays ----

type ZPtrs struct {
	P     *int64
	PP    **int64
	PPP   ***string
	PS    *[]int64
	PM    *map[string]int64
	PPS   **[]string
	PSt   *ZInner
	PB    *[]byte
	POmit *int64          `json:"pomit,omitempty"`
	SOmit []int64         `json:"somit,omitempty"`
	MOmit map[string]bool `json:"momit,omitempty"`
	StOm  ZInner          `json:"stom,omitempty"`
	PStOm *ZInner         `json:"pstom,omitempty"`
	LP    []*int64
	MP    map[string]*float64
	PLP   *[]*int64
}
type ZMaps struct {
	A map[string]int64
	B map[string][]byte
	C map[string]map[string]*ZInner
	D map[string][]map[string]string
}
type ZMapIntKey struct {
	V int64
	M map[int]string
}
type ZMapNamedKey struct {
	M map[ZKey]bool
}
type ZMapStructKey struct {
	M map[ZInner]bool
}
type ZArrays struct {
	A [4]int64
	B [16]byte
	C [2][]string
	D [0]int64
	E *[3]bool
}

// ---- unsupported kinds in every position ----

type ZUnsupUint struct{ U uint32 }
type ZUnsupUint8 struct{ U uint8 }
type ZUnsupUintptr struct{ U uintptr }
type ZUnsupComplex struct{ C complex128 }
type ZUnsupChan struct{ Ch chan int }
type ZUnsupFunc struct{ F func() }
type ZUnsupIface struct{ I any }
type ZUnsupError struct{ E error }
type ZUnsupUnsafe struct{ P unsafe.Pointer }
type ZUnsupExcluded struct {
	U uint32 `json:"-"`
	V int64
	W chan int `bq:"-"`
}
type ZUnsupDeep struct {
	V int64
	A []map[string]*uint16
}
type ZUnsupElem struct{ L []uint16 }
type ZUnsupMapVal struct{ M map[string]func() }
type ZUnsupPtr struct{ P *complex64 }
type ZUnsupInInner struct {
	V  int64
	In struct{ I any }
}

// ---- generic instantiations ----

type ZGen[T any] struct{ V T }
type ZGenUse struct {
	A ZGen[int64]
	B ZGen[string]
	C ZGen[int64]
}
type ZGenOnce struct {
	A ZGen[[]byte]
}

// ---- types from other packages ----

type ZTimeAll struct {
	T  time.Time
	P  *time.Time
	L  []time.Time
	M  map[string]time.Time
	O  time.Time  `json:"o,omitempty"`
	PO *time.Time `json:"po,omitempty"`
	PP **time.Time
	PL *[]time.Time
	LP []*time.Time
	MP map[string]*time.Time
	S  struct{ T time.Time }
}
type ZNullAll struct {
	I   null.Int
	B   null.Bool
	F   null.Float
	S   null.String
	T   null.Time
	PI  *null.Int
	LI  []null.Int
	MI  map[string]null.Int
	OI  null.Int     `json:"oi,omitempty"`
	OS  null.String  `json:"os,omitempty"`
	PS  *null.String `json:"ps,omitempty"`
	LT  []null.Time
	MF  map[string]*null.Float
	PPB **null.Bool
}
type ZForeign struct {
	U   url.URL
	D   time.Duration
	IP  net.IP
	Raw json.RawMessage
	Mo  time.Month
	W   time.Weekday `json:"w,omitempty"`
}
type ZForeignPtr struct {
	U  *url.URL
	B  *big.Int
	Bf bytes.Buffer
	L  *time.Location
}
type ZMutexUnexp struct {
	mu sync.Mutex
	V  int64
}
type ZMutexExp struct {
	Mu sync.Mutex
	V  int64
}
type ZDashPkg struct { // a package path with a dash: the namespace replaces it by an underscore
	T  jsontext.Token
	PT *jsontext.Token
}
type ZForeignUnsupported struct {
	V  int64
	HW net.HardwareAddr
	F  big.Float
}

// ---- types with a registration (ids and registrations are in sgen.go) ----

type SGStructA struct {
	A int64
	B string
}
type SGStructB struct {
	A int64
	B string
}
type SGStructC struct {
	A int64
	B string
}
type SGStructD struct {
	A int64
	B string
}
type SGStructU struct { // never registered
	A int64
	B string
}
type SGLongA int64
type SGLongB int64
type SGLongC int64
type SGLongD int64
type SGLongU int64  // never registered
type SGLongNL int64 // registered with a union whose null branch is last
type SGTagE string  // never registered itself; the UNNAMED types []SGTagE and map[string]SGTagE are
type SGStrA string
type SGStrB string
type SGSliceA []int32
type SGSliceB []int32
type SGSliceC []int32
type SGSliceD []int32
type SGSliceU []int32 // never registered
type SGArrB []int32   // registered with an ARRAY schema (the registry must be consulted whatever the schema type)
type SGArrC []int32
type SGMapSchB []int32             // registered with a MAP schema
type SGArrReg []int64              // registered with an array schema (C15 only)
type SGMapReg map[string]string    // registered with a map schema (C15 only)
type SGRecReg struct{ X, Y int64 } // registered with a record schema (C15 only)

type ZRegAll struct {
	S   SGStructA
	PS  *SGStructA
	LS  []SGStructA
	MS  map[string]SGStructA
	OS  SGStructA `json:"os,omitempty"`
	L   SGLongA
	PL  *SGLongA
	OL  SGLongA `json:"ol,omitempty"`
	LL  []SGLongA
	Sl  SGSliceA
	PSl *SGSliceA
	OSl SGSliceA `json:"osl,omitempty"`
	Ar  SGArrReg
	PAr *SGArrReg
	OAr SGArrReg `json:"oar,omitempty"`
	Mp  SGMapReg
	PMp *SGMapReg
	Rc  SGRecReg
	PRc **SGRecReg
	ORc SGRecReg `json:"orc,omitempty"`
}
type ZRegRecTwice struct {
	A SGRecReg
	B SGRecReg
}
type ZRegUnregistered struct {
	S  SGStructU
	L  SGLongU
	Sl SGSliceU
	PS *SGStructU
}
type ZRegCyclicInside struct {
	V    int64
	R    SGStructA
	Next *ZRegCyclicInside
}

// ZUnicode: exportedness is decided by the first LETTER, not the first byte: Ärger, Ωmega, Élan, Ñandú are exported,
// élan and ωmega are not; an untagged field keeps its Go name as JSON name
type ZUnicode struct {
	Ärger int64
	Ωmega string `json:"omega,omitempty"`
	Élan  []byte
	élan  int64   //nolint:unused
	Ñandú float64 `json:"ñandú"`
	ωmega string  //nolint:unused
	Plain bool
}

type zooEntry struct {
	name string
	typ  reflect.Type
}

func ze[T any](name string) zooEntry { return zooEntry{name, reflect.TypeFor[T]()} }

// zooList is the committed list of top-level zoo types (every one of struct kind).
var zooList = []zooEntry{
	ze[ZInner]("ZInner"), ze[ZOnce]("ZOnce"), ze[ZTwice]("ZTwice"), ze[ZTwicePos]("ZTwicePos"),
	ze[ZTwiceDeep]("ZTwiceDeep"), ze[ZTwiceOneExcluded]("ZTwiceOneExcluded"), ze[ZAnonTwice]("ZAnonTwice"),
	ze[ZNested]("ZNested"), ze[ZEmpty]("ZEmpty"), ze[ZHoldsEmpty]("ZHoldsEmpty"),
	ze[ZEmbed]("ZEmbed"), ze[ZEmbedPtr]("ZEmbedPtr"), ze[ZEmbedHidden]("ZEmbedHidden"), ze[ZEmbedTagged]("ZEmbedTagged"),
	ze[ZEmbedTwice]("ZEmbedTwice"), ze[ZUnexp]("ZUnexp"), ze[ZAllUnexp]("ZAllUnexp"), ze[ZUnexpUnsupported]("ZUnexpUnsupported"),
	ze[ZTags]("ZTags"), ze[ZDupJSON]("ZDupJSON"), ze[ZDupJSONGoName]("ZDupJSONGoName"), ze[ZDupJSONThree]("ZDupJSONThree"),
	ze[ZDupExcluded]("ZDupExcluded"), ze[ZDupInner]("ZDupInner"),
	ze[ZRecPtr]("ZRecPtr"), ze[ZRecSlice]("ZRecSlice"), ze[ZRecMap]("ZRecMap"), ze[ZRecOmit]("ZRecOmit"), ze[ZRecLate]("ZRecLate"),
	ze[ZMutA]("ZMutA"), ze[ZMutB]("ZMutB"), ze[ZMutC]("ZMutC"), ze[ZMutD]("ZMutD"), ze[ZMutTwo]("ZMutTwo"),
	ze[ZRecExcluded]("ZRecExcluded"), ze[ZRecBq]("ZRecBq"), ze[ZRecUnexp]("ZRecUnexp"), ze[ZRecAnon]("ZRecAnon"),
	ze[ZHasRec]("ZHasRec"), ze[ZHasRecExcluded]("ZHasRecExcluded"), ze[ZRecAfterError]("ZRecAfterError"),
	ze[ZHasSelfSlice]("ZHasSelfSlice"), ze[ZHasSelfMap]("ZHasSelfMap"), ze[ZHasSelfPtr]("ZHasSelfPtr"), ze[ZHasSelfArr]("ZHasSelfArr"),
	ze[ZViaStruct]("ZViaStruct"), ze[ZHasSelfPtrSlice]("ZHasSelfPtrSlice"),
	ze[ZNamedPrims]("ZNamedPrims"), ze[ZNamedUnsupported]("ZNamedUnsupported"), ze[ZNamedTwice]("ZNamedTwice"),
	ze[ZPtrs]("ZPtrs"), ze[ZMaps]("ZMaps"), ze[ZMapIntKey]("ZMapIntKey"), ze[ZMapNamedKey]("ZMapNamedKey"),
	ze[ZMapStructKey]("ZMapStructKey"), ze[ZArrays]("ZArrays"),
	ze[ZUnsupUint]("ZUnsupUint"), ze[ZUnsupUint8]("ZUnsupUint8"), ze[ZUnsupUintptr]("ZUnsupUintptr"), ze[ZUnsupComplex]("ZUnsupComplex"),
	ze[ZUnsupChan]("ZUnsupChan"), ze[ZUnsupFunc]("ZUnsupFunc"), ze[ZUnsupIface]("ZUnsupIface"), ze[ZUnsupError]("ZUnsupError"),
	ze[ZUnsupUnsafe]("ZUnsupUnsafe"), ze[ZUnsupExcluded]("ZUnsupExcluded"), ze[ZUnsupDeep]("ZUnsupDeep"), ze[ZUnsupElem]("ZUnsupElem"),
	ze[ZUnsupMapVal]("ZUnsupMapVal"), ze[ZUnsupPtr]("ZUnsupPtr"), ze[ZUnsupInInner]("ZUnsupInInner"),
	ze[ZGenUse]("ZGenUse"), ze[ZGenOnce]("ZGenOnce"),
	ze[ZTimeAll]("ZTimeAll"), ze[ZNullAll]("ZNullAll"), ze[ZForeign]("ZForeign"), ze[ZForeignPtr]("ZForeignPtr"),
	ze[ZMutexUnexp]("ZMutexUnexp"), ze[ZMutexExp]("ZMutexExp"), ze[ZForeignUnsupported]("ZForeignUnsupported"), ze[ZDashPkg]("ZDashPkg"),
	ze[ZRegAll]("ZRegAll"), ze[ZRegRecTwice]("ZRegRecTwice"), ze[ZRegUnregistered]("ZRegUnregistered"), ze[ZRegCyclicInside]("ZRegCyclicInside"),
	ze[time.Time]("time.Time"), ze[null.Int]("null.Int"), ze[url.URL]("url.URL"),
	ze[ZUnicode]("ZUnicode"),
}

// leaf types the random generator may place inside reflect.StructOf types
var zooLeaves = []zooEntry{
	ze[ZInner]("ZInner"), ze[ZOnce]("ZOnce"), ze[ZEmpty]("ZEmpty"), ze[ZEmbed]("ZEmbed"), ze[ZUnexp]("ZUnexp"),
	ze[ZDupJSON]("ZDupJSON"), ze[ZRecPtr]("ZRecPtr"), ze[ZMutA]("ZMutA"), ze[ZRecExcluded]("ZRecExcluded"),
	ze[ZSelfSlice]("ZSelfSlice"), ze[ZInt]("ZInt"), ze[ZStr]("ZStr"), ze[ZBytes]("ZBytes"), ze[ZStrs]("ZStrs"),
	ze[ZKey]("ZKey"), ze[ZUint]("ZUint"), ze[ZGen[int64]]("ZGen[int64]"), ze[ZTags]("ZTags"),
}
