package main

// Schema S-expressions <-> avro.Schema values (mirrors AvroModel/SchemaTypes.lean):
//
//	(s typeHex none|(o typeHex logicalHex nameHex nsHex (fields (f nameHex S)...) itemsS valuesS size (symbols hex...)) (union S...))

import "github.com/philpearl/avro"

func schemaOf(d sx) avro.Schema {
	a := d.args()
	out := avro.Schema{Type: a[0].str()}
	if a[1].isL {
		o := a[1].args()
		obj := &avro.SchemaObject{Type: o[0].str(), LogicalType: o[1].str(), Name: o[2].str(), Namespace: o[3].str()}
		for _, f := range o[4].args() {
			fa := f.args()
			obj.Fields = append(obj.Fields, avro.SchemaRecordField{Name: fa[0].str(), Type: schemaOf(fa[1])})
		}
		obj.Items = schemaOf(o[5])
		obj.Values = schemaOf(o[6])
		obj.Size = int(o[7].int())
		for _, s := range o[8].args() {
			obj.Symbols = append(obj.Symbols, s.str())
		}
		out.Object = obj
	}
	for _, u := range a[2].args() {
		out.Union = append(out.Union, schemaOf(u))
	}
	return out
}

func schemaSx(s avro.Schema) sx {
	obj := A("none")
	if s.Object != nil {
		o := s.Object
		fs := T("fields")
		for _, f := range o.Fields {
			fs.list = append(fs.list, T("f", hs(f.Name), schemaSx(f.Type)))
		}
		syms := T("symbols")
		for _, y := range o.Symbols {
			syms.list = append(syms.list, hs(y))
		}
		obj = T("o", hs(o.Type), hs(o.LogicalType), hs(o.Name), hs(o.Namespace), fs, schemaSx(o.Items), schemaSx(o.Values), I(int64(o.Size)), syms)
	}
	un := T("union")
	for _, u := range s.Union {
		un.list = append(un.list, schemaSx(u))
	}
	return T("s", hs(s.Type), obj, un)
}

// convenience constructors for generators
func sPrim(t string) avro.Schema { return avro.Schema{Type: t} }
func sLogical(t, lt string) avro.Schema {
	return avro.Schema{Type: t, Object: &avro.SchemaObject{LogicalType: lt}}
}
func sArray(items avro.Schema) avro.Schema {
	return avro.Schema{Type: "array", Object: &avro.SchemaObject{Items: items}}
}
func sMap(values avro.Schema) avro.Schema {
	return avro.Schema{Type: "map", Object: &avro.SchemaObject{Values: values}}
}
func sFixed(name string, n int) avro.Schema {
	return avro.Schema{Type: "fixed", Object: &avro.SchemaObject{Name: name, Size: n}}
}
func sUnion(bs ...avro.Schema) avro.Schema { return avro.Schema{Type: "union", Union: bs} }
func sRecord(name string, fields ...avro.SchemaRecordField) avro.Schema {
	return avro.Schema{Type: "record", Object: &avro.SchemaObject{Name: name, Fields: fields}}
}
