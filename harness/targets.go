package main

// Derivation of Go target types that are compatible with a tidy schema (different pointer
// indirection, integer width, float width, wrapper types), and of projected targets
// (fields deleted, permuted, added). Also the read-direction generators (C03, C04).

import (
	"bytes"
	"fmt"
	"strings"
)

type tgen struct {
	*wgen
	project  bool // delete / permute / add struct fields
	wide     bool // only widths that always fit (no range errors), for projection comparisons
	covering bool // write direction: every schema field has a Go field
	nstruct  int
}

func tInt(w int) sx { return T("int", I(int64(w))) }

var tString = A("string")
var tBytes = T("slice", T("uint", I(8)))

// target returns a Go type descriptor compatible with s, or ok=false when no Go type can hold
// the datum (general unions of incompatible branches) and the field has to be left out.
func (g *tgen) target(s *asch) (sx, bool) {
	r := g.rng
	ptr := func(t sx) sx {
		if r.Intn(6) == 0 {
			return T("ptr", t)
		}
		return t
	}
	if s.timeTarget {
		if s.kind == "string" && r.Intn(3) == 0 {
			return T("nullT", A("time")), true
		}
		return ptr(A("time")), true
	}
	switch s.kind {
	case "null":
		// a null-typed field decodes into nothing; any Go type is left untouched (several widths)
		return []sx{A("bool"), A("bool"), tInt(64), tString, tInt(32)}[r.Intn(5)], true
	case "boolean":
		return ptr(A("bool")), true
	case "int", "long":
		if g.wide {
			return ptr(tInt([]int{64, 0}[r.Intn(2)])), true
		}
		return ptr(tInt([]int{64, 64, 0, 32, 16}[r.Intn(5)])), true
	case "float":
		return ptr(A("f32")), true
	case "double":
		if r.Intn(3) == 0 && !g.wide {
			return ptr(A("f32")), true
		}
		return ptr(A("f64")), true
	case "bytes":
		return ptr(tBytes), true
	case "string":
		return ptr(tString), true
	case "fixed":
		return ptr(T("array", I(int64(s.n)), T("uint", I(8)))), true
	case "enum":
		return sx{}, false
	case "record":
		return ptr(g.structFor(s)), true
	case "array":
		it, ok := g.target(s.items)
		if !ok {
			return sx{}, false
		}
		return ptr(T("slice", it)), true
	case "map":
		it, ok := g.target(s.items)
		if !ok {
			return sx{}, false
		}
		return ptr(T("map", tString, it)), true
	case "union":
		nonNull := []*asch{}
		for _, b := range s.fields {
			if b.kind != "null" {
				nonNull = append(nonNull, b)
			}
		}
		if len(nonNull) == 0 {
			return A("bool"), true
		}
		if len(s.fields) == 2 && len(nonNull) == 1 {
			x := nonNull[0]
			// wrappers
			if r.Intn(4) == 0 {
				switch x.kind {
				case "long", "int":
					return T("nullT", A("int")), true
				case "boolean":
					return T("nullT", A("bool")), true
				case "double":
					return T("nullT", A("double")), true
				case "float":
					return T("nullT", A("float")), true
				case "string":
					return T("nullT", A("string")), true
				}
			}
			t, ok := g.target(x)
			if !ok {
				return sx{}, false
			}
			if r.Intn(2) == 0 {
				return T("ptr", t), true
			}
			return t, true
		}
		// general union: one Go type must fit every branch
		kinds := map[string]bool{}
		for _, b := range nonNull {
			kinds[b.kind] = true
		}
		only := func(ks ...string) bool {
			for k := range kinds {
				found := false
				for _, x := range ks {
					if k == x {
						found = true
					}
				}
				if !found {
					return false
				}
			}
			return true
		}
		switch {
		case only("int", "long"):
			if g.wide {
				return tInt(64), true
			}
			return tInt([]int{64, 64, 0, 32, 16}[r.Intn(5)]), true
		case only("float", "double"):
			return A("f32"), true
		case only("double"):
			return A("f64"), true
		case only("string"):
			return tString, true
		case only("bytes"):
			return tBytes, true
		case only("boolean"):
			return A("bool"), true
		case only("fixed"):
			// distinct named fixed types of one size fit one byte array
			n := nonNull[0].n
			for _, b := range nonNull {
				if b.n != n {
					return sx{}, false
				}
			}
			return T("array", I(int64(n)), T("uint", I(8))), true
		}
		return sx{}, false
	}
	panic("harness: target kind " + s.kind)
}

// structFor builds a struct descriptor for a record schema. With project=false every field
// that has a target is present, in schema order; with project=true fields are deleted,
// permuted and unrelated fields are added.
func (g *tgen) structFor(s *asch) sx {
	r := g.rng
	g.nstruct++
	type fld struct{ d sx }
	var fs []sx
	n := 0
	field := func(jsonName string, t sx) sx {
		n++
		tag := jsonName
		if r.Intn(5) == 0 || (g.zeroHeavy && r.Intn(5) != 0) {
			tag += ",omitempty"
		}
		return T("field", hs(fmt.Sprintf("F%d", n)), A("true"), hs(tag), hs(""), t)
	}
	for i, f := range s.fields {
		if g.project && r.Intn(3) == 0 {
			continue
		}
		t, ok := g.target(f)
		if !ok {
			continue
		}
		fs = append(fs, field(s.names[i], t))
	}
	if g.project {
		// a Go field whose JSON name differs from a dropped schema field only in case must stay zero
		present := map[string]bool{}
		for _, f := range fs {
			present[jsonNameOf(f)] = true
		}
		for i, nme := range s.names {
			alt := strings.ToUpper(nme)
			if alt == nme {
				alt = strings.ToLower(nme)
			}
			inSchema := false
			for _, o := range s.names {
				if o == alt {
					inSchema = true
				}
			}
			if !present[nme] && !present[alt] && !inSchema && r.Intn(2) == 0 {
				if t, ok := g.target(s.fields[i]); ok {
					fs = append(fs, field(alt, t))
					present[alt] = true
				}
			}
		}
		extra := r.Intn(3)
		for i := 0; i < extra; i++ {
			ts := []sx{A("bool"), tInt(64), tString, T("slice", tInt(32)), T("ptr", A("f64")), T("map", tString, tString)}
			fs = append(fs, field(fmt.Sprintf("extra%d", i), ts[r.Intn(len(ts))]))
		}
		r.Shuffle(len(fs), func(i, j int) { fs[i], fs[j] = fs[j], fs[i] })
	}
	out := T("struct", hs(fmt.Sprintf("T%d", g.nstruct)), hs(""))
	out.list = append(out.list, fs...)
	return out
}

func init() {
	props["RD"] = prop{gen: genRD, exec: execCodec}
}

// genRD: spec-legal encodings of random datums read into compatible targets (C03) and into
// projected targets, plus Skip over the same bytes (C04).
func genRD(c *ctx) {
	n := c.scale(1500, 40000)
	for i := 0; i < n; i++ {
		w := &wgen{rng: c.rng, maxDepth: 1 + c.rng.Intn(c.scale(4, 6)), nullLeaves: true, withTime: i%3 == 0}
		s := w.record(0)
		v := w.value(s)
		p := w.plan(s, v, c.rng.Intn(4) == 0)
		bs := encodeSpec(p, s, v)
		rest := make([]byte, c.rng.Intn(3))
		c.rng.Read(rest)
		bs = append(bs, rest...)
		sch := schemaSx(s.toSchema())
		extra := []sx{s.sx(), v.sx(), p.sx(), I(int64(len(rest)))}
		// full compatible target
		tg := &tgen{wgen: w}
		full := tg.structFor(s)
		c.emit(T("cread", append([]sx{full, sch, H(bs)}, extra...)...))
		c.emit(T("cskip", append([]sx{full, sch, H(bs)}, extra...)...))
		// projected target (wide integer fields so that only projection differs)
		tp := &tgen{wgen: w, project: true, wide: true}
		proj := tp.structFor(s)
		c.emit(T("cread", append([]sx{proj, sch, H(bs)}, extra...)...))
		// a struct with no matching field still consumes the record completely
		if i%10 == 0 {
			empty := T("struct", hs("E"), hs(""), T("field", hs("Zz"), A("true"), hs("no_such_field"), hs(""), tInt(64)))
			c.emit(T("cread", append([]sx{empty, sch, H(bs)}, extra...)...))
		}
	}
	// arrays (and maps) of ZERO-WIDTH items with more items than bytes left, as the last field of the record, read,
	// skipped and projected away; three pointers to a wide fixed value from one bank
	{
		w := &wgen{rng: c.rng, maxDepth: 1}
		emitAll := func(s *asch, v *aval, sized bool) {
			p := w.plan(s, v, sized)
			bs := encodeSpec(p, s, v)
			sch := schemaSx(s.toSchema())
			extra := []sx{s.sx(), v.sx(), p.sx(), I(0)}
			full := (&tgen{wgen: w}).structFor(s)
			c.emit(T("cread", append([]sx{full, sch, H(bs)}, extra...)...))
			c.emit(T("cskip", append([]sx{full, sch, H(bs)}, extra...)...))
			none := T("struct", hs("E"), hs(""), T("field", hs("Zz"), A("true"), hs("no_such_field"), hs(""), tInt(64)))
			c.emit(T("cread", append([]sx{none, sch, H(bs)}, extra...)...))
		}
		nulls := func(n int) []*aval {
			out := make([]*aval, n)
			for i := range out {
				out[i] = &aval{kind: "null"}
			}
			return out
		}
		for _, n := range []int{3, 40, 300} {
			for _, sized := range []bool{false, true} {
				s := &asch{kind: "record", recName: "Zw", names: []string{"id", "zs"}, fields: []*asch{{kind: "long"}, {kind: "array", items: &asch{kind: "null"}}}}
				v := &aval{kind: "record", vs: []*aval{{kind: "int", i: int64(n)}, {kind: "array", vs: nulls(n)}}}
				emitAll(s, v, sized)
				er := &asch{kind: "record", recName: "Empty"}
				s2 := &asch{kind: "record", recName: "Zw2", names: []string{"id", "zs"}, fields: []*asch{{kind: "long"}, {kind: "array", items: er}}}
				recs := make([]*aval, n)
				for i := range recs {
					recs[i] = &aval{kind: "record"}
				}
				emitAll(s2, &aval{kind: "record", vs: []*aval{{kind: "int", i: 7}, {kind: "array", vs: recs}}}, sized)
			}
		}
		// a case that fills a bank with pointer-sized slots, then (same bank, recycled) null-valued maps whose Go
		// element types are wider than a word: the values must be zero whatever the bank held before
		for rep := 0; rep < 3; rep++ {
			sp := &asch{kind: "record", recName: "Pp", names: []string{"ps"}, fields: []*asch{{kind: "array", items: &asch{kind: "long"}}}}
			items := make([]*aval, 40)
			for i := range items {
				items[i] = &aval{kind: "int", i: int64(0x0101010101010101 * (i + 1))}
			}
			vp := &aval{kind: "record", vs: []*aval{{kind: "array", vs: items}}}
			pp := w.plan(sp, vp, false)
			typ := T("struct", hs("Pp"), hs(""), T("field", hs("Ps"), A("true"), hs("ps"), hs(""), T("slice", T("ptr", T("ptr", tInt(64))))))
			c.emit(T("cread", typ, schemaSx(sp.toSchema()), H(encodeSpec(pp, sp, vp)), sp.sx(), vp.sx(), pp.sx(), I(0)))
			sm := &asch{kind: "record", recName: "Mn", names: []string{"m"}, fields: []*asch{{kind: "map", items: &asch{kind: "null"}}}}
			vm := &aval{kind: "record", vs: []*aval{{kind: "map", keys: [][]byte{[]byte("a"), []byte("b"), []byte("c"), []byte("d"), []byte("e")}, vs: nulls(5)}}}
			pm := w.plan(sm, vm, false)
			for _, elem := range []sx{tString, T("struct", hs(""), hs(""), T("field", hs("A"), A("true"), hs("a"), hs(""), tInt(64)), T("field", hs("B"), A("true"), hs("b"), hs(""), tInt(64)), T("field", hs("C"), A("true"), hs("c"), hs(""), tInt(64)))} {
				tym := T("struct", hs("Mn"), hs(""), T("field", hs("M"), A("true"), hs("m"), hs(""), T("map", tString, elem)))
				c.emit(T("cread-recycled", tym, schemaSx(sm.toSchema()), H(encodeSpec(pm, sm, vm)), sm.sx(), vm.sx(), pm.sx(), I(0)))
			}
		}
		fx := func(name string) *asch { return &asch{kind: "fixed", n: 40, fname: name} }
		s3 := &asch{kind: "record", recName: "Fx", names: []string{"a", "b", "c"}, fields: []*asch{fx("fa"), fx("fb"), fx("fc")}}
		mk := func(b byte) *aval { return &aval{kind: "bytes", bs: bytes.Repeat([]byte{b}, 40)} }
		v3 := &aval{kind: "record", vs: []*aval{mk(0x11), mk(0x22), mk(0x33)}}
		arr := T("ptr", T("array", I(40), T("uint", I(8))))
		ty3 := T("struct", hs("P"), hs(""), T("field", hs("A"), A("true"), hs("a"), hs(""), arr), T("field", hs("B"), A("true"), hs("b"), hs(""), arr), T("field", hs("C"), A("true"), hs("c"), hs(""), arr))
		p3 := w.plan(s3, v3, false)
		c.emit(T("cread", ty3, schemaSx(s3.toSchema()), H(encodeSpec(p3, s3, v3)), s3.sx(), v3.sx(), p3.sx(), I(0)))
	}
	// unions with more branches than a one-byte selector can number (0..63), read and skipped, every interesting branch
	for _, k := range []int{65, 70, 130} {
		for _, idx := range []int{0, 1, 63, 64, 65, k - 1} {
			if idx >= k {
				continue
			}
			w := &wgen{rng: c.rng, maxDepth: 1}
			u := &asch{kind: "union"}
			for j := 0; j < k; j++ {
				u.fields = append(u.fields, &asch{kind: "fixed", n: 2, fname: fmt.Sprintf("u%d", j)})
			}
			s := &asch{kind: "record", recName: "Big", names: []string{"u", "tail"}, fields: []*asch{u, {kind: "long"}}}
			v := &aval{kind: "record", vs: []*aval{
				{kind: "union", idx: idx, vs: []*aval{{kind: "bytes", bs: []byte{byte(idx), 0xEE}}}},
				{kind: "int", i: int64(1000 + idx)}}}
			p := w.plan(s, v, false)
			bs := encodeSpec(p, s, v)
			sch := schemaSx(s.toSchema())
			extra := []sx{s.sx(), v.sx(), p.sx(), I(0)}
			full := (&tgen{wgen: w}).structFor(s)
			c.emit(T("cread", append([]sx{full, sch, H(bs)}, extra...)...))
			c.emit(T("cskip", append([]sx{full, sch, H(bs)}, extra...)...))
			tailOnly := T("struct", hs("E"), hs(""), T("field", hs("Tail"), A("true"), hs("tail"), hs(""), tInt(64)))
			c.emit(T("cread", append([]sx{tailOnly, sch, H(bs)}, extra...)...))
		}
	}
}
