module verifharness

go 1.24

toolchain go1.24.0

require (
	github.com/go-json-experiment/json v0.0.0-20250213060926-925ba3f173fa
	github.com/golang/snappy v1.0.0
	github.com/philpearl/avro v0.0.0
	github.com/unravelin/null/v5 v5.0.1
)

require (
	github.com/josharian/intern v1.0.0 // indirect
	github.com/mailru/easyjson v0.7.7 // indirect
)

replace github.com/philpearl/avro => /repo
