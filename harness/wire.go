package main

// Tidy Avro schemas, datums and writer plans, an independent binary encoder, and generators.
// S-expression forms mirror AvroModel/Wire.lean (ASchema, Value, Plan). The Lean driver
// re-computes every encoding with its own `encode`, so this encoder is checked, not trusted.

import (
	"fmt"
	"math/rand"

	"github.com/philpearl/avro"
)

type asch struct {
	fname      string // explicit name of a fixed type (unions of many distinct named types)
	kind       string // null boolean int long float double bytes string fixed enum record array map union
	n          int    // fixed size / enum symbol count
	names      []string
	fields     []*asch // record fields / union branches
	items      *asch   // array items / map values
	logical    string  // logicalType carried into the Go-shaped schema (does not affect the encoding)
	recName    string
	timeTarget bool // the Go target of this leaf is time.Time
}

type aval struct {
	kind string // null bool int float double bytes record array map union
	b    bool
	i    int64
	bits uint64
	bs   []byte
	vs   []*aval
	keys [][]byte
	idx  int
}

type plan struct {
	blocks [][2]int // (count, sized)
	subs   []*plan
}

func (s *asch) sx() sx {
	switch s.kind {
	case "fixed", "enum":
		return T(s.kind, I(int64(s.n)))
	case "record":
		ns, fs := L(), L()
		for i, f := range s.fields {
			ns.list = append(ns.list, hs(s.names[i]))
			fs.list = append(fs.list, f.sx())
		}
		return T("record", ns, fs)
	case "array", "map":
		return T(s.kind, s.items.sx())
	case "union":
		out := T("union")
		for _, b := range s.fields {
			out.list = append(out.list, b.sx())
		}
		return out
	}
	return A(s.kind)
}

func (v *aval) sx() sx {
	switch v.kind {
	case "null":
		return A("null")
	case "bool":
		return T("bool", boolSx(v.b))
	case "int":
		return T("int", I(v.i))
	case "float", "double":
		return T(v.kind, U(v.bits))
	case "bytes":
		return T("bytes", H(v.bs))
	case "record", "array":
		out := T(v.kind)
		for _, x := range v.vs {
			out.list = append(out.list, x.sx())
		}
		return out
	case "map":
		ks, vs := L(), L()
		for i, x := range v.vs {
			ks.list = append(ks.list, H(v.keys[i]))
			vs.list = append(vs.list, x.sx())
		}
		return T("map", ks, vs)
	case "union":
		return T("union", I(int64(v.idx)), v.vs[0].sx())
	}
	panic("harness: bad aval kind " + v.kind)
}

func (p *plan) sx() sx {
	bl, subs := L(), L()
	for _, b := range p.blocks {
		bl.list = append(bl.list, L(I(int64(b[0])), boolSx(b[1] == 1)))
	}
	for _, s := range p.subs {
		subs.list = append(subs.list, s.sx())
	}
	return T("p", bl, subs)
}

// toSchema renders the tidy schema as the library's Go-shaped Schema.
func (s *asch) toSchema() avro.Schema {
	switch s.kind {
	case "fixed":
		if s.fname != "" {
			return sFixed(s.fname, s.n)
		}
		return sFixed(fmt.Sprintf("fx%d", s.n), s.n)
	case "enum":
		syms := make([]string, s.n)
		for i := range syms {
			syms[i] = fmt.Sprintf("S%d", i)
		}
		return avro.Schema{Type: "enum", Object: &avro.SchemaObject{Name: "en", Symbols: syms}}
	case "record":
		var fs []avro.SchemaRecordField
		for i, f := range s.fields {
			fs = append(fs, avro.SchemaRecordField{Name: s.names[i], Type: f.toSchema()})
		}
		name := s.recName
		if name == "" {
			name = "rec"
		}
		return sRecord(name, fs...)
	case "array":
		return sArray(s.items.toSchema())
	case "map":
		return sMap(s.items.toSchema())
	case "union":
		var bs []avro.Schema
		for _, b := range s.fields {
			bs = append(bs, b.toSchema())
		}
		return sUnion(bs...)
	}
	if s.logical != "" {
		return sLogical(s.kind, s.logical)
	}
	return sPrim(s.kind)
}

// fieldPos records where a primitive piece of an encoding sits and what role it plays.
type fieldPos struct {
	off, n int
	role   string // int len count size sel raw
}

// encodeSpecRec encodes like encodeSpec and records the position and role of every varint.
func encodeSpecRec(p *plan, s *asch, v *aval) ([]byte, []fieldPos) {
	var out []byte
	var rec []fieldPos
	var enc func(p *plan, s *asch, v *aval)
	vi := func(x int64, role string) {
		b := refVarint(x)
		rec = append(rec, fieldPos{len(out), len(b), role})
		out = append(out, b...)
	}
	enc = func(p *plan, s *asch, v *aval) {
		switch s.kind {
		case "null":
		case "boolean":
			rec = append(rec, fieldPos{len(out), 1, "raw"})
			if v.b {
				out = append(out, 1)
			} else {
				out = append(out, 0)
			}
		case "int", "long", "enum":
			vi(v.i, "int")
		case "float":
			rec = append(rec, fieldPos{len(out), 4, "raw"})
			out = append(out, refLE(v.bits, 4)...)
		case "double":
			rec = append(rec, fieldPos{len(out), 8, "raw"})
			out = append(out, refLE(v.bits, 8)...)
		case "bytes", "string":
			vi(int64(len(v.bs)), "len")
			out = append(out, v.bs...)
		case "fixed":
			out = append(out, v.bs...)
		case "record":
			for i, f := range s.fields {
				enc(p.subs[i], f, v.vs[i])
			}
		case "array", "map":
			// a map's entries are not pre-allocated from the declared count: huge map counts are safe in every tier
			countRole := "count"
			if s.kind == "map" {
				countRole = "mcount"
			}
			pos := 0
			for _, b := range p.blocks {
				if b[1] == 1 {
					// size prefix: encode the body first to know its size
					var body []byte
					for k := pos; k < pos+b[0]; k++ {
						e := encodeSpec(p.subs[k], s.items, v.vs[k])
						if s.kind == "map" {
							e = append(append(refVarint(int64(len(v.keys[k]))), v.keys[k]...), e...)
						}
						body = append(body, e...)
					}
					vi(-int64(b[0]), countRole)
					vi(int64(len(body)), "size")
				} else {
					vi(int64(b[0]), countRole)
				}
				for k := pos; k < pos+b[0]; k++ {
					if s.kind == "map" {
						vi(int64(len(v.keys[k])), "len")
						out = append(out, v.keys[k]...)
					}
					enc(p.subs[k], s.items, v.vs[k])
				}
				pos += b[0]
			}
			vi(0, countRole)
		case "union":
			vi(int64(v.idx), "sel")
			enc(p.subs[0], s.fields[v.idx], v.vs[0])
		}
	}
	enc(p, s, v)
	return out, rec
}

// encodeSpec is the harness's own Avro binary encoder (specification section "Binary Encoding").
func encodeSpec(p *plan, s *asch, v *aval) []byte {
	switch s.kind {
	case "null":
		return nil
	case "boolean":
		if v.b {
			return []byte{1}
		}
		return []byte{0}
	case "int", "long", "enum":
		return refVarint(v.i)
	case "float":
		return refLE(v.bits, 4)
	case "double":
		return refLE(v.bits, 8)
	case "bytes", "string":
		return append(refVarint(int64(len(v.bs))), v.bs...)
	case "fixed":
		return append([]byte(nil), v.bs...)
	case "record":
		var out []byte
		for i, f := range s.fields {
			out = append(out, encodeSpec(p.subs[i], f, v.vs[i])...)
		}
		return out
	case "array", "map":
		encs := make([][]byte, len(v.vs))
		for i, x := range v.vs {
			e := encodeSpec(p.subs[i], s.items, x)
			if s.kind == "map" {
				e = append(append(refVarint(int64(len(v.keys[i]))), v.keys[i]...), e...)
			}
			encs[i] = e
		}
		var out []byte
		pos := 0
		for _, b := range p.blocks {
			var body []byte
			for _, e := range encs[pos : pos+b[0]] {
				body = append(body, e...)
			}
			pos += b[0]
			if b[1] == 1 {
				out = append(out, refVarint(-int64(b[0]))...)
				out = append(out, refVarint(int64(len(body)))...)
			} else {
				out = append(out, refVarint(int64(b[0]))...)
			}
			out = append(out, body...)
		}
		return append(out, 0)
	case "union":
		return append(refVarint(int64(v.idx)), encodeSpec(p.subs[0], s.fields[v.idx], v.vs[0])...)
	}
	panic("harness: encodeSpec kind " + s.kind)
}

// ---- generators ----

type wgen struct {
	rng            *rand.Rand
	maxDepth       int
	nrec           int
	noGeneralUnion bool
	nullLeaves     bool // null as a field / item / map value type (read-side generators) // only nullable unions (the library has no writer for general unions)
	withTime       bool // logical date/timestamp leaves and string leaves targeted at time.Time
	zeroHeavy      bool // every second scalar leaf value is the zero value; most struct fields are omitempty
}

var primKinds = []string{"boolean", "int", "long", "float", "double", "bytes", "string"}

func (g *wgen) schema(depth int) *asch {
	r := g.rng
	if g.withTime && r.Intn(8) == 0 {
		switch r.Intn(5) {
		case 0:
			return &asch{kind: "long", logical: "timestamp-micros", timeTarget: true}
		case 1:
			return &asch{kind: "long", logical: "timestamp-millis", timeTarget: true}
		case 2:
			return &asch{kind: "long", timeTarget: true}
		case 3:
			return &asch{kind: "int", logical: "date", timeTarget: true}
		default:
			return &asch{kind: "string", timeTarget: true}
		}
	}
	if depth >= g.maxDepth || r.Intn(3) == 0 {
		if g.nullLeaves && r.Intn(14) == 0 {
			return &asch{kind: "null"} // null as a field, item or map value type
		}
		k := r.Intn(len(primKinds) + 1)
		if k == len(primKinds) {
			return &asch{kind: "fixed", n: []int{0, 1, 4, 16}[r.Intn(4)]}
		}
		return &asch{kind: primKinds[k]}
	}
	switch r.Intn(6) {
	case 0:
		return g.record(depth)
	case 1:
		return &asch{kind: "array", items: g.schema(depth + 1)}
	case 2:
		return &asch{kind: "map", items: g.schema(depth + 1)}
	case 3, 4:
		// nullable union, null first or second
		inner := g.schema(depth + 1)
		for inner.kind == "union" {
			inner = g.schema(depth + 1)
		}
		if r.Intn(2) == 0 {
			return &asch{kind: "union", fields: []*asch{{kind: "null"}, inner}}
		}
		return &asch{kind: "union", fields: []*asch{inner, {kind: "null"}}}
	default:
		if g.noGeneralUnion {
			return g.schema(g.maxDepth)
		}
		// single-branch or multi-branch union
		n := 1 + r.Intn(3)
		u := &asch{kind: "union"}
		for i := 0; i < n; i++ {
			b := g.schema(g.maxDepth) // primitive branches
			u.fields = append(u.fields, b)
		}
		if n >= 2 && r.Intn(2) == 0 {
			// a general union that also has a null branch, in any position
			at := r.Intn(len(u.fields) + 1)
			u.fields = append(u.fields[:at], append([]*asch{{kind: "null"}}, u.fields[at:]...)...)
		}
		return u
	}
}

func (g *wgen) record(depth int) *asch {
	n := g.rng.Intn(5)
	if depth == 0 {
		n = 1 + g.rng.Intn(6)
	}
	g.nrec++
	rec := &asch{kind: "record", recName: fmt.Sprintf("R%d", g.nrec)}
	for i := 0; i < n; i++ {
		name := fmt.Sprintf("f%d", i)
		// names that differ only in case are different Avro names: field selection is by exact name
		if i > 0 && g.rng.Intn(6) == 0 {
			name = "F" + rec.names[i-1][1:]
			if rec.names[i-1][0] == 'F' {
				name = fmt.Sprintf("f%d", i)
			}
		}
		rec.names = append(rec.names, name)
		rec.fields = append(rec.fields, g.schema(depth+1))
	}
	return rec
}

func (g *wgen) intVal(bits uint) int64 {
	r := g.rng
	lim := int64(1)<<(bits-1) - 1
	switch r.Intn(6) {
	case 0:
		return 0
	case 1:
		// every power of two of the width, its neighbours, their negatives; powers of ten; the classic small ones
		switch r.Intn(4) {
		case 0:
			return []int64{1, -1, 63, 64, -64, -65, 8191, 8192, -8193}[r.Intn(9)]
		case 1:
			v := int64(1)
			for e := r.Intn(19); e > 0 && v <= lim/10; e-- {
				v *= 10
			}
			if r.Intn(2) == 0 {
				v = -v
			}
			return v
		default:
			v := int64(1)<<uint(r.Intn(int(bits)-1)) + int64(r.Intn(3)-1)
			if r.Intn(2) == 0 {
				v = -v
			}
			if v > lim {
				v = lim
			}
			if v < -lim-1 {
				v = -lim - 1
			}
			return v
		}
	case 2:
		return []int64{lim, -lim - 1, lim - 1, -lim}[r.Intn(4)]
	case 3:
		return int64(int16(r.Uint32()))
	default:
		v := int64(r.Uint64())
		return v >> (64 - bits) >> uint(r.Intn(int(bits)))
	}
}

func (g *wgen) bytesVal(utf bool) []byte {
	r := g.rng
	n := []int{0, 0, 1, 3, 10, 70, 200}[r.Intn(7)]
	// lengths at the steps of the varint encoding of the length (one -> two -> three bytes)
	switch k := r.Intn(100); {
	case k < 8:
		n = []int{63, 64, 65, 127, 128}[r.Intn(5)]
	case k == 8:
		n = []int{8191, 8192, 8193}[r.Intn(3)]
	}
	b := make([]byte, n)
	for i := range b {
		if utf {
			b[i] = byte('a' + r.Intn(26))
		} else {
			b[i] = byte(r.Intn(256))
		}
	}
	return b
}

func (g *wgen) value(s *asch) *aval {
	r := g.rng
	switch s.kind {
	case "null":
		return &aval{kind: "null"}
	case "boolean":
		return &aval{kind: "bool", b: r.Intn(2) == 0}
	case "int":
		return &aval{kind: "int", i: g.intVal(32)}
	case "long":
		return &aval{kind: "int", i: g.intVal(64)}
	case "enum":
		return &aval{kind: "int", i: int64(r.Intn(s.n))}
	case "float":
		return &aval{kind: "float", bits: uint64(g.f32bits())}
	case "double":
		return &aval{kind: "double", bits: g.f64bits()}
	case "bytes":
		return &aval{kind: "bytes", bs: g.bytesVal(false)}
	case "string":
		return &aval{kind: "bytes", bs: g.bytesVal(r.Intn(4) != 0)}
	case "fixed":
		b := make([]byte, s.n)
		r.Read(b)
		return &aval{kind: "bytes", bs: b}
	case "record":
		v := &aval{kind: "record"}
		for _, f := range s.fields {
			v.vs = append(v.vs, g.value(f))
		}
		return v
	case "array", "map":
		n := []int{0, 0, 1, 2, 3, 7}[r.Intn(6)]
		v := &aval{kind: s.kind}
		for i := 0; i < n; i++ {
			v.vs = append(v.vs, g.value(s.items))
			if s.kind == "map" {
				k := []byte(fmt.Sprintf("k%d", r.Intn(5)))
				if r.Intn(3) == 0 {
					k = g.bytesVal(true)
				}
				v.keys = append(v.keys, k)
			}
		}
		return v
	case "union":
		idx := r.Intn(len(s.fields))
		return &aval{kind: "union", idx: idx, vs: []*aval{g.value(s.fields[idx])}}
	}
	panic("harness: value kind " + s.kind)
}

func (g *wgen) f32bits() uint32 {
	specials := []uint32{0, 0x80000000, 0x3f800000, 0xbf800000, 0x7f800000, 0xff800000, 0x7fc00000, 1, 0x7f7fffff}
	if g.rng.Intn(3) == 0 {
		return specials[g.rng.Intn(len(specials))]
	}
	return g.rng.Uint32()
}

func (g *wgen) f64bits() uint64 {
	specials := []uint64{0, 1 << 63, 0x3ff0000000000000, 0x7ff0000000000000, 0xfff0000000000000, 0x7ff8000000000000, 1, 0x7fefffffffffffff,
		0xbff0000000000000, 0x7ff0000000000001 /* signalling NaN */, 0xfff8000000000001, 0x000fffffffffffff /* largest subnormal */, 0x0010000000000000,
		0x47efffffe0000000 /* MaxFloat32 */, 0x47f0000000000000 /* just above it */, 0x36a0000000000000 /* smallest float32 subnormal */, 0x4340000000000000, /* 2^53 */
		0x43e0000000000000 /* 2^63 */, 0xc3e0000000000000, 0x41dfffffffc00000 /* MaxInt32 */, 0x3fb999999999999a /* 0.1 */, 0x4059000000000000 /* 100 */}
	switch g.rng.Intn(12) {
	case 0, 1:
		return 0 // +0 keeps its weight: the value omitempty and the nullable fast paths look at
	case 2:
		return 1 << 63
	case 3, 4, 5:
		return specials[g.rng.Intn(len(specials))]
	}
	return g.rng.Uint64()
}

// plan draws a writer plan for v: random block partitions, with or without size prefixes.
// single=true gives the plan the library's own writer uses (one unsized block).
func (g *wgen) plan(s *asch, v *aval, single bool) *plan {
	p := &plan{}
	switch s.kind {
	case "record":
		for i, f := range s.fields {
			p.subs = append(p.subs, g.plan(f, v.vs[i], single))
		}
	case "array", "map":
		for _, x := range v.vs {
			p.subs = append(p.subs, g.plan(s.items, x, single))
		}
		left := len(v.vs)
		for left > 0 {
			n := left
			if !single && g.rng.Intn(2) == 0 {
				n = 1 + g.rng.Intn(left)
			}
			sized := 0
			if !single && g.rng.Intn(2) == 0 {
				sized = 1
			}
			p.blocks = append(p.blocks, [2]int{n, sized})
			left -= n
		}
	case "union":
		p.subs = []*plan{g.plan(s.fields[v.idx], v.vs[0], single)}
	}
	return p
}
