package main

// C07 / C08: the container reader (avro.ReadFile) on valid, damaged and truncated files.
//
// Abstract case:
//
//	(file T S codec fileHex expect (muts m...))
//
// T / S are the Go type descriptor and the schema (forms of gotypes.go / schemas.go), codec is the
// compression the blocks were really written with, expect is what the generator knows about the file:
//
//	(valid (blk g...)...)      a valid file; per block the Go values of its records (dumpVal form)
//	(validd A (blk d...)...)   a valid file written from Avro datums d of tidy schema A (wire.go forms)
//	(reject why)               a damaged header: must be refused with nothing delivered
//	raw                        no claim (blocks no writer produces); model comparison and no-panic only
//	(biglen)                   like raw, a block declares a length nothing backs: allocation is measured
//
// and each m derives one or more inputs from the file:
//
//	(id) | (cb i) | (flip pos bit) | (fliprange lo hi) | (cuts lo hi)
//
// Outcome: (out (infl e...) (recs d...) (o ids res ov)...) with one `o` per derived input, in order.
// `infl`: for every payload found by an independent walk over the file, what compress/flate or
// snappy + crc32, called directly, make of it: (e decodedHex|none crc). `ov`: the same for payloads
// of the derived input that differ from the file's ((i e)...). `recs`: the distinct records handed
// to the callback (dumpVal form); `ids` refers to them ((r start n) = n consecutive ids, (x id n) = n
// copies). res: ok | err | cberr (the callback's own error value came back) | cbwrapped | (panic msg)
// | overalloc (more than 64 MiB allocated while reading a file that declares an unbacked length)
// | skipped (a deflate payload changed into one that inflates to other bytes: not executed).

import (
	"bufio"
	"bytes"
	"compress/flate"
	"encoding/binary"
	"errors"
	"fmt"
	"hash/crc32"
	"io"
	"math"
	"math/rand"
	"reflect"
	"runtime"
	"strconv"
	"testing/iotest"
	"unsafe"

	"github.com/go-json-experiment/json"
	"github.com/golang/snappy"
	"github.com/philpearl/avro"
)

func init() {
	props["C07"] = prop{gen: genC07, exec: execFile}
	props["C08"] = prop{gen: genC08, exec: execFile}
}

// ---------------------------------------------------------------- record types written with the real encoder

type innerF struct {
	N int64  `json:"n"`
	S string `json:"s"`
}

type recF1 struct {
	ID   int64            `json:"id"`
	Name string           `json:"name"`
	Tags []string         `json:"tags"`
	Attr map[string]int64 `json:"attr"`
	Opt  *string          `json:"opt"`
	F    float64          `json:"f"`
	OK   bool             `json:"ok"`
}

type recF2 struct {
	K  int32             `json:"k"`
	In []innerF          `json:"in"`
	P  *innerF           `json:"p"`
	M  map[string][]byte `json:"m"`
	B  []byte            `json:"b"`
	S  string            `json:"s,omitempty"`
	PI *int64            `json:"pi"`
}

func fileRandStr(rng *rand.Rand, max int) string {
	n := rng.Intn(max + 1)
	b := make([]byte, n)
	for i := range b {
		b[i] = byte('a' + rng.Intn(6))
	}
	return string(b)
}

func genF1(rng *rand.Rand, id int) recF1 {
	r := recF1{ID: int64(id), Name: fileRandStr(rng, 12), Attr: map[string]int64{}, F: float64(rng.Intn(1000)) / 8, OK: rng.Intn(2) == 0}
	for i := rng.Intn(3); i > 0; i-- {
		r.Tags = append(r.Tags, fileRandStr(rng, 5))
	}
	for i := rng.Intn(3); i > 0; i-- {
		r.Attr[fileRandStr(rng, 3)+strconv.Itoa(i)] = rng.Int63n(1<<20) - 1<<19
	}
	if rng.Intn(2) == 0 {
		s := fileRandStr(rng, 8)
		r.Opt = &s
	}
	return r
}

func genF2(rng *rand.Rand, id int) recF2 {
	r := recF2{K: int32(id*7 - 20), M: map[string][]byte{}, S: fileRandStr(rng, 4)}
	for i := rng.Intn(3); i > 0; i-- {
		r.In = append(r.In, innerF{N: rng.Int63n(5000) - 2500, S: fileRandStr(rng, 6)})
	}
	if rng.Intn(2) == 0 {
		r.P = &innerF{N: int64(id), S: fileRandStr(rng, 6)}
	}
	for i := rng.Intn(3); i > 0; i-- {
		b := make([]byte, rng.Intn(6))
		rng.Read(b)
		r.M[fileRandStr(rng, 3)+strconv.Itoa(i)] = b
	}
	r.B = make([]byte, rng.Intn(10))
	rng.Read(r.B)
	if rng.Intn(3) == 0 {
		v := rng.Int63()
		r.PI = &v
	}
	return r
}

// fileDescOf renders a reflect.Type as a type descriptor (inverse of goTypeOf).
func fileDescOf(t reflect.Type) sx {
	switch t {
	case timeT:
		return A("time")
	case nullIntT:
		return T("nullT", A("int"))
	case nullBoolT:
		return T("nullT", A("bool"))
	case nullFloatT:
		return T("nullT", A("double"))
	case nullStringT:
		return T("nullT", A("string"))
	case nullTimeT:
		return T("nullT", A("time"))
	}
	switch t.Kind() {
	case reflect.Bool:
		return A("bool")
	case reflect.Int:
		return T("int", I(0))
	case reflect.Int8, reflect.Int16, reflect.Int32, reflect.Int64:
		return T("int", I(int64(t.Bits())))
	case reflect.Uint8, reflect.Uint16, reflect.Uint32, reflect.Uint64:
		return T("uint", I(int64(t.Bits())))
	case reflect.Float32:
		return A("f32")
	case reflect.Float64:
		return A("f64")
	case reflect.String:
		return A("string")
	case reflect.Slice:
		return T("slice", fileDescOf(t.Elem()))
	case reflect.Array:
		return T("array", I(int64(t.Len())), fileDescOf(t.Elem()))
	case reflect.Map:
		return T("map", fileDescOf(t.Key()), fileDescOf(t.Elem()))
	case reflect.Pointer:
		return T("ptr", fileDescOf(t.Elem()))
	case reflect.Struct:
		out := T("struct", hs(t.Name()), hs(t.PkgPath()))
		for i := 0; i < t.NumField(); i++ {
			f := t.Field(i)
			out.list = append(out.list, T("field", hs(f.Name), boolSx(f.IsExported()), hs(f.Tag.Get("json")), hs(f.Tag.Get("bq")), fileDescOf(f.Type)))
		}
		return out
	}
	panic("harness: fileDescOf " + t.String())
}

// the statically declared record types, by descriptor, so that ReadFile is called with a T{} value
var staticOut = map[string]any{}

func regStatic(v any) sx {
	d := fileDescOf(reflect.TypeOf(v))
	staticOut[d.String()] = v
	return d
}

var (
	descB  = regStatic(recB{})
	descE  = regStatic(recE{})
	descF1 = regStatic(recF1{})
	descF2 = regStatic(recF2{})
)

// ---------------------------------------------------------------- an independent container writer and walker

// compressInd compresses a block with direct library calls (not through the avro package).
func compressInd(codec string, data []byte) []byte {
	switch codec {
	case "deflate":
		var b bytes.Buffer
		w, _ := flate.NewWriter(&b, flate.DefaultCompression)
		w.Write(data)
		w.Close()
		return b.Bytes()
	case "snappy":
		out := snappy.Encode(nil, data)
		return binary.BigEndian.AppendUint32(out, crc32.ChecksumIEEE(data))
	}
	return append([]byte(nil), data...)
}

type metaEntry struct{ k, v []byte }

func lenPrefixed(b []byte) []byte { return append(refVarint(int64(len(b))), b...) }

// headerBytes: magic, the metadata as map blocks, the terminating 0, the sync marker.
func headerBytes(blocks [][]metaEntry, sync []byte) []byte {
	out := []byte{'O', 'b', 'j', 1}
	for _, b := range blocks {
		out = append(out, refVarint(int64(len(b)))...)
		for _, e := range b {
			out = append(out, lenPrefixed(e.k)...)
			out = append(out, lenPrefixed(e.v)...)
		}
	}
	out = append(out, 0)
	return append(out, sync...)
}

func frameBytes(count int64, payload, sync []byte) []byte {
	out := refVarint(count)
	out = append(out, refVarint(int64(len(payload)))...)
	out = append(out, payload...)
	return append(out, sync...)
}

type wblock struct {
	count   int64
	payload []byte
}

// walkFile lists the payloads of the data blocks (count, length, payload fully present), following
// the container layout without checking anything else. No payloads when the header does not parse.
func walkFile(data []byte) []wblock {
	pos := 0
	rd := func() (int64, bool) {
		v, n := binary.Varint(data[pos:])
		if n <= 0 {
			return 0, false
		}
		pos += n
		return v, true
	}
	if len(data) < 4 || !bytes.Equal(data[:4], []byte{'O', 'b', 'j', 1}) {
		return nil
	}
	pos = 4
	for {
		c, ok := rd()
		if !ok {
			return nil
		}
		if c == 0 {
			break
		}
		if c < 0 {
			return nil
		}
		for ; c > 0; c-- {
			for j := 0; j < 2; j++ {
				l, ok := rd()
				if !ok || l < 0 || l > int64(len(data)-pos) {
					return nil
				}
				pos += int(l)
			}
		}
	}
	if len(data)-pos < 16 {
		return nil
	}
	pos += 16
	var out []wblock
	for pos < len(data) {
		c, ok := rd()
		if !ok {
			break
		}
		l, ok := rd()
		if !ok || l < 0 || l > int64(len(data)-pos) {
			break
		}
		out = append(out, wblock{c, data[pos : pos+int(l)]})
		pos += int(l)
		if len(data)-pos < 16 {
			break
		}
		pos += 16
	}
	return out
}

// entryFor: what the decompression libraries, called directly, make of a payload.
func entryFor(codec string, p []byte) sx {
	none := T("e", A("none"), I(0))
	switch codec {
	case "deflate":
		out, err := io.ReadAll(io.LimitReader(flate.NewReader(bytes.NewReader(p)), 1<<26))
		if err != nil {
			return none
		}
		return T("e", H(out), I(0))
	case "snappy":
		if len(p) < 4 {
			return none
		}
		body := p[:len(p)-4]
		if n, err := snappy.DecodedLen(body); err != nil || n > 1<<26 {
			return none
		}
		out, err := snappy.Decode(nil, body)
		if err != nil {
			return none
		}
		return T("e", H(out), I(int64(crc32.ChecksumIEEE(out))))
	}
	return T("e", H(p), I(0))
}

// ---------------------------------------------------------------- execution

var errSentinel = errors.New("callback failed (sentinel)")

type fileRun struct {
	t       reflect.Type
	out     any
	intern  map[string]int
	recs    []sx
	runs    int
	measure bool // report `overalloc` when one ReadFile allocates more than allocLimit
}

// a file of a few hundred bytes: anything near this was allocated from a declared length
const allocLimit = 64 << 20

func newFileRun(td sx) *fileRun {
	fr := &fileRun{intern: map[string]int{}}
	if v, ok := staticOut[td.String()]; ok {
		fr.out = v
		fr.t = reflect.TypeOf(v)
	} else {
		fr.t = goTypeOf(td)
		fr.out = reflect.New(fr.t).Elem().Interface()
	}
	return fr
}

// read runs the real ReadFile; the callback records what it is handed and fails at index failAt.
func (fr *fileRun) read(data []byte, failAt int) (ids []int, res sx) {
	defer func() {
		if r := recover(); r != nil {
			msg := fmt.Sprint(r)
			if len(msg) >= 8 && msg[:8] == "harness:" {
				panic(r)
			}
			res = T("panic", A(clean(msg)))
		}
	}()
	idx := 0
	var m0, m1 runtime.MemStats
	if fr.measure {
		runtime.ReadMemStats(&m0)
	}
	// every other run hands ReadFile a pointer to a struct that still holds an earlier record
	var out any = fr.out
	fr.runs++
	if fr.runs%2 == 0 {
		pv := reflect.New(fr.t)
		fillJunk(pv.Elem(), 0)
		out = pv.Interface()
	}
	// the source varies: a default bufio.Reader, a tiny buffer over a source that returns half of what is asked for (every
	// multi-byte read is short), an odd-sized buffer (markers and payloads straddle refills)
	var src avro.Reader = bufio.NewReader(bytes.NewReader(data))
	switch fr.runs % 3 {
	case 1:
		src = bufio.NewReaderSize(iotest.HalfReader(bytes.NewReader(data)), 16)
	case 2:
		src = bufio.NewReaderSize(bytes.NewReader(data), 37)
	}
	// the error the callback fails with is the caller's business: a private sentinel, or - just as legitimately - one of the
	// errors the reader itself meets at the end of its input
	cbErr := []error{errSentinel, io.EOF, io.ErrUnexpectedEOF, errSentinel}[(fr.runs/3)%4]
	cbFired := false
	err := avro.ReadFile(src, out, func(p unsafe.Pointer, rb *avro.ResourceBank) error {
		d := dumpVal(reflect.NewAt(fr.t, p).Elem())
		key := d.String()
		id, ok := fr.intern[key]
		if !ok {
			id = len(fr.recs)
			fr.intern[key] = id
			fr.recs = append(fr.recs, d)
		}
		ids = append(ids, id)
		rb.Close()
		if idx == failAt {
			cbFired = true
			return cbErr
		}
		idx++
		return nil
	})
	if fr.measure {
		runtime.ReadMemStats(&m1)
		if m1.TotalAlloc-m0.TotalAlloc > allocLimit {
			return ids, A("overalloc")
		}
	}
	switch {
	case err == nil:
		res = A("ok")
	case cbFired && err == cbErr:
		res = A("cberr")
	case cbFired && errors.Is(err, cbErr):
		res = A("cbwrapped")
	default:
		res = A("err")
	}
	return ids, res
}

func idsSx(ids []int) sx {
	out := L()
	for i := 0; i < len(ids); {
		j := i + 1
		for j < len(ids) && ids[j] == ids[j-1]+1 {
			j++
		}
		k := i + 1
		for k < len(ids) && ids[k] == ids[i] {
			k++
		}
		switch {
		case j-i >= 3 && j-i >= k-i:
			out.list = append(out.list, T("r", I(int64(ids[i])), I(int64(j-i))))
			i = j
		case k-i >= 3:
			out.list = append(out.list, T("x", I(int64(ids[i])), I(int64(k-i))))
			i = k
		default:
			out.list = append(out.list, I(int64(ids[i])))
			i++
		}
	}
	return out
}

// containerLayout parses a well-formed container file the harness wrote itself: the offset at which each block starts, its
// payload starts and its payload ends (the 16-byte marker follows); nil when the bytes do not have that shape.
func containerLayout(data []byte) (starts, payloads, payloadEnds []int) {
	pos := 0
	rd := func() (int64, bool) {
		v, n := binary.Varint(data[pos:])
		if n <= 0 {
			return 0, false
		}
		pos += n
		return v, true
	}
	if len(data) < 4 || !bytes.Equal(data[:4], []byte{'O', 'b', 'j', 1}) {
		return nil, nil, nil
	}
	pos = 4
	for {
		c, ok := rd()
		if !ok || c < 0 {
			return nil, nil, nil
		}
		if c == 0 {
			break
		}
		for ; c > 0; c-- {
			for j := 0; j < 2; j++ {
				l, ok := rd()
				if !ok || l < 0 || l > int64(len(data)-pos) {
					return nil, nil, nil
				}
				pos += int(l)
			}
		}
	}
	pos += 16
	for pos < len(data) {
		starts = append(starts, pos)
		if _, ok := rd(); !ok {
			return nil, nil, nil
		}
		l, ok := rd()
		if !ok || l < 0 || l > int64(len(data)-pos-16) {
			return nil, nil, nil
		}
		payloads = append(payloads, pos)
		pos += int(l)
		payloadEnds = append(payloadEnds, pos)
		pos += 16
	}
	if pos != len(data) {
		return nil, nil, nil
	}
	return
}

// execBigCut: (big-cut codec size nrec): a file whose first block holds nrec records and `size` payload bytes (more than the
// reader's 1 MiB chunk) followed by a one-record block, truncated at payloadStart + k*2^20 + {-1,0,1}, at both ends of the
// payload and inside the second block. Outcome (cuts (c pos delivered err)...) with the block layout (layout b0 p0 e0 end).
func execBigCut(a []sx) sx {
	codec, size, nrec := a[0].atom, int(a[1].int()), int(a[2].int())
	w := &bytes.Buffer{}
	e, err := avro.NewEncoderFor[recB](w, avro.Compression(codec), 1<<30)
	if err != nil {
		return T("writeerr", A(clean(err.Error())))
	}
	for i := 0; i < nrec; i++ {
		n := size / nrec
		b := make([]byte, n)
		rand.New(rand.NewSource(int64(size + i))).Read(b) // incompressible: the stored payload stays above the chunk size under every codec
		if err := e.Encode(&recB{B: b}); err != nil {
			return T("writeerr", A(clean(err.Error())))
		}
	}
	if err := e.Flush(); err != nil {
		return T("writeerr", A(clean(err.Error())))
	}
	e.Encode(&recB{B: []byte("tail")})
	e.Flush()
	file := w.Bytes()
	// the layout is read off the bytes (not off the Write calls: how the writer groups its writes is not this property's business)
	bst, pst, pen := containerLayout(file)
	if len(bst) != 2 {
		return T("writeerr", A(fmt.Sprintf("unexpected-block-count-%d", len(bst))))
	}
	b0, p0, pe0, e0, pe1 := bst[0], pst[0], pen[0], bst[1], pen[1]
	var cuts []int
	for k := 1; p0+k<<20 <= pe0+1; k++ {
		for d := -1; d <= 1; d++ {
			cuts = append(cuts, p0+k<<20+d)
		}
	}
	cuts = append(cuts, b0, b0+1, p0-1, p0, p0+1, pe0-1, pe0, pe0+15, e0-1, e0, e0+1, len(file)-17, len(file)-1, len(file))
	out := T("cuts")
	for _, c := range cuts {
		if c < 0 || c > len(file) {
			continue
		}
		got := 0
		rerr := avro.ReadFile(bufio.NewReader(bytes.NewReader(file[:c])), &recB{}, func(val unsafe.Pointer, rb *avro.ResourceBank) error {
			got++
			rb.Close()
			return nil
		})
		out.list = append(out.list, T("c", I(int64(c)), I(int64(got)), boolSx(rerr != nil)))
	}
	return T("bigcut", T("layout", I(int64(b0)), I(int64(p0)), I(int64(pe0)), I(int64(e0)), I(int64(pe1)), I(int64(len(file)))), out)
}

func execFile(op string, a []sx) sx {
	if op == "big-cut" {
		return execBigCut(a)
	}
	if op != "file" {
		panic("harness: unknown file op " + op)
	}
	codec, data := a[2].atom, a[3].bytes()
	fr := newFileRun(a[0])
	fr.measure = a[4].String() == "(reject biglen)" || a[4].String() == "(biglen)"
	base := walkFile(data)
	infl := T("infl")
	for _, b := range base {
		infl.list = append(infl.list, entryFor(codec, b.payload))
	}
	var outs []sx
	baseDec := make([][]byte, len(base))
	for i := range base {
		if d := infl.list[i+1].list[1]; d.atom != "none" {
			baseDec[i] = d.bytes()
		}
	}
	// compactEntry: the entry of a changed payload relative to the file's own entry for that block:
	// (e same crc) same decoded bytes, (e (patch pos byteHex) crc) one byte differs, else the full entry.
	compactEntry := func(i int, e sx) (sx, bool) {
		if i >= len(base) || e.list[1].atom == "none" || infl.list[i+1].list[1].atom == "none" {
			return e, e.list[1].atom != "none"
		}
		d, b := e.list[1].bytes(), baseDec[i]
		if bytes.Equal(d, b) {
			return T("e", A("same"), e.list[2]), false
		}
		if len(d) == len(b) {
			diff, at := 0, 0
			for j := range d {
				if d[j] != b[j] {
					diff++
					at = j
				}
			}
			if diff == 1 {
				return T("e", T("patch", I(int64(at)), H(d[at:at+1])), e.list[2]), true
			}
		}
		return e, true
	}
	one := func(mut []byte, failAt int, walk bool) {
		ov := L()
		garbage := false
		if walk {
			for i, b := range walkFile(mut) {
				if i >= len(base) || !bytes.Equal(b.payload, base[i].payload) {
					e, other := compactEntry(i, entryFor(codec, b.payload))
					ov.list = append(ov.list, L(I(int64(i)), e))
					// A deflate payload that still inflates, but to other bytes, cannot be detected by any
					// reader (the format has no checksum); decoding the garbage is the business of C06 and
					// can exhaust memory (array counts are allocated as declared), so it is not executed.
					if codec == "deflate" && other {
						garbage = true
					}
				}
			}
		}
		if garbage {
			outs = append(outs, T("o", L(), A("skipped"), ov))
			return
		}
		ids, res := fr.read(mut, failAt)
		outs = append(outs, T("o", idsSx(ids), res, ov))
	}
	flip := func(pos, bit int) {
		if pos < 0 || pos >= len(data) {
			panic("harness: flip position outside the file")
		}
		mut := append([]byte(nil), data...)
		mut[pos] ^= 1 << uint(bit)
		one(mut, -1, true)
	}
	for _, m := range a[5].args() {
		ma := m.args()
		switch m.tag() {
		case "id":
			one(data, -1, false)
		case "cb":
			one(data, int(ma[0].int()), false)
		case "flip":
			flip(int(ma[0].int()), int(ma[1].int()))
		case "cbflip":
			// the callback fails at a record AND a bit of the file is flipped (generated: in the sync marker
			// of the block that holds the record)
			pos, bit := int(ma[1].int()), int(ma[2].int())
			mut := append([]byte(nil), data...)
			mut[pos] ^= 1 << uint(bit)
			one(mut, int(ma[0].int()), true)
		case "fill":
			pos, n, v := int(ma[0].int()), int(ma[1].int()), byte(ma[2].int())
			mut := append([]byte(nil), data...)
			for i := pos; i < pos+n && i < len(mut); i++ {
				mut[i] = v
			}
			one(mut, -1, true)
		case "fliprange":
			for pos := int(ma[0].int()); pos < int(ma[1].int()); pos++ {
				for bit := 0; bit < 8; bit++ {
					flip(pos, bit)
				}
			}
		case "cuts":
			for k := int(ma[0].int()); k <= int(ma[1].int()); k++ {
				one(data[:k], -1, false)
			}
		default:
			panic("harness: unknown mutation " + m.String())
		}
	}
	recs := T("recs", fr.recs...)
	return T("out", append([]sx{infl, recs}, outs...)...)
}

// ---------------------------------------------------------------- file generation

type genFile struct {
	td, sd sx
	codec  string
	data   []byte
	expect sx
	// layout of the file as the generator built it: absolute offsets
	hdrLen int
	blocks []genBlock
	nrecs  int
}

type genBlock struct {
	start, payOff, payEnd, end int // count varint at start; payload [payOff,payEnd); sync [payEnd,end)
	count                      int
}

func randSync(rng *rand.Rand) []byte {
	s := make([]byte, 16)
	rng.Read(s)
	return s
}

// layoutOf re-derives the block layout of a well-formed file (used for files the real encoder wrote).
func layoutOf(data []byte) (hdrLen int, blocks []genBlock) {
	bs := walkFile(data)
	// header length: walk again up to the sync marker
	pos := 4
	rd := func() int64 {
		v, n := binary.Varint(data[pos:])
		if n <= 0 {
			panic("harness: layoutOf on a malformed file")
		}
		pos += n
		return v
	}
	for {
		c := rd()
		if c == 0 {
			break
		}
		for ; c > 0; c-- {
			pos += int(rd())
			pos += int(rd())
		}
	}
	pos += 16
	hdrLen = pos
	for _, b := range bs {
		g := genBlock{start: pos, count: int(b.count)}
		rd()
		rd()
		g.payOff = pos
		pos += len(b.payload)
		g.payEnd = pos
		pos += 16
		g.end = pos
		blocks = append(blocks, g)
	}
	if pos != len(data) {
		panic("harness: layoutOf: trailing bytes")
	}
	return hdrLen, blocks
}

// schemaSxFromJSON: (sch S jsonHex) - the schema as the library's JSON parser reads it from the
// header (that parser is a parameter of the model), and the JSON text itself.
func schemaSxFromJSON(js []byte) sx {
	var s avro.Schema
	if err := json.Unmarshal(js, &s); err != nil {
		panic("harness: schema JSON does not parse: " + err.Error())
	}
	return T("sch", schemaSx(s), H(js))
}

// headerSchemaJSON extracts avro.schema from a file the real encoder wrote.
func headerSchemaJSON(data []byte) []byte {
	pos := 4
	rd := func() int64 {
		v, n := binary.Varint(data[pos:])
		pos += n
		return v
	}
	var schema []byte
	for {
		c := rd()
		if c == 0 {
			break
		}
		for ; c > 0; c-- {
			l := int(rd())
			k := string(data[pos : pos+l])
			pos += l
			l = int(rd())
			if k == "avro.schema" {
				schema = data[pos : pos+l]
			}
			pos += l
		}
	}
	return schema
}

// encodeWith writes recs with the real encoder; flush after record i when flushAfter[i].
func encodeWith[R any](codec string, bs int, recs []R, flushAfter map[int]bool) []byte {
	var buf bytes.Buffer
	enc, err := avro.NewEncoderFor[R](&buf, avro.Compression(codec), bs)
	if err != nil {
		panic("harness: encoder: " + err.Error())
	}
	for i := range recs {
		if err := enc.Encode(&recs[i]); err != nil {
			panic("harness: encode: " + err.Error())
		}
		if flushAfter[i] {
			enc.Flush()
		}
	}
	if err := enc.Flush(); err != nil {
		panic("harness: flush: " + err.Error())
	}
	return buf.Bytes()
}

func staticFile[R any](td sx, codec string, bs int, recs []R, flushAfter map[int]bool) *genFile {
	data := encodeWith(codec, bs, recs, flushAfter)
	g := &genFile{td: td, codec: codec, data: data, nrecs: len(recs)}
	g.sd = schemaSxFromJSON(headerSchemaJSON(data))
	g.hdrLen, g.blocks = layoutOf(data)
	exp := T("valid")
	i := 0
	for _, b := range g.blocks {
		blk := T("blk")
		for j := 0; j < b.count; j++ {
			blk.list = append(blk.list, dumpVal(reflect.ValueOf(recs[i])))
			i++
		}
		exp.list = append(exp.list, blk)
	}
	if i != len(recs) {
		panic("harness: encoder lost records")
	}
	g.expect = exp
	return g
}

// genStatic draws a file written by the real encoder for one of the static record types.
func genStatic(rng *rand.Rand, kind int, codec string, maxBytes int) *genFile {
	bs := []int{1, 40, 120, 400, 1500}[rng.Intn(5)]
	flush := map[int]bool{}
	switch kind % 4 {
	case 0: // many small records: blocks of 64 and more records (two-byte count varints)
		n := 140 + rng.Intn(100)
		recs := make([]recB, n)
		for i := range recs {
			recs[i].B = make([]byte, rng.Intn(3))
			rng.Read(recs[i].B)
		}
		return staticFile(descB, codec, 100000, recs, map[int]bool{rng.Intn(n): true})
	case 1:
		n := 1 + rng.Intn(80)
		recs := make([]recE, n)
		for i := 0; i < n; i++ {
			if rng.Intn(6) == 0 {
				flush[i] = true
			}
		}
		return staticFile(descE, codec, bs, recs, flush)
	case 2:
		var recs []recF1
		size := 0
		for size < maxBytes/2 && len(recs) < 60 {
			r := genF1(rng, len(recs))
			size += 30 + len(r.Name)
			recs = append(recs, r)
			if rng.Intn(8) == 0 {
				flush[len(recs)-1] = true
			}
		}
		return staticFile(descF1, codec, bs, recs, flush)
	default:
		var recs []recF2
		size := 0
		for size < maxBytes/2 && len(recs) < 60 {
			r := genF2(rng, len(recs))
			size += 40
			recs = append(recs, r)
			if rng.Intn(8) == 0 {
				flush[len(recs)-1] = true
			}
		}
		return staticFile(descF2, codec, bs, recs, flush)
	}
}

// genSpec draws a file written by the harness's own container writer from spec-level datums:
// random record schema, a compatible target type, any block partition (empty blocks, count 0,
// bytes left over in a block, one record per block, everything in one block).
func genSpec(rng *rand.Rand, codec string, maxBytes int, metaVariant int) *genFile {
	for try := 0; ; try++ {
		w := &wgen{rng: rng, maxDepth: 1 + rng.Intn(3)}
		s := w.record(0)
		tg := &tgen{wgen: w, wide: true}
		td := tg.structFor(s)
		schema := s.toSchema()
		typ := goTypeOf(td)
		if _, err := schema.Codec(reflect.New(typ).Interface()); err != nil {
			continue
		}
		js, err := schema.Marshal()
		if err != nil {
			continue
		}
		sd := schemaSxFromJSON(js)
		sync := randSync(rng)
		// metadata layout variants
		var meta [][]metaEntry
		eS := metaEntry{[]byte("avro.schema"), js}
		eC := metaEntry{[]byte("avro.codec"), []byte(codec)}
		switch metaVariant % 6 {
		case 0:
			meta = [][]metaEntry{{eS, eC}}
		case 1:
			meta = [][]metaEntry{{eC, eS}}
		case 2: // two map blocks, an unrelated entry
			meta = [][]metaEntry{{eC}, {{[]byte("user.note"), []byte("x")}, eS}}
		case 3: // duplicate keys: the later entry wins
			meta = [][]metaEntry{{{[]byte("avro.codec"), []byte("bogus")}, {[]byte("avro.schema"), []byte("{")}, eS}, {eC}}
		case 4: // empty value, empty key
			meta = [][]metaEntry{{{[]byte(""), []byte("")}, eS, eC, {[]byte("k"), nil}}}
		case 5: // no codec entry at all: only legal for uncompressed blocks
			if codec == "null" {
				meta = [][]metaEntry{{eS}}
			} else {
				meta = [][]metaEntry{{eS, eC}}
			}
		}
		g := &genFile{td: td, sd: sd, codec: codec}
		data := headerBytes(meta, sync)
		g.hdrLen = len(data)
		exp := T("validd", s.sx())
		nblocks := 1 + rng.Intn(7)
		style := rng.Intn(4)
		for b := 0; b < nblocks && len(data) < maxBytes; b++ {
			count := 0
			switch style {
			case 0:
				count = rng.Intn(4)
			case 1:
				count = 1
			case 2:
				count = rng.Intn(12)
			default:
				count = []int{0, 1, 2, 70}[rng.Intn(4)]
			}
			var block []byte
			blk := T("blk")
			for i := 0; i < count; i++ {
				v := w.value(s)
				p := w.plan(s, v, rng.Intn(3) == 0)
				block = append(block, encodeSpec(p, s, v)...)
				blk.list = append(blk.list, v.sx())
			}
			if rng.Intn(6) == 0 { // left-over bytes after the declared records
				junk := make([]byte, 1+rng.Intn(5))
				rng.Read(junk)
				block = append(block, junk...)
			}
			payload := compressInd(codec, block)
			gb := genBlock{start: len(data), count: count}
			data = append(data, refVarint(int64(count))...)
			data = append(data, refVarint(int64(len(payload)))...)
			gb.payOff = len(data)
			data = append(data, payload...)
			gb.payEnd = len(data)
			data = append(data, sync...)
			gb.end = len(data)
			g.blocks = append(g.blocks, gb)
			g.nrecs += count
			exp.list = append(exp.list, blk)
		}
		g.data = data
		g.expect = exp
		return g
	}
}

func (g *genFile) emit(c *ctx, muts ...sx) {
	c.emit(T("file", g.td, g.sd, A(g.codec), H(g.data), g.expect, T("muts", muts...)))
}

func rawFile(c *ctx, td, sd sx, codec string, data []byte, expect sx, muts ...sx) {
	if len(muts) == 0 {
		muts = []sx{T("id")}
	}
	c.emit(T("file", td, sd, A(codec), H(data), expect, T("muts", muts...)))
}

var fileCodecs = []string{"null", "deflate", "snappy"}

// damageCases: every C07 corruption site of one valid file.
func (g *genFile) damageCases(c *ctx) {
	// the intact file, and the callback failing at every record index (and one past the end)
	muts := []sx{T("id")}
	for i := 0; i <= g.nrecs; i++ {
		muts = append(muts, T("cb", I(int64(i))))
	}
	g.emit(c, muts...)
	// magic: 4 bytes x 8 bits
	g.emit(c, T("fliprange", I(0), I(4)))
	// the header's sync marker and every block's: 16 bytes x 8 bits each
	g.emit(c, T("fliprange", I(int64(g.hdrLen-16)), I(int64(g.hdrLen))))
	for _, b := range g.blocks {
		g.emit(c, T("fliprange", I(int64(b.payEnd)), I(int64(b.end))))
	}
	// markers that were never written: zero-filled (a preallocated or sparse file) and 0xFF-filled (erased flash)
	var fills []sx
	for _, v := range []int64{0, 255} {
		fills = append(fills, T("fill", I(int64(g.hdrLen-16)), I(16), I(v)))
		for _, b := range g.blocks {
			fills = append(fills, T("fill", I(int64(b.payEnd)), I(16), I(v)))
		}
	}
	g.emit(c, fills...)
	// a callback failure in a block whose trailing marker is damaged: the callback's error comes first
	first := 0
	var both []sx
	for _, b := range g.blocks {
		if b.count > 0 {
			for _, i := range []int{first, first + b.count - 1} {
				both = append(both, T("cbflip", I(int64(i)), I(int64(b.payEnd+c.rng.Intn(16))), I(int64(c.rng.Intn(8)))))
			}
			first += b.count
		}
	}
	if len(both) > 0 {
		g.emit(c, both...)
	}
	if g.codec == "null" {
		return
	}
	for _, b := range g.blocks {
		n := b.payEnd - b.payOff
		body := n
		if g.codec == "snappy" && n >= 4 {
			// the CRC trailer: 4 bytes x 8 bits
			g.emit(c, T("fliprange", I(int64(b.payEnd-4)), I(int64(b.payEnd))))
			body = n - 4
		}
		if body <= 0 {
			continue
		}
		// compressed payload: every bit when small enough, else a sample
		limit := c.scale(24, 2048)
		if body <= limit {
			for lo := 0; lo < body; lo += 32 {
				hi := lo + 32
				if hi > body {
					hi = body
				}
				g.emit(c, T("fliprange", I(int64(b.payOff+lo)), I(int64(b.payOff+hi))))
			}
		} else {
			var ms []sx
			for i := 0; i < c.scale(64, 512); i++ {
				ms = append(ms, T("flip", I(int64(b.payOff+c.rng.Intn(body))), I(int64(c.rng.Intn(8)))))
			}
			g.emit(c, ms...)
		}
	}
}

// headerVariants: damaged and unusual headers around one valid uncompressed file.
func headerVariants(c *ctx, g *genFile) {
	if g.codec != "null" || len(g.blocks) == 0 {
		panic("harness: headerVariants wants an uncompressed file with blocks")
	}
	sync := g.data[g.hdrLen-16 : g.hdrLen]
	body := g.data[g.hdrLen:]
	js := headerSchemaJSON(g.data)
	eS := metaEntry{[]byte("avro.schema"), js}
	mk := func(meta [][]metaEntry) []byte { return append(headerBytes(meta, sync), body...) }
	codecE := func(v string) metaEntry { return metaEntry{[]byte("avro.codec"), []byte(v)} }
	// no avro.codec entry: uncompressed (the expectation stays `valid`)
	rawFile(c, g.td, g.sd, "null", mk([][]metaEntry{{eS}}), g.expect)
	rawFile(c, g.td, g.sd, "null", mk([][]metaEntry{{{[]byte("avro.codecs"), []byte("deflate")}, eS}}), g.expect)
	// missing schema
	rawFile(c, g.td, g.sd, "null", mk([][]metaEntry{{codecE("null")}}), T("reject", A("noschema")))
	rawFile(c, g.td, g.sd, "null", mk(nil), T("reject", A("noschema")))
	rawFile(c, g.td, g.sd, "null", mk([][]metaEntry{{{[]byte("avro.schemas"), js}, codecE("null")}}), T("reject", A("noschema")))
	// unknown codec
	for _, name := range []string{"bzip2", "", "Null", "snappy ", "deflate\x00", "zstandard", "xz"} {
		rawFile(c, g.td, g.sd, "null", mk([][]metaEntry{{eS, codecE(name)}}), T("reject", A("unknowncodec")))
	}
	// later entry wins: a good codec entry overridden by a bad one
	rawFile(c, g.td, g.sd, "null", mk([][]metaEntry{{eS, codecE("null"), codecE("lzma")}}), T("reject", A("unknowncodec")))
	// schema that does not parse / does not fit the type
	for _, bad := range []string{"", "{", "[1,2", `{"type":"record","name":"x","fields":[{"name":"id","type":"nosuchtype"}]}`, `"string"`} {
		rawFile(c, g.td, g.sd, "null", mk([][]metaEntry{{{[]byte("avro.schema"), []byte(bad)}, codecE("null")}}), T("reject", A("badschema")))
	}
	// malformed metadata: negative counts, negative and oversized lengths
	hdrWith := func(metaBytes []byte) []byte {
		out := append([]byte{'O', 'b', 'j', 1}, metaBytes...)
		return append(out, body...)
	}
	entries := append(lenPrefixed(eS.k), lenPrefixed(eS.v)...)
	tail := append([]byte{0}, sync...)
	cat := func(parts ...[]byte) []byte {
		var out []byte
		for _, p := range parts {
			out = append(out, p...)
		}
		return out
	}
	// negative block count (the spec's sized form): not supported by the reader: an error
	rawFile(c, g.td, g.sd, "null", hdrWith(cat(refVarint(-1), refVarint(int64(len(entries))), entries, tail)), T("reject", A("negcount")))
	rawFile(c, g.td, g.sd, "null", hdrWith(cat(refVarint(math.MinInt64), entries, tail)), T("reject", A("negcount")))
	// count larger than the entries present (the file ends there: whatever followed would be read as
	// lengths, and a declared length of up to 2^48 bytes is allocated before anything is read)
	rawFile(c, g.td, g.sd, "null", cat([]byte{'O', 'b', 'j', 1}, refVarint(3), entries), T("reject", A("count")))
	rawFile(c, g.td, g.sd, "null", cat([]byte{'O', 'b', 'j', 1}, refVarint(1<<40), entries, entries), T("reject", A("count")))
	// negative key / value length
	rawFile(c, g.td, g.sd, "null", hdrWith(cat(refVarint(1), refVarint(-1), entries, tail)), T("reject", A("neglen")))
	rawFile(c, g.td, g.sd, "null", hdrWith(cat(refVarint(1), lenPrefixed(eS.k), refVarint(-5), eS.v, tail)), T("reject", A("neglen")))
	rawFile(c, g.td, g.sd, "null", hdrWith(cat(refVarint(1), refVarint(math.MinInt64), entries, tail)), T("reject", A("neglen")))
	// lengths that nothing backs, from moderate to the largest a varint can declare: an error, and
	// (expectation `biglen`) no allocation in proportion to the declaration
	for _, l := range []int64{1 << 20, 1 << 22, 1 << 30, 1 << 33, 1 << 40, 1 << 47, 1<<48 + 1, 1 << 62, math.MaxInt64} {
		rawFile(c, g.td, g.sd, "null", hdrWith(cat(refVarint(1), refVarint(l), entries, tail)), T("reject", A("biglen")))
		rawFile(c, g.td, g.sd, "null", hdrWith(cat(refVarint(1), lenPrefixed(eS.k), refVarint(l), eS.v, tail)), T("reject", A("biglen")))
	}
	// ten-byte and overlong varints as the map count
	rawFile(c, g.td, g.sd, "null", hdrWith(cat(bytes.Repeat([]byte{0x80}, 10), []byte{0}, entries, tail)), T("reject", A("overflow")))
	rawFile(c, g.td, g.sd, "null", hdrWith(cat(bytes.Repeat([]byte{0xff}, 9), []byte{0x02}, entries, tail)), T("reject", A("overflow")))

	// data blocks no writer produces (no claim: model comparison and no-panic)
	hdr := g.data[:g.hdrLen]
	first := g.blocks[0]
	firstFrame := g.data[first.start:first.end]
	payload := g.data[first.payOff:first.payEnd]
	blocksFile := func(parts ...[]byte) []byte { return cat(append([][]byte{hdr}, parts...)...) }
	// negative data block length, after an intact block and at once
	rawFile(c, g.td, g.sd, "null", blocksFile(firstFrame, refVarint(1), refVarint(-1), payload, sync), A("raw"))
	rawFile(c, g.td, g.sd, "null", blocksFile(refVarint(int64(first.count)), refVarint(-int64(len(payload))), payload, sync), A("raw"))
	rawFile(c, g.td, g.sd, "null", blocksFile(refVarint(1), refVarint(math.MinInt64), payload, sync), A("raw"))
	// negative record count: nothing delivered from that block, reading goes on
	rawFile(c, g.td, g.sd, "null", blocksFile(refVarint(-int64(first.count)), refVarint(int64(len(payload))), payload, sync, firstFrame), A("raw"))
	rawFile(c, g.td, g.sd, "null", blocksFile(refVarint(math.MinInt64), refVarint(int64(len(payload))), payload, sync, firstFrame), A("raw"))
	// more records declared than the payload holds
	rawFile(c, g.td, g.sd, "null", blocksFile(refVarint(int64(first.count)+3), refVarint(int64(len(payload))), payload, sync, firstFrame), A("raw"))
	// length beyond the file; a length no allocation can satisfy
	for _, l := range []int64{1 << 21, 1 << 30, 1 << 33, 1 << 40, 1 << 47, 1<<48 + 1, 1 << 62, math.MaxInt64} {
		rawFile(c, g.td, g.sd, "null", blocksFile(firstFrame, refVarint(1), refVarint(l), payload, sync), T("biglen"))
		rawFile(c, g.td, g.sd, "null", blocksFile(refVarint(1), refVarint(l), payload, sync), T("reject", A("biglen")))
	}
	// overlong varints as count and as length
	rawFile(c, g.td, g.sd, "null", blocksFile(firstFrame, bytes.Repeat([]byte{0x80}, 10), []byte{0}, payload, sync), A("raw"))
	rawFile(c, g.td, g.sd, "null", blocksFile(firstFrame, refVarint(1), bytes.Repeat([]byte{0xff}, 9), []byte{0x7f}, payload, sync), A("raw"))
	// trailing garbage after the last block
	rawFile(c, g.td, g.sd, "null", blocksFile(firstFrame, []byte{0x80}), A("raw"))
	rawFile(c, g.td, g.sd, "null", blocksFile(firstFrame, []byte{0x02}), A("raw"))
}

// shortSnappy: snappy files with payloads too short to hold a checksum, and deflate/snappy payloads of garbage.
func shortPayloads(c *ctx, g *genFile) {
	hdr := g.data[:g.hdrLen]
	sync := g.data[g.hdrLen-16 : g.hdrLen]
	for n := 0; n < 5; n++ {
		p := make([]byte, n)
		c.rng.Read(p)
		var data []byte
		data = append(data, hdr...)
		if len(g.blocks) > 0 && n%2 == 0 {
			data = append(data, g.data[g.blocks[0].start:g.blocks[0].end]...)
		}
		data = append(data, frameBytes(1, p, sync)...)
		if len(g.blocks) > 0 {
			data = append(data, g.data[g.blocks[0].start:g.blocks[0].end]...)
		}
		rawFile(c, g.td, g.sd, g.codec, data, A("raw"))
	}
}

func genC07(c *ctx) {
	nStatic := c.scale(12, 36)
	for i := 0; i < nStatic; i++ {
		g := genStatic(c.rng, i, fileCodecs[i%3], c.scale(700, 3000))
		g.damageCases(c)
	}
	nSpec := c.scale(24, 90)
	for i := 0; i < nSpec; i++ {
		g := genSpec(c.rng, fileCodecs[i%3], c.scale(600, 2500), i/3)
		g.damageCases(c)
	}
	// header variants around uncompressed files of two types
	for i := 0; i < c.scale(2, 6); i++ {
		g := genStatic(c.rng, 2+i%2, "null", 400)
		headerVariants(c, g)
	}
	for i := 0; i < c.scale(2, 6); i++ {
		var g *genFile
		for {
			g = genSpec(c.rng, "null", 400, 0)
			if len(g.blocks) > 0 && g.blocks[0].count > 0 {
				break
			}
		}
		headerVariants(c, g)
	}
	for i := 0; i < c.scale(4, 12); i++ {
		shortPayloads(c, genStatic(c.rng, 2+i%2, fileCodecs[1+i%2], 300))
	}
}

func genC08(c *ctx) {
	emitCuts := func(g *genFile) {
		n := len(g.data)
		chunk := 512
		if n/8 > chunk {
			chunk = n / 8
		}
		for lo := 0; lo <= n; lo += chunk {
			hi := lo + chunk - 1
			if hi > n {
				hi = n
			}
			g.emit(c, T("cuts", I(int64(lo)), I(int64(hi))))
		}
	}
	limit := c.scale(4096, 16384)
	for i := 0; i < c.scale(12, 50); i++ {
		var g *genFile
		for {
			g = genStatic(c.rng, i, fileCodecs[i%3], c.scale(5000, 14000))
			if len(g.data) <= limit {
				break
			}
		}
		emitCuts(g)
	}
	for i := 0; i < c.scale(18, 75); i++ {
		var g *genFile
		for {
			g = genSpec(c.rng, fileCodecs[i%3], c.scale(3000, 9000), i/3)
			if len(g.data) <= limit {
				break
			}
		}
		emitCuts(g)
	}
	// a block larger than the reader's 1 MiB chunk, cut at the chunk boundaries inside its payload
	for i, codec := range fileCodecs {
		c.emit(T("big-cut", A(codec), I(int64(2<<20+4096+i)), I(3)))
	}
	if c.thorough {
		for _, codec := range fileCodecs {
			c.emit(T("big-cut", A(codec), I(int64(4<<20+77)), I(1)))
		}
	}
	if c.thorough {
		// a few large files (beyond the 4096-byte buffer of bufio.Reader, up to 64 kB)
		for i := 0; i < 3; i++ {
			n := 100 + c.rng.Intn(120)
			recs := make([]recF1, n)
			for j := range recs {
				recs[j] = genF1(c.rng, j)
				recs[j].Name = fileRandStr(c.rng, 200) + "x"
			}
			g := staticFile(descF1, fileCodecs[i%3], 9000, recs, map[int]bool{n / 3: true})
			if len(g.data) > 65536 {
				continue
			}
			emitCuts(g)
		}
	}
}
