// Command harness runs the real philpearl/avro implementation (from /repo's
// working tree, via the replace directive in go.mod) on generated cases and
// prints one S-expression line per case: the abstract case followed by the
// implementation's canonicalised outcome. The Lean model driver consumes the
// same lines, computes the model's outcome and the spec oracle's verdict.
//
// Every property registers a generator (abstract cases, all randomness from
// one seeded PRNG) and an executor (runs the real library on one abstract
// case). `-replay file` executes the abstract cases of a file instead of
// generating, so a failing case can be re-run alone.
package main

import (
	"bufio"
	"flag"
	"fmt"
	"math/rand"
	"os"
	"sort"
	"strings"
	"time"
)

var hangAfter = 4 * time.Second

// hangLimit: a concurrent mix runs thousands of operations (under the race detector, too)
func hangLimit(op string) time.Duration {
	if op == "mix" {
		return 10 * hangAfter
	}
	return hangAfter
}

type ctx struct {
	rng      *rand.Rand
	thorough bool
	out      *bufio.Writer
	n        int
	start    int
	careful  bool
	dry      bool
	curFile  string
	exec     func(op string, args []sx) sx
}

// emit executes one abstract case and prints it with the implementation outcome appended.
func (c *ctx) emit(cs sx) {
	idx := c.n
	c.n++
	if idx < c.start {
		return
	}
	if c.dry {
		c.out.WriteString(cs.String())
		c.out.WriteByte('\n')
		return
	}
	if c.careful {
		// make sure the case index survives a fatal runtime error in the library
		c.out.Flush()
	}
	var out sx
	if c.careful && c.curFile != "" {
		// remember the case being executed so that a fatal crash can be attributed to it
		os.WriteFile(c.curFile, []byte(cs.String()), 0o644)
	}
	{
		// watchdog: a case that does not finish is reported as (hang); the process then exits
		// with status 75 and ./check resumes after it
		done := make(chan sx, 1)
		go func() { done <- protectSx(func() sx { return c.exec(cs.tag(), cs.args()) }) }()
		select {
		case out = <-done:
		case <-time.After(hangLimit(cs.tag())):
			cs.list = append(cs.list, T("hang"))
			c.out.WriteString(cs.String())
			c.out.WriteByte('\n')
			c.out.Flush()
			os.Exit(75)
		}
	}
	cs.list = append(cs.list, out)
	c.out.WriteString(cs.String())
	c.out.WriteByte('\n')
	if c.careful {
		c.out.Flush()
	}
}

func (c *ctx) emitf(format string, args ...any) {
	x, err := parseSx(fmt.Sprintf(format, args...))
	if err != nil {
		panic("harness: bad case " + fmt.Sprintf(format, args...))
	}
	c.emit(x)
}

// scale picks the quick or thorough size of a generator
func (c *ctx) scale(quick, thorough int) int {
	if c.thorough {
		return thorough
	}
	return quick
}

type prop struct {
	gen  func(*ctx)
	exec func(op string, args []sx) sx
}

var props = map[string]prop{}

func main() {
	seed := flag.Int64("seed", 1, "PRNG seed")
	tier := flag.String("tier", "quick", "quick|thorough")
	outp := flag.String("out", "-", "output file")
	replay := flag.String("replay", "", "file of abstract cases to execute instead of generating")
	start := flag.Int("start", 0, "skip cases before this index (resume after a crash)")
	dry := flag.Bool("dry", false, "print the abstract cases without executing them")
	careful := flag.Bool("careful", false, "flush around every case so a fatal error identifies its case")
	hang := flag.Int("hang", 4, "seconds after which a case counts as hanging")
	flag.Parse()
	hangAfter = time.Duration(*hang) * time.Second
	if flag.NArg() < 1 {
		names := []string{}
		for k := range props {
			names = append(names, k)
		}
		sort.Strings(names)
		fmt.Fprintln(os.Stderr, "usage: harness [-seed n] [-tier t] [-out f] [-replay f] <property>; properties:", names)
		os.Exit(2)
	}
	f := os.Stdout
	if *outp != "-" {
		var err error
		flags := os.O_CREATE | os.O_WRONLY | os.O_TRUNC
		if *start > 0 {
			flags = os.O_CREATE | os.O_WRONLY | os.O_APPEND
		}
		f, err = os.OpenFile(*outp, flags, 0o644)
		if err != nil {
			fmt.Fprintln(os.Stderr, err)
			os.Exit(2)
		}
		defer f.Close()
	}
	p, ok := props[flag.Arg(0)]
	if !ok {
		fmt.Fprintln(os.Stderr, "unknown property", flag.Arg(0))
		os.Exit(2)
	}
	c := &ctx{rng: rand.New(rand.NewSource(*seed)), thorough: *tier == "thorough",
		out: bufio.NewWriterSize(f, 1<<20), start: *start, careful: *careful, dry: *dry, exec: p.exec}
	if *outp != "-" {
		c.curFile = *outp + ".cur"
	}
	if *replay != "" {
		data, err := os.ReadFile(*replay)
		if err != nil {
			fmt.Fprintln(os.Stderr, err)
			os.Exit(2)
		}
		for _, line := range strings.Split(string(data), "\n") {
			if strings.TrimSpace(line) == "" {
				continue
			}
			x, err := parseSx(line)
			if err != nil {
				fmt.Fprintln(os.Stderr, "bad replay line:", err)
				os.Exit(2)
			}
			c.emit(x)
		}
	} else {
		p.gen(c)
	}
	c.out.Flush()
}
