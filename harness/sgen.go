package main

// C15 (schema generation) and C20 (registered custom codecs).
//
// Both run the real library: avro.SchemaForType on a Go type, Schema.Codec on the result, and for
// C20 Codec.Write / Codec.Read of a value through the codec tree that contains instrumented custom
// codecs. The Go type of a case is either a zoo type (zoo.go) or built with reflect.StructOf from
// generated descriptors; its descriptor for the Lean side is always derived from the reflect.Type
// by descOf. Registrations are global and permanent in the library, therefore every case carries
// the registration history of the custom types it contains and exec re-applies it (the final state
// of a type's registration depends only on the history, the last call wins), and a fixed set of
// types (SG*U) is never registered by anybody.
//
// Self-referential types are run in a child process (this binary with SGEN_CHILD set): the library
// must return an error for them, and a regression to unbounded recursion is a fatal stack overflow
// that no recover() can catch.

import (
	"bufio"
	"bytes"
	"encoding/binary"
	"fmt"
	avronull "github.com/philpearl/avro/null"
	avrotime "github.com/philpearl/avro/time"
	"github.com/unravelin/null/v5"
	"os"
	"os/exec"
	"reflect"
	"runtime/debug"
	"sort"
	"strconv"
	"strings"
	"time"
	"unsafe"

	"github.com/philpearl/avro"
)

func init() {
	if os.Getenv("SGEN_CHILD") != "" {
		sgenChild()
	}
	props["C15"] = prop{gen: genC15, exec: execSgen}
	props["C20"] = prop{gen: genC20, exec: execSgen}
}

// ---------------------------------------------------------------------------------------------
// custom (named, registrable) types: static ids

type sgCustom struct {
	typ  reflect.Type
	kind string // wire form of the instrumented codec: long | str | struct | slice | none
}

var (
	sgCustoms  []sgCustom // index = id (0 unused)
	sgCustomID = map[reflect.Type]int{}
	zooByKey   = map[string]reflect.Type{}
	zooByName  = map[string]reflect.Type{}
	_          = sgInitTables()
)

func typeKey(t reflect.Type) string { return t.PkgPath() + "." + t.Name() }

func sgAddCustom(t reflect.Type, kind string) {
	if _, ok := sgCustomID[t]; ok {
		return
	}
	sgCustomID[t] = len(sgCustoms)
	sgCustoms = append(sgCustoms, sgCustom{t, kind})
}

func sgInitTables() bool {
	sgCustoms = []sgCustom{{}}
	for _, e := range []sgCustom{
		{reflect.TypeFor[SGStructA](), "struct"}, {reflect.TypeFor[SGStructB](), "struct"}, {reflect.TypeFor[SGStructC](), "struct"},
		{reflect.TypeFor[SGStructD](), "struct"}, {reflect.TypeFor[SGStructU](), "struct"},
		{reflect.TypeFor[SGLongA](), "long"}, {reflect.TypeFor[SGLongB](), "long"}, {reflect.TypeFor[SGLongC](), "long"},
		{reflect.TypeFor[SGLongD](), "long"}, {reflect.TypeFor[SGLongU](), "long"},
		{reflect.TypeFor[SGStrA](), "str"}, {reflect.TypeFor[SGStrB](), "str"},
		{reflect.TypeFor[SGSliceA](), "slice"}, {reflect.TypeFor[SGSliceB](), "slice"}, {reflect.TypeFor[SGSliceC](), "slice"},
		{reflect.TypeFor[SGSliceD](), "slice"}, {reflect.TypeFor[SGSliceU](), "slice"},
		{reflect.TypeFor[SGArrReg](), "none"}, {reflect.TypeFor[SGMapReg](), "none"}, {reflect.TypeFor[SGRecReg](), "none"},
		{reflect.TypeFor[SGLongNL](), "long"},
		{reflect.TypeFor[SGArrB](), "arr"}, {reflect.TypeFor[SGArrC](), "arr"}, {reflect.TypeFor[SGMapSchB](), "mapsch"},
		{reflect.TypeFor[SGTagE](), "none"},
		// unnamed types can be registered too (PkgPath() == "" and Name() == "")
		{reflect.TypeFor[[]SGTagE](), "none"}, {reflect.TypeFor[map[string]SGTagE](), "none"},
	} {
		sgAddCustom(e.typ, e.kind)
	}
	// every other named non-struct type reachable from the zoo gets an id too (never registered)
	seen := map[reflect.Type]bool{}
	var walk func(t reflect.Type)
	walk = func(t reflect.Type) {
		if seen[t] {
			return
		}
		seen[t] = true
		if sgIsLib(t) {
			return
		}
		if t.Name() != "" && t.PkgPath() != "" {
			if t.Kind() == reflect.Struct {
				zooByKey[typeKey(t)] = t
			} else {
				sgAddCustom(t, "none")
			}
		}
		switch t.Kind() {
		case reflect.Pointer, reflect.Slice, reflect.Array:
			walk(t.Elem())
		case reflect.Map:
			walk(t.Key())
			walk(t.Elem())
		case reflect.Struct:
			for i := 0; i < t.NumField(); i++ {
				walk(t.Field(i).Type)
			}
		}
	}
	for _, e := range zooList {
		zooByName[e.name] = e.typ
		walk(e.typ)
	}
	for _, e := range zooLeaves {
		walk(e.typ)
	}
	return true
}

func sgIsLib(t reflect.Type) bool {
	switch t {
	case timeT, nullIntT, nullBoolT, nullFloatT, nullStringT, nullTimeT:
		return true
	}
	return false
}

// ---------------------------------------------------------------------------------------------
// reflect.Type -> descriptor (the Lean GoType), with an environment for back-references

type describer struct {
	path    []reflect.Type
	refs    map[reflect.Type]bool
	customs map[int]bool
}

func (d *describer) of(t reflect.Type) sx {
	switch t {
	case timeT:
		return A("time")
	case nullIntT:
		return T("nullT", A("int"))
	case nullBoolT:
		return T("nullT", A("bool"))
	case nullFloatT:
		return T("nullT", A("double"))
	case nullStringT:
		return T("nullT", A("string"))
	case nullTimeT:
		return T("nullT", A("time"))
	}
	named := t.Name() != "" && t.PkgPath() != ""
	if named {
		for _, p := range d.path {
			if p == t {
				d.refs[t] = true
				return T("ref", hs(typeKey(t)))
			}
		}
		d.path = append(d.path, t)
		defer func() { d.path = d.path[:len(d.path)-1] }()
	}
	var u sx
	switch t.Kind() {
	case reflect.Bool:
		u = A("bool")
	case reflect.Int, reflect.Int64:
		u = T("int", I(64))
	case reflect.Int8:
		u = T("int", I(8))
	case reflect.Int16:
		u = T("int", I(16))
	case reflect.Int32:
		u = T("int", I(32))
	case reflect.Uint, reflect.Uint64, reflect.Uintptr:
		u = T("uint", I(64))
	case reflect.Uint8:
		u = T("uint", I(8))
	case reflect.Uint16:
		u = T("uint", I(16))
	case reflect.Uint32:
		u = T("uint", I(32))
	case reflect.Float32:
		u = A("f32")
	case reflect.Float64:
		u = A("f64")
	case reflect.Complex64, reflect.Complex128:
		u = A("complex")
	case reflect.String:
		u = A("string")
	case reflect.Interface:
		u = A("iface")
	case reflect.Chan:
		u = A("chan")
	case reflect.Func:
		u = A("func")
	case reflect.UnsafePointer:
		u = A("unsafeptr")
	case reflect.Slice:
		u = T("slice", d.of(t.Elem()))
	case reflect.Array:
		u = T("array", I(int64(t.Len())), d.of(t.Elem()))
	case reflect.Map:
		u = T("map", d.of(t.Key()), d.of(t.Elem()))
	case reflect.Pointer:
		u = T("ptr", d.of(t.Elem()))
	case reflect.Struct:
		u = T("struct", hs(t.Name()), hs(t.PkgPath()))
		for i := 0; i < t.NumField(); i++ {
			f := t.Field(i)
			u.list = append(u.list, T("field", hs(f.Name), boolSx(f.IsExported()), hs(f.Tag.Get("json")), hs(f.Tag.Get("bq")), d.of(f.Type)))
		}
	default:
		panic("harness: descOf: kind " + t.Kind().String())
	}
	if id, ok := sgCustomID[t]; ok {
		d.customs[id] = true
		return T("custom", I(int64(id)), u)
	}
	if named && t.Kind() != reflect.Struct {
		panic("harness: named non-struct type without an id: " + t.String())
	}
	return u
}

// descOf returns the descriptor of t, the environment of the named types it refers back to, and the
// ids of the custom types that occur.
func descOf(t reflect.Type) (sx, sx, []int) {
	d := &describer{refs: map[reflect.Type]bool{}, customs: map[int]bool{}}
	root := d.of(t)
	env := T("env")
	done := map[reflect.Type]bool{}
	for {
		var todo []reflect.Type
		for r := range d.refs {
			if !done[r] {
				todo = append(todo, r)
			}
		}
		if len(todo) == 0 {
			break
		}
		sort.Slice(todo, func(i, j int) bool { return typeKey(todo[i]) < typeKey(todo[j]) })
		for _, r := range todo {
			done[r] = true
			d.path = nil
			env.list = append(env.list, L(hs(typeKey(r)), d.of(r)))
		}
	}
	sort.Slice(env.list[1:], func(i, j int) bool { return env.list[1+i].list[0].atom < env.list[1+j].list[0].atom })
	var ids []int
	for id := range d.customs {
		ids = append(ids, id)
	}
	sort.Ints(ids)
	return root, env, ids
}

// sgTypeOf is the inverse of descOf for the types the generators make: anonymous structs are rebuilt
// with reflect.StructOf, named structs and custom types are looked up.
func sgTypeOf(d sx) reflect.Type {
	if !d.isL {
		if d.atom == "unsafeptr" {
			return reflect.TypeOf(unsafe.Pointer(nil))
		}
		return goTypeOf(d)
	}
	a := d.args()
	switch d.tag() {
	case "slice":
		return reflect.SliceOf(sgTypeOf(a[0]))
	case "array":
		return reflect.ArrayOf(int(a[0].int()), sgTypeOf(a[1]))
	case "map":
		return reflect.MapOf(sgTypeOf(a[0]), sgTypeOf(a[1]))
	case "ptr":
		return reflect.PointerTo(sgTypeOf(a[0]))
	case "custom":
		return sgCustoms[a[0].int()].typ
	case "struct":
		if a[0].str() != "" {
			t, ok := zooByKey[a[1].str()+"."+a[0].str()]
			if !ok {
				panic("harness: unknown named struct " + a[0].str())
			}
			return t
		}
		var fs []reflect.StructField
		for _, f := range a[2:] {
			fa := f.args()
			tag := ""
			if j := fa[2].str(); j != "" {
				tag = "json:" + strconv.Quote(j)
			}
			if b := fa[3].str(); b != "" {
				if tag != "" {
					tag += " "
				}
				tag += "bq:" + strconv.Quote(b)
			}
			fs = append(fs, reflect.StructField{Name: fa[0].str(), Type: sgTypeOf(fa[4]), Tag: reflect.StructTag(tag)})
		}
		return reflect.StructOf(fs)
	}
	return goTypeOf(d)
}

// ---------------------------------------------------------------------------------------------
// instrumented custom codecs

type sgEvent struct {
	id, inst int
	op       string
}

var sgLog []sgEvent

type sgCodec struct {
	id, inst int
	typ      reflect.Type
	kind     string
}

type sgStructVal struct {
	A int64
	B string
}

func (c *sgCodec) rdString(r *avro.ReadBuf) (string, error) {
	l, err := r.Varint()
	if err != nil {
		return "", err
	}
	if l < 0 {
		return "", fmt.Errorf("negative length")
	}
	b, err := r.Next(int(l))
	if err != nil {
		return "", err
	}
	return string(append([]byte(nil), b...)), nil
}

func (c *sgCodec) Read(r *avro.ReadBuf, p unsafe.Pointer) error {
	sgLog = append(sgLog, sgEvent{c.id, c.inst, "R"})
	switch c.kind {
	case "long":
		v, err := r.Varint()
		if err != nil {
			return err
		}
		*(*int64)(p) = v
	case "str":
		s, err := c.rdString(r)
		if err != nil {
			return err
		}
		*(*string)(p) = s
	case "struct":
		s, err := c.rdString(r)
		if err != nil {
			return err
		}
		as, bs, ok := strings.Cut(s, ":")
		if !ok {
			return fmt.Errorf("bad custom struct encoding")
		}
		n, err := strconv.ParseInt(as, 10, 64)
		if err != nil {
			return err
		}
		*(*sgStructVal)(p) = sgStructVal{n, bs}
	case "slice", "arr", "mapsch":
		s, err := c.rdString(r)
		if err != nil {
			return err
		}
		if len(s)%4 != 0 {
			return fmt.Errorf("bad custom slice encoding")
		}
		out := make([]int32, len(s)/4)
		for i := range out {
			out[i] = int32(binary.LittleEndian.Uint32([]byte(s[4*i:])))
		}
		*(*[]int32)(p) = out
	default:
		return fmt.Errorf("custom codec of kind %s cannot read", c.kind)
	}
	return nil
}

func (c *sgCodec) Skip(r *avro.ReadBuf) error {
	sgLog = append(sgLog, sgEvent{c.id, c.inst, "S"})
	if c.kind == "long" {
		_, err := r.Varint()
		return err
	}
	_, err := c.rdString(r)
	return err
}

func (c *sgCodec) New(r *avro.ReadBuf) unsafe.Pointer { return r.Alloc(c.typ) }

func (c *sgCodec) Omit(p unsafe.Pointer) bool {
	switch c.kind {
	case "long":
		return *(*int64)(p) == 0
	case "str":
		return *(*string)(p) == ""
	case "struct":
		return *(*sgStructVal)(p) == sgStructVal{}
	case "slice", "arr", "mapsch":
		return len(*(*[]int32)(p)) == 0
	}
	return false
}

func (c *sgCodec) wrString(w *avro.WriteBuf, s string) {
	w.Varint(int64(len(s)))
	w.Write([]byte(s))
}

func (c *sgCodec) Write(w *avro.WriteBuf, p unsafe.Pointer) {
	sgLog = append(sgLog, sgEvent{c.id, c.inst, "W"})
	switch c.kind {
	case "long":
		w.Varint(*(*int64)(p))
	case "str":
		c.wrString(w, *(*string)(p))
	case "struct":
		v := *(*sgStructVal)(p)
		c.wrString(w, strconv.FormatInt(v.A, 10)+":"+v.B)
	case "slice", "arr", "mapsch":
		v := *(*[]int32)(p)
		b := make([]byte, 4*len(v))
		for i, x := range v {
			binary.LittleEndian.PutUint32(b[4*i:], uint32(x))
		}
		c.wrString(w, string(b))
	default:
		panic("custom codec of kind " + c.kind + " cannot write")
	}
}

// applyRegs re-applies a registration history: (rs id schema) = RegisterSchema, (rc id inst accHex) =
// Register with an instrumented builder that accepts the schemas of type acc.
// userTimeCodec: a deliberately different representation of time.Time (whole seconds as a long)
type userTimeCodec struct{}

func (userTimeCodec) Read(r *avro.ReadBuf, p unsafe.Pointer) error {
	v, err := r.Varint()
	if err != nil {
		return err
	}
	*(*time.Time)(p) = time.Unix(v, 0).UTC()
	return nil
}
func (userTimeCodec) Skip(r *avro.ReadBuf) error               { _, err := r.Varint(); return err }
func (userTimeCodec) New(r *avro.ReadBuf) unsafe.Pointer       { return r.Alloc(timeT) }
func (userTimeCodec) Omit(p unsafe.Pointer) bool               { return false }
func (userTimeCodec) Write(w *avro.WriteBuf, p unsafe.Pointer) { w.Varint((*time.Time)(p).Unix()) }

// countingTimeCodec / countingIntCodec: user codecs for time.Time and null.Int that count their writes
type countingTimeCodec struct{ userTimeCodec }

var userWrites int

func (c countingTimeCodec) Write(w *avro.WriteBuf, p unsafe.Pointer) {
	userWrites++
	c.userTimeCodec.Write(w, p)
}

type countingNullIntCodec struct{}

func (countingNullIntCodec) Read(r *avro.ReadBuf, p unsafe.Pointer) error {
	v, err := r.Varint()
	*(*null.Int)(p) = null.IntFrom(v)
	return err
}
func (countingNullIntCodec) Skip(r *avro.ReadBuf) error         { _, err := r.Varint(); return err }
func (countingNullIntCodec) New(r *avro.ReadBuf) unsafe.Pointer { return r.Alloc(nullIntT) }
func (countingNullIntCodec) Omit(p unsafe.Pointer) bool         { return false }
func (countingNullIntCodec) Write(w *avro.WriteBuf, p unsafe.Pointer) {
	userWrites++
	w.Varint((*null.Int)(p).Int64)
}

// c20Scenario: a user's registration for one library type must survive the (re-)registration of the codecs of
// ANOTHER library package ("nothing else is affected", "the most recent registration wins")
func c20Scenario(name string) sx {
	userWrites = 0
	type holder struct {
		T time.Time `json:"t"`
		N null.Int  `json:"n"`
	}
	fieldType := func(field string) string {
		s, err := avro.SchemaForType(holder{})
		if err != nil || s.Object == nil {
			return "schema-error"
		}
		for _, f := range s.Object.Fields {
			if f.Name == field {
				return schemaSx(f.Type).String()
			}
		}
		return "no-field"
	}
	encode := func() int {
		userWrites = 0
		s, err := avro.SchemaForType(holder{})
		if err != nil {
			return -1
		}
		c, err := s.Codec(holder{})
		if err != nil {
			return -1
		}
		h := holder{T: time.Unix(1700000000, 0).UTC(), N: null.IntFrom(7)}
		w := avro.NewWriteBuf(nil)
		c.Write(w, unsafe.Pointer(&h))
		return userWrites
	}
	switch name {
	case "user-time-then-null-package":
		avro.RegisterSchema(timeT, sPrim("long"))
		avro.Register(timeT, func(s avro.Schema, typ reflect.Type, omit bool) (avro.Codec, error) { return countingTimeCodec{}, nil })
		before := fieldType("t")
		avronull.RegisterCodecs()
		if after := fieldType("t"); after != before {
			return T("violated", hs("registering the null.* codecs changed the schema of time.Time from "+before+" to "+after))
		}
		if n := encode(); n != 1 {
			return T("violated", hs(fmt.Sprintf("after registering the null.* codecs the user's time.Time codec wrote %d of 1 values", n)))
		}
	case "user-nullint-then-time-package":
		avro.RegisterSchema(nullIntT, sPrim("long"))
		avro.Register(nullIntT, func(s avro.Schema, typ reflect.Type, omit bool) (avro.Codec, error) {
			return countingNullIntCodec{}, nil
		})
		before := fieldType("n")
		avrotime.RegisterCodecs()
		if after := fieldType("n"); after != before {
			return T("violated", hs("registering the time codecs changed the schema of null.Int from "+before+" to "+after))
		}
		if n := encode(); n != 1 {
			return T("violated", hs(fmt.Sprintf("after registering the time codecs the user's null.Int codec wrote %d of 1 values", n)))
		}
	case "same-named-unregistered":
		// "... and nothing else": a codec and a schema registered for one type called ID must not govern ANOTHER type that is
		// also called ID (two function-local types; reflect's String() is the same for both)
		regT, otherT := c20LocalIDa(), c20LocalIDb()
		if regT == otherT || regT.String() != otherT.String() {
			return T("violated", hs("harness: the two local types are not distinct types with one name"))
		}
		used := 0
		avro.RegisterSchema(regT, sPrim("long"))
		avro.Register(regT, func(s avro.Schema, typ reflect.Type, omit bool) (avro.Codec, error) {
			used++
			return nil, fmt.Errorf("the custom builder of the registered type was called for %v", typ)
		})
		st := reflect.StructOf([]reflect.StructField{{Name: "X", Type: otherT, Tag: `json:"x"`}})
		sch, err := avro.SchemaForType(reflect.New(st).Elem().Interface())
		if err != nil {
			return T("violated", hs("schema of a struct holding the unregistered type: "+err.Error()))
		}
		if len(sch.Object.Fields) != 1 || sch.Object.Fields[0].Type.Type != "string" {
			return T("violated", hs("the unregistered type called ID got the schema "+schemaSx(sch.Object.Fields[0].Type).String()+" (the registered ID's is long; its own is string)"))
		}
		c, err := sch.Codec(reflect.New(st).Elem().Interface())
		if err != nil || used != 0 {
			return T("violated", hs(fmt.Sprintf("building a codec for the unregistered type called ID: err=%v, registered builder called %d times", err, used)))
		}
		v := reflect.New(st)
		v.Elem().Field(0).SetString("abc")
		w := avro.NewWriteBuf(nil)
		c.Write(w, v.UnsafePointer())
		if !bytes.Equal(w.Bytes(), []byte{6, 'a', 'b', 'c'}) {
			return T("violated", hs(fmt.Sprintf("the unregistered type called ID was written as %x", w.Bytes())))
		}
	default:
		panic("harness: unknown c20x scenario " + name)
	}
	return T("ok")
}

func c20LocalIDa() reflect.Type {
	type ID string
	return reflect.TypeFor[ID]()
}

func c20LocalIDb() reflect.Type {
	type ID string
	return reflect.TypeFor[ID]()
}

func applyRegs(regs sx) {
	for _, e := range regs.args() {
		a := e.args()
		id := 0
		if e.tag() == "rs" || e.tag() == "rc" {
			id = int(a[0].int())
		}
		cu := sgCustoms[id]
		switch e.tag() {
		case "rs":
			avro.RegisterSchema(cu.typ, schemaOf(a[1]))
		case "rc":
			inst := int(a[1].int())
			acc := a[2].str()
			avro.Register(cu.typ, func(s avro.Schema, typ reflect.Type, omit bool) (avro.Codec, error) {
				if typ != cu.typ {
					sgLog = append(sgLog, sgEvent{id, inst, "foreign-type"})
				}
				if s.Type != acc {
					return nil, fmt.Errorf("custom builder %d accepts %s, not %s", inst, acc, s.Type)
				}
				return &sgCodec{id: id, inst: inst, typ: cu.typ, kind: cu.kind}, nil
			})
		case "usertime":
			// a user's own codec and schema for time.Time (always followed by a library re-registration in the
			// generated histories: the most recent registration wins)
			avro.RegisterSchema(timeT, sPrim("long"))
			avro.Register(timeT, func(s avro.Schema, typ reflect.Type, omit bool) (avro.Codec, error) {
				return userTimeCodec{}, nil
			})
			continue
		case "usernullint":
			avro.RegisterSchema(nullIntT, sPrim("long"))
			avro.Register(nullIntT, func(s avro.Schema, typ reflect.Type, omit bool) (avro.Codec, error) {
				return countingNullIntCodec{}, nil
			})
			continue
		case "lib":
			if len(a) > 0 && a[0].atom == "null" {
				avronull.RegisterCodecs()
			} else {
				avrotime.RegisterCodecs()
			}
			continue
		default:
			panic("harness: bad registration " + e.String())
		}
	}
}

// ---------------------------------------------------------------------------------------------
// execution

func sgCaseType(src, td sx) reflect.Type {
	var t reflect.Type
	if src.tag() == "zoo" {
		var ok bool
		t, ok = zooByName[src.args()[0].str()]
		if !ok {
			panic("harness: unknown zoo type " + src.args()[0].str())
		}
	} else {
		t = sgTypeOf(td)
	}
	back, _, _ := descOf(t)
	if back.String() != td.String() {
		panic("harness: descriptor does not describe the type: " + td.String() + " vs " + back.String())
	}
	return t
}

func execSgen(op string, a []sx) sx {
	if op == "sgen-known" {
		a = a[1:]
		op = "sgen"
	}
	if op == "crashed-case" {
		return T("crash")
	}
	if op == "sgen" {
		// (sgen SRC T ENV REGS EXCEPT)
		if len(a[2].args()) > 0 && os.Getenv("SGEN_CHILD") == "" {
			return sgenInChild(op, a)
		}
		applyRegs(a[3])
		t := sgCaseType(a[0], a[1])
		// determinism probes: the schema of every registered type in a plain position, taken before
		// and after the case's own generation, and the case's schema generated twice
		probe := func() string {
			var b strings.Builder
			for _, e := range a[3].args() {
				if e.tag() != "rs" {
					continue
				}
				pt := reflect.StructOf([]reflect.StructField{{Name: "V", Type: sgCustoms[int(e.args()[0].int())].typ}})
				ps, err := avro.SchemaForType(reflect.New(pt).Interface())
				if err != nil {
					b.WriteString("(err)")
				} else {
					b.WriteString(schemaSx(ps).String())
				}
			}
			return b.String()
		}
		before := probe()
		res := sgSchemaAndCodec(t)
		// the caller owns what it was given: renaming the record and its fields in one result must not
		// show up in the next one
		if own, err := avro.SchemaForType(reflect.New(t).Interface()); err == nil && own.Object != nil {
			own.Object.Name = "RenamedByCaller"
			for i := range own.Object.Fields {
				own.Object.Fields[i].Name += "_renamed_by_caller"
			}
		}
		again := sgSchemaAndCodec(t)
		if after := probe(); after != before {
			return T("nondet", hs("a registered type's schema changed: "+before+" then "+after))
		}
		if again.String() != res.String() {
			return T("nondet", hs("the same type gave "+res.String()+" then "+again.String()))
		}
		return res
	}
	if op == "c20x" {
		// registration scenarios judged here (the types involved are the library's own, which the model treats as built in)
		if os.Getenv("SGEN_CHILD") == "" {
			return sgenInChild(op, a)
		}
		return c20Scenario(a[0].atom)
	}
	if op == "c20-known" {
		a = a[1:]
		op = "c20"
	}
	if op == "c20" {
		// (c20 T ENV REGS VALUE EXCEPT)
		applyRegs(a[2])
		t := sgCaseType(A("anon"), a[0])
		return sgRoundTrip(t, a[3])
	}
	panic("harness: unknown sgen op " + op)
}

func sgSchemaAndCodec(t reflect.Type) sx {
	s, err := avro.SchemaForType(reflect.New(t).Interface())
	if err != nil {
		return T("err")
	}
	cres := protectSx(func() sx {
		// the three ways of naming the struct type: a pointer to a value, a typed nil pointer, a value
		outs := []any{reflect.New(t).Interface(), reflect.Zero(reflect.PointerTo(t)).Interface(), reflect.New(t).Elem().Interface()}
		res := ""
		for i, out := range outs {
			_, cerr := s.Codec(out)
			r := "ok"
			if cerr != nil {
				r = "builderr"
			}
			if i > 0 && r != res {
				return A("panic") // the outcome depends on how the type was named: reported like a panic
			}
			res = r
		}
		return A(res)
	})
	return T("ok", schemaSx(s), T("codec", cres))
}

func sgRoundTrip(t reflect.Type, v sx) sx {
	s, err := avro.SchemaForType(reflect.New(t).Interface())
	if err != nil {
		return T("err")
	}
	codec, cerr := s.Codec(reflect.New(t).Interface())
	if cerr != nil {
		return T("ok", schemaSx(s), T("codec", A("builderr")))
	}
	sgLog = sgLog[:0]
	src := newCell(t)
	setVal(src.v, v)
	w := avro.NewWriteBuf(nil)
	codec.Write(w, src.ptr())
	bs := append([]byte(nil), w.Bytes()...)
	dst := newCell(t)
	r := avro.NewReadBuf(bs)
	rerr := codec.Read(r, dst.ptr())
	log := T("log")
	for _, e := range sgLog {
		log.list = append(log.list, L(I(int64(e.id)), I(int64(e.inst)), A(e.op)))
	}
	if !dst.intact() || !src.intact() {
		return T("ok", schemaSx(s), T("codec", A("ok")), log, H(bs), T("clobber"), I(0))
	}
	if rerr != nil {
		return T("ok", schemaSx(s), T("codec", A("ok")), log, H(bs), errSx, I(int64(r.Len())))
	}
	return T("ok", schemaSx(s), T("codec", A("ok")), log, H(bs), dumpVal(dst.v), I(int64(r.Len())))
}

// sgenInChild runs one case in a child process; a fatal error there is the outcome (crash).
func sgenInChild(op string, a []sx) sx {
	cs := T(op, a...)
	cmd := exec.Command(os.Args[0])
	cmd.Env = append(os.Environ(), "SGEN_CHILD=1")
	cmd.Stdin = strings.NewReader(cs.String() + "\n")
	var out strings.Builder
	cmd.Stdout = &out
	done := make(chan error, 1)
	if err := cmd.Start(); err != nil {
		panic("harness: cannot start child: " + err.Error())
	}
	go func() { done <- cmd.Wait() }()
	select {
	case err := <-done:
		if err != nil {
			return T("crash")
		}
	case <-time.After(20 * time.Second):
		cmd.Process.Kill()
		return T("hang")
	}
	x, err := parseSx(strings.TrimSpace(out.String()))
	if err != nil {
		return T("crash")
	}
	return x
}

func sgenChild() {
	debug.SetMaxStack(2 << 20) // a regression to unbounded recursion dies quickly
	line, _ := bufio.NewReaderSize(os.Stdin, 1<<20).ReadString('\n')
	x, err := parseSx(strings.TrimSpace(line))
	if err != nil {
		os.Exit(3)
	}
	out := protectSx(func() sx { return execSgen(x.tag(), x.args()) })
	fmt.Println(out.String())
	os.Exit(0)
}

// ---------------------------------------------------------------------------------------------
// registrations used by the generators

func sgID(t reflect.Type) int { return sgCustomID[t] }

func sgUnionNullFirst(s avro.Schema) avro.Schema  { return sUnion(sPrim("null"), s) }
func sUnionNullFirstOf(s avro.Schema) avro.Schema { return sgUnionNullFirst(s) }

// the fixed registrations of the C15 generator
func c15Regs(ids []int) sx {
	regs := T("regs")
	add := func(t reflect.Type, s avro.Schema, acc string) {
		id := sgID(t)
		for _, x := range ids {
			if x == id {
				if t == reflect.TypeFor[SGStructA]() || t == reflect.TypeFor[SGLongA]() {
					// registered twice: the later registration replaces the earlier one
					regs.list = append(regs.list, T("rs", I(int64(id)), schemaSx(sPrim("double"))))
				}
				regs.list = append(regs.list, T("rs", I(int64(id)), schemaSx(s)), T("rc", I(int64(id)), I(1), hs(acc)))
			}
		}
	}
	add(reflect.TypeFor[SGStructA](), sPrim("string"), "string")
	add(reflect.TypeFor[SGLongA](), sgUnionNullFirst(sPrim("long")), "long")
	add(reflect.TypeFor[SGStrA](), sgUnionNullFirst(sPrim("string")), "string")
	add(reflect.TypeFor[SGLongNL](), sUnion(sPrim("long"), sPrim("null")), "long")
	add(reflect.TypeFor[[]SGTagE](), sPrim("string"), "string")
	add(reflect.TypeFor[map[string]SGTagE](), sUnionNullFirstOf(sPrim("bytes")), "bytes")
	add(reflect.TypeFor[SGSliceA](), sPrim("bytes"), "bytes")
	add(reflect.TypeFor[SGArrReg](), sArray(sPrim("long")), "array")
	add(reflect.TypeFor[SGMapReg](), sMap(sPrim("string")), "map")
	add(reflect.TypeFor[SGRecReg](), sRecord("Custom", avro.SchemaRecordField{Name: "x", Type: sPrim("long")}), "record")
	return regs
}

// ---------------------------------------------------------------------------------------------
// C15 generator

// exceptMarkers over-approximates (syntactically, on the descriptor) the known findings: a named
// struct that occurs twice (D22) and two fields of one struct with the same JSON name (D24). The
// driver decides precisely; a marker it cannot justify is ignored.
func exceptMarkers(td, env sx) []string {
	names := map[string]int{}
	dupField := false
	var walk func(d sx)
	walk = func(d sx) {
		if !d.isL {
			return
		}
		if d.tag() == "struct" {
			a := d.args()
			if a[0].str() != "" {
				names[a[1].str()+"."+a[0].str()]++
			}
			seen := map[string]bool{}
			for _, f := range a[2:] {
				fa := f.args()
				n, _, _ := strings.Cut(fa[2].str(), ",")
				if n == "" {
					n = fa[0].str()
				}
				if seen[n] {
					dupField = true
				}
				seen[n] = true
			}
		}
		for _, x := range d.list {
			walk(x)
		}
	}
	walk(td)
	walk(env)
	var out []string
	for _, n := range names {
		if n > 1 {
			out = append(out, "dup-named-struct")
			break
		}
	}
	if dupField {
		out = append(out, "dup-json-name")
	}
	return out
}

func (c *ctx) emitSgen(src sx, t reflect.Type) {
	td, env, ids := descOf(t)
	regs := c15Regs(ids)
	marks := exceptMarkers(td, env)
	ex := T("except")
	for _, m := range marks {
		ex.list = append(ex.list, A(m))
	}
	c.emit(T("sgen", src, td, env, regs, ex))
	for _, m := range marks {
		c.emit(T("sgen-known", T("tag", A(m)), src, td, env, regs, ex))
	}
}

type sgGen struct {
	c      *ctx
	pUnsup int // per-leaf probability (percent) of an unsupported kind
	pNamed int // per-leaf probability of a zoo / custom / library type
}

var (
	sgPlainLeaves = []reflect.Type{
		reflect.TypeOf(false), reflect.TypeOf(int(0)), reflect.TypeOf(int8(0)), reflect.TypeOf(int16(0)), reflect.TypeOf(int32(0)),
		reflect.TypeOf(int64(0)), reflect.TypeOf(float32(0)), reflect.TypeOf(float64(0)), reflect.TypeOf(""), reflect.TypeOf([]byte(nil)),
		reflect.TypeOf(int64(0)), reflect.TypeOf(""),
	}
	sgUnsupLeaves = []reflect.Type{
		reflect.TypeOf(uint8(0)), reflect.TypeOf(uint16(0)), reflect.TypeOf(uint32(0)), reflect.TypeOf(uint64(0)), reflect.TypeOf(uint(0)),
		reflect.TypeOf(uintptr(0)), reflect.TypeOf(complex64(0)), reflect.TypeOf(complex128(0)), reflect.TypeOf((chan int)(nil)),
		reflect.TypeOf((func())(nil)), reflect.TypeOf((*any)(nil)).Elem(), reflect.TypeOf((*error)(nil)).Elem(),
		reflect.TypeOf(unsafe.Pointer(nil)),
	}
	sgLibLeaves = []reflect.Type{timeT, nullIntT, nullBoolT, nullFloatT, nullStringT, nullTimeT}
	sgRegLeaves = []reflect.Type{
		reflect.TypeFor[SGStructA](), reflect.TypeFor[SGLongA](), reflect.TypeFor[SGStrA](), reflect.TypeFor[SGSliceA](),
		reflect.TypeFor[SGArrReg](), reflect.TypeFor[SGMapReg](), reflect.TypeFor[SGRecReg](),
		reflect.TypeFor[SGStructU](), reflect.TypeFor[SGLongU](), reflect.TypeFor[SGSliceU](), reflect.TypeFor[SGLongNL](),
		reflect.TypeFor[[]SGTagE](), reflect.TypeFor[map[string]SGTagE](), reflect.TypeFor[SGTagE](),
	}
	sgJSONNames = []string{"", "", "", "a", "b", "x", "F1", "-", "omitempty"}
	sgJSONOpts  = []string{"", "", ",omitempty", ",omitempty", ",omitempty,string", ",string", ",", ",omitemptyX", ",string,omitempty"}
	sgBqTags    = []string{"", "", "", "", "", "", "-", "x"}
)

func (g *sgGen) leaf() reflect.Type {
	r := g.c.rng
	p := r.Intn(100)
	switch {
	case p < g.pUnsup:
		return sgUnsupLeaves[r.Intn(len(sgUnsupLeaves))]
	case p < g.pUnsup+g.pNamed:
		switch r.Intn(3) {
		case 0:
			return sgLibLeaves[r.Intn(len(sgLibLeaves))]
		case 1:
			return sgRegLeaves[r.Intn(len(sgRegLeaves))]
		default:
			return zooLeaves[r.Intn(len(zooLeaves))].typ
		}
	}
	return sgPlainLeaves[r.Intn(len(sgPlainLeaves))]
}

func (g *sgGen) typ(depth int) reflect.Type {
	r := g.c.rng
	p := r.Intn(100)
	switch {
	case depth <= 0 || p < 38:
		return g.leaf()
	case p < 55:
		return reflect.PointerTo(g.typ(depth - 1))
	case p < 68:
		return reflect.SliceOf(g.typ(depth - 1))
	case p < 72:
		return reflect.ArrayOf(r.Intn(4), g.typ(depth-1))
	case p < 84:
		key := reflect.TypeOf("")
		switch r.Intn(12) {
		case 0:
			key = reflect.TypeOf(int(0))
		case 1:
			key = reflect.TypeFor[ZKey]()
		case 2:
			key = reflect.TypeOf(false)
		}
		return reflect.MapOf(key, g.typ(depth-1))
	}
	return g.strct(depth-1, r.Intn(5))
}

func (g *sgGen) strct(depth, n int) reflect.Type {
	r := g.c.rng
	var fs []reflect.StructField
	for i := 0; i < n; i++ {
		tag := ""
		j := sgJSONNames[r.Intn(len(sgJSONNames))] + sgJSONOpts[r.Intn(len(sgJSONOpts))]
		if j != "" {
			tag = "json:" + strconv.Quote(j)
		}
		if b := sgBqTags[r.Intn(len(sgBqTags))]; b != "" {
			if tag != "" {
				tag += " "
			}
			tag += "bq:" + strconv.Quote(b)
		}
		fs = append(fs, reflect.StructField{Name: "F" + strconv.Itoa(i), Type: g.typ(depth), Tag: reflect.StructTag(tag)})
	}
	return reflect.StructOf(fs)
}

func genC15(c *ctx) {
	// 1. the zoo
	for _, e := range zooList {
		c.emitSgen(T("zoo", hs(e.name)), e.typ)
	}
	// 2. every zoo leaf and every library / custom type in every single position of an anonymous struct
	wrap := func(f reflect.StructField) reflect.Type { return reflect.StructOf([]reflect.StructField{f}) }
	var leaves []reflect.Type
	for _, e := range zooLeaves {
		leaves = append(leaves, e.typ)
	}
	leaves = append(leaves, sgLibLeaves...)
	leaves = append(leaves, sgRegLeaves...)
	leaves = append(leaves, sgPlainLeaves[:10]...)
	leaves = append(leaves, sgUnsupLeaves...)
	for _, l := range leaves {
		for _, pos := range []func(reflect.Type) reflect.Type{
			func(t reflect.Type) reflect.Type { return t },
			reflect.PointerTo,
			reflect.SliceOf,
			func(t reflect.Type) reflect.Type { return reflect.MapOf(reflect.TypeOf(""), t) },
			func(t reflect.Type) reflect.Type { return reflect.PointerTo(reflect.PointerTo(t)) },
			func(t reflect.Type) reflect.Type { return reflect.PointerTo(reflect.SliceOf(t)) },
			func(t reflect.Type) reflect.Type { return reflect.ArrayOf(2, t) },
		} {
			for _, tag := range []string{"", `json:"x,omitempty"`} {
				c.emitSgen(T("anon"), wrap(reflect.StructField{Name: "V", Type: pos(l), Tag: reflect.StructTag(tag)}))
			}
		}
	}
	// 2b. deep nesting (far beyond what the random trees reach): N levels of one constructor, or of all four in rotation
	strOf := func(t reflect.Type) reflect.Type {
		return wrap(reflect.StructField{Name: "V", Type: t, Tag: `json:"v"`})
	}
	mapOf := func(t reflect.Type) reflect.Type { return reflect.MapOf(reflect.TypeOf(""), t) }
	for _, depth := range []int{31, 32, 33, 34, 48, 70} {
		for ci, cons := range []func(reflect.Type) reflect.Type{reflect.SliceOf, mapOf, reflect.PointerTo, strOf, nil} {
			t := reflect.TypeOf(int64(0))
			for d := 0; d < depth; d++ {
				f := cons
				if f == nil {
					f = []func(reflect.Type) reflect.Type{reflect.SliceOf, strOf, mapOf, reflect.PointerTo}[d%4]
				}
				t = f(t)
			}
			if ci != 3 {
				t = strOf(t)
			}
			c.emitSgen(T("anon"), t)
		}
	}
	// 3. random type trees
	n := c.scale(1500, 20000)
	for i := 0; i < n; i++ {
		g := &sgGen{c: c, pUnsup: []int{0, 0, 2, 6}[i%4], pNamed: []int{0, 15, 30, 30}[(i/4)%4]}
		depth := 1 + c.rng.Intn(4)
		c.emitSgen(T("anon"), g.strct(depth, 1+c.rng.Intn(6)))
	}
}

// ---------------------------------------------------------------------------------------------
// C20 generator

type sgVariant struct {
	typ   reflect.Type
	regs  []sx   // registration history
	label string // for readability of case files only
}

func rsEntry(t reflect.Type, s avro.Schema) sx { return T("rs", I(int64(sgID(t))), schemaSx(s)) }
func rcEntry(t reflect.Type, inst int, acc string) sx {
	return T("rc", I(int64(sgID(t))), I(int64(inst)), hs(acc))
}

func sgCore(kind string) (avro.Schema, string) {
	switch kind {
	case "long":
		return sPrim("long"), "long"
	case "str", "struct":
		return sPrim("string"), "string"
	case "slice":
		return sPrim("bytes"), "bytes"
	case "arr": // the custom encoding is the slice kind's; only the registered schema differs
		return sArray(sPrim("int")), "array"
	case "mapsch":
		return sMap(sPrim("int")), "map"
	}
	panic("harness: no core schema for " + kind)
}

// c20Variants: for each registrable kind, registration histories that end in different final states.
func c20Variants() []sgVariant {
	var out []sgVariant
	type fam struct {
		kind  string
		types []reflect.Type
		never reflect.Type
	}
	fams := []fam{
		{"struct", []reflect.Type{reflect.TypeFor[SGStructB](), reflect.TypeFor[SGStructC](), reflect.TypeFor[SGStructD]()}, reflect.TypeFor[SGStructU]()},
		{"long", []reflect.Type{reflect.TypeFor[SGLongB](), reflect.TypeFor[SGLongC](), reflect.TypeFor[SGLongD]()}, reflect.TypeFor[SGLongU]()},
		{"slice", []reflect.Type{reflect.TypeFor[SGSliceB](), reflect.TypeFor[SGSliceC](), reflect.TypeFor[SGSliceD]()}, reflect.TypeFor[SGSliceU]()},
		{"str", []reflect.Type{reflect.TypeFor[SGStrB]()}, nil},
		{"arr", []reflect.Type{reflect.TypeFor[SGArrB](), reflect.TypeFor[SGArrC]()}, nil},
		{"mapsch", []reflect.Type{reflect.TypeFor[SGMapSchB]()}, nil},
	}
	for _, f := range fams {
		core, acc := sgCore(f.kind)
		nullable := sgUnionNullFirst(core)
		nullSecond := sUnion(core, sPrim("null"))
		for i, t := range f.types {
			// plain schema, one registration
			out = append(out, sgVariant{t, []sx{rsEntry(t, core), rcEntry(t, 10+i, acc)}, "plain"})
			// nullable schema
			out = append(out, sgVariant{t, []sx{rsEntry(t, nullable), rcEntry(t, 20+i, acc)}, "nullable"})
			// re-registration: the later schema and the later builder win
			out = append(out, sgVariant{t, []sx{rsEntry(t, core), rcEntry(t, 30+i, acc), rcEntry(t, 31+i, acc), rsEntry(t, nullable)}, "rereg"})
			// the same calls in the opposite order
			out = append(out, sgVariant{t, []sx{rsEntry(t, nullable), rcEntry(t, 31+i, acc), rcEntry(t, 30+i, acc), rsEntry(t, core)}, "rereg-rev"})
			if i == 0 {
				out = append(out, sgVariant{t, []sx{rsEntry(t, nullSecond), rcEntry(t, 40, acc)}, "null-second"})
				// a builder that refuses the schema generation emits for it, replaced by one that accepts
				out = append(out, sgVariant{t, []sx{rsEntry(t, core), rcEntry(t, 50, "fixed"), rcEntry(t, 51, acc)}, "refuse-then-accept"})
				out = append(out, sgVariant{t, []sx{rsEntry(t, core), rcEntry(t, 51, acc), rcEntry(t, 50, "fixed")}, "accept-then-refuse"})
			}
		}
		if f.never != nil {
			out = append(out, sgVariant{f.never, nil, "unregistered"})
		}
	}
	for _, t := range sgLibLeaves {
		out = append(out, sgVariant{t, nil, "library"})
	}
	return out
}

type sgPos struct {
	name string
	mk   func(reflect.Type) reflect.Type
}

func anonWrap(t reflect.Type, tag string) reflect.Type {
	return reflect.StructOf([]reflect.StructField{{Name: "In", Type: t, Tag: reflect.StructTag(tag)}})
}

var sgPositions = []sgPos{
	{"ptr", reflect.PointerTo},
	{"slice", reflect.SliceOf},
	{"map", func(t reflect.Type) reflect.Type { return reflect.MapOf(reflect.TypeOf(""), t) }},
	{"struct", func(t reflect.Type) reflect.Type { return anonWrap(t, "") }},
	{"struct-omit", func(t reflect.Type) reflect.Type { return anonWrap(t, `json:"in,omitempty"`) }},
}

// all compositions of at most `depth` position constructors
func sgContexts(depth int) []func(reflect.Type) reflect.Type {
	out := []func(reflect.Type) reflect.Type{func(t reflect.Type) reflect.Type { return t }}
	level := out
	for d := 0; d < depth; d++ {
		var next []func(reflect.Type) reflect.Type
		for _, inner := range level {
			for _, p := range sgPositions {
				inner, p := inner, p
				next = append(next, func(t reflect.Type) reflect.Type { return p.mk(inner(t)) })
			}
		}
		out = append(out, next...)
		level = next
	}
	return out
}

func (c *ctx) sgValue(t reflect.Type, depth int) sx {
	r := c.rng
	switch t {
	case timeT:
		if r.Intn(4) == 0 {
			return T("time", I(-62135596800), I(0), I(0))
		}
		offs := []int64{0, 0, 3600, -18000, 19800}
		return T("time", I(r.Int63n(4e9)-1e9), I(int64(r.Intn(3))*int64(r.Intn(1e9))%1e9), I(offs[r.Intn(len(offs))]))
	case nullIntT:
		valid := r.Intn(3) != 0
		v := int64(0)
		if valid {
			v = r.Int63n(2000) - 1000
		}
		return T("nullw", boolSx(valid), T("int", I(v)))
	case nullBoolT:
		valid := r.Intn(3) != 0
		return T("nullw", boolSx(valid), T("bool", boolSx(valid && r.Intn(2) == 0)))
	case nullFloatT:
		valid := r.Intn(3) != 0
		v := uint64(0)
		if valid {
			v = []uint64{0, 0x3ff8000000000000, 0xc000000000000000, 0x7ff0000000000000}[r.Intn(4)]
		}
		return T("nullw", boolSx(valid), T("f64", U(v)))
	case nullStringT:
		valid := r.Intn(3) != 0
		s := ""
		if valid {
			s = []string{"", "a", "hello"}[r.Intn(3)]
		}
		return T("nullw", boolSx(valid), T("str", H([]byte(s))))
	case nullTimeT:
		valid := r.Intn(3) != 0
		if !valid {
			return T("nullw", A("false"), T("time", I(-62135596800), I(0), I(0)))
		}
		return T("nullw", A("true"), T("time", I(r.Int63n(4e9)), I(int64(r.Intn(1000))*1000000), I(0)))
	}
	switch t.Kind() {
	case reflect.Bool:
		return T("bool", boolSx(r.Intn(2) == 0))
	case reflect.Int64, reflect.Int:
		return T("int", I([]int64{0, 0, 1, -1, 63, -64, 64, 1 << 40, -(1 << 62)}[r.Intn(9)]))
	case reflect.Int32:
		return T("int", I([]int64{0, 1, -1, 1<<31 - 1, -(1 << 31)}[r.Intn(5)]))
	case reflect.String:
		return T("str", H([]byte([]string{"", "", "a", "a:b", ":", "héllo"}[r.Intn(6)])))
	case reflect.Slice:
		n := r.Intn(4)
		if depth <= 0 {
			n = r.Intn(2)
		}
		out := T("slice")
		for i := 0; i < n; i++ {
			out.list = append(out.list, c.sgValue(t.Elem(), depth-1))
		}
		return out
	case reflect.Map:
		out := T("map", A("nonnil"))
		// several entries (in key order): values that follow each other in one block must not share anything
		keys := []string{"", "k", "key2", "z9"}
		n := []int{0, 1, 1, 2, 4}[r.Intn(5)]
		for _, i := range r.Perm(len(keys))[:n] {
			keys[i] = "+" + keys[i]
		}
		for _, k := range keys {
			if strings.HasPrefix(k, "+") {
				out.list = append(out.list, L(H([]byte(k[1:])), c.sgValue(t.Elem(), depth-1)))
			}
		}
		return out
	case reflect.Pointer:
		// a nil pointer to a slice or map has no encoding of its own (it is written as the empty
		// collection), and a pointer to a nil pointer is written as null: both are outside C20
		nilOK := true
		for e := t.Elem(); ; e = e.Elem() {
			if e.Kind() == reflect.Slice || e.Kind() == reflect.Map {
				nilOK = false
				break
			}
			if e.Kind() != reflect.Pointer {
				break
			}
		}
		if nilOK && r.Intn(3) == 0 {
			return T("ptr", A("none"))
		}
		inner := c.sgValue(t.Elem(), depth-1)
		if inner.tag() == "ptr" && !inner.list[1].isL && t.Elem().Kind() == reflect.Pointer {
			// inner pointer nil: make the whole chain nil instead
			return T("ptr", A("none"))
		}
		return T("ptr", inner)
	case reflect.Struct:
		out := T("struct")
		for i := 0; i < t.NumField(); i++ {
			out.list = append(out.list, c.sgValue(t.Field(i).Type, depth-1))
		}
		return out
	}
	panic("harness: sgValue kind " + t.Kind().String())
}

// emitC20 emits the case and, when the value holds a non-nil pointer to an invalid null.* value (a
// known finding: it is written as the non-null branch), a twin line on which only that is judged.
func (c *ctx) emitC20(td, env, regs, v sx) {
	ex := T("except")
	known := strings.Contains(v.String(), "(ptr (nullw false")
	if known {
		ex.list = append(ex.list, A("ptr-to-invalid-null"))
	}
	c.emit(T("c20", td, env, regs, v, ex))
	if known {
		c.emit(T("c20-known", T("tag", A("ptr-to-invalid-null")), td, env, regs, v, ex))
	}
}

func genC20(c *ctx) {
	variants := c20Variants()
	ctxs := sgContexts(c.scale(2, 3))
	reps := c.scale(2, 3)
	for _, v := range variants {
		regs := T("regs", v.regs...)
		for _, mk := range ctxs {
			for _, tag := range []string{`json:"x"`, `json:"x,omitempty"`} {
				top := reflect.StructOf([]reflect.StructField{
					{Name: "Pre", Type: reflect.TypeOf(int64(0)), Tag: `json:"pre"`},
					{Name: "X", Type: mk(v.typ), Tag: reflect.StructTag(tag)},
					{Name: "Post", Type: reflect.TypeOf(""), Tag: `json:"post"`},
				})
				td, env, _ := descOf(top)
				for i := 0; i < reps; i++ {
					c.emitC20(td, env, regs, c.sgValue(top, 3))
				}
			}
		}
	}
	// the library's own registration for time.Time, replaced by a user's and then re-established by calling the
	// library's RegisterCodecs again: the most recent registration wins, in every position
	for _, mk := range ctxs {
		for _, tag := range []string{`json:"x"`, `json:"x,omitempty"`} {
			top := reflect.StructOf([]reflect.StructField{
				{Name: "Pre", Type: reflect.TypeOf(int64(0)), Tag: `json:"pre"`},
				{Name: "X", Type: mk(timeT), Tag: reflect.StructTag(tag)},
			})
			td, env, _ := descOf(top)
			c.emitC20(td, env, T("regs", T("usertime"), T("lib", A("time"))), c.sgValue(top, 3))
		}
	}
	// the same for null.Int: a user's registration, then the null package's RegisterCodecs again
	for _, mk := range ctxs {
		for _, tag := range []string{`json:"x"`, `json:"x,omitempty"`} {
			top := reflect.StructOf([]reflect.StructField{
				{Name: "Pre", Type: reflect.TypeOf(int64(0)), Tag: `json:"pre"`},
				{Name: "X", Type: mk(nullIntT), Tag: reflect.StructTag(tag)},
			})
			td, env, _ := descOf(top)
			c.emitC20(td, env, T("regs", T("usernullint"), T("lib", A("null"))), c.sgValue(top, 3))
		}
	}
	c.emit(T("c20x", A("user-time-then-null-package")))
	c.emit(T("c20x", A("user-nullint-then-time-package")))
	c.emit(T("c20x", A("same-named-unregistered")))
	// two registered types side by side, and the same registered type twice, in random positions
	n := c.scale(300, 3000)
	for i := 0; i < n; i++ {
		a := variants[c.rng.Intn(len(variants))]
		b := variants[c.rng.Intn(len(variants))]
		if a.typ == b.typ {
			b = a
		}
		regs := T("regs", a.regs...)
		if b.typ != a.typ {
			regs.list = append(regs.list, b.regs...)
		}
		ma, mb, mc := ctxs[c.rng.Intn(len(ctxs))], ctxs[c.rng.Intn(len(ctxs))], ctxs[c.rng.Intn(len(ctxs))]
		tags := []string{`json:"x"`, `json:"y,omitempty"`, `json:"z"`}
		c.rng.Shuffle(len(tags), func(i, j int) { tags[i], tags[j] = tags[j], tags[i] })
		top := reflect.StructOf([]reflect.StructField{
			{Name: "X", Type: ma(a.typ), Tag: reflect.StructTag(tags[0])},
			{Name: "Mid", Type: reflect.TypeOf(int32(0))},
			{Name: "Y", Type: mb(b.typ), Tag: reflect.StructTag(tags[1])},
			{Name: "Z", Type: mc(a.typ), Tag: reflect.StructTag(tags[2])},
		})
		td, env, _ := descOf(top)
		c.emitC20(td, env, regs, c.sgValue(top, 3))
	}
}
