package main

// C10 — delivered values stay intact until their resource bank is closed.
//
// (a) (bankops (op…)): operation sequences over several read buffers and banks against the real
//     avro.NewReadBuf / ReadBuf.Alloc / NextAsString / ExtractResourceBank / ResourceBank.Alloc /
//     ToString / Close, one goroutine, GC switched off for the duration of a case (so sync.Pool keeps
//     what was Put). After every operation the contents of everything the harness considers live
//     (its bank not closed by the harness) are re-read. The harness scribbles a pattern into every
//     cell it gets and overwrites its own input buffer after every NextAsString.
//     What the model leaves open is read from the implementation: which *ResourceBank a ReadBuf holds
//     (unexported field rb), the capacity and array of sData and of the arena used (unexported fields,
//     read-only reflection). Addresses are reported as small ids in order of first appearance.
// (b) (fileretain codec blocksize nrecs seed closepct): a multi-block file written by the real encoder,
//     read by avro.ReadFile with a callback that keeps shallow copies and banks, closes some banks,
//     then everything the harness owns is overwritten, the pool is churned by a second read, and the
//     records whose bank was not closed are compared with what was written.

import (
	"bufio"
	"bytes"
	"errors"
	"fmt"
	"math/rand"
	"reflect"
	"runtime"
	"runtime/debug"
	"strings"
	"time"
	"unsafe"

	"github.com/philpearl/avro"
	avrotime "github.com/philpearl/avro/time"
)

func init() { props["C10"] = prop{gen: genC10, exec: execC10} }

func execC10(op string, a []sx) sx {
	runtime.GC() // twice: empties sync.Pool (victim cache too), so every case starts from the same pool
	runtime.GC()
	old := debug.SetGCPercent(-1)
	defer debug.SetGCPercent(old)
	switch op {
	case "bankops":
		return execBankOps(a[0].list)
	case "fileretain":
		return execFileRetain(a[0].atom, int(a[1].int()), int(a[2].int()), a[3].int(), int(a[4].int()))
	case "timeretain":
		return execTimeRetain(a[0].atom, a[1].int())
	}
	panic("harness: unknown C10 case " + op)
}

// ---------------------------------------------------------------- (a) bank operations

type c10T4 struct {
	A int64
	S string
	P *int64
}

var c10Types = []reflect.Type{
	reflect.TypeOf(int64(0)), reflect.TypeOf([3]uint32{}), reflect.TypeOf(""), reflect.TypeOf([]byte(nil)),
	reflect.TypeOf(c10T4{}), reflect.TypeOf(unsafe.Pointer(nil)), reflect.TypeOf(byte(0)), reflect.TypeOf(uint16(0)),
}

var (
	c10Static [256]int64
	c10Str    = "0123456789abcdefghijklmnopqrstuvwxyzABCDEFGHIJKLMNOPQRSTUVWXYZ-_0123456789abcdefghijklmnopqrstuvwxyz"
	c10Bytes  = []byte(c10Str)
)

// scribble writes a recognisable non-zero value of the cell's type (only valid pointers, so the
// collector may scan the arenas later).
func c10Scribble(p unsafe.Pointer, t int, pat int) {
	k := pat%200 + 1
	switch t {
	case 0:
		*(*int64)(p) = int64(k) * 0x0101010101
	case 1:
		*(*[3]uint32)(p) = [3]uint32{uint32(k), uint32(k*7 + 1), uint32(k*13 + 2)}
	case 2:
		*(*string)(p) = c10Str[k%32 : k%32+1+k%17]
	case 3:
		*(*[]byte)(p) = c10Bytes[k%64 : k%64+1+k%31]
	case 4:
		*(*c10T4)(p) = c10T4{A: int64(k), S: c10Str[k%16 : k%16+3], P: &c10Static[k]}
	case 5:
		*(*unsafe.Pointer)(p) = unsafe.Pointer(&c10Static[k])
	case 6:
		*(*byte)(p) = byte(k)
	case 7:
		*(*uint16)(p) = uint16(k) * 257
	}
}

func c10Raw(p unsafe.Pointer, size int) []byte {
	return append([]byte(nil), unsafe.Slice((*byte)(p), size)...)
}

func c10ptyp(t reflect.Type) uintptr {
	return uintptr((*[2]unsafe.Pointer)(unsafe.Pointer(&t))[1])
}

// The observations below look inside the library's ResourceBank / ReadBuf. Fields are found by what they are, not by
// what they are called (a rename is not a change of behaviour): the one field of a given type, or the n-th field of a kind.
func c10fieldOfType(v reflect.Value, what string, ok func(reflect.Type) bool) reflect.Value {
	var found reflect.Value
	n := 0
	for i := 0; i < v.NumField(); i++ {
		if ok(v.Field(i).Type()) {
			found = v.Field(i)
			n++
		}
	}
	if n != 1 {
		panic(fmt.Sprintf("model-tie: %s has %d fields that are %s", v.Type(), n, what))
	}
	return found
}

func c10nthOfKind(v reflect.Value, kinds []reflect.Kind, nth int) reflect.Value {
	k := 0
	for i := 0; i < v.NumField(); i++ {
		for _, want := range kinds {
			if v.Field(i).Kind() == want {
				if k == nth {
					return v.Field(i)
				}
				k++
				break
			}
		}
	}
	panic(fmt.Sprintf("model-tie: %s has no field number %d of kind %v", v.Type(), nth, kinds))
}

// the bank a read buffer currently holds
func c10rbOf(r *avro.ReadBuf) *avro.ResourceBank {
	f := c10fieldOfType(reflect.ValueOf(r).Elem(), "a *ResourceBank", func(t reflect.Type) bool { return t == reflect.TypeOf((*avro.ResourceBank)(nil)) })
	return (*avro.ResourceBank)(unsafe.Pointer(f.Pointer()))
}

// the string store of a bank (its one []byte field): base pointer, len, cap
func c10sData(rb *avro.ResourceBank) (uintptr, int, int) {
	f := c10fieldOfType(reflect.ValueOf(rb).Elem(), "a []byte", func(t reflect.Type) bool { return t == reflect.TypeOf([]byte(nil)) })
	return f.Pointer(), f.Len(), f.Cap()
}

var c10intKinds = []reflect.Kind{reflect.Int, reflect.Int64, reflect.Uintptr, reflect.Uint, reflect.Uint64}

// the arena of a bank for a type (the bank's one slice-of-struct field; per element two pointers - type descriptor, memory -
// and three integers - capacity, used, element size - in that order): array pointer, cap, len, element size
func c10arena(rb *avro.ResourceBank, t reflect.Type) (uintptr, int, int, int, bool) {
	ts := c10fieldOfType(reflect.ValueOf(rb).Elem(), "a slice of structs", func(t reflect.Type) bool {
		return t.Kind() == reflect.Slice && t.Elem().Kind() == reflect.Struct
	})
	want := c10ptyp(t)
	num := func(v reflect.Value) int {
		if v.CanInt() {
			return int(v.Int())
		}
		return int(v.Uint())
	}
	ptr := []reflect.Kind{reflect.UnsafePointer}
	for i := 0; i < ts.Len(); i++ {
		e := ts.Index(i)
		if c10nthOfKind(e, ptr, 0).Pointer() == want {
			return c10nthOfKind(e, ptr, 1).Pointer(), num(c10nthOfKind(e, c10intKinds, 0)), num(c10nthOfKind(e, c10intKinds, 1)), num(c10nthOfKind(e, c10intKinds, 2)), true
		}
	}
	return 0, 0, 0, 0, false
}

type c10h struct {
	p     unsafe.Pointer
	t     int
	size  int
	snap  []byte
	lbank int
}
type c10s struct {
	s     string
	want  []byte
	lbank int
}
type c10rbuf struct {
	r     *avro.ReadBuf
	data  []byte
	pos   int
	gen   int
	lbank int
}
type c10ext struct {
	rb     *avro.ResourceBank
	lbank  int
	closed bool
}

type c10ids struct{ m map[uintptr]int }

func (x *c10ids) id(p uintptr) int {
	if p == 0 {
		return -1
	}
	if v, ok := x.m[p]; ok {
		return v
	}
	v := len(x.m)
	x.m[p] = v
	return v
}

func execBankOps(ops []sx) sx {
	var (
		rbufs   []*c10rbuf
		exts    []*c10ext
		hs      []*c10h
		ss      []*c10s
		closedL = map[int]bool{}
		nL      = 0
		bankIDs = map[*avro.ResourceBank]int{}
		cells   = &c10ids{m: map[uintptr]int{}}
		arrs    = &c10ids{m: map[uintptr]int{}}
		sarrs   = &c10ids{m: map[uintptr]int{}}
	)
	bid := func(rb *avro.ResourceBank) int {
		if v, ok := bankIDs[rb]; ok {
			return v
		}
		v := len(bankIDs)
		bankIDs[rb] = v
		return v
	}
	fill := func(b *c10rbuf) {
		b.gen++
		for j := range b.data {
			b.data[j] = byte(j*31 + b.gen*7 + 1)
		}
	}
	// everything live re-read
	bad := func() sx {
		out := L()
		for i, h := range hs {
			if !closedL[h.lbank] && !bytes.Equal(unsafe.Slice((*byte)(h.p), h.size), h.snap) {
				out.list = append(out.list, T("h", I(int64(i))))
			}
		}
		for j, s := range ss {
			if !closedL[s.lbank] && s.s != string(s.want) {
				out.list = append(out.list, T("s", I(int64(j))))
			}
		}
		return out
	}
	allocObs := func(rb *avro.ResourceBank, p unsafe.Pointer, t int, lbank int, pat int) sx {
		typ := c10Types[t]
		size := int(typ.Size())
		zero := int64(1)
		for _, b := range unsafe.Slice((*byte)(p), size) {
			if b != 0 {
				zero = 0
			}
		}
		arr, capv, _, esz, ok := c10arena(rb, typ)
		arrID, idx := int64(-1), int64(-1)
		if ok && esz > 0 {
			arrID = int64(arrs.id(arr))
			d := uintptr(p) - arr
			if uintptr(p) >= arr && d < uintptr(capv*esz) && d%uintptr(esz) == 0 {
				idx = int64(d / uintptr(esz))
			}
		}
		cell := cells.id(uintptr(p))
		c10Scribble(p, t, pat)
		hs = append(hs, &c10h{p: p, t: t, size: size, snap: c10Raw(p, size), lbank: lbank})
		return T("p", I(int64(cell)), I(arrID), I(idx), I(int64(capv)), I(zero))
	}
	strObs := func(rb *avro.ResourceBank, s string, want []byte, lbank int) sx {
		base, _, capv := c10sData(rb)
		arrID, off := int64(-1), int64(-1)
		if base != 0 {
			arrID = int64(sarrs.id(base))
		}
		if len(s) > 0 {
			addr := uintptr(unsafe.Pointer(unsafe.StringData(s)))
			if base != 0 && addr >= base && addr-base <= uintptr(capv) {
				off = int64(addr - base)
			} else {
				arrID = -2
			}
		} else {
			off = 0
		}
		cok := int64(0)
		if s == string(want) {
			cok = 1
		}
		ss = append(ss, &c10s{s: s, want: want, lbank: lbank})
		return T("s", I(arrID), I(off), I(int64(len(s))), I(cok), I(int64(capv)))
	}

	obs := T("obs")
	for i, op := range ops {
		a := op.args()
		var o sx
		switch op.tag() {
		case "nb":
			b := &c10rbuf{data: make([]byte, 1024), lbank: nL}
			nL++
			fill(b)
			b.r = avro.NewReadBuf(b.data)
			rbufs = append(rbufs, b)
			o = T("nb", I(int64(bid(c10rbOf(b.r)))))
		case "a":
			b := rbufs[a[0].int()]
			t := int(a[1].int())
			rb := c10rbOf(b.r)
			p := b.r.Alloc(c10Types[t])
			o = allocObs(rb, p, t, b.lbank, i)
		case "ba":
			e := exts[a[0].int()]
			t := int(a[1].int())
			p := e.rb.Alloc(c10Types[t])
			o = allocObs(e.rb, p, t, e.lbank, i)
		case "s":
			b := rbufs[a[0].int()]
			n := int(a[1].int())
			if b.pos+n > len(b.data) {
				fill(b)
				b.r.Reset(b.data)
				b.pos = 0
			}
			if i%2 == 0 {
				// every other string op reads a content that depends on the length only, so that equal
				// strings recur - within one use of a bank and across Close / reuse from the pool
				for j := 0; j < n; j++ {
					b.data[b.pos+j] = byte('a' + (j*7+n)%23)
				}
			}
			want := append([]byte(nil), b.data[b.pos:b.pos+n]...)
			rb := c10rbOf(b.r)
			s, err := b.r.NextAsString(n)
			if err != nil {
				return T("err", A("NextAsString"), A(clean(err.Error())))
			}
			// the input belongs to the harness: overwrite what was just read
			for j := b.pos; j < b.pos+n; j++ {
				b.data[j] ^= 0xFF
			}
			b.pos += n
			o = strObs(rb, s, want, b.lbank)
		case "bs":
			e := exts[a[0].int()]
			n := int(a[1].int())
			in := make([]byte, n)
			for j := range in {
				if i%2 == 0 {
					in[j] = byte('a' + (j*7+n)%23) // recurring content, see "s"
				} else {
					in[j] = byte(j*13 + i*5 + 3)
				}
			}
			want := append([]byte(nil), in...)
			s := e.rb.ToString(in)
			for j := range in {
				in[j] ^= 0xFF
			}
			o = strObs(e.rb, s, want, e.lbank)
		case "x":
			b := rbufs[a[0].int()]
			rb := b.r.ExtractResourceBank()
			exts = append(exts, &c10ext{rb: rb, lbank: b.lbank})
			b.lbank = nL
			nL++
			o = T("x", I(int64(bid(rb))), I(int64(bid(c10rbOf(b.r)))))
		case "w":
			h := hs[a[0].int()]
			c10Scribble(h.p, h.t, i+77)
			h.snap = c10Raw(h.p, h.size)
			o = T("w")
		case "c":
			e := exts[a[0].int()]
			e.closed = true
			closedL[e.lbank] = true
			e.rb.Close()
			o = T("c")
		default:
			panic("harness: unknown bank op " + op.String())
		}
		o.list = append(o.list, bad())
		obs.list = append(obs.list, o)
	}
	// hand everything back so the banks can be collected or reused
	for _, e := range exts {
		if !e.closed {
			e.rb.Close()
		}
	}
	for _, b := range rbufs {
		b.r.ExtractResourceBank().Close()
	}
	runtime.KeepAlive(hs)
	return obs
}

func genBankOps(c *ctx) sx {
	n := 5 + c.rng.Intn(c.scale(120, 300))
	// a few types per case, so that single arenas fill up and grow
	nt := 1 + c.rng.Intn(3)
	types := make([]int, nt)
	for i := range types {
		types[i] = c.rng.Intn(len(c10Types))
	}
	allocHeavy := c.rng.Intn(3) == 0
	strLens := []int{0, 1, 3, 8, 40, 200}
	type ext struct{ closed bool }
	type hd struct{ lbank int }
	var (
		rl      []int // logical bank of each read buffer
		exts    []ext
		extL    []int
		hs      []hd
		closedL = map[int]bool{}
		nL      = 0
	)
	ops := L()
	add := func(x sx) { ops.list = append(ops.list, x) }
	nb := func() { rl = append(rl, nL); nL++; add(T("nb")) }
	nb()
	if c.rng.Intn(2) == 0 {
		nb()
	}
	openExt := func() int {
		var cand []int
		for k, e := range exts {
			if !e.closed {
				cand = append(cand, k)
			}
		}
		if len(cand) == 0 {
			return -1
		}
		return cand[c.rng.Intn(len(cand))]
	}
	for step := 0; step < n; step++ {
		r := c.rng.Intn(len(rl))
		x := c.rng.Intn(100)
		if allocHeavy && x >= 45 && x < 75 {
			x = 0
		}
		switch {
		case x < 4:
			// burst: fill an arena past its capacity (16, 32, …)
			t := types[c.rng.Intn(nt)]
			for k := 8 + c.rng.Intn(40); k > 0; k-- {
				add(T("a", I(int64(r)), I(int64(t))))
				hs = append(hs, hd{rl[r]})
			}
		case x < 45:
			add(T("a", I(int64(r)), I(int64(types[c.rng.Intn(nt)]))))
			hs = append(hs, hd{rl[r]})
		case x < 62:
			add(T("s", I(int64(r)), I(int64(strLens[c.rng.Intn(len(strLens))]))))
		case x < 74:
			add(T("x", I(int64(r))))
			exts = append(exts, ext{})
			extL = append(extL, rl[r])
			rl[r] = nL
			nL++
		case x < 84:
			if k := openExt(); k >= 0 {
				add(T("c", I(int64(k))))
				exts[k].closed = true
				closedL[extL[k]] = true
			}
		case x < 89:
			if k := openExt(); k >= 0 {
				add(T("ba", I(int64(k)), I(int64(types[c.rng.Intn(nt)]))))
				hs = append(hs, hd{extL[k]})
			}
		case x < 92:
			if k := openExt(); k >= 0 {
				add(T("bs", I(int64(k)), I(int64(strLens[c.rng.Intn(len(strLens))]))))
			}
		case x < 98:
			if len(hs) > 0 {
				j := c.rng.Intn(len(hs))
				if !closedL[hs[j].lbank] {
					add(T("w", I(int64(j))))
				}
			}
		default:
			if len(rl) < 4 {
				nb()
			}
		}
	}
	return T("bankops", ops)
}

// ---------------------------------------------------------------- (b) file retention

type c10In struct {
	N int64  `json:"n"`
	S string `json:"s"`
	B []byte `json:"b"`
}

type c10Rec struct {
	ID int64             `json:"id"`
	S  string            `json:"s"`
	B  []byte            `json:"b"`
	SS []string          `json:"ss"`
	BB [][]byte          `json:"bb"`
	NN [][]int64         `json:"nn"`
	M  map[string]string `json:"m"`
	MB map[string][]byte `json:"mb"`
	PS *string           `json:"ps"`
	PI *c10In            `json:"pi"`
	IN []c10In           `json:"in"`
	PN *int64            `json:"pn"`
}

func c10RandStr(rng *rand.Rand, max int) string {
	n := rng.Intn(max + 1)
	b := make([]byte, n)
	for i := range b {
		b[i] = byte('a' + rng.Intn(26))
	}
	return string(b)
}

func c10RandBytes(rng *rand.Rand, max int) []byte {
	n := rng.Intn(max + 1)
	b := make([]byte, n)
	rng.Read(b)
	return b
}

func c10GenRec(rng *rand.Rand, id int64) *c10Rec {
	r := &c10Rec{ID: id, S: c10RandStr(rng, 30), B: c10RandBytes(rng, 30)}
	for i := rng.Intn(4); i > 0; i-- {
		r.SS = append(r.SS, c10RandStr(rng, 12))
	}
	for i := rng.Intn(3); i > 0; i-- {
		r.BB = append(r.BB, c10RandBytes(rng, 12))
	}
	for i := rng.Intn(3); i > 0; i-- {
		var row []int64
		for j := rng.Intn(4); j > 0; j-- {
			row = append(row, rng.Int63n(1<<40)-1<<39)
		}
		r.NN = append(r.NN, row)
	}
	if rng.Intn(4) != 0 {
		r.M = map[string]string{}
		for i := rng.Intn(4); i > 0; i-- {
			r.M[c10RandStr(rng, 6)+fmt.Sprint(i)] = c10RandStr(rng, 10)
		}
	}
	if rng.Intn(4) != 0 {
		r.MB = map[string][]byte{}
		for i := rng.Intn(3); i > 0; i-- {
			r.MB[c10RandStr(rng, 6)+fmt.Sprint(i)] = c10RandBytes(rng, 10)
		}
	}
	if rng.Intn(3) != 0 {
		s := c10RandStr(rng, 20)
		r.PS = &s
	}
	if rng.Intn(3) != 0 {
		r.PI = &c10In{N: rng.Int63n(1000), S: c10RandStr(rng, 10), B: c10RandBytes(rng, 6)}
	}
	for i := rng.Intn(3); i > 0; i-- {
		r.IN = append(r.IN, c10In{N: rng.Int63n(1000), S: c10RandStr(rng, 10), B: c10RandBytes(rng, 6)})
	}
	if rng.Intn(3) != 0 {
		v := rng.Int63n(1 << 50)
		r.PN = &v
	}
	return r
}

func c10EqIn(a, b *c10In) bool { return a.N == b.N && a.S == b.S && bytes.Equal(a.B, b.B) }

// first field in which got differs from want ("" if none); nil and empty collections are the same value
func c10Diff(got, want *c10Rec) string {
	switch {
	case got.ID != want.ID:
		return "id"
	case got.S != want.S:
		return "s"
	case !bytes.Equal(got.B, want.B):
		return "b"
	case len(got.SS) != len(want.SS):
		return "ss"
	case len(got.BB) != len(want.BB):
		return "bb"
	case len(got.NN) != len(want.NN):
		return "nn"
	case len(got.M) != len(want.M):
		return "m"
	case len(got.MB) != len(want.MB):
		return "mb"
	case (got.PS == nil) != (want.PS == nil):
		return "ps"
	case (got.PI == nil) != (want.PI == nil):
		return "pi"
	case len(got.IN) != len(want.IN):
		return "in"
	case (got.PN == nil) != (want.PN == nil):
		return "pn"
	}
	for i := range want.SS {
		if got.SS[i] != want.SS[i] {
			return "ss"
		}
	}
	for i := range want.BB {
		if !bytes.Equal(got.BB[i], want.BB[i]) {
			return "bb"
		}
	}
	for i := range want.NN {
		if len(got.NN[i]) != len(want.NN[i]) {
			return "nn"
		}
		for j := range want.NN[i] {
			if got.NN[i][j] != want.NN[i][j] {
				return "nn"
			}
		}
	}
	for k, v := range want.M {
		if g, ok := got.M[k]; !ok || g != v {
			return "m"
		}
	}
	for k, v := range want.MB {
		if g, ok := got.MB[k]; !ok || !bytes.Equal(g, v) {
			return "mb"
		}
	}
	if want.PS != nil && *got.PS != *want.PS {
		return "ps"
	}
	if want.PI != nil && !c10EqIn(got.PI, want.PI) {
		return "pi"
	}
	for i := range want.IN {
		if !c10EqIn(&got.IN[i], &want.IN[i]) {
			return "in"
		}
	}
	if want.PN != nil && *got.PN != *want.PN {
		return "pn"
	}
	return ""
}

var errC10Stop = errors.New("stop reading")

func execFileRetain(codec string, bs, nrecs int, seed int64, closePct int) sx {
	rng := rand.New(rand.NewSource(seed))
	want := make([]*c10Rec, nrecs)
	for i := range want {
		want[i] = c10GenRec(rng, int64(i))
	}
	if nrecs > 0 {
		// the first block is the largest, so the reader's block buffers are reused (not reallocated) afterwards
		want[0].S = c10Str[:50] + string(bytes.Repeat([]byte("x"), bs+1500))
	}
	if bs >= 100000 && nrecs >= 4 {
		// values of 64 KiB and more (one record per block; the first block stays the largest)
		big := func(n int, salt byte) []byte {
			b := make([]byte, n)
			for i := range b {
				b[i] = byte(i*7) ^ salt ^ byte(i>>8)
			}
			return b
		}
		want[0].S = string(big(3*bs, 1))
		want[1].S = string(big(1<<16, 2))
		want[1].BB = [][]byte{big(1<<16+1, 3), big(70000, 4)}
		want[2].S = string(big(1<<16-1, 5))
		want[2].SS = []string{string(big(66000, 6))}
		want[3].MB = map[string][]byte{string(big(1<<16, 7)): big(1<<16, 8)}
	}
	var file bytes.Buffer
	enc, err := avro.NewEncoderFor[c10Rec](&file, avro.Compression(codec), bs)
	if err != nil {
		return T("err", A("encoder"), A(clean(err.Error())))
	}
	for _, r := range want {
		if err := enc.Encode(r); err != nil {
			return T("err", A("encode"), A(clean(err.Error())))
		}
		if rng.Intn(10) == 0 {
			enc.Flush()
		}
	}
	if err := enc.Flush(); err != nil {
		return T("err", A("flush"), A(clean(err.Error())))
	}
	data := file.Bytes()
	data2 := append([]byte(nil), data...)
	nblocks := c10CountBlocks(data)

	var (
		kept   []c10Rec
		banks  []*avro.ResourceBank
		closed []bool
	)
	closeBank := func(i int) {
		if !closed[i] {
			closed[i] = true
			banks[i].Close()
		}
	}
	// every fourth case stops the read early by returning an error from the callback - after retaining the
	// record it was given: the bank handed to the callback stays the callback's
	stopAt := -1
	if seed%4 == 0 && nrecs > 2 {
		stopAt = 1 + rng.Intn(nrecs-1)
	}
	err = avro.ReadFile(bytes.NewReader(data), c10Rec{}, func(p unsafe.Pointer, rb *avro.ResourceBank) error {
		kept = append(kept, *(*c10Rec)(p)) // shallow copy, as the callback contract asks
		banks = append(banks, rb)
		closed = append(closed, false)
		i := len(kept) - 1
		if i == stopAt {
			return errC10Stop
		}
		if rng.Intn(100) < closePct {
			switch rng.Intn(3) {
			case 0: // at once
				closeBank(i)
			case 1: // an earlier one
				closeBank(rng.Intn(i + 1))
			}
			// case 2: after the read
		}
		return nil
	})
	if stopAt >= 0 {
		if !errors.Is(err, errC10Stop) {
			return T("err", A("read-stop"), A(clean(fmt.Sprint(err))))
		}
		want = want[:stopAt+1]
		nrecs = stopAt + 1
	} else if err != nil {
		return T("err", A("read"), A(clean(err.Error())))
	}
	if len(kept) != nrecs {
		return T("err", A("count"), I(int64(len(kept))))
	}
	for i := range kept {
		if !closed[i] && rng.Intn(100) < closePct/2 {
			closeBank(i)
		}
	}
	// everything the harness owns is overwritten
	for i := range data {
		data[i] = 0xAA
	}
	// churn: a second read whose banks are closed at once reuses whatever is in the pool
	err = avro.ReadFile(bytes.NewReader(data2), c10Rec{}, func(p unsafe.Pointer, rb *avro.ResourceBank) error {
		rb.Close()
		return nil
	})
	if err != nil {
		return T("err", A("read2"), A(clean(err.Error())))
	}
	for i := range data2 {
		data2[i] = 0x55
	}
	nkept, nclosed := 0, 0
	for i := range kept {
		if closed[i] {
			nclosed++
			continue
		}
		nkept++
		if f := c10Diff(&kept[i], want[i]); f != "" {
			return T("corrupt", I(int64(i)), A(f))
		}
	}
	for i := range kept {
		closeBank(i)
	}
	return T("ok", A(fmt.Sprintf("kept=%d", nkept)), A(fmt.Sprintf("closed=%d", nclosed)), A(fmt.Sprintf("blocks=%d", nblocks)))
}

type c10TRec struct {
	T time.Time `json:"t"`
	S string    `json:"s"`
}

// execTimeRetain: (timeretain codec seed): records holding a time.Time (carried as an RFC 3339 string with a numeric offset the
// process has probably not seen before) in a multi-block file; everything reachable from a retained record - the instant, the
// offset AND the name of its *time.Location - is snapshotted in the callback and compared after the remaining blocks were read.
func execTimeRetain(codec string, seed int64) sx {
	avrotime.RegisterCodecs()
	rng := rand.New(rand.NewSource(seed))
	n := 24 + rng.Intn(16)
	want := make([]c10TRec, n)
	for i := range want {
		off := (rng.Intn(2*839+1) - 839) * 60 // whole minutes within +-13:59
		want[i] = c10TRec{T: time.Unix(rng.Int63n(4e9), int64(rng.Intn(1e9))).In(time.FixedZone("", off)), S: c10RandStr(rng, 20)}
	}
	var file bytes.Buffer
	enc, err := avro.NewEncoderFor[c10TRec](&file, avro.Compression(codec), 96)
	if err != nil {
		return T("err", A("encoder"), A(clean(err.Error())))
	}
	for i := range want {
		if err := enc.Encode(&want[i]); err != nil {
			return T("err", A("encode"), A(clean(err.Error())))
		}
	}
	if err := enc.Flush(); err != nil {
		return T("err", A("flush"), A(clean(err.Error())))
	}
	data := file.Bytes()
	nblocks := c10CountBlocks(data)
	type snap struct{ name, text string }
	var kept []c10TRec
	var snaps []snap
	var banks []*avro.ResourceBank
	describe := func(r *c10TRec) snap {
		return snap{strings.Clone(r.T.Location().String()), strings.Clone(r.T.Format("2006-01-02T15:04:05.999999999Z07:00 MST") + "|" + r.S)}
	}
	err = avro.ReadFile(bufio.NewReader(bytes.NewReader(data)), c10TRec{}, func(p unsafe.Pointer, rb *avro.ResourceBank) error {
		kept = append(kept, *(*c10TRec)(p))
		snaps = append(snaps, describe(&kept[len(kept)-1]))
		banks = append(banks, rb)
		return nil
	})
	if err != nil {
		return T("err", A("read"), A(clean(err.Error())))
	}
	if len(kept) != n {
		return T("err", A("count"), I(int64(len(kept))))
	}
	for i := range data {
		data[i] = 0xAA
	}
	for i := range kept {
		_, wantOff := want[i].T.Zone()
		_, gotOff := kept[i].T.Zone()
		if !kept[i].T.Equal(want[i].T) || gotOff != wantOff || kept[i].S != want[i].S {
			return T("corrupt", I(int64(i)), A("value"))
		}
		if now := describe(&kept[i]); now != snaps[i] {
			what := "text"
			if now.name != snaps[i].name {
				what = "zone-name"
			}
			return T("corrupt", I(int64(i)), A(what))
		}
	}
	for _, rb := range banks {
		rb.Close()
	}
	return T("ok", A(fmt.Sprintf("kept=%d", n)), A("closed=0"), A(fmt.Sprintf("blocks=%d", nblocks)))
}

// number of data blocks of a container file the harness wrote itself (header: magic, one meta map block, sync)
func c10CountBlocks(data []byte) int {
	pos := 4
	rd := func() int64 {
		var x uint64
		var s uint
		for {
			b := data[pos]
			pos++
			x |= uint64(b&0x7f) << s
			if b < 0x80 {
				break
			}
			s += 7
		}
		return int64(x>>1) ^ -int64(x&1)
	}
	defer func() { recover() }()
	for {
		n := rd()
		if n == 0 {
			break
		}
		if n < 0 {
			n = -n
			rd()
		}
		for ; n > 0; n-- {
			pos += int(rd())
			pos += int(rd())
		}
	}
	pos += 16
	blocks := 0
	for pos < len(data) {
		rd()
		pos += int(rd()) + 16
		blocks++
	}
	return blocks
}

func genC10(c *ctx) {
	for i := c.scale(260, 2500); i > 0; i-- {
		c.emit(genBankOps(c))
	}
	codecs := []string{"null", "deflate", "snappy"}
	for i := 0; i < c.scale(90, 900); i++ {
		bs := []int{64, 300, 1000, 4000}[c.rng.Intn(4)]
		nrecs := 1 + c.rng.Intn(c.scale(40, 120))
		pct := []int{0, 30, 60, 100}[c.rng.Intn(4)]
		c.emit(T("fileretain", A(codecs[i%3]), I(int64(bs)), I(int64(nrecs)), I(c.rng.Int63n(1<<40)), I(int64(pct))))
	}
	for i := 0; i < c.scale(6, 40); i++ {
		c.emit(T("timeretain", A(codecs[i%3]), I(c.rng.Int63n(1<<40))))
	}
	// strings, byte slices and map keys of 64 KiB and more, retained across blocks (seed 1 mod 4: the read is not stopped early)
	for i := 0; i < c.scale(3, 12); i++ {
		c.emit(T("fileretain", A(codecs[i%3]), I(100000), I(int64(4+c.rng.Intn(3))), I(c.rng.Int63n(1<<38)*4+1), I(0)))
	}
}
