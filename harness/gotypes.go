package main

// Go type descriptors <-> reflect.Type, and abstract Go values <-> reflect.Value.
// The S-expression forms mirror the Lean types GoType / GoVal (AvroModel/Build.lean, Codec.lean).

import (
	"encoding/hex"
	"fmt"
	"math"
	"reflect"
	"sort"
	"strconv"
	"strings"
	"time"
	"unsafe"

	"github.com/unravelin/null/v5"
)

func hs(s string) sx     { return A("x" + hex.EncodeToString([]byte(s))) }
func (s sx) str() string { return string(s.bytes()) }

var (
	timeT       = reflect.TypeOf(time.Time{})
	nullIntT    = reflect.TypeOf(null.Int{})
	nullBoolT   = reflect.TypeOf(null.Bool{})
	nullFloatT  = reflect.TypeOf(null.Float{})
	nullStringT = reflect.TypeOf(null.String{})
	nullTimeT   = reflect.TypeOf(null.Time{})
)

// goTypeOf builds the reflect.Type for a descriptor.
//
//	bool | (int w) | (uint w) | f32 | f64 | complex | string | (slice T) | (array n T) | (map K V) | (ptr T)
//	| (struct nameHex pkgHex (field nameHex exported jsonTagHex bqTagHex T)...) | time | (nullT kind) | iface | chan | func
func goTypeOf(d sx) reflect.Type {
	if !d.isL {
		switch d.atom {
		case "bool":
			return reflect.TypeOf(false)
		case "f32":
			return reflect.TypeOf(float32(0))
		case "f64":
			return reflect.TypeOf(float64(0))
		case "complex":
			return reflect.TypeOf(complex128(0))
		case "complex64":
			return reflect.TypeOf(complex64(0))
		case "uintgo": // Go `uint`
			return reflect.TypeOf(uint(0))
		case "uintptr":
			return reflect.TypeOf(uintptr(0))
		case "string":
			return reflect.TypeOf("")
		case "time":
			return timeT
		case "iface":
			return reflect.TypeOf((*any)(nil)).Elem()
		case "chan":
			return reflect.TypeOf((chan int)(nil))
		case "func":
			return reflect.TypeOf((func())(nil))
		case "unsafeptr":
			return reflect.TypeOf((*int)(nil)) // not generated
		}
		panic("harness: bad type atom " + d.atom)
	}
	a := d.args()
	switch d.tag() {
	case "int":
		switch a[0].int() {
		case 8:
			return reflect.TypeOf(int8(0))
		case 16:
			return reflect.TypeOf(int16(0))
		case 32:
			return reflect.TypeOf(int32(0))
		case 64:
			return reflect.TypeOf(int64(0))
		case 0: // Go `int`
			return reflect.TypeOf(int(0))
		}
	case "uint":
		switch a[0].int() {
		case 8:
			return reflect.TypeOf(uint8(0))
		case 16:
			return reflect.TypeOf(uint16(0))
		case 32:
			return reflect.TypeOf(uint32(0))
		case 64:
			return reflect.TypeOf(uint64(0))
		}
	case "slice":
		return reflect.SliceOf(goTypeOf(a[0]))
	case "array":
		return reflect.ArrayOf(int(a[0].int()), goTypeOf(a[1]))
	case "map":
		return reflect.MapOf(goTypeOf(a[0]), goTypeOf(a[1]))
	case "ptr":
		return reflect.PointerTo(goTypeOf(a[0]))
	case "nullT":
		switch a[0].atom {
		case "int":
			return nullIntT
		case "bool":
			return nullBoolT
		case "double", "float":
			return nullFloatT
		case "string":
			return nullStringT
		case "time":
			return nullTimeT
		}
	case "struct":
		var fs []reflect.StructField
		for _, f := range a[2:] {
			fa := f.args()
			tag := ""
			if j := fa[2].str(); j != "" {
				tag = "json:" + strconv.Quote(j)
			}
			if b := fa[3].str(); b != "" {
				if tag != "" {
					tag += " "
				}
				tag += "bq:" + strconv.Quote(b)
			}
			ft := goTypeOf(fa[4])
			// convention of the descriptors: a struct-typed field whose name starts with "Emb" is embedded
			// (its fields are promoted); the model sees an ordinary field, as reflect's Type.Field(i) does
			emb := strings.HasPrefix(fa[0].str(), "Emb") && ft.Kind() == reflect.Struct
			fs = append(fs, reflect.StructField{Name: fa[0].str(), Type: ft, Tag: reflect.StructTag(tag), Anonymous: emb})
		}
		return reflect.StructOf(fs)
	}
	panic("harness: bad type descriptor " + d.String())
}

// setVal stores the abstract value v into dst (which has the type the descriptor denotes).
func setVal(dst reflect.Value, v sx) {
	t := dst.Type()
	switch t {
	case timeT:
		dst.Set(reflect.ValueOf(timeOf(v)))
		return
	case nullIntT:
		a := v.args()
		dst.Set(reflect.ValueOf(null.NewInt(a[1].args()[0].int(), a[0].atom == "true")))
		return
	case nullBoolT:
		a := v.args()
		dst.Set(reflect.ValueOf(null.NewBool(a[1].args()[0].atom == "true", a[0].atom == "true")))
		return
	case nullFloatT:
		a := v.args()
		dst.Set(reflect.ValueOf(null.NewFloat(math.Float64frombits(a[1].args()[0].uint()), a[0].atom == "true")))
		return
	case nullStringT:
		a := v.args()
		dst.Set(reflect.ValueOf(null.NewString(string(a[1].args()[0].bytes()), a[0].atom == "true")))
		return
	case nullTimeT:
		a := v.args()
		dst.Set(reflect.ValueOf(null.NewTime(timeOf(a[1]), a[0].atom == "true")))
		return
	}
	a := v.args()
	switch t.Kind() {
	case reflect.Bool:
		dst.SetBool(a[0].atom == "true")
	case reflect.Int, reflect.Int8, reflect.Int16, reflect.Int32, reflect.Int64:
		dst.SetInt(a[0].int())
	case reflect.Float32:
		// SetFloat would go through float64; NaN payloads must survive, so write the bits directly
		*(*uint32)(dst.Addr().UnsafePointer()) = uint32(a[0].uint())
	case reflect.Float64:
		*(*uint64)(dst.Addr().UnsafePointer()) = a[0].uint()
	case reflect.String:
		dst.SetString(string(a[0].bytes()))
	case reflect.Slice:
		if t.Elem().Kind() == reflect.Uint8 {
			b := a[0].bytes()
			if v.tag() == "bytesnil" {
				return
			}
			dst.SetBytes(append(make([]byte, 0, len(b)), b...))
			return
		}
		if v.tag() == "slicenil" {
			return
		}
		s := reflect.MakeSlice(t, len(a), len(a))
		for i := range a {
			setVal(s.Index(i), a[i])
		}
		dst.Set(s)
	case reflect.Array:
		b := a[0].bytes()
		for i := 0; i < t.Len() && i < len(b); i++ {
			dst.Index(i).SetUint(uint64(b[i]))
		}
	case reflect.Map:
		if a[0].atom == "nil" {
			return
		}
		m := reflect.MakeMap(t)
		for _, e := range a[1:] {
			k := reflect.New(t.Key()).Elem()
			k.SetString(string(e.list[0].bytes()))
			val := reflect.New(t.Elem()).Elem()
			setVal(val, e.list[1])
			m.SetMapIndex(k, val)
		}
		dst.Set(m)
	case reflect.Pointer:
		if a[0].atom == "none" && !a[0].isL {
			return
		}
		p := reflect.New(t.Elem())
		setVal(p.Elem(), a[0])
		dst.Set(p)
	case reflect.Struct:
		for i := 0; i < t.NumField(); i++ {
			setVal(dst.Field(i), a[i])
		}
	default:
		panic("harness: cannot set kind " + t.Kind().String())
	}
}

func timeOf(v sx) time.Time {
	a := v.args()
	sec, nsec, off := a[0].int(), a[1].int(), int(a[2].int())
	if sec == -62135596800 && nsec == 0 && off == 0 {
		return time.Time{}
	}
	loc := time.UTC
	if off != 0 {
		loc = time.FixedZone("", off)
	}
	return time.Unix(sec, nsec).In(loc)
}

func timeSx(t time.Time) sx {
	_, off := t.Zone()
	return T("time", I(t.Unix()), I(int64(t.Nanosecond())), I(int64(off)))
}

func boolSx(b bool) sx {
	if b {
		return A("true")
	}
	return A("false")
}

// dumpVal renders a reflect.Value canonically (maps sorted by key; nil and empty slices identified,
// nil-ness of maps reported).
func dumpVal(v reflect.Value) sx {
	t := v.Type()
	switch t {
	case timeT:
		return timeSx(v.Interface().(time.Time))
	case nullIntT:
		x := v.Interface().(null.Int)
		return T("nullw", boolSx(x.Valid), T("int", I(x.Int64)))
	case nullBoolT:
		x := v.Interface().(null.Bool)
		return T("nullw", boolSx(x.Valid), T("bool", boolSx(x.Bool)))
	case nullFloatT:
		x := v.Interface().(null.Float)
		return T("nullw", boolSx(x.Valid), T("f64", U(math.Float64bits(x.Float64))))
	case nullStringT:
		x := v.Interface().(null.String)
		return T("nullw", boolSx(x.Valid), T("str", H([]byte(x.String))))
	case nullTimeT:
		x := v.Interface().(null.Time)
		return T("nullw", boolSx(x.Valid), timeSx(x.Time))
	}
	switch t.Kind() {
	case reflect.Bool:
		if v.CanAddr() {
			// a Go bool holds 0 or 1; anything else is not a value of the type (and compares unequal to true and false)
			if raw := *(*byte)(unsafe.Pointer(v.UnsafeAddr())); raw > 1 {
				return T("invalid-bool", I(int64(raw)))
			}
		}
		return T("bool", boolSx(v.Bool()))
	case reflect.Int, reflect.Int8, reflect.Int16, reflect.Int32, reflect.Int64:
		return T("int", I(v.Int()))
	case reflect.Uint, reflect.Uint8, reflect.Uint16, reflect.Uint32, reflect.Uint64, reflect.Uintptr:
		return T("int", U(v.Uint()))
	case reflect.Float32:
		if !v.CanAddr() {
			nv := reflect.New(t).Elem()
			nv.Set(v)
			v = nv
		}
		return T("f32", U(uint64(*(*uint32)(v.Addr().UnsafePointer()))))
	case reflect.Float64:
		return T("f64", U(math.Float64bits(v.Float())))
	case reflect.String:
		return T("str", H([]byte(v.String())))
	case reflect.Slice:
		if t.Elem().Kind() == reflect.Uint8 {
			return T("bytes", H(v.Bytes()))
		}
		out := T("slice")
		for i := 0; i < v.Len(); i++ {
			out.list = append(out.list, dumpVal(v.Index(i)))
		}
		return out
	case reflect.Array:
		if t.Elem().Kind() != reflect.Uint8 {
			return T("unsupported", A(clean(fmt.Sprint(t))))
		}
		b := make([]byte, v.Len())
		for i := range b {
			b[i] = byte(v.Index(i).Uint())
		}
		return T("fixed", H(b))
	case reflect.Map:
		out := T("map")
		if v.IsNil() {
			out.list = append(out.list, A("nil"))
		} else {
			out.list = append(out.list, A("nonnil"))
		}
		keys := v.MapKeys()
		sort.Slice(keys, func(i, j int) bool { return keys[i].String() < keys[j].String() })
		for _, k := range keys {
			out.list = append(out.list, L(H([]byte(k.String())), dumpVal(v.MapIndex(k))))
		}
		return out
	case reflect.Pointer:
		if v.IsNil() {
			return T("ptr", A("none"))
		}
		return T("ptr", dumpVal(v.Elem()))
	case reflect.Struct:
		out := T("struct")
		for i := 0; i < v.NumField(); i++ {
			out.list = append(out.list, dumpVal(v.Field(i)))
		}
		return out
	}
	return T("unsupported", A(clean(fmt.Sprint(t))))
}

// fillJunk stores a non-zero value in every part of v it can reach (destination structs that a caller reuses
// still hold the previous record: ReadFile must clear them before every record)
func fillJunk(v reflect.Value, depth int) {
	if depth > 4 || !v.CanSet() {
		return
	}
	switch v.Type() {
	case timeT:
		v.Set(reflect.ValueOf(time.Unix(1234567890, 5).UTC()))
		return
	}
	switch v.Kind() {
	case reflect.Bool:
		v.SetBool(true)
	case reflect.Int, reflect.Int8, reflect.Int16, reflect.Int32, reflect.Int64:
		v.SetInt(77)
	case reflect.Uint, reflect.Uint8, reflect.Uint16, reflect.Uint32, reflect.Uint64:
		v.SetUint(77)
	case reflect.Float32, reflect.Float64:
		v.SetFloat(7.5)
	case reflect.String:
		v.SetString("junk-from-an-earlier-record")
	case reflect.Slice:
		s := reflect.MakeSlice(v.Type(), 2, 2)
		fillJunk(s.Index(0), depth+1)
		fillJunk(s.Index(1), depth+1)
		v.Set(s)
	case reflect.Array:
		for i := 0; i < v.Len(); i++ {
			fillJunk(v.Index(i), depth+1)
		}
	case reflect.Map:
		if v.Type().Key().Kind() != reflect.String {
			return
		}
		m := reflect.MakeMap(v.Type())
		e := reflect.New(v.Type().Elem()).Elem()
		fillJunk(e, depth+1)
		m.SetMapIndex(reflect.ValueOf("junk-key").Convert(v.Type().Key()), e)
		v.Set(m)
	case reflect.Pointer:
		p := reflect.New(v.Type().Elem())
		fillJunk(p.Elem(), depth+1)
		v.Set(p)
	case reflect.Struct:
		for i := 0; i < v.NumField(); i++ {
			fillJunk(v.Field(i), depth+1)
		}
	}
}
