package main

// Codec-level execution against the real library: build a codec for (schema, Go type) through
// Schema.Codec, then Read / Skip / Write through it. The destination struct sits between canary
// arrays inside one allocation so that out-of-field stores are observable.

import (
	"bytes"
	"reflect"
	"unsafe"

	"github.com/philpearl/avro"
	avronull "github.com/philpearl/avro/null"
	avrotime "github.com/philpearl/avro/time"
)

func init() {
	avrotime.RegisterCodecs()
	avronull.RegisterCodecs()
}

const canaryWords = 8

type cell struct {
	holder reflect.Value // struct{Pre [8]uint64; V T; Post [8]uint64}
	v      reflect.Value // the T field (addressable)
}

var holderCache = map[reflect.Type]reflect.Type{}

func newCell(t reflect.Type) cell {
	ht, ok := holderCache[t]
	if !ok {
		ca := reflect.TypeOf([canaryWords]uint64{})
		ht = reflect.StructOf([]reflect.StructField{{Name: "Pre", Type: ca}, {Name: "V", Type: t}, {Name: "Post", Type: ca}})
		holderCache[t] = ht
	}
	h := reflect.New(ht).Elem()
	for i := 0; i < canaryWords; i++ {
		h.Field(0).Index(i).SetUint(canaryVal)
		h.Field(2).Index(i).SetUint(canaryVal)
	}
	return cell{holder: h, v: h.Field(1)}
}

func (c cell) intact() bool {
	for i := 0; i < canaryWords; i++ {
		if c.holder.Field(0).Index(i).Uint() != canaryVal || c.holder.Field(2).Index(i).Uint() != canaryVal {
			return false
		}
	}
	return true
}

func (c cell) ptr() unsafe.Pointer { return c.v.Addr().UnsafePointer() }

type builtKey struct{ t, s string }
type builtVal struct {
	codec avro.Codec
	typ   reflect.Type
	err   error
}

var builtCache = map[builtKey]builtVal{}

func build(td, sd sx) builtVal {
	k := builtKey{td.String(), sd.String()}
	if v, ok := builtCache[k]; ok {
		return v
	}
	if len(builtCache) > 4096 {
		builtCache = map[builtKey]builtVal{}
	}
	t := goTypeOf(td)
	s := schemaOf(sd)
	c, err := s.Codec(reflect.New(t).Interface())
	v := builtVal{codec: c, typ: t, err: err}
	builtCache[k] = v
	return v
}

func execCodec(op string, a []sx) sx {
	b := build(a[0], a[1])
	if b.err != nil {
		return T("builderr")
	}
	switch op {
	case "cread", "cread-recycled":
		creadCount++
		if op == "cread-recycled" {
			// the judged decode takes a bank that an earlier record filled with pointer-sized values and closed (done here, in
			// the same step, so that it does not depend on what the cases in between left in the pool)
			type filler struct {
				Ps []**int64 `json:"ps"`
			}
			fs, err := avro.SchemaFromString(`{"type":"record","name":"Pp","fields":[{"name":"ps","type":{"type":"array","items":"long"}}]}`)
			if err != nil {
				panic("harness: filler schema: " + err.Error())
			}
			fc, err := fs.Codec(filler{})
			if err != nil {
				panic("harness: filler codec: " + err.Error())
			}
			w := avro.NewWriteBuf(nil)
			w.Varint(40)
			for i := 0; i < 40; i++ {
				w.Varint(int64(0x0101010101010101 * (i + 1)))
			}
			w.Varint(0)
			var f filler
			fr := avro.NewReadBuf(w.Bytes())
			if err := fc.Read(fr, unsafe.Pointer(&f)); err != nil {
				panic("harness: filler decode: " + err.Error())
			}
			fr.ExtractResourceBank().Close()
		}
		dst := newCell(b.typ)
		r := avro.NewReadBuf(a[2].bytes())
		err := b.codec.Read(r, dst.ptr())
		if !dst.intact() {
			return T("clobber")
		}
		if err != nil {
			r.ExtractResourceBank().Close()
			return errSx
		}
		// the value is dumped before its bank goes back to the pool: later cases decode into
		// recycled banks (big / small / big allocation histories arise from the case mix)
		out := T("ok", dumpVal(dst.v), I(int64(r.Len())))
		r.ExtractResourceBank().Close()
		if creadCount%3 == 0 {
			// What an application does with a decoded record is its own business: after the judged decode (whose bank went
			// back to the pool as always) the same bytes are decoded again, the caller writes into the empty maps, empty slices
			// and byte strings of that record - it keeps it, its bank is not returned -, and a further decode by the same codec
			// must still give the value the first one gave.
			owned := newCell(b.typ)
			if err := b.codec.Read(avro.NewReadBuf(a[2].bytes()), owned.ptr()); err == nil {
				scribbleEmpties(owned.v, 0)
			}
			again := newCell(b.typ)
			ar := avro.NewReadBuf(a[2].bytes())
			if err := b.codec.Read(ar, again.ptr()); err != nil {
				return T("caller-writes-leak", A("the-same-bytes-no-longer-decode"))
			}
			d2 := dumpVal(again.v)
			ar.ExtractResourceBank().Close()
			if d2.String() != out.args()[0].String() {
				return T("caller-writes-leak", d2)
			}
		}
		return out
	case "cskip":
		r := avro.NewReadBuf(a[2].bytes())
		if err := b.codec.Skip(r); err != nil {
			return errSx
		}
		return T("ok", I(int64(r.Len())))
	case "cwrite":
		src := newCell(b.typ)
		setVal(src.v, a[2])
		w, pre := newWB()
		b.codec.Write(w, src.ptr())
		return T("ok", H(wbOut(w, pre)))
	case "crt":
		src := newCell(b.typ)
		setVal(src.v, a[2])
		w, pre := newWB()
		b.codec.Write(w, src.ptr())
		bs := wbOut(w, pre)
		dst := newCell(b.typ)
		r := avro.NewReadBuf(bs)
		err := b.codec.Read(r, dst.ptr())
		if !dst.intact() {
			return T("clobber")
		}
		if err != nil {
			r.ExtractResourceBank().Close()
			return T("ok", H(bs), errSx, I(int64(r.Len())))
		}
		out := T("ok", H(bs), dumpVal(dst.v), I(int64(r.Len())))
		r.ExtractResourceBank().Close()
		return out
	}
	panic("harness: unknown codec op " + op)
}

// newWB returns a WriteBuf for one Write call; every other one already holds a few bytes (codecs append, they never
// assume an empty buffer) and has a capacity close to what will be appended. wbOut returns what was appended - or the
// whole buffer if the bytes that were there before were touched.
var wbCount int

func newWB() (*avro.WriteBuf, []byte) {
	wbCount++
	if wbCount%2 == 0 {
		return avro.NewWriteBuf(nil), nil
	}
	n := 1 + wbCount%7
	pre := make([]byte, n, n+wbCount%5)
	for i := range pre {
		pre[i] = byte(0xC0 + i + wbCount)
	}
	return avro.NewWriteBuf(pre), append([]byte(nil), pre...)
}

func wbOut(w *avro.WriteBuf, pre []byte) []byte {
	b := w.Bytes()
	if len(b) < len(pre) || !bytes.Equal(b[:len(pre)], pre) {
		return append([]byte("prefix-damaged:"), b...)
	}
	return append([]byte(nil), b[len(pre):]...)
}

var creadCount int

// scribbleEmpties inserts an entry into every empty non-nil map and appends (within capacity or not) to every empty non-nil
// slice reachable from v - the writes of an application that owns the record
func scribbleEmpties(v reflect.Value, depth int) {
	if depth > 12 {
		return
	}
	switch v.Kind() {
	case reflect.Pointer:
		if !v.IsNil() {
			scribbleEmpties(v.Elem(), depth+1)
		}
	case reflect.Struct:
		for i := 0; i < v.NumField(); i++ {
			if v.Type().Field(i).IsExported() {
				scribbleEmpties(v.Field(i), depth+1)
			}
		}
	case reflect.Map:
		if v.IsNil() || !v.CanSet() {
			return
		}
		if v.Len() == 0 && v.Type().Key().Kind() == reflect.String {
			v.SetMapIndex(reflect.ValueOf("scribbled-by-the-caller").Convert(v.Type().Key()), reflect.Zero(v.Type().Elem()))
			return
		}
		for _, k := range v.MapKeys() {
			e := v.MapIndex(k)
			if e.Kind() == reflect.Pointer || e.Kind() == reflect.Map {
				scribbleEmpties(e, depth+1)
			}
		}
	case reflect.Slice:
		if v.IsNil() || !v.CanSet() {
			return
		}
		if v.Len() == 0 {
			v.Set(reflect.Append(v, reflect.Zero(v.Type().Elem())))
			return
		}
		if v.Type().Elem().Kind() == reflect.Uint8 {
			// a decoded byte string belongs to the caller: edited in place and appended to
			b := v.Bytes()
			for i := range b {
				b[i] ^= 0xFF
			}
			if cap(b) > len(b) {
				_ = append(b, 0xEE)
			}
			return
		}
		for i := 0; i < v.Len(); i++ {
			scribbleEmpties(v.Index(i), depth+1)
		}
	}
}
