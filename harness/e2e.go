package main

// End-to-end cases (C01, and the container-level oracle of C02): a sequence of values of a Go
// struct type is written to an Avro object container file and read back with ReadFile.
//
// For run-time built types (reflect.StructOf) the generic NewEncoderFor[T] cannot be instantiated,
// so the writer is assembled from the library's exported pieces exactly as encoder.go does
// (SchemaForType, Schema.Codec, Schema.Marshal, NewFileWriter, WriteHeader, Codec.Write into a
// WriteBuf, WriteBlock when the buffer reaches the block size and on flush); the Encoder's own
// buffering logic is the subject of C09 and is exercised here through a set of static types.

import (
	"bufio"
	"bytes"
	"fmt"
	"reflect"
	"time"
	"unsafe"

	"github.com/philpearl/avro"
	"github.com/unravelin/null/v5"
)

func init() { props["E2E"] = prop{gen: genE2E, exec: execE2E} }

// ---- static types for the real generic Encoder ----

type stInner struct {
	X int64   `json:"x"`
	Y *string `json:"y,omitempty"`
}

type stWide struct {
	A int64               `json:"a"`
	B string              `json:"b,omitempty"`
	C []string            `json:"c"`
	D map[string]int64    `json:"d,omitempty"`
	E *int32              `json:"e"`
	F float32             `json:"f,omitempty"`
	G time.Time           `json:"g"`
	H null.Int            `json:"h"`
	I []byte              `json:"i"`
	J []*stInner          `json:"j"`
	K map[string]*stInner `json:"k"`
	L int16               `json:"l"`
	M *[]int64            `json:"m"`
	N null.String         `json:"n,omitempty"`
	O bool                `json:"o,omitempty"`
	P float64             `json:"p"`
}

type stPtrs struct {
	A **int64            `json:"a"`
	B *map[string]string `json:"b"`
	C *stInner           `json:"c,omitempty"`
	D []map[string][]int32
	E null.Time  `json:"e"`
	F null.Bool  `json:"f"`
	G null.Float `json:"g"`
}

// stEmpty encodes to zero bytes: blocks with a record count and an empty payload
type stEmpty struct{}

type staticEnc interface {
	encode(v reflect.Value) error
	flush() error
}
type staticEncOf[T any] struct{ e *avro.Encoder[T] }

func (s staticEncOf[T]) encode(v reflect.Value) error { return s.e.Encode(v.Addr().Interface().(*T)) }
func (s staticEncOf[T]) flush() error                 { return s.e.Flush() }

func newStaticEnc[T any](w *bytes.Buffer, codec string, bs int) (staticEnc, error) {
	e, err := avro.NewEncoderFor[T](w, avro.Compression(codec), bs)
	if err != nil {
		return nil, err
	}
	return staticEncOf[T]{e}, nil
}

var staticTypes = map[string]struct {
	t   reflect.Type
	enc func(w *bytes.Buffer, codec string, bs int) (staticEnc, error)
}{
	"stWide":  {reflect.TypeOf(stWide{}), newStaticEnc[stWide]},
	"stEmpty": {reflect.TypeOf(stEmpty{}), newStaticEnc[stEmpty]},
	"stPtrs":  {reflect.TypeOf(stPtrs{}), newStaticEnc[stPtrs]},
}

// writeFile writes the values and returns the file bytes.
func writeFile(static string, t reflect.Type, codec string, bs int, vals []sx, flushes map[int]bool) ([]byte, error) {
	var buf bytes.Buffer
	if static != "" {
		e, err := staticTypes[static].enc(&buf, codec, bs)
		if err != nil {
			return nil, err
		}
		// one variable for all records, as callers of Encode usually have: what has been encoded must not
		// depend on what the variable holds afterwards
		rv := reflect.New(t).Elem()
		for i, v := range vals {
			rv.Set(reflect.Zero(t))
			setVal(rv, v)
			if err := e.encode(rv); err != nil {
				return nil, err
			}
			if flushes[i] {
				if err := e.flush(); err != nil {
					return nil, err
				}
			}
		}
		if err := e.flush(); err != nil {
			return nil, err
		}
		return buf.Bytes(), nil
	}
	proto := reflect.New(t).Interface()
	schema, err := avro.SchemaForType(proto)
	if err != nil {
		return nil, fmt.Errorf("schema: %w", err)
	}
	c, err := schema.Codec(proto)
	if err != nil {
		return nil, fmt.Errorf("codec: %w", err)
	}
	sb, err := schema.Marshal()
	if err != nil {
		return nil, err
	}
	fw, err := avro.NewFileWriter(sb, avro.Compression(codec))
	if err != nil {
		return nil, err
	}
	if err := fw.WriteHeader(&buf); err != nil {
		return nil, err
	}
	wb := avro.NewWriteBuf(make([]byte, 0, bs))
	count := 0
	flush := func() error {
		if count > 0 {
			if err := fw.WriteBlock(&buf, count, wb.Bytes()); err != nil {
				return err
			}
			count = 0
			wb.Reset()
		}
		return nil
	}
	cell := newCell(t) // reused for every record (see above)
	for i, v := range vals {
		cell.v.Set(reflect.Zero(t))
		setVal(cell.v, v)
		c.Write(wb, cell.ptr())
		count++
		if wb.Len() >= bs {
			if err := flush(); err != nil {
				return nil, err
			}
		}
		if flushes[i] {
			if err := flush(); err != nil {
				return nil, err
			}
		}
	}
	if err := flush(); err != nil {
		return nil, err
	}
	return buf.Bytes(), nil
}

// splitFile is the harness's own container splitter: header bytes, then (count, inflated payload) per block.
func splitFile(file []byte, codec string) (hdr []byte, blocks []sx, ok bool) {
	// header: magic, one or more map blocks, 16 sync bytes
	pos := 4
	rv := func() (int64, bool) {
		var u uint64
		var s uint
		for i := 0; ; i++ {
			if pos >= len(file) || i > 9 {
				return 0, false
			}
			b := file[pos]
			pos++
			if b < 0x80 {
				u |= uint64(b) << s
				return int64(u>>1) ^ -int64(u&1), true
			}
			u |= uint64(b&0x7f) << s
			s += 7
		}
	}
	for {
		n, k := rv()
		if !k {
			return nil, nil, false
		}
		if n == 0 {
			break
		}
		if n < 0 {
			n = -n
			if _, k := rv(); !k {
				return nil, nil, false
			}
		}
		for ; n > 0; n-- {
			for j := 0; j < 2; j++ {
				l, k := rv()
				if !k || l < 0 || pos+int(l) > len(file) {
					return nil, nil, false
				}
				pos += int(l)
			}
		}
	}
	if pos+16 > len(file) {
		return nil, nil, false
	}
	sync := file[pos : pos+16]
	pos += 16
	hdr = file[:pos]
	for pos < len(file) {
		cnt, k := rv()
		if !k {
			return nil, nil, false
		}
		sz, k := rv()
		if !k || sz < 0 || pos+int(sz)+16 > len(file) {
			return nil, nil, false
		}
		payload := file[pos : pos+int(sz)]
		pos += int(sz)
		if !bytes.Equal(file[pos:pos+16], sync) {
			return nil, nil, false
		}
		pos += 16
		plain := payload
		if codec != "null" {
			out, good := inflate(codec, payload)
			if !good {
				return nil, nil, false
			}
			plain = out
		}
		blocks = append(blocks, L(I(cnt), H(plain)))
	}
	return hdr, blocks, true
}

func execE2E(op string, a []sx) sx {
	static := ""
	var t reflect.Type
	if a[0].tag() == "static" {
		static = a[0].args()[0].atom
		t = staticTypes[static].t
	} else {
		t = goTypeOf(a[0])
	}
	codec, bs := a[1].atom, int(a[2].int())
	vals := a[3].list
	flushes := map[int]bool{}
	for _, f := range a[4].list {
		flushes[int(f.int())] = true
	}
	file, err := writeFile(static, t, codec, bs, vals, flushes)
	if err != nil {
		return T("writeerr", A(clean(err.Error())))
	}
	// the records are collected (shallow copies, banks kept open) and looked at only after the whole file has
	// been read, as a caller gathering a result set does: delivered values stay valid until their bank is closed
	recs := T("recs")
	var kept []reflect.Value
	var banks []*avro.ResourceBank
	// the destination handed to ReadFile is a pointer to a struct that still holds an earlier record (half of the cases)
	outp := reflect.New(t)
	if len(file)%2 == 0 {
		fillJunk(outp.Elem(), 0)
	}
	rerr := avro.ReadFile(bufio.NewReader(bytes.NewReader(file)), outp.Interface(), func(val unsafe.Pointer, rb *avro.ResourceBank) error {
		cp := reflect.New(t)
		cp.Elem().Set(reflect.NewAt(t, val).Elem())
		kept = append(kept, cp)
		banks = append(banks, rb)
		return nil
	})
	for _, cp := range kept {
		recs.list = append(recs.list, dumpVal(cp.Elem()))
	}
	for _, rb := range banks {
		rb.Close()
	}
	res := A("ok")
	if rerr != nil {
		res = T("err", A(clean(rerr.Error())))
	}
	hdr, blocks, good := splitFile(file, codec)
	cont := T("container", A("unsplittable"))
	if good {
		// the schema the file carries, as the library parses it back (the JSON text itself is C14's subject)
		cont = T("container", H(hdr), L(blocks...))
	}
	// the schema generated for the type, for the driver's model
	var schema sx = A("none")
	if s, err := avro.SchemaForType(reflect.New(t).Interface()); err == nil {
		schema = schemaSx(s)
	}
	desc := a[0]
	if static != "" {
		d, _, _ := descOf(t)
		desc = d
	}
	return T("e2e", desc, schema, res, recs, cont)
}

func genE2E(c *ctx) {
	codecs := []string{"null", "deflate", "snappy"}
	n := c.scale(250, 6000)
	for i := 0; i < n; i++ {
		w := &wgen{rng: c.rng, maxDepth: 1 + c.rng.Intn(c.scale(3, 5))}
		vg := &vgen{w}
		var ty sx
		var desc sx
		switch {
		case i%10 == 0:
			ty = T("static", A("stWide"))
			desc, _, _ = descOf(staticTypes["stWide"].t)
		case i%10 == 1:
			ty = T("static", A("stPtrs"))
			desc, _, _ = descOf(staticTypes["stPtrs"].t)
		case i%50 == 2:
			ty = T("static", A("stEmpty"))
			desc, _, _ = descOf(staticTypes["stEmpty"].t)
		default:
			ty = vg.randStruct(0)
			desc = ty
		}
		nrec := []int{0, 1, 2, 3, 5, 9}[c.rng.Intn(6)]
		vals := L()
		for k := 0; k < nrec; k++ {
			vals.list = append(vals.list, vg.goVal(desc, nil))
		}
		bs := []int{0, 1, 8, 40, 200, 1 << 14}[c.rng.Intn(6)]
		fl := L()
		for k := 0; k < nrec; k++ {
			if c.rng.Intn(4) == 0 {
				fl.list = append(fl.list, I(int64(k)))
			}
		}
		c.emit(T("e2e", ty, A(codecs[i%3]), I(int64(bs)), vals, fl))
	}
	// blocks that hold more records than bytes: zero-width records, and many small identical
	// records that compress to less than one byte each
	for _, codec := range codecs {
		for _, nrec := range []int{1, 7, 300} {
			vals := L()
			for k := 0; k < nrec; k++ {
				vals.list = append(vals.list, T("struct"))
			}
			c.emit(T("e2e", T("static", A("stEmpty")), A(codec), I(1<<14), vals, L()))
		}
		// a record that is one fixed-width value, different in every record
		onef := T("struct", hs(""), hs(""), T("field", hs("F"), A("true"), hs("f"), hs(""), A("f64")))
		fv := L()
		for k := 0; k < 5; k++ {
			fv.list = append(fv.list, T("struct", T("f64", U(uint64(0x3ff0000000000000+k*0x1000000000000)))))
		}
		c.emit(T("e2e", onef, A(codec), I(1<<14), fv, L(I(1))))
		tiny := T("struct", hs(""), hs(""), T("field", hs("A"), A("true"), hs("a"), hs(""), tInt(64)))
		vals := L()
		for k := 0; k < c.scale(1500, 6000); k++ {
			vals.list = append(vals.list, T("struct", T("int", I(7))))
		}
		c.emit(T("e2e", tiny, A(codec), I(1<<20), vals, L()))
		// record counts per block at the steps of the varint encoding of the count (63, 64, 65, 127, 128, 129): one block each,
		// distinct values so that a lost or repeated record shows
		for _, nrec := range []int{63, 64, 65, 127, 128, 129} {
			vs := L()
			for k := 0; k < nrec; k++ {
				vs.list = append(vs.list, T("struct", T("int", I(int64(k*k-nrec)))))
			}
			c.emit(T("e2e", tiny, A(codec), I(1<<20), vs, L()))
		}
	}
}

// ---- large blocks: payloads around and above the container reader's 1 MiB read chunk ----

func init() { props["BIG"] = prop{gen: genBIG, exec: execBIG} }

func execBIG(op string, a []sx) sx {
	codec, size, nrec := a[0].atom, int(a[1].int()), int(a[2].int())
	var buf bytes.Buffer
	e, err := avro.NewEncoderFor[recB](&buf, avro.Compression(codec), 1<<30)
	if err != nil {
		return T("writeerr", A(clean(err.Error())))
	}
	mk := func(i int) []byte {
		n := size / nrec
		if i == nrec-1 {
			n = size - (nrec-1)*(size/nrec)
		}
		b := make([]byte, n)
		if nrec == size && nrec%10000 == 0 {
			// identical one-byte records: the data snappy compresses at its very best ratio (64 bytes per 3-byte element)
			b[0] = 0x55
			return b
		}
		for j := range b {
			b[j] = byte(j*31 + i*7)
			if codec != "null" && j%97 != 0 {
				b[j] = byte(i) // compressible, so that the stored block size differs from the payload size
			}
		}
		return b
	}
	for i := 0; i < nrec; i++ {
		if err := e.Encode(&recB{B: mk(i)}); err != nil {
			return T("writeerr", A(clean(err.Error())))
		}
	}
	if err := e.Flush(); err != nil {
		return T("writeerr", A(clean(err.Error())))
	}
	// a second, small block after the big one
	e.Encode(&recB{B: []byte("tail")})
	e.Flush()
	file := buf.Bytes()
	got := 0
	bad := -1
	rerr := avro.ReadFile(bufio.NewReader(bytes.NewReader(file)), &recB{}, func(val unsafe.Pointer, rb *avro.ResourceBank) error {
		r := (*recB)(val)
		want := []byte("tail")
		if got < nrec {
			want = mk(got)
		}
		if !bytes.Equal(r.B, want) && bad < 0 {
			bad = got
		}
		got++
		rb.Close()
		return nil
	})
	if rerr != nil {
		return T("err", A(clean(rerr.Error())), I(int64(got)))
	}
	if bad >= 0 {
		return T("mismatch", I(int64(bad)))
	}
	return T("ok", I(int64(got)), I(int64(len(file))))
}

func genBIG(c *ctx) {
	sizes := []int{1<<20 - 40, 1<<20 - 1, 1 << 20, 1<<20 + 1, 3 << 19, 2<<20 + 17}
	if c.thorough {
		sizes = append(sizes, 5<<20+3, 1<<23)
	}
	for _, codec := range []string{"null", "deflate", "snappy"} {
		for _, s := range sizes {
			for _, nrec := range []int{1, 7} {
				c.emit(T("e2e-big", A(codec), I(int64(s)), I(int64(nrec))))
			}
		}
		// one block holding 2^16 and more one-byte records (a record count that needs 17 bits; periodic data that snappy
		// compresses at its best ratio, about 21 : 1)
		for _, n := range []int{65535, 65536, 65537, 70001, 20000, 40000} {
			c.emit(T("e2e-big", A(codec), I(int64(n)), I(int64(n))))
		}
	}
}
