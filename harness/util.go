package main

import (
	"encoding/hex"
	"fmt"
	"math"
	"strings"
)

func hx(b []byte) string { return "x" + hex.EncodeToString(b) }

func clean(msg string) string {
	msg = strings.Map(func(r rune) rune {
		if r == '(' || r == ')' || r == ' ' || r == '\n' || r == '\t' || r == '\r' {
			return '_'
		}
		return r
	}, msg)
	if len(msg) > 80 {
		msg = msg[:80]
	}
	if msg == "" {
		msg = "_"
	}
	return msg
}

// protectSx runs f and converts a panic into a "(panic msg)" outcome.
func protectSx(f func() sx) (out sx) {
	defer func() {
		if r := recover(); r != nil {
			msg := fmt.Sprint(r)
			if strings.HasPrefix(msg, "harness:") {
				panic(r)
			}
			out = T("panic", A(clean(msg)))
		}
	}()
	return f()
}

var errSx = T("err")

// boundary int64 values: ±2^(7k-1)±{0,1} for every varint length, width limits
func boundaryInts() []int64 {
	var out []int64
	add := func(v int64) { out = append(out, v) }
	for _, v := range []int64{0, 1, -1, 2, -2, 63, 64, -64, -65} {
		add(v)
	}
	for k := 1; k <= 9; k++ {
		b := int64(1) << uint(7*k-1)
		for _, d := range []int64{-2, -1, 0, 1} {
			add(b + d)
			add(-b + d)
		}
	}
	for _, w := range []uint{8, 16, 32, 64} {
		m := int64(1)<<(w-1) - 1
		add(m)
		add(-m - 1)
		if w < 64 {
			add(m + 1)
			add(-m - 2)
		}
	}
	return out
}

// f32AsF64bits widens a float32 bit pattern to the float64 that holds the same number.
func f32AsF64bits(b uint32) uint64 { return math.Float64bits(float64(math.Float32frombits(b))) }
