package main

import (
	"math"
	"unsafe"

	"github.com/philpearl/avro"
)

func init() { props["C17"] = prop{gen: genC17, exec: newExecC17()} }

// The integer codecs are obtained through the public construction path
// (Schema.Codec on a one-field struct), so the width the library chooses for
// each Go kind is what gets exercised. The destination sits between canaries.
type canary[N any] struct {
	Pre  uint64
	A    N
	B    N // sibling of the same type, directly adjacent
	Post uint64
}

func builtCodec[N any]() (avro.Codec, error) {
	s, err := avro.SchemaFromString(`{"type":"record","name":"r","fields":[{"name":"A","type":"long"}]}`)
	if err != nil {
		return nil, err
	}
	type rec struct{ A N }
	c, err := s.Codec(rec{})
	return c, err
}

const canaryVal = 0xA5A5A5A5A5A5A5A5

type intRW struct {
	read func(bs []byte) sx
	rt   func(v int64) sx
	skip func(bs []byte) sx
}

func mkIntRW[N int | int16 | int32 | int64]() intRW {
	c, err := builtCodec[N]()
	if err != nil {
		f := T_("build-error")
		return intRW{read: func([]byte) sx { return f }, rt: func(int64) sx { return f }, skip: func([]byte) sx { return f }}
	}
	pat := N(0x5A5A)
	fresh := func() *canary[N] {
		d := &canary[N]{Pre: canaryVal, Post: canaryVal}
		d.B = pat
		return d
	}
	intact := func(d *canary[N]) bool {
		return d.Pre == canaryVal && d.Post == canaryVal && d.B == pat
	}
	return intRW{
		skip: func(bs []byte) sx {
			r := avro.NewReadBuf(bs)
			if err := c.Skip(r); err != nil {
				return errSx
			}
			return T("ok", I(int64(r.Len())))
		},
		read: func(bs []byte) sx {
			dst := fresh()
			r := avro.NewReadBuf(bs)
			err := c.Read(r, unsafe.Pointer(&dst.A))
			if !intact(dst) {
				return T_("clobber")
			}
			if err != nil {
				return errSx
			}
			return T("ok", I(int64(dst.A)), I(int64(r.Len())))
		},
		rt: func(v int64) sx {
			src := fresh()
			src.A = N(v)
			w, pre := newWB()
			c.Write(w, unsafe.Pointer(&src.A))
			bs := wbOut(w, pre)
			dst := fresh()
			r := avro.NewReadBuf(bs)
			err := c.Read(r, unsafe.Pointer(&dst.A))
			if !intact(dst) {
				return T_("clobber")
			}
			if err != nil || r.Len() != 0 {
				return errSx
			}
			return T("ok", H(bs), I(int64(dst.A)))
		},
	}
}

func T_(tag string) sx { return T(tag) }

func newExecC17() func(op string, args []sx) sx {
	rw := map[string]intRW{}
	get := func(k string) intRW {
		if v, ok := rw[k]; ok {
			return v
		}
		var v intRW
		switch k {
		case "16":
			v = mkIntRW[int16]()
		case "32":
			v = mkIntRW[int32]()
		case "64":
			v = mkIntRW[int64]()
		default:
			v = mkIntRW[int]()
		}
		rw[k] = v
		return v
	}
	var fc avro.FloatCodec
	var dc avro.DoubleCodec
	var fdc avro.Float32DoubleCodec
	var bc avro.BoolCodec
	return func(op string, a []sx) sx {
		switch op {
		case "varint-w":
			w, pre := newWB()
			w.Varint(a[0].int())
			return H(wbOut(w, pre))
		case "int-r":
			return get(a[0].atom).read(a[1].bytes())
		case "int-s":
			return get(a[0].atom).skip(a[1].bytes())
		case "int-rt":
			return get(a[0].atom).rt(a[1].int())
		case "intk-rt": // Go `int` kind
			return get("int").rt(a[1].int())
		case "f-w":
			w, pre := newWB()
			if a[0].int() == 4 {
				f := math.Float32frombits(uint32(a[1].uint()))
				fc.Write(w, unsafe.Pointer(&f))
			} else {
				f := math.Float64frombits(a[1].uint())
				dc.Write(w, unsafe.Pointer(&f))
			}
			return H(wbOut(w, pre))
		case "f-r":
			r := avro.NewReadBuf(a[1].bytes())
			if a[0].int() == 4 {
				var g [2]float32
				g[1] = 7
				if err := fc.Read(r, unsafe.Pointer(&g[0])); err != nil {
					return errSx
				}
				if g[1] != 7 {
					return T_("clobber")
				}
				return T("ok", U(uint64(math.Float32bits(g[0]))), I(int64(r.Len())))
			}
			var g [2]float64
			g[1] = 7
			if err := dc.Read(r, unsafe.Pointer(&g[0])); err != nil {
				return errSx
			}
			if g[1] != 7 {
				return T_("clobber")
			}
			return T("ok", U(math.Float64bits(g[0])), I(int64(r.Len())))
		case "f32d-rt":
			f := math.Float32frombits(uint32(a[0].uint()))
			w, pre := newWB()
			fdc.Write(w, unsafe.Pointer(&f))
			bs := wbOut(w, pre)
			var h [2]float32
			h[1] = 7
			r := avro.NewReadBuf(bs)
			if err := fdc.Read(r, unsafe.Pointer(&h[0])); err != nil || r.Len() != 0 {
				return errSx
			}
			if h[1] != 7 {
				return T_("clobber")
			}
			return T("ok", H(bs), U(uint64(math.Float32bits(h[0]))))
		case "bool-w":
			b := a[0].atom == "true"
			w, pre := newWB()
			bc.Write(w, unsafe.Pointer(&b))
			return H(wbOut(w, pre))
		case "bool-r":
			var g [2]bool
			r := avro.NewReadBuf(a[0].bytes())
			if err := bc.Read(r, unsafe.Pointer(&g[0])); err != nil {
				return errSx
			}
			if g[1] {
				return T_("clobber")
			}
			if g[0] {
				return T("ok", A("true"), I(int64(r.Len())))
			}
			return T("ok", A("false"), I(int64(r.Len())))
		}
		panic("harness: unknown C17 op " + op)
	}
}

func genC17(c *ctx) {
	// 1. encoder: boundaries of every varint length, width limits, random 64-bit values
	vals := boundaryInts()
	for i := 0; i < c.scale(2000, 200000); i++ {
		switch i % 4 {
		case 0:
			vals = append(vals, int64(c.rng.Uint64()))
		case 1:
			vals = append(vals, int64(c.rng.Uint64())>>uint(c.rng.Intn(64)))
		case 2:
			vals = append(vals, -(int64(c.rng.Uint64()>>1) >> uint(c.rng.Intn(63))))
		default:
			vals = append(vals, int64(int32(c.rng.Uint32())))
		}
	}
	for _, v := range vals {
		c.emit(T("varint-w", I(v)))
	}
	// 2. decoder into every width: valid encodings of the values above (computed by the harness's own
	// encoder, which the driver does not rely on: it decodes the bytes with the Lean model) ...
	for _, v := range vals {
		bs := refVarint(v)
		for _, w := range []int64{16, 32, 64} {
			c.emit(T("int-r", I(w), H(bs)))
			c.emit(T("int-s", I(w), H(bs)))
		}
	}
	// ... every int16 value through write+read of the built int16 codec (exhaustive) ...
	for v := int64(-32768); v <= 32767; v++ {
		c.emit(T("int-rt", I(16), I(v)))
	}
	// ... int32/int64 boundaries and random round trips ...
	for _, v := range vals {
		if v >= math.MinInt32 && v <= math.MaxInt32 {
			c.emit(T("int-rt", I(32), I(v)))
		}
		c.emit(T("int-rt", I(64), I(v)))
		c.emit(T("intk-rt", I(64), I(v)))
	}
	if c.thorough {
		// int32: 4M values spread over the whole range (one per stride of 1073, random phase)
		for i := 0; i < 4000000; i++ {
			v := int64(int32(uint32(i)*1073 + uint32(c.rng.Intn(1073))))
			c.emit(T("int-rt", I(32), I(v)))
		}
	}
	// ... all byte strings of length <= 1 into each width, all of length 2 into int16 (exhaustive) ...
	for _, w := range []int64{16, 32, 64} {
		c.emit(T("int-r", I(w), H(nil)))
		c.emit(T("int-s", I(w), H(nil)))
		for a := 0; a < 256; a++ {
			c.emit(T("int-r", I(w), H([]byte{byte(a)})))
			c.emit(T("int-s", I(w), H([]byte{byte(a)})))
		}
	}
	for a := 0; a < 256; a++ {
		for b := 0; b < 256; b++ {
			c.emit(T("int-r", I(16), H([]byte{byte(a), byte(b)})))
			c.emit(T("int-s", I(16), H([]byte{byte(a), byte(b)})))
		}
	}
	// ... random candidate varints of length <= 11, biased to long continuation runs
	for i := 0; i < c.scale(20000, 1000000); i++ {
		n := c.rng.Intn(12)
		bs := make([]byte, n)
		for j := range bs {
			switch c.rng.Intn(4) {
			case 0:
				bs[j] = byte(c.rng.Intn(256))
			case 1:
				bs[j] = byte(c.rng.Intn(4))
			default:
				bs[j] = 0x80 | byte(c.rng.Intn(128))
			}
		}
		c.emit(T("int-r", I([]int64{16, 32, 64}[c.rng.Intn(3)]), H(bs)))
		c.emit(T("int-s", I([]int64{16, 32, 64}[c.rng.Intn(3)]), H(bs)))
	}
	// 3. floats: specials, sub-normals, NaN payloads, random patterns
	f32s := []uint32{0, 0x80000000, 0x3f800000, 0xbf800000, 0x7f800000, 0xff800000, 0x7fc00000, 0x7fa00001, 0xffc12345,
		1, 0x007fffff, 0x00800000, 0x7f7fffff, 0x80000001}
	f64s := []uint64{0, 1 << 63, 0x3ff0000000000000, 0x7ff0000000000000, 0xfff0000000000000, 0x7ff8000000000000,
		0x7ff4000000000001, 1, 0x000fffffffffffff, 0x0010000000000000, 0x7fefffffffffffff}
	for i := 0; i < c.scale(2000, 300000); i++ {
		f32s = append(f32s, c.rng.Uint32())
		f64s = append(f64s, c.rng.Uint64())
	}
	for _, b := range f32s {
		c.emit(T("f-w", I(4), U(uint64(b))))
		c.emit(T("f-r", I(4), H(refLE(uint64(b), 4))))
		nan := "num"
		if f := math.Float32frombits(b); f != f {
			nan = "nan"
		}
		c.emit(T("f32d-rt", U(uint64(b)), A(nan)))
	}
	for _, b := range f64s {
		c.emit(T("f-w", I(8), U(b)))
		c.emit(T("f-r", I(8), H(refLE(b, 8))))
	}
	for n := 0; n < 8; n++ { // truncated
		c.emit(T("f-r", I(8), H(make([]byte, n))))
		if n < 4 {
			c.emit(T("f-r", I(4), H(make([]byte, n))))
		}
	}
	// 4. bool: both values, every byte
	c.emit(T("bool-w", A("true")))
	c.emit(T("bool-w", A("false")))
	c.emit(T("bool-r", H(nil)))
	for a := 0; a < 256; a++ {
		c.emit(T("bool-r", H([]byte{byte(a), 7})))
	}
}

// refVarint is the harness's own zig-zag varint encoder (independent of the library).
func refVarint(v int64) []byte {
	u := uint64(v<<1) ^ uint64(v>>63)
	var out []byte
	for u >= 0x80 {
		out = append(out, byte(u)|0x80)
		u >>= 7
	}
	return append(out, byte(u))
}

func refLE(v uint64, n int) []byte {
	out := make([]byte, n)
	for i := 0; i < n; i++ {
		out[i] = byte(v >> (8 * uint(i)))
	}
	return out
}
