package main

// Malformed-input stream (C06): record bodies for built codecs on the decode and skip paths,
// container bytes, schema JSON text. Every case reports the outcome class and the number of bytes
// the call allocated (runtime.MemStats.TotalAlloc delta).

import (
	"bufio"
	"bytes"
	"encoding/binary"
	"fmt"
	"math"
	"reflect"
	"runtime"
	"strings"
	"unsafe"

	"github.com/philpearl/avro"
)

func init() { props["MAL"] = prop{gen: genMAL, exec: execMAL} }

func allocDelta(f func()) uint64 {
	var a, b runtime.MemStats
	runtime.ReadMemStats(&a)
	f()
	runtime.ReadMemStats(&b)
	return b.TotalAlloc - a.TotalAlloc
}

func execMAL(op string, a []sx) sx {
	switch op {
	case "mal-read", "mal-skip":
		b := build(a[0], a[1])
		if b.err != nil {
			return T("builderr")
		}
		data := a[2].bytes()
		var out sx
		alloc := allocDelta(func() {
			out = protectSx(func() sx {
				r := avro.NewReadBuf(data)
				if op == "mal-skip" {
					if err := b.codec.Skip(r); err != nil {
						return T("err")
					}
					return T("ok", I(int64(r.Len())))
				}
				dst := newCell(b.typ)
				err := b.codec.Read(r, dst.ptr())
				if !dst.intact() {
					return T("clobber")
				}
				// also on the error path: items stored past the end of a slice's backing array leave len > cap behind
				if l, cp, bad := sliceOverrun(dst.v, 0); bad {
					return T("overrun", I(int64(l)), I(int64(cp)))
				}
				if err != nil {
					return T("err")
				}
				return T("ok", I(int64(r.Len())))
			})
		})
		out.list = append(out.list, U(alloc))
		return out
	case "mal-soak":
		// the same small record decoded many times, each bank closed at once: in the steady state nothing is allocated
		b := build(a[0], a[1])
		if b.err != nil {
			return T("builderr")
		}
		data := a[2].bytes()
		dst := newCell(b.typ)
		r := avro.NewReadBuf(data)
		round := func(n int) error {
			for i := 0; i < n; i++ {
				r.Reset(data)
				if err := b.codec.Read(r, dst.ptr()); err != nil {
					return err
				}
				r.ExtractResourceBank().Close()
			}
			return nil
		}
		if err := round(2000); err != nil { // warm-up: pool and arenas reach their size
			return T("err")
		}
		var err error
		alloc := allocDelta(func() { err = round(int(a[3].int())) })
		if err != nil {
			return T("err")
		}
		return T("ok", U(alloc))
	case "mal-file":
		data := a[1].bytes()
		t := goTypeOf(a[0])
		var out sx
		alloc := allocDelta(func() {
			out = protectSx(func() sx {
				n := 0
				err := avro.ReadFile(bufio.NewReader(bytes.NewReader(data)), reflect.New(t).Interface(), func(val unsafe.Pointer, rb *avro.ResourceBank) error {
					n++
					rb.Close()
					return nil
				})
				if err != nil {
					return T("err", I(int64(n)))
				}
				return T("ok", I(int64(n)))
			})
		})
		out.list = append(out.list, U(alloc))
		return out
	case "mal-schema":
		text := string(a[0].bytes())
		var out sx
		alloc := allocDelta(func() {
			out = protectSx(func() sx {
				s, err := avro.SchemaFromString(text)
				if err != nil {
					return T("err")
				}
				// decoder construction on whatever was parsed, typed and untyped
				type probe struct {
					A int64            `json:"a"`
					B string           `json:"b"`
					C []int64          `json:"c"`
					D map[string]int64 `json:"d"`
					E *probe2          `json:"e"`
					F [4]byte          `json:"f"`
				}
				if _, err := s.Codec(probe{}); err != nil {
					return T("ok", A("builderr"))
				}
				return T("ok", A("built"))
			})
		})
		out.list = append(out.list, U(alloc))
		return out
	}
	panic("harness: unknown MAL op " + op)
}

type probe2 struct {
	X int64 `json:"x"`
}

var nastyVarints = [][]byte{
	refVarint(-1), refVarint(0), refVarint(1), refVarint(math.MaxInt64), refVarint(math.MinInt64), refVarint(1 << 40), refVarint(-(1 << 40)),
	{0xff, 0xff, 0xff, 0xff, 0xff, 0xff, 0xff, 0xff, 0xff, 0x02}, // overflows 64 bits
	{0x80, 0x80, 0x80, 0x80, 0x80, 0x80, 0x80, 0x80, 0x80, 0x80, 0x01},
	{0x80}, // truncated
}

func genMAL(c *ctx) {
	// array block counts that the slice LENGTH cannot take after earlier blocks (Len+count overflows, or the count is
	// MinInt64): rejected before anything is allocated, so these are safe to run in every tier - unlike counts that fit
	// but are not backed by input (D14)
	for _, kind := range []string{"long", "string"} {
		item, isch, gt := refVarint(-1), sPrim("long"), tInt(64)
		if kind == "string" {
			item, isch, gt = append(refVarint(2), 'h', 'i'), sPrim("string"), tString
		}
		rep := func(n int) []byte {
			var out []byte
			for i := 0; i < n; i++ {
				out = append(out, item...)
			}
			return out
		}
		ty := T("struct", hs("H"), hs(""), T("field", hs("A"), A("true"), hs("a"), hs(""), T("slice", gt)))
		sch := schemaSx(sRecord("holder", avro.SchemaRecordField{Name: "a", Type: sArray(isch)}))
		for _, first := range []int{1, 2, 5} {
			for _, big := range []int64{1<<63 - 1, 1<<63 - 2, (1<<63 - 1) - int64(first) + 1, -1 << 63, -(1<<63 - 1)} {
				b := append(refVarint(int64(first)), rep(first)...)
				b = append(b, refVarint(big)...)
				if big < 0 {
					b = append(b, refVarint(int64(3*len(item)))...)
				}
				b = append(b, rep(3)...)
				b = append(b, refVarint(0)...)
				c.emit(T("mal-read", ty, sch, H(b), T("tag", A("array-count-overflows-length"))))
			}
		}
	}
	{
		// steady-state allocation of repeated decoding
		ty := T("struct", hs("H"), hs(""),
			T("field", hs("A"), A("true"), hs("a"), hs(""), T("ptr", tInt(64))),
			T("field", hs("B"), A("true"), hs("b"), hs(""), T("ptr", tString)),
			T("field", hs("C"), A("true"), hs("c"), hs(""), T("map", tString, T("ptr", tInt(64)))))
		sch := schemaSx(sRecord("soak",
			avro.SchemaRecordField{Name: "a", Type: sPrim("long")}, avro.SchemaRecordField{Name: "b", Type: sPrim("string")},
			avro.SchemaRecordField{Name: "c", Type: sMap(sPrim("long"))}))
		var b []byte
		b = append(b, refVarint(5)...)
		b = append(append(b, refVarint(2)...), 'h', 'i')
		b = append(b, refVarint(1)...)
		b = append(append(b, refVarint(1)...), 'k')
		b = append(b, refVarint(9)...)
		b = append(b, refVarint(0)...)
		c.emit(T("mal-soak", ty, sch, H(b), I(int64(c.scale(200000, 2000000)))))
	}
	// a fixed schema whose size is negative (a schema document can say so): read into an array target and skipped
	for _, size := range []int{-1, -8} {
		sch := sRecord("neg", avro.SchemaRecordField{Name: "f", Type: sFixed("fx", size)}, avro.SchemaRecordField{Name: "tail", Type: sPrim("long")})
		for _, ty := range []sx{
			T("struct", hs("H"), hs(""), T("field", hs("F"), A("true"), hs("f"), hs(""), T("array", I(4), T("uint", I(8)))), T("field", hs("Tail"), A("true"), hs("tail"), hs(""), tInt(64))),
			T("struct", hs("H"), hs(""), T("field", hs("Tail"), A("true"), hs("tail"), hs(""), tInt(64))),
		} {
			c.emit(T("mal-read", ty, schemaSx(sch), H([]byte{1, 2, 3, 4, 5, 6, 7, 8, 9, 10}), T("tag", A("negative-fixed-size"))))
			c.emit(T("mal-skip", ty, schemaSx(sch), H([]byte{1, 2, 3, 4, 5, 6, 7, 8, 9, 10}), T("tag", A("negative-fixed-size"))))
		}
	}
	// one wrapper field followed by a plain long: a malformed varint in the wrapper's position must fail the decode even though
	// everything after it is well formed (a wrapper decoder that drops the inner decoder's error would carry on)
	for _, wk := range []struct {
		avro string
		tgt  sx
	}{{"long", T("nullT", A("int"))}, {"int", T("nullT", A("int"))}, {"long", A("time")}, {"long", tInt(16)}, {"long", tInt(32)}, {"long", tInt(64)}} {
		sch := sRecord("w", avro.SchemaRecordField{Name: "n", Type: sPrim(wk.avro)}, avro.SchemaRecordField{Name: "tail", Type: sPrim("long")})
		ty := T("struct", hs("W"), hs(""), T("field", hs("N"), A("true"), hs("n"), hs(""), wk.tgt), T("field", hs("Tail"), A("true"), hs("tail"), hs(""), tInt(64)))
		for _, nv := range nastyVarints {
			data := append(append([]byte(nil), nv...), refVarint(7)...)
			c.emit(T("mal-read", ty, schemaSx(sch), H(data), T("tag", A("wrapper-varint"))))
			c.emit(T("mal-skip", ty, schemaSx(sch), H(data), T("tag", A("wrapper-varint"))))
		}
	}
	bigBudget := c.scale(12, 200) // counts of 2^21: tens of megabytes each
	fatalBudget := c.scale(0, 6)  // huge declared counts are fatal (out of memory) or loop for hours: only a few per run, isolated by ./check
	n := c.scale(60, 2000)
	// every kind of leaf target must occur (the null.* wrappers and time.Time have decoders of their own, each with its own
	// error path): schemas are drawn beyond n until all of them have been seen
	leafKinds := []string{"(nullT int)", "(nullT bool)", "(nullT double)", "(nullT string)", "(nullT time)", " time)", "(int 16)", "(int 32)", " f32)", "(array "}
	seenLeaf := map[string]bool{}
	for i := 0; i < n || (i < n+600 && len(seenLeaf) < len(leafKinds)); i++ {
		w := &wgen{rng: c.rng, maxDepth: 1 + c.rng.Intn(3), withTime: c.rng.Intn(3) == 0 || i >= n, nullLeaves: true}
		s := w.record(0)
		v := w.value(s)
		p := w.plan(s, v, c.rng.Intn(3) == 0)
		bs, rec := encodeSpecRec(p, s, v)
		tg := &tgen{wgen: w, project: c.rng.Intn(2) == 0}
		ty := tg.structFor(s)
		{
			tys, contributes := ty.String(), false
			for _, k := range leafKinds {
				if !seenLeaf[k] && strings.Contains(tys, k) {
					contributes = true
				}
			}
			if i >= n && !contributes {
				continue
			}
			for _, k := range leafKinds {
				if strings.Contains(tys, k) {
					seenLeaf[k] = true
				}
			}
		}
		sch := schemaSx(s.toSchema())
		emit := func(data []byte, tag string) {
			c.emit(T("mal-read", ty, sch, H(data), T("tag", A(tag))))
			c.emit(T("mal-skip", ty, sch, H(data), T("tag", A(tag))))
		}
		// every single-field mutation of every varint to negative, zero, maximal, overflowing, truncated
		for _, f := range rec {
			if f.role == "raw" {
				continue
			}
			for k, nv := range nastyVarints {
				// a block count that is not backed by input is the recorded finding D14
				tag := f.role
				if f.role == "count" && (k == 3 || k == 4 || k == 5 || k == 6) {
					tag = "array-count-not-backed"
					if fatalBudget == 0 {
						continue
					}
					fatalBudget--
				}
				mut := append(append(append([]byte(nil), bs[:f.off]...), nv...), bs[f.off+f.n:]...)
				emit(mut, tag)
			}
			if f.role != "count" {
				// a moderately large number (what a pre-sizing allocation would take at face value)
				for _, big := range []int64{1 << 21, -(1 << 21)} {
					mut := append(append(append([]byte(nil), bs[:f.off]...), refVarint(big)...), bs[f.off+f.n:]...)
					emit(mut, f.role)
				}
			}
			if f.role == "sel" {
				// a union selector just outside the branch list (the branch count itself, one more, ...)
				for sel := int64(1); sel <= 5; sel++ {
					mut := append(append(append([]byte(nil), bs[:f.off]...), refVarint(sel)...), bs[f.off+f.n:]...)
					emit(mut, "sel-small")
				}
			}
			if f.role == "count" && bigBudget > 0 {
				bigBudget--
				// moderately large counts: survivable, allocation is what is observed
				mut := append(append(append([]byte(nil), bs[:f.off]...), refVarint(1<<21)...), bs[f.off+f.n:]...)
				emit(mut, "array-count-not-backed")
			}
		}
		// truncation at every field boundary and a few random positions
		for _, f := range rec {
			emit(bs[:f.off], "truncate")
		}
		for k := 0; k < 3 && len(bs) > 0; k++ {
			emit(bs[:c.rng.Intn(len(bs))], "truncate")
		}
		// bit flips and random bytes
		for k := 0; k < 6 && len(bs) > 0; k++ {
			mut := append([]byte(nil), bs...)
			mut[c.rng.Intn(len(mut))] ^= 1 << uint(c.rng.Intn(8))
			emit(mut, "bitflip")
		}
		rnd := make([]byte, c.rng.Intn(40))
		c.rng.Read(rnd)
		emit(rnd, "random")
	}
	// schema JSON text: valid documents mutated, and junk
	docs := []string{
		`{"type":"record","name":"r","fields":[{"name":"a","type":"long"},{"name":"b","type":["null","string"]},{"name":"c","type":{"type":"array","items":"long"}},{"name":"d","type":{"type":"map","values":"long"}},{"name":"e","type":["null",{"type":"record","name":"p","fields":[{"name":"x","type":"long"}]}]},{"name":"f","type":{"type":"fixed","name":"fx","size":4}}]}`,
		`"array"`, `"map"`, `"fixed"`, `"record"`, `"union"`, `"enum"`, `[]`, `["null"]`, `{"type":"fixed","size":-1,"name":"x"}`,
		`{"type":"record","fields":[{"name":"a","type":"array"}]}`, `{"type":"record","fields":[{"name":"f","type":"fixed"}]}`,
		`{"type":"record","fields":[{"name":"d","type":"map"}]}`, `{"type":"array"}`, `{"type":"map"}`, `{"type":"record"}`,
		`{"type":{"type":"array","items":"long"}}`, `{"type":"record","fields":[{"name":"e","type":["null",{"type":"record"}]}]}`,
		`null`, `1`, `true`, `{}`, `{"type":1}`, `{"type":"record","fields":{}}`, `{"type":"record","fields":[1]}`,
	}
	// complex type names without their object ("fixed" without a size, ...) in every position, for a field the target struct
	// has ("a") and one it has not ("zz": such a field is only skipped, its decoder is built without a Go type)
	for _, name := range []string{"a", "zz"} {
		for _, bare := range []string{`"fixed"`, `"array"`, `"map"`, `"record"`, `"enum"`, `"union"`, `"error"`, `""`, `"nosuchtype"`} {
			for _, wrap := range []string{`%s`, `{"type":"array","items":%s}`, `{"type":"map","values":%s}`, `["null",%s]`, `[%s,"null"]`, `[%s]`,
				`{"type":"record","name":"q","fields":[{"name":"x","type":%s}]}`, `{"type":%s}`} {
				docs = append(docs, `{"type":"record","name":"r","fields":[{"name":"`+name+`","type":`+fmt.Sprintf(wrap, bare)+`}]}`)
			}
		}
	}
	for _, d := range docs {
		c.emit(T("mal-schema", H([]byte(d))))
	}
	base := docs[0]
	for i := 0; i <= len(base); i++ {
		c.emit(T("mal-schema", H([]byte(base[:i]))))
	}
	for i := 0; i < c.scale(300, 5000); i++ {
		b := []byte(base)
		switch c.rng.Intn(3) {
		case 0:
			b[c.rng.Intn(len(b))] = byte(c.rng.Intn(128))
		case 1:
			j := c.rng.Intn(len(b))
			b = append(b[:j], b[j+1:]...)
		default:
			j := c.rng.Intn(len(b))
			b = append(b[:j], append([]byte{`{}[]":,0a`[c.rng.Intn(9)]}, b[j:]...)...)
		}
		c.emit(T("mal-schema", H(b)))
	}
	// container bytes: valid files mutated + junk
	for i := 0; i < c.scale(9, 400); i++ {
		codec := []string{"null", "deflate", "snappy"}[i%3]
		w := &recWriter{}
		e, err := avro.NewEncoderFor[recB](w, avro.Compression(codec), 32)
		if err != nil {
			panic("harness: " + err.Error())
		}
		for k := 0; k < 1+c.rng.Intn(6); k++ {
			p := make([]byte, c.rng.Intn(40))
			e.Encode(&recB{B: p})
		}
		e.Flush()
		var file []byte
		for _, ch := range w.writes {
			file = append(file, ch...)
		}
		ty := T("struct", hs("recB"), hs(""), T("field", hs("B"), A("true"), hs("b"), hs(""), tBytes))
		hdrLen := len(w.writes[0])
		// mutate every byte position after the schema text region once (varints, lengths, payload, sync)
		for j := 0; j < len(file); j++ {
			if j > 8 && j < hdrLen-40 && c.rng.Intn(8) != 0 {
				continue // the schema JSON text region is exercised by mal-schema
			}
			for _, nb := range []byte{0x00, 0x01, 0x7f, 0x80, 0xff, file[j] ^ byte(1<<uint(c.rng.Intn(8)))} {
				if nb == file[j] {
					continue
				}
				mut := append([]byte(nil), file...)
				mut[j] = nb
				tag := "file-byte"
				c.emit(T("mal-file", ty, H(mut), T("tag", A(tag))))
			}
		}
		// declared lengths far beyond the input (block length, metadata value length)
		for _, big := range []int64{1 << 22, 1 << 26} {
			mut := append(append([]byte(nil), w.writes[0]...), refVarint(1)...)
			mut = append(mut, refVarint(big)...)
			mut = append(mut, 1, 2, 3)
			c.emit(T("mal-file", ty, H(mut), T("tag", A("declared-length-not-backed"))))
		}
		if codec == "snappy" && len(w.writes) >= 5 {
			// the snappy block itself declares its decoded length (a uvarint in front of the elements): a few hundred bytes
			// must not make the reader allocate what a damaged declaration says
			payload := w.writes[3]
			_, hl := binary.Uvarint(payload)
			for _, big := range []uint64{1 << 24, 1 << 28, 1<<31 - 1, 0xec9c00e5, 1<<32 - 1} {
				p2 := append(binary.AppendUvarint(nil, big), payload[hl:]...)
				mut := append([]byte(nil), w.writes[0]...)
				mut = append(mut, w.writes[1]...)
				mut = append(mut, refVarint(int64(len(p2)))...)
				mut = append(mut, p2...)
				mut = append(mut, w.writes[4]...)
				c.emit(T("mal-file", ty, H(mut), T("tag", A("snappy-declared-length"))))
			}
		}
		for k := 0; k < 4; k++ {
			c.emit(T("mal-file", ty, H(file[:c.rng.Intn(len(file))]), T("tag", A("truncate"))))
		}
	}
	for i := 0; i < c.scale(50, 1000); i++ {
		rnd := make([]byte, c.rng.Intn(80))
		c.rng.Read(rnd)
		if c.rng.Intn(2) == 0 && len(rnd) > 4 {
			copy(rnd, []byte{'O', 'b', 'j', 1})
		}
		ty := T("struct", hs("recB"), hs(""), T("field", hs("B"), A("true"), hs("b"), hs(""), tBytes))
		c.emit(T("mal-file", ty, H(rnd), T("tag", A("random"))))
	}
	_ = fmt.Sprint
}
