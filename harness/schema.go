package main

// C14: schema JSON parsing / serialisation.
//
// Case lines:
//   (doc xTEXT)   one JSON text (hex of its bytes). Outcome appended by exec:
//                 (res TREEINFO IMPL)
//                   TREEINFO = (notjson) | (tree strict|lax TREE)      -- computed with encoding/json only
//                   IMPL     = (err) | (ok SCHEMA MARSH)                -- avro.SchemaFromString(text)
//                   MARSH    = (merr) | (mnotjson xOUT) | (m TREE REPARSE)   -- Schema.Marshal() of the parsed value
//                   REPARSE  = (err) | (ok SCHEMA)                      -- SchemaFromString(marshal output)
//   (gen NAME)    avro.SchemaForType on the Go struct type registered under NAME:
//                 (res (err) | (ok SCHEMA MARSH))
// TREE   = n | t | f | (i N) | (r xTEXT) | (s xUTF8) | (a TREE...) | (o (xKEY TREE)...)
// SCHEMA = generic reflective dump: (st (Field V)...) | (p V) | nil | (l V...) | (s xUTF8) | (i N)

import (
	"bytes"
	"encoding/json"
	"fmt"
	"io"
	"math/big"
	"math/rand"
	"os"
	"reflect"
	"regexp"
	"strings"
	"time"
	"unicode/utf8"

	"github.com/philpearl/avro"
	_ "github.com/philpearl/avro/time"
)

func init() { props["C14"] = prop{gen: genC14, exec: execC14} }

// ---------------------------------------------------------------- JSON text -> tree (encoding/json only)

var intSyntax = regexp.MustCompile(`^-?(0|[1-9][0-9]*)$`)

// treeOfText returns the document as a tree, preserving member order and duplicates.
func treeOfText(text []byte) (sx, bool) {
	if !json.Valid(text) {
		return sx{}, false
	}
	dec := json.NewDecoder(bytes.NewReader(text))
	dec.UseNumber()
	t, err := walkValue(dec)
	if err != nil {
		return sx{}, false
	}
	if _, err := dec.Token(); err != io.EOF {
		return sx{}, false
	}
	return t, true
}

func walkValue(dec *json.Decoder) (sx, error) {
	tok, err := dec.Token()
	if err != nil {
		return sx{}, err
	}
	return walkFrom(dec, tok)
}

func walkFrom(dec *json.Decoder, tok json.Token) (sx, error) {
	switch v := tok.(type) {
	case nil:
		return A("n"), nil
	case bool:
		if v {
			return A("t"), nil
		}
		return A("f"), nil
	case json.Number:
		s := string(v)
		if intSyntax.MatchString(s) {
			n, _ := new(big.Int).SetString(s, 10)
			return T("i", A(n.String())), nil
		}
		return T("r", hs(s)), nil
	case string:
		return T("s", hs(v)), nil
	case json.Delim:
		switch v {
		case '[':
			out := T("a")
			for dec.More() {
				x, err := walkValue(dec)
				if err != nil {
					return sx{}, err
				}
				out.list = append(out.list, x)
			}
			if _, err := dec.Token(); err != nil {
				return sx{}, err
			}
			return out, nil
		case '{':
			out := T("o")
			for dec.More() {
				kt, err := dec.Token()
				if err != nil {
					return sx{}, err
				}
				k, ok := kt.(string)
				if !ok {
					return sx{}, fmt.Errorf("member name is not a string")
				}
				x, err := walkValue(dec)
				if err != nil {
					return sx{}, err
				}
				out.list = append(out.list, L(hs(k), x))
			}
			if _, err := dec.Token(); err != nil {
				return sx{}, err
			}
			return out, nil
		}
	}
	return sx{}, fmt.Errorf("unexpected token %v", tok)
}

// laxText reports texts that encoding/json accepts but whose strings are not well-formed Unicode
// (invalid UTF-8 bytes, unpaired \uD800-\uDFFF escapes): RFC 8259 calls their interpretation
// unpredictable; a strict parser may reject them. Assumes json.Valid(text).
func laxText(text []byte) bool {
	if !utf8.Valid(text) {
		return true
	}
	in := false
	for i := 0; i < len(text); i++ {
		c := text[i]
		if !in {
			if c == '"' {
				in = true
			}
			continue
		}
		switch c {
		case '"':
			in = false
		case '\\':
			if i+1 < len(text) && text[i+1] == 'u' && i+5 < len(text) {
				var r rune
				fmt.Sscanf(string(text[i+2:i+6]), "%04x", &r)
				if r >= 0xD800 && r < 0xDC00 {
					// needs a following low surrogate escape
					ok := false
					if i+11 < len(text) && text[i+6] == '\\' && text[i+7] == 'u' {
						var r2 rune
						fmt.Sscanf(string(text[i+8:i+12]), "%04x", &r2)
						ok = r2 >= 0xDC00 && r2 < 0xE000
					}
					if !ok {
						return true
					}
					i += 11
					continue
				}
				if r >= 0xDC00 && r < 0xE000 {
					return true
				}
				i += 5
				continue
			}
			i++
		}
	}
	return false
}

// ---------------------------------------------------------------- reflective dump of the implementation's value

func dumpValue(v reflect.Value) sx {
	switch v.Kind() {
	case reflect.String:
		if !utf8.ValidString(v.String()) {
			return T("badutf8", hs(v.String()))
		}
		return T("s", hs(v.String()))
	case reflect.Int, reflect.Int8, reflect.Int16, reflect.Int32, reflect.Int64:
		return T("i", I(v.Int()))
	case reflect.Pointer:
		if v.IsNil() {
			return A("nil")
		}
		return T("p", dumpValue(v.Elem()))
	case reflect.Slice:
		out := T("l")
		for i := 0; i < v.Len(); i++ {
			out.list = append(out.list, dumpValue(v.Index(i)))
		}
		return out
	case reflect.Struct:
		out := T("st")
		t := v.Type()
		for i := 0; i < t.NumField(); i++ {
			if !t.Field(i).IsExported() {
				out.list = append(out.list, L(A("unexported:"+t.Field(i).Name)))
				continue
			}
			out.list = append(out.list, L(A(t.Field(i).Name), dumpValue(v.Field(i))))
		}
		return out
	}
	return T("unsupported", A(clean(v.Kind().String())))
}

func dumpSchema(s avro.Schema) sx { return dumpValue(reflect.ValueOf(s)) }

var (
	prevMarshal     []byte
	prevMarshalCopy string
)

// headerSchemaOutcome: the same text as the avro.schema entry of a container file header, read
// through FileSchema; "err" or the schema dump
func headerSchemaOutcome(text []byte) sx {
	w := avro.NewWriteBuf(nil)
	w.Write([]byte{'O', 'b', 'j', 1})
	w.Varint(2)
	for _, kv := range [][2][]byte{{[]byte("avro.schema"), text}, {[]byte("avro.codec"), []byte("null")}} {
		w.Varint(int64(len(kv[0])))
		w.Write(kv[0])
		w.Varint(int64(len(kv[1])))
		w.Write(kv[1])
	}
	w.Varint(0)
	w.Write(make([]byte, 16))
	f, err := os.CreateTemp("", "c14hdr*.avro")
	if err != nil {
		panic("harness: " + err.Error())
	}
	defer os.Remove(f.Name())
	f.Write(w.Bytes())
	f.Close()
	s, err := avro.FileSchema(f.Name())
	if err != nil {
		return T("err")
	}
	first := T("ok", dumpSchema(s))
	// the caller owns the schema it was given: editing it must not change what the next call returns
	if s.Object != nil {
		s.Object.Name += "_edited_by_caller"
		for i := range s.Object.Fields {
			s.Object.Fields[i].Name += "_edited"
		}
		for i := range s.Object.Symbols {
			s.Object.Symbols[i] += "_edited"
		}
	}
	for i := range s.Union {
		s.Union[i].Type = "edited"
	}
	s2, err := avro.FileSchema(f.Name())
	if err != nil {
		return T("second-call-err")
	}
	if second := T("ok", dumpSchema(s2)); second.String() != first.String() {
		return T("second-call-differs", second)
	}
	return first
}

func marshalOutcome(s avro.Schema) sx {
	var out []byte
	var err error
	r := protectSx(func() sx {
		out, err = s.Marshal()
		return A("done")
	})
	if r.tag() == "panic" {
		return r
	}
	if err != nil {
		return T("merr")
	}
	// the bytes an earlier Marshal call returned belong to its caller (FileWriter keeps them): a later
	// call must not change them
	if prevMarshal != nil && string(prevMarshal) != prevMarshalCopy {
		prevMarshal = nil
		return T("maliased")
	}
	prevMarshal, prevMarshalCopy = out, string(out)
	tree, ok := treeOfText(out)
	if !ok {
		return T("mnotjson", H(out))
	}
	s2, err := avro.SchemaFromString(string(out))
	if err != nil {
		return T("m", tree, T("err"))
	}
	return T("m", tree, T("ok", dumpSchema(s2)))
}

func execC14(op string, a []sx) sx {
	switch op {
	case "doc":
		text := a[0].bytes()
		var info sx
		if tree, ok := treeOfText(text); ok {
			mode := "strict"
			if laxText(text) {
				mode = "lax"
			}
			info = T("tree", A(mode), tree)
		} else {
			info = T("notjson")
		}
		s, err := avro.SchemaFromString(string(text))
		hdr := protectSx(func() sx { return headerSchemaOutcome(text) })
		if err != nil {
			if hdr.tag() != "err" {
				return T("res", info, T("hdr-mismatch", A("SchemaFromString-err"), hdr))
			}
			return T("res", info, T("err"))
		}
		if want := T("ok", dumpSchema(s)); hdr.String() != want.String() {
			return T("res", info, T("hdr-mismatch", A("SchemaFromString-ok"), hdr))
		}
		return T("res", info, T("ok", dumpSchema(s), marshalOutcome(s)))
	case "gen":
		v, ok := genTypes[a[0].atom]
		if !ok {
			panic("harness: unknown gen type " + a[0].atom)
		}
		s, err := avro.SchemaForType(v)
		if err != nil {
			return T("res", T("err"))
		}
		return T("res", T("ok", dumpSchema(s), marshalOutcome(s)))
	}
	panic("harness: unknown C14 op " + op)
}

// ---------------------------------------------------------------- Go types for the schema-generation part

type gInner struct {
	A int64            `json:"a"`
	B *string          `json:"b,omitempty"`
	M map[string][]int `json:"m"`
	T time.Time        `json:"t"`
	U []*float64       `json:"u"`
}

type gOuter struct {
	Name  string   `json:"name"`
	In    gInner   `json:"in"`
	Ins   []gInner `json:"ins,omitempty"`
	PIn   *gInner  `json:"p_in"`
	MM    map[string]map[string][]gInner
	Bytes []byte   `json:"bytes"`
	Arr   [4]int32 `json:"arr"`
	Skip  int      `json:"-"`
	F32   float32  `json:"f32,omitempty"`
	Flag  bool     `bq:"flag"`
	PP    **int    `json:"pp"`
	Uni   string   `json:"ünï\"\\\n"`
}

type gEmpty struct{}

type gDeep struct {
	L1 []map[string][]map[string]*gInner `json:"l1"`
}

type gTimes struct {
	When  time.Time   `json:"when"`
	Whens []time.Time `json:"whens"`
	PW    *time.Time  `json:"pw,omitempty"`
}

var genTypes = map[string]any{
	"inner": gInner{}, "outer": gOuter{}, "empty": gEmpty{}, "deep": &gDeep{}, "times": gTimes{},
	"anon": struct {
		X int                  `json:"x"`
		Y struct{ Z []string } `json:"y"`
	}{},
}

// ---------------------------------------------------------------- document generator

// jv is a JSON value under construction (member order significant).
type jv struct {
	kind byte // n t f # (number text in s) s a o
	s    string
	arr  []jv
	mem  []jm
}
type jm struct {
	k string
	v jv
}

func jstr(s string) jv { return jv{kind: 's', s: s} }
func jnum(s string) jv { return jv{kind: '#', s: s} }
func jarr(xs ...jv) jv { return jv{kind: 'a', arr: xs} }
func jobj(ms ...jm) jv { return jv{kind: 'o', mem: ms} }
func jnull() jv        { return jv{kind: 'n'} }
func jbool(b bool) jv {
	if b {
		return jv{kind: 't'}
	}
	return jv{kind: 'f'}
}

type layout struct {
	rng    *rand.Rand
	spaces bool // random whitespace
	escape bool // random escapes in strings
}

func (l *layout) ws(b *strings.Builder) {
	if !l.spaces {
		return
	}
	for l.rng.Intn(3) == 0 {
		b.WriteByte(" \n\t\r "[l.rng.Intn(5)])
	}
}

func (l *layout) str(b *strings.Builder, s string) {
	b.WriteByte('"')
	for _, r := range s {
		esc := l.escape && l.rng.Intn(6) == 0
		switch {
		case r == '"':
			b.WriteString(`\"`)
		case r == '\\':
			b.WriteString(`\\`)
		case r == '\n' && !esc:
			b.WriteString(`\n`)
		case r == '\t' && !esc:
			b.WriteString(`\t`)
		case r == '/' && esc:
			b.WriteString(`\/`)
		case r < 0x20 || esc:
			if r >= 0x10000 {
				r -= 0x10000
				fmt.Fprintf(b, `\u%04x\u%04X`, 0xD800+(r>>10), 0xDC00+(r&0x3ff))
			} else {
				fmt.Fprintf(b, `\u%04x`, r)
			}
		default:
			b.WriteRune(r)
		}
	}
	b.WriteByte('"')
}

func (l *layout) render(b *strings.Builder, v jv) {
	switch v.kind {
	case 'n':
		b.WriteString("null")
	case 't':
		b.WriteString("true")
	case 'f':
		b.WriteString("false")
	case '#':
		b.WriteString(v.s)
	case 's':
		l.str(b, v.s)
	case 'a':
		b.WriteByte('[')
		for i, x := range v.arr {
			if i > 0 {
				b.WriteByte(',')
			}
			l.ws(b)
			l.render(b, x)
			l.ws(b)
		}
		if len(v.arr) == 0 {
			l.ws(b)
		}
		b.WriteByte(']')
	case 'o':
		b.WriteByte('{')
		for i, m := range v.mem {
			if i > 0 {
				b.WriteByte(',')
			}
			l.ws(b)
			l.str(b, m.k)
			l.ws(b)
			b.WriteByte(':')
			l.ws(b)
			l.render(b, m.v)
			l.ws(b)
		}
		if len(v.mem) == 0 {
			l.ws(b)
		}
		b.WriteByte('}')
	}
}

func (l *layout) text(v jv) string {
	var b strings.Builder
	l.ws(&b)
	l.render(&b, v)
	l.ws(&b)
	return b.String()
}

type sgen struct {
	rng *rand.Rand
}

var primNames = []string{"null", "boolean", "int", "long", "float", "double", "bytes", "string"}
var oddNames = []string{"a", "Rec_1", "com.example.Thing", "ünïcode", "名前", "q\"uote", "back\\slash", "new\nline", "tab\t", "😀", "sl/ash", "\u007f", "x y", "Type", "union2", "record", "\u0001ctl"}
var logicals = []string{"timestamp-micros", "timestamp-millis", "date", "decimal", "uuid", "time-micros", "x"}

func (g *sgen) pick(xs []string) string { return xs[g.rng.Intn(len(xs))] }

func (g *sgen) name() string {
	if g.rng.Intn(3) == 0 {
		return g.pick(oddNames)
	}
	return fmt.Sprintf("n%d", g.rng.Intn(1000))
}

// arbitrary JSON for the value of an unknown attribute
func (g *sgen) anyJSON(depth int) jv {
	k := g.rng.Intn(9)
	if depth <= 0 && k >= 6 {
		k = g.rng.Intn(6)
	}
	switch k {
	case 0:
		return jnull()
	case 1:
		return jbool(g.rng.Intn(2) == 0)
	case 2:
		return jnum(fmt.Sprint(g.rng.Intn(2000) - 1000))
	case 3:
		return jnum(g.pick([]string{"1.5", "-0", "0.0", "1e10", "1E-3", "-12.25e+7", "123456789012345678901234567890", "0e0"}))
	case 4, 5:
		return jstr(g.pick(oddNames))
	case 6, 7:
		n := g.rng.Intn(4)
		xs := make([]jv, n)
		for i := range xs {
			xs[i] = g.anyJSON(depth - 1)
		}
		return jarr(xs...)
	default:
		n := g.rng.Intn(4)
		var ms []jm
		for i := 0; i < n; i++ {
			// distinct keys; may look like known attributes (they are nested inside an unknown one)
			ms = append(ms, jm{fmt.Sprintf("%s%d", g.pick([]string{"k", "type", "name", "ü", ""}), i), g.anyJSON(depth - 1)})
		}
		if n > 0 && g.rng.Intn(3) == 0 {
			ms[0].k = g.pick([]string{"type", "fields", "size", "items"})
		}
		return jobj(ms...)
	}
}

var extraKeys = []string{"doc", "default", "aliases", "order", "precision", "scale", "Type", "NAME", "Size", "", "x-custom", "fieldS", "typ", "types"}

// decorate adds unknown attributes and shuffles the members
func (g *sgen) decorate(o jv, extras bool) jv {
	if extras {
		used := map[string]bool{}
		for g.rng.Intn(2) == 0 {
			k := g.pick(extraKeys)
			if used[k] {
				continue
			}
			used[k] = true
			o.mem = append(o.mem, jm{k, g.anyJSON(2)})
		}
	}
	if g.rng.Intn(3) != 0 {
		g.rng.Shuffle(len(o.mem), func(i, j int) { o.mem[i], o.mem[j] = o.mem[j], o.mem[i] })
	}
	return o
}

func (g *sgen) naming(ms []jm, must bool) []jm {
	if must || g.rng.Intn(2) == 0 {
		ms = append(ms, jm{"name", jstr(g.name())})
	}
	if g.rng.Intn(3) == 0 {
		ms = append(ms, jm{"namespace", jstr(g.pick([]string{"a.b", "com.example", "ns", "ü.x"}))})
	}
	if g.rng.Intn(5) == 0 {
		ms = append(ms, jm{"logicalType", jstr(g.pick(logicals))})
	}
	return ms
}

// schema produces a schema document in the grammar of the property (attributes fit the type)
func (g *sgen) schema(depth int, extras bool) jv {
	k := g.rng.Intn(12)
	if depth <= 0 {
		k = g.rng.Intn(5)
	}
	switch k {
	case 0, 1:
		return jstr(g.pick(primNames))
	case 2:
		return jstr(g.name()) // reference to a named type
	case 3: // primitive in object form, often with a logical type
		ms := []jm{{"type", jstr(g.pick(primNames))}}
		if g.rng.Intn(4) != 0 {
			ms = append(ms, jm{"logicalType", jstr(g.pick(logicals))})
		}
		if g.rng.Intn(6) == 0 {
			ms = g.naming(ms, false)
			ms = dedupKeys(ms)
		}
		return g.decorate(jobj(ms...), extras)
	case 4: // enum / fixed
		if g.rng.Intn(2) == 0 {
			n := g.rng.Intn(5)
			syms := make([]jv, n)
			for i := range syms {
				syms[i] = jstr(g.name())
			}
			ms := g.naming([]jm{{"type", jstr("enum")}}, true)
			ms = append(ms, jm{"symbols", jarr(syms...)})
			return g.decorate(jobj(dedupKeys(ms)...), extras)
		}
		size := g.pick([]string{"0", "1", "4", "16", "12", "1024", "2147483648", "9223372036854775807", "-0", "-3"})
		ms := g.naming([]jm{{"type", jstr("fixed")}}, true)
		ms = append(ms, jm{"size", jnum(size)})
		return g.decorate(jobj(dedupKeys(ms)...), extras)
	case 5, 6: // array
		return g.decorate(jobj(jm{"type", jstr("array")}, jm{"items", g.schema(depth-1, extras)}), extras)
	case 7, 8: // map
		return g.decorate(jobj(jm{"type", jstr("map")}, jm{"values", g.schema(depth-1, extras)}), extras)
	case 9: // union
		n := 1 + g.rng.Intn(4)
		xs := make([]jv, n)
		for i := range xs {
			xs[i] = g.schema(depth-1, extras)
		}
		if g.rng.Intn(2) == 0 {
			xs[0] = jstr("null")
		}
		return jarr(xs...)
	default: // record
		n := g.rng.Intn(5)
		fs := make([]jv, n)
		for i := range fs {
			fm := []jm{{"name", jstr(g.name())}, {"type", g.schema(depth-1, extras)}}
			fs[i] = g.decorate(jobj(fm...), extras)
		}
		ms := g.naming([]jm{{"type", jstr("record")}}, true)
		ms = append(ms, jm{"fields", jarr(fs...)})
		return g.decorate(jobj(dedupKeys(ms)...), extras)
	}
}

func dedupKeys(ms []jm) []jm {
	seen := map[string]bool{}
	var out []jm
	for _, m := range ms {
		if !seen[m.k] {
			seen[m.k] = true
			out = append(out, m)
		}
	}
	return out
}

// the nesting named in the property text: union inside map inside array inside record
func (g *sgen) nestedSpecial(extras bool) jv {
	inner := jarr(jstr("null"), g.schema(2, extras), jobj(jm{"type", jstr("long")}, jm{"logicalType", jstr("timestamp-micros")}))
	m := g.decorate(jobj(jm{"type", jstr("map")}, jm{"values", inner}), extras)
	a := g.decorate(jobj(jm{"type", jstr("array")}, jm{"items", m}), extras)
	f := g.decorate(jobj(jm{"name", jstr("f")}, jm{"type", a}), extras)
	f2 := g.decorate(jobj(jm{"name", jstr("g")}, jm{"type", g.schema(3, extras)}), extras)
	return g.decorate(jobj(jm{"type", jstr("record")}, jm{"name", jstr(g.name())}, jm{"namespace", jstr("a.b")}, jm{"fields", jarr(f, f2)}), extras)
}

// positions of all values in a tree (for tree-level mutation)
func collect(v *jv, out *[]*jv) {
	*out = append(*out, v)
	for i := range v.arr {
		collect(&v.arr[i], out)
	}
	for i := range v.mem {
		collect(&v.mem[i].v, out)
	}
}

func clone(v jv) jv {
	c := v
	c.arr = make([]jv, len(v.arr))
	for i := range v.arr {
		c.arr[i] = clone(v.arr[i])
	}
	c.mem = make([]jm, len(v.mem))
	for i := range v.mem {
		c.mem[i] = jm{v.mem[i].k, clone(v.mem[i].v)}
	}
	return c
}

// mutateTree makes one structural change that leaves the text valid JSON
func (g *sgen) mutateTree(doc jv) jv {
	d := clone(doc)
	var all []*jv
	collect(&d, &all)
	var objs []*jv
	for _, p := range all {
		if p.kind == 'o' && len(p.mem) > 0 {
			objs = append(objs, p)
		}
	}
	wrong := []jv{jnull(), jbool(true), jbool(false), jnum("1"), jnum("4.0"), jnum("4e0"), jnum("1.5"), jnum("9223372036854775808"),
		jnum("-9223372036854775809"), jstr("4"), jstr(""), jarr(), jobj(), jarr(jnull()), jarr(jnum("1")), jarr(jstr("a")),
		jobj(jm{"type", jstr("array")}, jm{"items", jstr("int")}), jarr(jstr("null"), jstr("int"))}
	switch k := g.rng.Intn(10); {
	case k <= 3 && len(objs) > 0: // wrong kind / odd value for some member
		o := objs[g.rng.Intn(len(objs))]
		i := g.rng.Intn(len(o.mem))
		o.mem[i].v = wrong[g.rng.Intn(len(wrong))]
	case k == 4 && len(objs) > 0: // duplicate member (same or different value), anywhere in the member list
		o := objs[g.rng.Intn(len(objs))]
		m := o.mem[g.rng.Intn(len(o.mem))]
		if g.rng.Intn(2) == 0 {
			m.v = g.anyJSON(1)
		}
		at := g.rng.Intn(len(o.mem) + 1)
		o.mem = append(o.mem[:at], append([]jm{m}, o.mem[at:]...)...)
	case k == 5 && len(objs) > 0: // attribute that does not belong to the type / extra known attribute
		o := objs[g.rng.Intn(len(objs))]
		k := g.pick([]string{"size", "items", "values", "symbols", "fields", "type", "name", "logicalType", "namespace"})
		var v jv
		switch k {
		case "size":
			v = jnum(fmt.Sprint(g.rng.Intn(10)))
		case "items", "values":
			v = g.schema(1, false)
		case "symbols":
			v = jarr(jstr("A"), jstr("B"))
		case "fields":
			v = jarr(jobj(jm{"name", jstr("z")}, jm{"type", jstr("int")}))
		default:
			v = jstr(g.name())
		}
		o.mem = append(o.mem, jm{k, v})
	case k == 6 && len(objs) > 0: // change the case of a key / drop a member
		o := objs[g.rng.Intn(len(objs))]
		i := g.rng.Intn(len(o.mem))
		if g.rng.Intn(2) == 0 {
			o.mem[i].k = strings.ToUpper(o.mem[i].k[:min(1, len(o.mem[i].k))]) + o.mem[i].k[min(1, len(o.mem[i].k)):]
		} else {
			o.mem = append(o.mem[:i], o.mem[i+1:]...)
		}
	case k == 7: // a scalar / empty union somewhere a schema is expected
		p := all[g.rng.Intn(len(all))]
		*p = []jv{jnull(), jbool(true), jnum("1"), jnum("2.5"), jarr(), jobj(), jarr(jarr()), jstr("union"), jstr("")}[g.rng.Intn(9)]
	case k == 8: // top-level non-schema
		return []jv{jnull(), jbool(true), jbool(false), jnum("0"), jnum("17"), jnum("-1.5e3"), jarr(), jobj(), jarr(jnull())}[g.rng.Intn(9)]
	default: // nest the whole document as a "type" member (SchemaObject.Type is a Go string)
		return jobj(jm{"type", d}, jm{"name", jstr("w")})
	}
	return d
}

// mutateText damages the text itself
func (g *sgen) mutateText(text string) string {
	b := []byte(text)
	if len(b) == 0 {
		return "}"
	}
	switch g.rng.Intn(10) {
	case 0, 1: // truncate
		return string(b[:g.rng.Intn(len(b))])
	case 2: // trailing comma before a closer
		var idx []int
		for i, c := range b {
			if c == '}' || c == ']' {
				idx = append(idx, i)
			}
		}
		if len(idx) == 0 {
			return text + ","
		}
		i := idx[g.rng.Intn(len(idx))]
		return string(b[:i]) + "," + string(b[i:])
	case 3: // delete one byte
		i := g.rng.Intn(len(b))
		return string(b[:i]) + string(b[i+1:])
	case 4: // replace one byte
		i := g.rng.Intn(len(b))
		repl := []byte("\"'{}[]:,\\x0 \x00\xff")
		b[i] = repl[g.rng.Intn(len(repl))]
		return string(b)
	case 5: // trailing data
		return text + g.pick([]string{"x", " {}", ",", "]", "\"a\"", " null", "\x00", "\f"})
	case 6: // leading junk
		return g.pick([]string{"\ufeff", "//c\n", "/*c*/", "x", ","}) + text
	case 7: // unpaired surrogate escape / invalid UTF-8 inside a string
		i := bytes.IndexByte(b, '"')
		if i < 0 {
			return `"\ud83d"`
		}
		return string(b[:i+1]) + g.pick([]string{`\ud83d`, `\udc00`, "\xff", "\xc3", `\ud83dx`, `\ud83dA`}) + string(b[i+1:])
	case 8: // literal control character / bad escape inside a string
		i := bytes.IndexByte(b, '"')
		if i < 0 {
			return "\"\t\""
		}
		return string(b[:i+1]) + g.pick([]string{"\t", "\n", `\q`, `\u12`, `\x41`, "\x01"}) + string(b[i+1:])
	default: // single quotes / unquoted key / bad literal
		return g.pick([]string{`{'type':'int'}`, `{type:"int"}`, `{"type":"int","doc":tru}`, `{"type":"fixed","size":00}`,
			`{"type":"fixed","size":+1}`, `{"type":"fixed","size":.5}`, `{"type":"int","doc":NaN}`, `{"type":"int" "doc":1}`, `["int" "long"]`, ``, ` `, `[`, `{`, `"`, `{"type"}`, `{"type":}`})
	}
}

func deepDoc(n int, leaf string, kind int) string {
	switch kind {
	case 0: // nested unions
		return strings.Repeat("[", n) + leaf + strings.Repeat("]", n)
	case 1: // nested arrays
		return strings.Repeat(`{"type":"array","items":`, n) + leaf + strings.Repeat("}", n)
	case 2: // nested maps with members after the child
		return strings.Repeat(`{"values":`, n) + leaf + strings.Repeat(`,"type":"map"}`, n)
	default: // deep unknown attribute
		return `{"type":"int","doc":` + strings.Repeat(`{"a":[`, n) + "1" + strings.Repeat("]}", n) + "}"
	}
}

var fixedDocs = []string{
	`"int"`, `{"type":"int"}`, `[]`, `{}`, `null`, `true`, `false`, `0`, `1.5`, `""`, `"union"`, `[[]]`, `[["int"]]`, `[null]`,
	`{"type":"int","type":"long"}`, `{"type":"int","doc":1,"doc":2}`, `{"type":"int","doc":{"a":1,"a":2}}`,
	`{"type":"int","type":"long"}`, `{"type":"long"}`, `{"Type":"int"}`, `{"TYPE":"int","type":"long"}`,
	`{"type":"fixed","size":4.0}`, `{"type":"fixed","size":4e0}`, `{"type":"fixed","size":"4"}`, `{"type":"fixed","size":-0}`,
	`{"type":"fixed","size":9223372036854775807}`, `{"type":"fixed","size":9223372036854775808}`,
	`{"type":"fixed","size":-9223372036854775808}`, `{"type":"fixed","size":-9223372036854775809}`, `{"type":"fixed","size":null,"name":"x"}`,
	`{"type":"record","fields":{}}`, `{"type":"record","fields":null}`, `{"type":"record","fields":[null]}`, `{"type":"record","fields":[{}]}`,
	`{"type":"record","fields":[{"name":"a"}]}`, `{"type":"record","fields":[{"type":"int"}]}`, `{"type":"record","fields":[{"name":null,"type":null}]}`,
	`{"type":"record","fields":[1]}`, `{"type":"record","fields":["a"]}`, `{"type":"record","fields":[[]]}`,
	`{"type":null}`, `{"type":{"type":"array","items":"int"}}`, `{"type":["null","int"]}`, `{"type":1}`,
	`{"type":"array","items":null}`, `{"type":"array","items":[]}`, `{"type":"array","items":{}}`, `{"type":"array"}`, `{"type":"map"}`,
	`{"type":"enum","symbols":["a",null]}`, `{"type":"enum","symbols":["a",1]}`, `{"type":"enum","symbols":"a"}`, `{"type":"enum"}`,
	`{"type":"record","size":4,"items":"int","symbols":["a"]}`, `{"name":"a"}`, `{"type":"int","":"long"}`,
	`{"logicalType":"x","namespace":"n","name":"a","type":"string"}`, `["null",{"type":"string","logicalType":"x"}]`,
	`{"type":"record","name":"r","fields":[{"name":"f","type":{"type":"array","items":{"type":"map","values":["null",{"type":"long","logicalType":"timestamp-micros"}]}}}]}`,
	"\"A\\n😀\"", `"😀"`, `"\ud83d"`, "\"\xff\"", `{"type":"int","doc":"\ud83d"}`, `{"type":"int","doc":1e400}`,
}

func genC14(c *ctx) {
	g := &sgen{rng: c.rng}
	emit := func(text string) { c.emit(T("doc", H([]byte(text)))) }
	// 0. schema generation -> Marshal -> SchemaFromString
	for _, name := range []string{"inner", "outer", "empty", "deep", "times", "anon"} {
		c.emit(T("gen", A(name)))
	}
	// 1. fixed corpus (every behaviour of the JSON library the model commits to)
	for _, d := range fixedDocs {
		emit(d)
	}
	for _, n := range []int{1, 2, 30, 300, 2000} {
		for kind := 0; kind < 4; kind++ {
			emit(deepDoc(n, `"int"`, kind))
		}
	}
	// 2. valid documents: canonical, shuffled, with extras, with layout noise
	nValid := c.scale(2500, 60000)
	for i := 0; i < nValid; i++ {
		extras := i%3 != 0
		var doc jv
		if i%10 == 0 {
			doc = g.nestedSpecial(extras)
		} else {
			doc = g.schema(1+g.rng.Intn(5), extras)
		}
		l := &layout{rng: c.rng, spaces: i%2 == 0, escape: i%4 >= 2}
		emit(l.text(doc))
	}
	// 3. malformed stream
	nBad := c.scale(2500, 60000)
	for i := 0; i < nBad; i++ {
		doc := g.schema(1+g.rng.Intn(4), i%2 == 0)
		l := &layout{rng: c.rng, spaces: i%3 == 0, escape: i%5 == 0}
		if i%2 == 0 {
			emit(l.text(g.mutateTree(doc)))
		} else {
			emit(g.mutateText(l.text(doc)))
		}
	}
}
