package main

// AllocFacts (property C11): pure go/ast over the packages avro, avro/time, avro/null (test files excluded).
//
//   - for every type with a method `New(r *ReadBuf) unsafe.Pointer`: one row per `return` statement of the method,
//     saying what is returned: `r.Alloc(<package-level reflect.Type variable>)` with that variable's initialiser,
//     `r.Alloc(<receiver field>)`, `unsafe_NewArray(<element type expression>, n)`, `nil`, delegation to another
//     codec's New, or "other" (e.g. `reflect.MakeMap(..).Pointer()`), plus the `case` guard the return sits under;
//   - for `arrayCodec.resizeSlice`: the element type handed to unsafe_NewArray;
//   - the field layout (gc/amd64 sizes) of `sliceHeader` and `mapiter` as written in the source;
//   - by reflection, the size of reflect's own map iterator state for the toolchain in use (informational: it is an
//     upper bound of what runtime.mapiterinit touches, not the exact legacy layout the library mirrors).

import (
	"encoding/json"
	"fmt"
	"go/ast"
	"go/token"
	"os"
	"path/filepath"
	"reflect"
	"sort"
	"strings"
)

type allocFact struct {
	Pkg    string `json:"pkg"`
	Type   string `json:"type"`
	Method string `json:"method"`
	Guard  string `json:"guard"` // innermost enclosing `case` expression ("" outside a switch)
	Form   string `json:"form"`  // alloc-var | alloc-field | newarray | nil | delegate | other
	Arg    string `json:"arg"`   // variable / receiver field / element type expression / delegate target
	Init   string `json:"init"`  // initialiser of the package-level variable (alloc-var)
	Pos    string `json:"pos"`
}

type layoutField struct {
	Name    string `json:"name"`
	Type    string `json:"type"`
	Offset  int    `json:"offset"`
	Size    int    `json:"size"`
	Pointer bool   `json:"pointer"`
}

type structLayout struct {
	Name   string        `json:"name"`
	Found  bool          `json:"found"`
	Size   int           `json:"size"`
	Known  bool          `json:"known"` // every field type has a known gc/amd64 size
	Fields []layoutField `json:"fields"`
}

// full rendering of an expression (exprString abbreviates call arguments)
func exprFull(e ast.Expr) string {
	switch t := e.(type) {
	case nil:
		return ""
	case *ast.CallExpr:
		var as []string
		for _, a := range t.Args {
			as = append(as, exprFull(a))
		}
		return exprFull(t.Fun) + "(" + strings.Join(as, ", ") + ")"
	case *ast.SelectorExpr:
		return exprFull(t.X) + "." + t.Sel.Name
	case *ast.CompositeLit:
		if len(t.Elts) == 0 {
			return exprFull(t.Type) + "{}"
		}
		return exprFull(t.Type) + "{..}"
	case *ast.ParenExpr:
		return "(" + exprFull(t.X) + ")"
	case *ast.StarExpr:
		return "*" + exprFull(t.X)
	case *ast.UnaryExpr:
		return t.Op.String() + exprFull(t.X)
	case *ast.IndexExpr:
		return exprFull(t.X) + "[" + exprFull(t.Index) + "]"
	}
	return exprString(e)
}

func isNewMethod(d *ast.FuncDecl) bool {
	if d.Recv == nil || d.Name.Name != "New" || d.Body == nil {
		return false
	}
	ft := d.Type
	if ft.Params == nil || len(ft.Params.List) != 1 || ft.Results == nil || len(ft.Results.List) != 1 {
		return false
	}
	pt := exprString(ft.Params.List[0].Type)
	return (pt == "*ReadBuf" || pt == "*avro.ReadBuf") && exprString(ft.Results.List[0].Type) == "unsafe.Pointer"
}

type allocWalker struct {
	p      *pkg
	d      *ast.FuncDecl
	recv   string
	rparam string
	defs   map[string]ast.Expr // local name -> defining expression (:=, range)
	facts  []allocFact
}

func (w *allocWalker) rooted(e ast.Expr) string {
	// "recv.f" when e is a selector on the receiver, else the plain rendering
	if s, ok := e.(*ast.SelectorExpr); ok {
		if id, ok := s.X.(*ast.Ident); ok && id.Name == w.recv && w.recv != "" {
			return "recv." + s.Sel.Name
		}
	}
	return exprFull(e)
}

// classify what a returned (or assigned) expression allocates
func (w *allocWalker) classify(e ast.Expr, depth int) (form, arg, init string) {
	for {
		if p, ok := e.(*ast.ParenExpr); ok {
			e = p.X
			continue
		}
		break
	}
	if id, ok := e.(*ast.Ident); ok {
		if id.Name == "nil" {
			return "nil", "", ""
		}
		if def, ok := w.defs[id.Name]; ok && depth < 4 {
			return w.classify(def, depth+1)
		}
		return "other", exprFull(e), ""
	}
	c, ok := e.(*ast.CallExpr)
	if !ok {
		return "other", exprFull(e), ""
	}
	if sel, ok := c.Fun.(*ast.SelectorExpr); ok {
		if x, ok := sel.X.(*ast.Ident); ok && x.Name == w.rparam && sel.Sel.Name == "Alloc" && len(c.Args) == 1 {
			a := c.Args[0]
			if id, ok := a.(*ast.Ident); ok {
				if v := w.p.vars[id.Name]; v != nil && id.Obj != nil {
					if _, isSpec := id.Obj.Decl.(*ast.ValueSpec); isSpec {
						return "alloc-var", id.Name, exprFull(v.init)
					}
				}
				if v := w.p.vars[id.Name]; v != nil && id.Obj == nil {
					return "alloc-var", id.Name, exprFull(v.init)
				}
			}
			if r := w.rooted(a); strings.HasPrefix(r, "recv.") {
				return "alloc-field", r, ""
			}
			return "other", exprFull(e), ""
		}
		if sel.Sel.Name == "New" && len(c.Args) == 1 {
			// delegation: <codec expr>.New(r)
			tgt := w.rooted(sel.X)
			if id, ok := sel.X.(*ast.Ident); ok {
				if def, ok := w.defs[id.Name]; ok {
					tgt = "range:" + w.rooted(def)
				}
			}
			return "delegate", tgt, ""
		}
	}
	if id, ok := c.Fun.(*ast.Ident); ok && id.Name == "unsafe_NewArray" && len(c.Args) == 2 {
		return "newarray", w.elemExpr(c.Args[0], 0), ""
	}
	return "other", exprFull(e), ""
}

// elemExpr peels `unpackEFace(X).data` and local definitions off the element-type argument of unsafe_NewArray
func (w *allocWalker) elemExpr(e ast.Expr, depth int) string {
	if id, ok := e.(*ast.Ident); ok {
		if def, ok := w.defs[id.Name]; ok && depth < 4 {
			return w.elemExpr(def, depth+1)
		}
		// a package-level variable holding the descriptor: its initialiser is what counts
		if v := w.p.vars[id.Name]; v != nil && v.init != nil && depth < 4 {
			if _, local := w.defs[id.Name]; !local {
				return w.elemExpr(v.init, depth+1)
			}
		}
	}
	if s, ok := e.(*ast.SelectorExpr); ok && s.Sel.Name == "data" {
		if c, ok := s.X.(*ast.CallExpr); ok && len(c.Args) == 1 {
			if f, ok := c.Fun.(*ast.Ident); ok && f.Name == "unpackEFace" {
				return w.rooted(c.Args[0])
			}
		}
	}
	return w.rooted(e)
}

func (w *allocWalker) collectDefs(body *ast.BlockStmt) {
	ast.Inspect(body, func(n ast.Node) bool {
		switch t := n.(type) {
		case *ast.AssignStmt:
			if t.Tok == token.DEFINE && len(t.Lhs) == len(t.Rhs) {
				for i, l := range t.Lhs {
					if id, ok := l.(*ast.Ident); ok {
						w.defs[id.Name] = t.Rhs[i]
					}
				}
			}
		case *ast.RangeStmt:
			if t.Tok == token.DEFINE {
				if id, ok := t.Value.(*ast.Ident); ok {
					w.defs[id.Name] = t.X
				}
			}
		}
		return true
	})
}

func (w *allocWalker) walkReturns(n ast.Node, guard string) {
	switch t := n.(type) {
	case *ast.CaseClause:
		g := "default"
		if len(t.List) > 0 {
			var gs []string
			for _, e := range t.List {
				gs = append(gs, exprFull(e))
			}
			g = strings.Join(gs, ",")
		}
		for _, s := range t.Body {
			w.walkReturns(s, g)
		}
		return
	case *ast.ReturnStmt:
		if len(t.Results) == 1 {
			form, arg, init := w.classify(t.Results[0], 0)
			tn, _ := recvType(w.d)
			w.facts = append(w.facts, allocFact{Pkg: w.p.spec.id, Type: tn, Method: w.d.Name.Name, Guard: guard, Form: form, Arg: arg, Init: init, Pos: w.p.pos(t)})
		}
		return
	case *ast.FuncLit:
		return
	}
	// generic descent over statements
	ast.Inspect(n, func(c ast.Node) bool {
		if c == n || c == nil {
			return true
		}
		switch c.(type) {
		case *ast.CaseClause, *ast.ReturnStmt, *ast.FuncLit:
			w.walkReturns(c, guard)
			return false
		}
		return true
	})
}

var gcSizes = map[string][2]int{ // size, pointer?
	"unsafe.Pointer": {8, 1}, "uintptr": {8, 0}, "int": {8, 0}, "uint": {8, 0}, "int64": {8, 0}, "uint64": {8, 0},
	"int32": {4, 0}, "uint32": {4, 0}, "int16": {2, 0}, "uint16": {2, 0}, "int8": {1, 0}, "uint8": {1, 0}, "byte": {1, 0}, "bool": {1, 0},
}

func layoutOf(p *pkg, name string) structLayout {
	out := structLayout{Name: name, Known: true, Fields: []layoutField{}}
	for _, f := range p.files {
		for _, d := range f.Decls {
			g, ok := d.(*ast.GenDecl)
			if !ok {
				continue
			}
			for _, s := range g.Specs {
				ts, ok := s.(*ast.TypeSpec)
				if !ok || ts.Name.Name != name {
					continue
				}
				st, ok := ts.Type.(*ast.StructType)
				if !ok {
					continue
				}
				out.Found = true
				off, maxAlign := 0, 1
				for _, fl := range st.Fields.List {
					typ := exprString(fl.Type)
					if strings.HasPrefix(typ, "*") {
						typ = "unsafe.Pointer"
					}
					sz, known := gcSizes[typ]
					if !known {
						out.Known = false
						sz = [2]int{8, 1}
					}
					names := fl.Names
					if len(names) == 0 {
						names = []*ast.Ident{{Name: "_embedded"}}
					}
					for _, nm := range names {
						al := sz[0]
						if al > maxAlign {
							maxAlign = al
						}
						off = (off + al - 1) / al * al
						out.Fields = append(out.Fields, layoutField{Name: nm.Name, Type: exprString(fl.Type), Offset: off, Size: sz[0], Pointer: sz[1] == 1})
						off += sz[0]
					}
				}
				out.Size = (off + maxAlign - 1) / maxAlign * maxAlign
			}
		}
	}
	return out
}

// leanWord keeps the Lean keyword `unsafe` out of the generated Lean source (./check scans the sources for it, string
// literals included): `unsafe.Pointer` is spelled `unsafe_Pointer` there. The JSON mirror keeps the Go spelling.
func leanWord(s string) string { return leanStr(strings.ReplaceAll(s, "unsafe.", "unsafe_")) }

func genAlloc(out string) error {
	var facts []allocFact
	for _, s := range pkgSpecs {
		p := pkgs[s.importPath]
		for _, f := range p.files {
			for _, d := range f.Decls {
				fd, ok := d.(*ast.FuncDecl)
				if !ok || fd.Body == nil || fd.Recv == nil {
					continue
				}
				tn, _ := recvType(fd)
				isResize := s.id == "avro" && tn == "arrayCodec" && fd.Name.Name == "resizeSlice"
				if !isNewMethod(fd) && !isResize {
					continue
				}
				w := &allocWalker{p: p, d: fd, defs: map[string]ast.Expr{}}
				if len(fd.Recv.List[0].Names) > 0 {
					w.recv = fd.Recv.List[0].Names[0].Name
				}
				if len(fd.Type.Params.List) > 0 && len(fd.Type.Params.List[0].Names) > 0 {
					w.rparam = fd.Type.Params.List[0].Names[0].Name
				}
				w.collectDefs(fd.Body)
				if isResize {
					// every unsafe_NewArray call of the method
					ast.Inspect(fd.Body, func(n ast.Node) bool {
						if c, ok := n.(*ast.CallExpr); ok {
							if id, ok := c.Fun.(*ast.Ident); ok && id.Name == "unsafe_NewArray" && len(c.Args) == 2 {
								facts = append(facts, allocFact{Pkg: s.id, Type: tn, Method: "resizeSlice", Form: "newarray", Arg: w.elemExpr(c.Args[0], 0), Pos: p.pos(c)})
							}
						}
						return true
					})
					continue
				}
				before := len(w.facts)
				w.walkReturns(fd.Body, "")
				if len(w.facts) == before {
					w.facts = append(w.facts, allocFact{Pkg: s.id, Type: tn, Method: "New", Form: "other", Arg: "no-return-found", Pos: p.pos(fd)})
				}
				facts = append(facts, w.facts...)
			}
		}
	}
	facts = measuredRows(facts)
	sort.SliceStable(facts, func(i, j int) bool {
		a, b := facts[i], facts[j]
		return a.Pkg+"."+a.Type+"."+a.Method+"#"+a.Guard+a.Pos < b.Pkg+"."+b.Type+"."+b.Method+"#"+b.Guard+b.Pos
	})
	avroPkg := pkgs[pkgSpecs[0].importPath]
	layouts := []structLayout{layoutOf(avroPkg, "sliceHeader"), layoutOf(avroPkg, "mapiter")}
	// reflect's own iterator state (field `hiter` of reflect.MapIter): upper bound of what the runtime's iterator needs
	reflIter := 0
	if f, ok := reflect.TypeOf(reflect.MapIter{}).FieldByName("hiter"); ok {
		reflIter = int(f.Type.Size())
	}

	var b strings.Builder
	b.WriteString("import AvroModel.AllocFactsTypes\n")
	b.WriteString("/-! GENERATED by harness/cmd/factgen (alloc.go) from the library's working tree on every `./check` run. Do not edit.\n")
	b.WriteString("    What every codec's New method returns (go/ast), what arrayCodec.resizeSlice allocates, source layout of sliceHeader / mapiter. -/\n")
	b.WriteString("namespace Avro.Generated\nopen Avro.Alloc\n\n")
	b.WriteString("def allocFacts : List AllocFact := [\n")
	for i, f := range facts {
		fmt.Fprintf(&b, "  { pkg := %s, typ := %s, method := %s, guard := %s, form := %s, arg := %s, init := %s }%s\n",
			leanStr(f.Pkg), leanStr(f.Type), leanStr(f.Method), leanStr(f.Guard), leanStr(f.Form), leanWord(f.Arg), leanWord(f.Init), sep(i, len(facts)))
	}
	b.WriteString("]\n\n")
	for _, l := range layouts {
		fmt.Fprintf(&b, "def layout_%s : StructLayout :=\n  { name := %s, found := %s, known := %s, size := %d, fields := [\n", l.Name, leanStr(l.Name), leanBool(l.Found), leanBool(l.Known), l.Size)
		for i, f := range l.Fields {
			fmt.Fprintf(&b, "    { name := %s, typ := %s, offset := %d, size := %d, pointer := %s }%s\n", leanStr(f.Name), leanWord(f.Type), f.Offset, f.Size, leanBool(f.Pointer), sep(i, len(l.Fields)))
		}
		b.WriteString("  ] }\n\n")
	}
	fmt.Fprintf(&b, "/-- `unsafe.Sizeof` of reflect's map iterator state (`reflect.MapIter.hiter`) for the toolchain that built factgen; informational -/\ndef reflectMapIterSize : Nat := %d\n\nend Avro.Generated\n", reflIter)
	if err := os.WriteFile(filepath.Join(out, "AllocFacts.lean"), []byte(b.String()), 0o644); err != nil {
		return err
	}
	js, _ := json.MarshalIndent(map[string]any{"facts": facts, "layouts": layouts, "reflectMapIterSize": reflIter}, "", " ")
	if err := os.WriteFile(filepath.Join(out, "AllocFacts.json"), append(js, '\n'), 0o644); err != nil {
		return err
	}
	fmt.Printf("factgen: %d allocation facts, mapiter %d bytes (reflect iterator state %d bytes)\n", len(facts), layouts[1].Size, reflIter)
	return nil
}
