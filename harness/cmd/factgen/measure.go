package main

// Measured allocation facts: the fallback for `New` methods whose source form the go/ast extractor does not
// recognise (form "other": an allocation routed through a helper, a type chosen by a method, ...). Such a
// respelling is not a change of behaviour; what matters for the collector is WHICH TYPE the memory a `New`
// returns was allocated with. That is measured here on the library as built from the working tree: a record
// with one field `F *X` is decoded from a non-null value, so that the pointee is obtained from the codec's `New`,
// and the arena of the read buffer's ResourceBank the allocation came from names its element type. The measured
// type is reported in the vocabulary of the extracted rows (an `alloc-var` row whose initialiser is the canonical
// spelling of that type), so the Lean side (`Alloc.factOK`) judges both kinds of rows by the same rule.
//
// A `New` that does not allocate from the bank (fixedCodec: unsafe_NewArray) cannot be measured this way and stays
// with the extracted row.

import (
	"encoding/binary"
	"fmt"
	"math"
	"reflect"
	"strings"
	"time"
	"unsafe"

	"github.com/philpearl/avro"
	avronull "github.com/philpearl/avro/null"
	avrotime "github.com/philpearl/avro/time"
	"github.com/unravelin/null/v5"
)

type measureCase struct {
	pkg, typ, guard string
	pointee         reflect.Type   // X: the field is F *X under ["null", schema]
	schema          string         // schema of X
	enc             []byte         // encoding of one value of X
	ignore          []reflect.Type // arenas filled by OTHER codecs' New during the same decode
}

func f64bytes(f float64) []byte {
	b := make([]byte, 8)
	binary.LittleEndian.PutUint64(b, math.Float64bits(f))
	return b
}

func f32bytes(f float32) []byte {
	b := make([]byte, 4)
	binary.LittleEndian.PutUint32(b, math.Float32bits(f))
	return b
}

func avroStr(s string) []byte { return append(binary.AppendVarint(nil, int64(len(s))), s...) }

type measRec struct {
	A int64 `json:"A"`
}

func measureCases() []measureCase {
	t := reflect.TypeOf
	ts := avroStr("2020-01-02T03:04:05Z")
	return []measureCase{
		{"avro", "BoolCodec", "", t(false), `"boolean"`, []byte{1}, nil},
		{"avro", "BytesCodec", "", t([]byte(nil)), `"bytes"`, avroStr("a"), nil},
		{"avro", "StringCodec", "", t(""), `"string"`, avroStr("a"), nil},
		{"avro", "Float32DoubleCodec", "", t(float32(0)), `"double"`, f64bytes(1.5), nil},
		{"avro", "IntCodec", "2", t(int16(0)), `"long"`, []byte{2}, nil},
		{"avro", "IntCodec", "4", t(int32(0)), `"long"`, []byte{2}, nil},
		{"avro", "IntCodec", "8", t(int64(0)), `"long"`, []byte{2}, nil},
		{"avro", "floatCodec", "4", t(float32(0)), `"float"`, f32bytes(1.5), nil},
		{"avro", "floatCodec", "8", t(float64(0)), `"double"`, f64bytes(1.5), nil},
		{"avro", "MapCodec", "", t(map[string]int64(nil)), `{"type":"map","values":"long"}`, []byte{0}, nil},
		{"avro", "PointerCodec", "", t((*bool)(nil)), `"boolean"`, []byte{1}, []reflect.Type{t(false)}},
		{"avro", "arrayCodec", "", t([]int64(nil)), `{"type":"array","items":"long"}`, []byte{0}, nil},
		{"avro", "recordCodec", "", t(measRec{}), `{"type":"record","name":"m","fields":[{"name":"A","type":"long"}]}`, []byte{2}, nil},
		{"avro/time", "DateCodec", "", t(time.Time{}), `{"type":"int","logicalType":"date"}`, []byte{2}, nil},
		{"avro/time", "LongCodec", "", t(time.Time{}), `"long"`, []byte{2}, nil},
		{"avro/time", "StringCodec", "", t(time.Time{}), `"string"`, ts, nil},
		{"avro/null", "nullIntCodec", "", t(null.Int{}), `"long"`, []byte{2}, nil},
		{"avro/null", "nullBoolCodec", "", t(null.Bool{}), `"boolean"`, []byte{1}, nil},
		{"avro/null", "nullDoubleCodec", "", t(null.Float{}), `"double"`, f64bytes(1.5), nil},
		{"avro/null", "nullFloatCodec", "", t(null.Float{}), `"float"`, f32bytes(1.5), nil},
		{"avro/null", "nullStringCodec", "", t(null.String{}), `"string"`, avroStr("a"), nil},
		{"avro/null", "nullTimeCodec", "", t(null.Time{}), `"string"`, ts, nil},
	}
}

func typeFromDescriptor(p unsafe.Pointer) reflect.Type {
	t := reflect.TypeOf(0)
	w := *(*[2]unsafe.Pointer)(unsafe.Pointer(&t))
	w[1] = p
	return *(*reflect.Type)(unsafe.Pointer(&w))
}

// usedArenas lists the element types of the arenas of r's bank from which something was allocated. Fields are found by what
// they are (the one *ResourceBank of a ReadBuf; the bank's one slice of structs; per arena the first unsafe.Pointer = type
// descriptor and the second integer = slots in use), not by name.
func usedArenas(r *avro.ReadBuf) (out []reflect.Type, err error) {
	defer func() {
		if x := recover(); x != nil {
			err = fmt.Errorf("bank introspection: %v", x)
		}
	}()
	rv := reflect.ValueOf(r).Elem()
	var bank reflect.Value
	for i := 0; i < rv.NumField(); i++ {
		if rv.Field(i).Type() == reflect.TypeOf((*avro.ResourceBank)(nil)) {
			bank = rv.Field(i)
		}
	}
	if !bank.IsValid() || bank.IsNil() {
		return nil, fmt.Errorf("no bank in the read buffer")
	}
	bv := bank.Elem()
	var arenas reflect.Value
	for i := 0; i < bv.NumField(); i++ {
		if f := bv.Field(i); f.Kind() == reflect.Slice && f.Type().Elem().Kind() == reflect.Struct {
			arenas = f
		}
	}
	if !arenas.IsValid() {
		return nil, fmt.Errorf("no arena list in the bank")
	}
	for i := 0; i < arenas.Len(); i++ {
		e := arenas.Index(i)
		var desc unsafe.Pointer
		nptr, nint, used := 0, 0, int64(0)
		for j := 0; j < e.NumField(); j++ {
			f := e.Field(j)
			switch f.Kind() {
			case reflect.UnsafePointer:
				if nptr == 0 {
					desc = unsafe.Pointer(f.Pointer())
				}
				nptr++
			case reflect.Int, reflect.Int64:
				if nint == 1 {
					used = f.Int()
				}
				nint++
			case reflect.Uintptr, reflect.Uint, reflect.Uint64:
				if nint == 1 {
					used = int64(f.Uint())
				}
				nint++
			}
		}
		if desc != nil && used > 0 {
			out = append(out, typeFromDescriptor(desc))
		}
	}
	return out, nil
}

// canonicalInit spells a type the way the library's own `var xType = reflect.TypeOf(...)` initialisers do
func canonicalInit(t reflect.Type) string {
	if t.PkgPath() == "" {
		switch t.Kind() {
		case reflect.Bool:
			return "reflect.TypeOf(false)"
		case reflect.Int8, reflect.Int16, reflect.Int32, reflect.Int64, reflect.Float32, reflect.Float64:
			return "reflect.TypeOf(" + t.Kind().String() + "(0))"
		case reflect.String:
			return `reflect.TypeOf("")`
		case reflect.UnsafePointer:
			return "reflect.TypeOf(unsafe.Pointer(nil))"
		case reflect.Slice:
			if t.Elem().Kind() == reflect.Uint8 {
				return "reflect.TypeOf([]byte{})"
			}
		}
		return "reflect.TypeOf(" + t.String() + ")"
	}
	switch {
	case t.PkgPath() == "time":
		return "reflect.TypeOf(time." + t.Name() + "{})"
	case strings.HasSuffix(t.PkgPath(), "/null/v5") || strings.HasSuffix(t.PkgPath(), "/null"):
		return "reflect.TypeOf(null." + t.Name() + "{})"
	case t.PkgPath() == "github.com/philpearl/avro":
		return "reflect.TypeOf(" + t.Name() + "{})"
	}
	return "reflect.TypeOf(" + t.String() + "{})"
}

// measureNew decodes one record whose only field is F *X and reports the element type of the arena the pointee came from
func measureNew(c measureCase) (t reflect.Type, err error) {
	defer func() {
		if x := recover(); x != nil {
			err = fmt.Errorf("panic: %v", x)
		}
	}()
	avrotime.RegisterCodecs()
	avronull.RegisterCodecs()
	st := reflect.StructOf([]reflect.StructField{{Name: "F", Type: reflect.PointerTo(c.pointee), Tag: `json:"F"`}})
	s, err := avro.SchemaFromString(`{"type":"record","name":"r","fields":[{"name":"F","type":["null",` + c.schema + `]}]}`)
	if err != nil {
		return nil, err
	}
	codec, err := s.Codec(reflect.New(st).Elem().Interface())
	if err != nil {
		return nil, err
	}
	dst := reflect.New(st)
	r := avro.NewReadBuf(append([]byte{2}, c.enc...))
	if err := codec.Read(r, dst.UnsafePointer()); err != nil {
		return nil, err
	}
	if dst.Elem().Field(0).IsNil() {
		return nil, fmt.Errorf("the field stayed nil")
	}
	used, err := usedArenas(r)
	if err != nil {
		return nil, err
	}
	var rest []reflect.Type
outer:
	for _, u := range used {
		for _, ig := range c.ignore {
			if u == ig {
				continue outer
			}
		}
		rest = append(rest, u)
	}
	if len(rest) != 1 {
		return nil, fmt.Errorf("%d candidate arenas %v", len(rest), rest)
	}
	return rest[0], nil
}

// the initialiser spellings `Alloc.shapeOfInit` (Lean) knows
var canonicalInits = map[string]bool{
	"reflect.TypeOf(false)": true, "reflect.TypeOf(int64(0))": true, "reflect.TypeOf(int32(0))": true, "reflect.TypeOf(int16(0))": true,
	"reflect.TypeOf(int8(0))": true, "reflect.TypeOf(float32(0))": true, "reflect.TypeOf(float64(0))": true, `reflect.TypeOf("")`: true,
	"reflect.TypeOf([]byte{})": true, "reflect.TypeOf(sliceHeader{})": true, "reflect.TypeOf(unsafe.Pointer(nil))": true,
	"reflect.TypeOf(time.Time{})": true, "reflect.TypeOf(null.Int{})": true, "reflect.TypeOf(null.Bool{})": true,
	"reflect.TypeOf(null.Float{})": true, "reflect.TypeOf(null.String{})": true, "reflect.TypeOf(null.Time{})": true,
}

// measuredRows replaces the rows of every codec type that has an unrecognised `New` by measured rows, when every guard of
// that type can be measured; otherwise the extracted rows stay (and `alloc_facts_ok` will not check).
func measuredRows(facts []allocFact) []allocFact {
	type key struct{ pkg, typ string }
	need := map[key]bool{}
	for _, f := range facts {
		if f.Method == "New" && (f.Form == "other" || (f.Form == "alloc-var" && !canonicalInits[f.Init])) {
			// unrecognised form, or a type variable initialised in a spelling the table does not know (reflect.TypeFor[T](), ...)
			need[key{f.Pkg, f.Type}] = true
		}
	}
	if len(need) == 0 {
		return facts
	}
	repl := map[key][]allocFact{}
	for k := range need {
		var rows []allocFact
		ok := false
		for _, c := range measureCases() {
			if c.pkg != k.pkg || c.typ != k.typ {
				continue
			}
			t, err := measureNew(c)
			if err != nil {
				fmt.Printf("factgen: %s.%s.New could not be measured (%v); the extracted row stays\n", k.pkg, k.typ, err)
				rows, ok = nil, false
				break
			}
			row := allocFact{Pkg: c.pkg, Type: c.typ, Method: "New", Guard: c.guard, Form: "alloc-var", Arg: "measured", Init: canonicalInit(t), Pos: "measured"}
			if c.typ == "recordCodec" {
				// the record codec allocates its own struct type
				if t == c.pointee {
					row.Form, row.Arg, row.Init = "alloc-field", "recv.rtype", ""
				} else {
					row.Form, row.Arg, row.Init = "other", "measured:"+t.String(), ""
				}
			}
			rows = append(rows, row)
			ok = true
		}
		if ok {
			repl[k] = rows
			fmt.Printf("factgen: %s.%s.New has an unrecognised source form; %d measured row(s) used instead\n", k.pkg, k.typ, len(rows))
		}
	}
	var out []allocFact
	done := map[key]bool{}
	for _, f := range facts {
		k := key{f.Pkg, f.Type}
		if rows, ok := repl[k]; ok && f.Method == "New" {
			if !done[k] {
				out = append(out, rows...)
				done[k] = true
			}
			continue
		}
		out = append(out, f)
	}
	return out
}
