// Command factgen re-extracts, from the working tree of the library, the facts that the
// Lean theorems of property C12 are stated over (AvroModel/Generated/LockFacts.lean) and a
// JSON mirror with source positions.
//
//	factgen -repo <path> -out <dir>
//
// Pure go/ast: no type checking, no external modules. Facts, for the packages avro,
// avro/time and avro/null (test files excluded):
//
//   - every package-level variable (is it a sync object, does it have an initialiser);
//   - every syntactic access to a package-level variable from a function body, with the
//     package-level mutexes syntactically held at that point and their mode;
//   - for every type that declares Codec methods, whether a method assigns through its
//     receiver or writes package state;
//   - whether one of the per-call state types is stored in a package-level variable.
//
// What counts as a write: assignment / op-assignment / inc-dec whose left side is rooted at
// the variable (x = .., x[k] = .., x.f = .., *x = ..), delete/clear/copy with the variable as
// first argument, &x (escape), a method call x.M() when x is a struct value whose method M has
// a pointer receiver (or whose type is foreign and not a reference). Everything else is a read.
// Function literals are separate "functions" that start with no lock held (they may run later).
package main

import (
	"encoding/json"
	"flag"
	"fmt"
	"go/ast"
	"go/parser"
	"go/token"
	"os"
	"path/filepath"
	"regexp"
	"sort"
	"strings"
)

type pkgSpec struct{ id, dir, importPath string }

var pkgSpecs = []pkgSpec{
	{"avro", ".", "github.com/philpearl/avro"},
	{"avro/time", "time", "github.com/philpearl/avro/time"},
	{"avro/null", "null", "github.com/philpearl/avro/null"},
}

var codecMethodNames = map[string]bool{"Read": true, "Skip": true, "New": true, "Omit": true, "Write": true}

// types whose values are the state of one call / one user-owned object
var perCallTypes = []string{"deflate", "snappyCodec", "Encoder", "ReadBuf", "WriteBuf", "FileWriter"}

type varInfo struct {
	Pkg     string `json:"pkg"`
	Name    string `json:"name"` // qualified: pkg.name
	Type    string `json:"type"` // syntactic type (declared, or derived from the initialiser)
	Sync    string `json:"sync"` // "", "Mutex", "RWMutex", "Pool", ...
	HasInit bool   `json:"hasInit"`
	Pos     string `json:"pos"`
	spec    *ast.ValueSpec
	init    ast.Expr
}

type heldLock struct {
	Mutex string `json:"mutex"`
	Excl  bool   `json:"excl"`
}

type access struct {
	Pkg      string     `json:"pkg"`
	Func     string     `json:"func"`
	Var      string     `json:"var"`
	Write    bool       `json:"write"`
	SyncCall bool       `json:"syncCall"` // method call on a sync object (Lock, Get, Put, ...)
	AtInit   bool       `json:"atInit"`   // inside a package initialiser or func init
	Held     []heldLock `json:"held"`
	How      string     `json:"how"` // human-readable form of the access
	Pos      string     `json:"pos"`
}

type codecMethod struct {
	Pkg                    string `json:"pkg"`
	Type                   string `json:"type"`
	Method                 string `json:"method"`
	PtrRecv                bool   `json:"ptrRecv"`
	AssignsThroughReceiver bool   `json:"assignsThroughReceiver"`
	WritesPackageState     bool   `json:"writesPackageState"`
	Pos                    string `json:"pos"`
	Detail                 string `json:"detail,omitempty"`
}

type perCall struct {
	Pkg            string `json:"pkg"`
	Type           string `json:"type"`
	Declared       bool   `json:"declared"`
	StoredInPkgVar bool   `json:"storedInPkgVar"`
	Where          string `json:"where,omitempty"`
}

type pkg struct {
	spec    pkgSpec
	fset    *token.FileSet
	files   []*ast.File
	fnames  []string
	vars    map[string]*varInfo        // by short name
	byspec  map[*ast.ValueSpec]bool    // top-level value specs
	structs map[string]map[string]bool // struct type name -> field names
	types   map[string]bool
	ptrMeth map[string]map[string]bool // type -> method -> has pointer receiver
	funcRes map[string]string          // function name -> single result type
}

type facts struct {
	Vars      []*varInfo    `json:"vars"`
	Accesses  []access      `json:"accesses"`
	Codecs    []codecMethod `json:"codecMethods"`
	PerCall   []perCall     `json:"perCall"`
	Unguarded []string      `json:"unguarded"` // same predicate as AvroModel.Conc.Guarded, for the human reader
}

var pkgs = map[string]*pkg{} // by import path

func exprString(e ast.Expr) string {
	switch t := e.(type) {
	case nil:
		return ""
	case *ast.Ident:
		return t.Name
	case *ast.SelectorExpr:
		return exprString(t.X) + "." + t.Sel.Name
	case *ast.StarExpr:
		return "*" + exprString(t.X)
	case *ast.ArrayType:
		if t.Len == nil {
			return "[]" + exprString(t.Elt)
		}
		return "[" + exprString(t.Len) + "]" + exprString(t.Elt)
	case *ast.MapType:
		return "map[" + exprString(t.Key) + "]" + exprString(t.Value)
	case *ast.IndexExpr:
		return exprString(t.X) + "[" + exprString(t.Index) + "]"
	case *ast.IndexListExpr:
		return exprString(t.X) + "[..]"
	case *ast.BasicLit:
		return t.Value
	case *ast.ParenExpr:
		return "(" + exprString(t.X) + ")"
	case *ast.CallExpr:
		return exprString(t.Fun) + "(..)"
	case *ast.UnaryExpr:
		return t.Op.String() + exprString(t.X)
	case *ast.SliceExpr:
		return exprString(t.X) + "[:]"
	case *ast.FuncType:
		return "func"
	case *ast.InterfaceType:
		return "interface"
	case *ast.StructType:
		return "struct"
	case *ast.ChanType:
		return "chan " + exprString(t.Value)
	case *ast.Ellipsis:
		return "..." + exprString(t.Elt)
	case *ast.CompositeLit:
		return exprString(t.Type) + "{..}"
	}
	return "?"
}

func stripIndex(e ast.Expr) ast.Expr {
	for {
		switch t := e.(type) {
		case *ast.IndexExpr:
			e = t.X
		case *ast.IndexListExpr:
			e = t.X
		case *ast.ParenExpr:
			e = t.X
		default:
			return e
		}
	}
}

func syncKind(typ string) string {
	typ = strings.TrimPrefix(typ, "*")
	for _, p := range []string{"sync.", "atomic."} {
		if strings.HasPrefix(typ, p) {
			k := strings.TrimPrefix(typ, p)
			if i := strings.IndexAny(k, "[{("); i >= 0 {
				k = k[:i]
			}
			return k
		}
	}
	return ""
}

func (p *pkg) pos(n ast.Node) string {
	ps := p.fset.Position(n.Pos())
	rel := filepath.Base(ps.Filename)
	if p.spec.dir != "." {
		rel = p.spec.dir + "/" + rel
	}
	return fmt.Sprintf("%s:%d", rel, ps.Line)
}

func loadPkg(repo string, spec pkgSpec) (*pkg, error) {
	p := &pkg{spec: spec, fset: token.NewFileSet(), vars: map[string]*varInfo{}, byspec: map[*ast.ValueSpec]bool{},
		structs: map[string]map[string]bool{}, types: map[string]bool{}, ptrMeth: map[string]map[string]bool{}, funcRes: map[string]string{}}
	dir := filepath.Join(repo, spec.dir)
	ents, err := os.ReadDir(dir)
	if err != nil {
		return nil, err
	}
	for _, e := range ents {
		n := e.Name()
		if e.IsDir() || !strings.HasSuffix(n, ".go") || strings.HasSuffix(n, "_test.go") {
			continue
		}
		f, err := parser.ParseFile(p.fset, filepath.Join(dir, n), nil, 0)
		if err != nil {
			return nil, err
		}
		p.files = append(p.files, f)
		p.fnames = append(p.fnames, n)
	}
	for _, f := range p.files {
		for _, d := range f.Decls {
			switch d := d.(type) {
			case *ast.GenDecl:
				for _, s := range d.Specs {
					switch s := s.(type) {
					case *ast.TypeSpec:
						p.types[s.Name.Name] = true
						if st, ok := s.Type.(*ast.StructType); ok {
							fs := map[string]bool{}
							for _, fl := range st.Fields.List {
								for _, nm := range fl.Names {
									fs[nm.Name] = true
								}
								if len(fl.Names) == 0 { // embedded
									t := exprString(stripIndex(fl.Type))
									t = strings.TrimPrefix(t, "*")
									if i := strings.LastIndex(t, "."); i >= 0 {
										t = t[i+1:]
									}
									fs[t] = true
								}
							}
							p.structs[s.Name.Name] = fs
						}
					case *ast.ValueSpec:
						if d.Tok != token.VAR {
							continue
						}
						p.byspec[s] = true
						for i, nm := range s.Names {
							if nm.Name == "_" {
								continue
							}
							v := &varInfo{Pkg: spec.id, Name: spec.id + "." + nm.Name, spec: s, Pos: p.pos(nm)}
							if len(s.Values) == len(s.Names) {
								v.init = s.Values[i]
								v.HasInit = true
							} else if len(s.Values) > 0 {
								v.HasInit = true
							}
							p.vars[nm.Name] = v
						}
					}
				}
			case *ast.FuncDecl:
				if d.Recv == nil {
					if d.Type.Results != nil && len(d.Type.Results.List) == 1 && len(d.Type.Results.List[0].Names) <= 1 {
						p.funcRes[d.Name.Name] = exprString(d.Type.Results.List[0].Type)
					}
					continue
				}
				tn, ptr := recvType(d)
				if p.ptrMeth[tn] == nil {
					p.ptrMeth[tn] = map[string]bool{}
				}
				p.ptrMeth[tn][d.Name.Name] = ptr
			}
		}
	}
	for _, v := range p.vars {
		v.Type = p.varType(v)
		v.Sync = syncKind(v.Type)
	}
	return p, nil
}

func recvType(d *ast.FuncDecl) (name string, ptr bool) {
	t := d.Recv.List[0].Type
	if s, ok := t.(*ast.StarExpr); ok {
		ptr = true
		t = s.X
	}
	return exprString(stripIndex(t)), ptr
}

func (p *pkg) varType(v *varInfo) string {
	if v.spec.Type != nil {
		return exprString(v.spec.Type)
	}
	switch e := v.init.(type) {
	case nil:
		return "?"
	case *ast.CompositeLit:
		return exprString(e.Type)
	case *ast.UnaryExpr:
		if c, ok := e.X.(*ast.CompositeLit); ok && e.Op == token.AND {
			return "*" + exprString(c.Type)
		}
	case *ast.CallExpr:
		fn := stripIndex(e.Fun)
		if id, ok := fn.(*ast.Ident); ok {
			if (id.Name == "make") && len(e.Args) > 0 {
				return exprString(e.Args[0])
			}
			if id.Name == "new" && len(e.Args) > 0 {
				return "*" + exprString(e.Args[0])
			}
			if r, ok := p.funcRes[id.Name]; ok {
				return r
			}
			if p.types[id.Name] { // conversion
				return id.Name
			}
		}
		return "call:" + exprString(fn)
	case *ast.BasicLit:
		return strings.ToLower(e.Kind.String())
	case *ast.FuncLit:
		return "func"
	}
	return "expr"
}

// isRefType: the variable holds a reference (pointer, map, slice, func, interface, result of a foreign call);
// calling a method on it reads the variable.
func isRefType(t string) bool {
	return strings.HasPrefix(t, "*") || strings.HasPrefix(t, "map[") || strings.HasPrefix(t, "[]") ||
		strings.HasPrefix(t, "call:") || strings.HasPrefix(t, "chan ") || t == "func" || t == "interface" || t == "error" || t == "any"
}

// ---------------------------------------------------------------------------------------------
// access extraction

type held map[string]bool // qualified mutex name -> exclusive?

func (h held) clone() held {
	c := held{}
	for k, v := range h {
		c[k] = v
	}
	return c
}

// meet keeps the locks held on both paths (in the weaker mode)
func meet(a, b held) held {
	c := held{}
	for k, v := range a {
		if w, ok := b[k]; ok {
			c[k] = v && w
		}
	}
	return c
}

func sameHeld(a, b held) bool {
	if len(a) != len(b) {
		return false
	}
	for k, v := range a {
		if w, ok := b[k]; !ok || v != w {
			return false
		}
	}
	return true
}

type walker struct {
	p       *pkg
	file    *ast.File
	imports map[string]*pkg // local import name -> facts package
	fn      string
	atInit  bool
	acc     []access
	lits    []*ast.FuncLit
	exits   []*held // one per enclosing loop/switch/select: meet of the lock sets at break/continue
	giveUp  bool    // goto seen: no lock is trusted in this function
}

func (w *walker) resolve(e ast.Expr) *varInfo {
	switch t := e.(type) {
	case *ast.ParenExpr:
		return w.resolve(t.X)
	case *ast.Ident:
		if t.Name == "_" {
			return nil
		}
		if t.Obj != nil {
			if vs, ok := t.Obj.Decl.(*ast.ValueSpec); ok && t.Obj.Kind == ast.Var && w.p.byspec[vs] {
				return w.p.vars[t.Name]
			}
			return nil
		}
		return w.p.vars[t.Name]
	case *ast.SelectorExpr:
		if id, ok := t.X.(*ast.Ident); ok && id.Obj == nil && w.p.vars[id.Name] == nil {
			if q := w.imports[id.Name]; q != nil {
				return q.vars[t.Sel.Name]
			}
		}
	}
	return nil
}

func (w *walker) record(v *varInfo, n ast.Node, write, syncCall bool, how string, h held) {
	a := access{Pkg: w.p.spec.id, Func: w.fn, Var: v.Name, Write: write, SyncCall: syncCall, AtInit: w.atInit, How: how, Pos: w.p.pos(n), Held: []heldLock{}}
	if !w.giveUp {
		for m, ex := range h {
			a.Held = append(a.Held, heldLock{m, ex})
		}
		sort.Slice(a.Held, func(i, j int) bool { return a.Held[i].Mutex < a.Held[j].Mutex })
	}
	w.acc = append(w.acc, a)
}

func isBuiltin(e ast.Expr, names ...string) bool {
	id, ok := e.(*ast.Ident)
	if !ok || id.Obj != nil {
		return false
	}
	for _, n := range names {
		if id.Name == n {
			return true
		}
	}
	return false
}

// expr records the accesses of an expression evaluated with lock set h; write says that the
// expression is a destination (or has its address taken).
func (w *walker) expr(e ast.Expr, write bool, h held) {
	switch t := e.(type) {
	case nil:
	case *ast.Ident:
		if v := w.resolve(t); v != nil {
			w.record(v, t, write, false, map[bool]string{false: "read", true: "write"}[write], h)
		}
	case *ast.ParenExpr:
		w.expr(t.X, write, h)
	case *ast.SelectorExpr:
		if v := w.resolve(t); v != nil {
			w.record(v, t, write, false, map[bool]string{false: "read", true: "write"}[write], h)
			return
		}
		w.expr(t.X, write, h)
	case *ast.IndexExpr:
		w.expr(t.X, write, h)
		w.expr(t.Index, false, h)
	case *ast.IndexListExpr:
		w.expr(t.X, write, h)
	case *ast.SliceExpr:
		w.expr(t.X, write, h)
		w.expr(t.Low, false, h)
		w.expr(t.High, false, h)
		w.expr(t.Max, false, h)
	case *ast.StarExpr:
		w.expr(t.X, write, h)
	case *ast.UnaryExpr:
		if t.Op == token.AND {
			if _, lit := t.X.(*ast.CompositeLit); !lit {
				w.expr(t.X, true, h) // address escapes
				return
			}
		}
		w.expr(t.X, false, h)
	case *ast.BinaryExpr:
		w.expr(t.X, false, h)
		w.expr(t.Y, false, h)
	case *ast.KeyValueExpr:
		w.expr(t.Key, false, h)
		w.expr(t.Value, false, h)
	case *ast.TypeAssertExpr:
		w.expr(t.X, false, h)
	case *ast.CallExpr:
		w.call(t, h)
	case *ast.CompositeLit:
		fields := w.structFields(t.Type)
		for _, el := range t.Elts {
			if kv, ok := el.(*ast.KeyValueExpr); ok {
				if id, ok := kv.Key.(*ast.Ident); !(ok && fields != nil && fields[id.Name]) {
					w.expr(kv.Key, false, h)
				}
				w.expr(kv.Value, false, h)
			} else {
				w.expr(el, false, h)
			}
		}
	case *ast.FuncLit:
		w.lits = append(w.lits, t)
	case *ast.BasicLit, *ast.ArrayType, *ast.StructType, *ast.FuncType, *ast.InterfaceType, *ast.MapType, *ast.ChanType, *ast.Ellipsis:
	default:
		ast.Inspect(e, func(n ast.Node) bool {
			if id, ok := n.(*ast.Ident); ok {
				if v := w.resolve(id); v != nil {
					w.record(v, id, true, false, "unknown-expression", h)
				}
			}
			return true
		})
	}
}

// structFields returns the field names when typ names a struct type of this package (then the
// keys of the literal are field names, not expressions)
func (w *walker) structFields(typ ast.Expr) map[string]bool {
	if id, ok := stripIndex(typ).(*ast.Ident); ok && typ != nil {
		return w.p.structs[id.Name]
	}
	return nil
}

func (w *walker) call(c *ast.CallExpr, h held) {
	fun := stripIndex(c.Fun)
	if isBuiltin(fun, "delete", "clear", "copy") && len(c.Args) > 0 {
		w.expr(c.Args[0], true, h)
		for _, a := range c.Args[1:] {
			w.expr(a, false, h)
		}
		return
	}
	if sel, ok := fun.(*ast.SelectorExpr); ok {
		if v := w.resolve(sel.X); v != nil { // method call (or field-function call) on a package-level variable
			how := "call ." + sel.Sel.Name
			switch {
			case v.Sync != "":
				w.record(v, sel, false, true, how, h)
			case w.mutatingMethod(v, sel.Sel.Name):
				w.record(v, sel, true, false, how+" (pointer receiver on a value)", h)
			default:
				w.record(v, sel, false, false, how, h)
			}
			for _, a := range c.Args {
				w.expr(a, false, h)
			}
			return
		}
	}
	w.expr(c.Fun, false, h)
	for _, a := range c.Args {
		w.expr(a, false, h)
	}
}

func (w *walker) mutatingMethod(v *varInfo, m string) bool {
	t := v.Type
	if isRefType(t) {
		return false
	}
	owner := pkgs[pkgByID(v.Pkg)]
	base := t
	if i := strings.IndexAny(base, "[{"); i > 0 {
		base = base[:i]
	}
	if ms, ok := owner.ptrMeth[base]; ok {
		if ptr, ok := ms[m]; ok {
			return ptr
		}
	}
	if owner.structs[base] != nil && owner.structs[base][m] {
		return false // call of a function-valued field
	}
	if owner.types[base] {
		return false // promoted or unknown method of a local type without pointer-receiver declaration of that name
	}
	return true // foreign value type: assume the method mutates
}

func pkgByID(id string) string {
	for _, s := range pkgSpecs {
		if s.id == id {
			return s.importPath
		}
	}
	return ""
}

// lockOp recognises mu.Lock() / RLock() / Unlock() / RUnlock() on a package-level mutex
func (w *walker) lockOp(e ast.Expr) (v *varInfo, op string, sel *ast.SelectorExpr) {
	c, ok := e.(*ast.CallExpr)
	if !ok {
		return nil, "", nil
	}
	s, ok := c.Fun.(*ast.SelectorExpr)
	if !ok {
		return nil, "", nil
	}
	v = w.resolve(s.X)
	if v == nil || (v.Sync != "Mutex" && v.Sync != "RWMutex") {
		return nil, "", nil
	}
	switch s.Sel.Name {
	case "Lock", "RLock", "Unlock", "RUnlock":
		return v, s.Sel.Name, s
	}
	return nil, "", nil
}

func (w *walker) noteExit(h held, continueStmt bool) {
	// conservative: the lock set at a break/continue flows to the end of every enclosing construct
	for _, x := range w.exits {
		if *x == nil {
			c := h.clone()
			*x = c
		} else {
			*x = meet(*x, h)
		}
	}
}

func (w *walker) block(list []ast.Stmt, h held) (held, bool) {
	falls := true
	for _, s := range list {
		h, falls = w.stmt(s, h)
		if !falls {
			// code after return/break is unreachable or reached by a label only; keep walking with no lock
			h = held{}
		}
	}
	return h, falls
}

// branchy walks alternative bodies and returns the meet of those that fall through
func (w *walker) joinAlt(outs []held, falls []bool) (held, bool) {
	var res held
	any := false
	for i, o := range outs {
		if !falls[i] {
			continue
		}
		if !any {
			res, any = o.clone(), true
		} else {
			res = meet(res, o)
		}
	}
	if !any {
		return held{}, false
	}
	return res, true
}

func (w *walker) withExit(h held, body func(h held) (held, bool)) (held, bool) {
	var x held
	w.exits = append(w.exits, &x)
	out, falls := body(h)
	w.exits = w.exits[:len(w.exits)-1]
	if x != nil {
		if falls {
			out = meet(out, x)
		} else {
			out, falls = x, true
		}
	}
	return out, falls
}

func (w *walker) loop(h held, body func(h held) (held, bool)) (held, bool) {
	// the body may run zero or more times: its entry lock set is the meet of the loop entry and the body exit
	for iter := 0; ; iter++ {
		markA, markL := len(w.acc), len(w.lits)
		out, falls := w.withExit(h, body)
		entry := h
		if falls {
			entry = meet(h, out)
		}
		if sameHeld(entry, h) || iter > 4 {
			return entry, true
		}
		w.acc, w.lits = w.acc[:markA], w.lits[:markL]
		h = entry
	}
}

func (w *walker) stmt(s ast.Stmt, h held) (held, bool) {
	switch t := s.(type) {
	case nil, *ast.EmptyStmt:
	case *ast.ExprStmt:
		if v, op, sel := w.lockOp(t.X); v != nil {
			w.record(v, sel, false, true, "call ."+op, h)
			h = h.clone()
			switch op {
			case "Lock":
				h[v.Name] = true
			case "RLock":
				h[v.Name] = false
			default:
				delete(h, v.Name)
			}
			return h, true
		}
		w.expr(t.X, false, h)
		if c, ok := t.X.(*ast.CallExpr); ok && isBuiltin(c.Fun, "panic") {
			return h, false
		}
	case *ast.DeferStmt:
		if v, op, sel := w.lockOp(t.Call); v != nil {
			// defer mu.Unlock(): the lock stays held to the end of the function
			w.record(v, sel, false, true, "defer ."+op, h)
			return h, true
		}
		w.expr(t.Call, false, held{})
	case *ast.GoStmt:
		w.expr(t.Call, false, held{})
	case *ast.AssignStmt:
		for _, r := range t.Rhs {
			w.expr(r, false, h)
		}
		for _, l := range t.Lhs {
			if _, isId := l.(*ast.Ident); isId && t.Tok == token.DEFINE {
				continue
			}
			w.expr(l, true, h)
		}
	case *ast.IncDecStmt:
		w.expr(t.X, true, h)
	case *ast.SendStmt:
		w.expr(t.Chan, false, h)
		w.expr(t.Value, false, h)
	case *ast.ReturnStmt:
		for _, r := range t.Results {
			w.expr(r, false, h)
		}
		return h, false
	case *ast.BranchStmt:
		switch t.Tok {
		case token.GOTO:
			w.giveUp = true
		case token.FALLTHROUGH:
			return h, true
		default:
			w.noteExit(h, t.Tok == token.CONTINUE)
		}
		return h, false
	case *ast.BlockStmt:
		return w.block(t.List, h)
	case *ast.LabeledStmt:
		return w.stmt(t.Stmt, h)
	case *ast.DeclStmt:
		if g, ok := t.Decl.(*ast.GenDecl); ok {
			for _, sp := range g.Specs {
				if vs, ok := sp.(*ast.ValueSpec); ok {
					for _, v := range vs.Values {
						w.expr(v, false, h)
					}
				}
			}
		}
	case *ast.IfStmt:
		h, _ = w.stmt(t.Init, h)
		w.expr(t.Cond, false, h)
		o1, f1 := w.block(t.Body.List, h.clone())
		o2, f2 := h, true
		if t.Else != nil {
			o2, f2 = w.stmt(t.Else, h.clone())
		}
		return w.joinAlt([]held{o1, o2}, []bool{f1, f2})
	case *ast.ForStmt:
		h, _ = w.stmt(t.Init, h)
		return w.loop(h, func(h held) (held, bool) {
			w.expr(t.Cond, false, h)
			o, f := w.block(t.Body.List, h.clone())
			if f {
				o, _ = w.stmt(t.Post, o)
			}
			return o, f
		})
	case *ast.RangeStmt:
		w.expr(t.X, false, h)
		return w.loop(h, func(h held) (held, bool) {
			if t.Tok == token.ASSIGN {
				w.expr(t.Key, true, h)
				w.expr(t.Value, true, h)
			}
			return w.block(t.Body.List, h.clone())
		})
	case *ast.SwitchStmt:
		h, _ = w.stmt(t.Init, h)
		w.expr(t.Tag, false, h)
		return w.clauses(t.Body, h)
	case *ast.TypeSwitchStmt:
		h, _ = w.stmt(t.Init, h)
		switch a := t.Assign.(type) {
		case *ast.ExprStmt:
			w.expr(a.X, false, h)
		case *ast.AssignStmt:
			for _, r := range a.Rhs {
				w.expr(r, false, h)
			}
		}
		return w.clauses(t.Body, h)
	case *ast.SelectStmt:
		return w.clauses(t.Body, h)
	default:
		w.giveUp = true
	}
	return h, true
}

func (w *walker) clauses(body *ast.BlockStmt, h held) (held, bool) {
	return w.withExit(h, func(h held) (held, bool) {
		outs, falls := []held{}, []bool{}
		hasDefault := false
		for _, c := range body.List {
			var list []ast.Stmt
			hc := h.clone()
			switch c := c.(type) {
			case *ast.CaseClause:
				if c.List == nil {
					hasDefault = true
				}
				for _, e := range c.List {
					w.expr(e, false, h)
				}
				list = c.Body
			case *ast.CommClause:
				if c.Comm == nil {
					hasDefault = true
				} else {
					hc, _ = w.stmt(c.Comm, hc)
				}
				list = c.Body
			}
			o, f := w.block(list, hc)
			outs, falls = append(outs, o), append(falls, f)
		}
		if !hasDefault {
			outs, falls = append(outs, h), append(falls, true)
		}
		return w.joinAlt(outs, falls)
	})
}

func (w *walker) importsOf(f *ast.File) map[string]*pkg {
	m := map[string]*pkg{}
	for _, im := range f.Imports {
		path := strings.Trim(im.Path.Value, "\"")
		q := pkgs[path]
		if q == nil {
			continue
		}
		name := q.files[0].Name.Name
		if im.Name != nil {
			name = im.Name.Name
		}
		m[name] = q
	}
	return m
}

// walkFunc extracts the accesses of one body and of the function literals nested in it
func walkFunc(p *pkg, f *ast.File, name string, atInit bool, body func(w *walker)) []access {
	var out []access
	type job struct {
		name   string
		atInit bool
		run    func(w *walker)
	}
	jobs := []job{{name, atInit, body}}
	nlit := 0
	for len(jobs) > 0 {
		j := jobs[0]
		jobs = jobs[1:]
		w := &walker{p: p, file: f, fn: j.name, atInit: j.atInit}
		w.imports = w.importsOf(f)
		j.run(w)
		if w.giveUp {
			for i := range w.acc {
				w.acc[i].Held = []heldLock{}
			}
		}
		out = append(out, w.acc...)
		for _, l := range w.lits {
			nlit++
			l := l
			jobs = append(jobs, job{fmt.Sprintf("%s$%d", name, nlit), false, func(w *walker) { w.block(l.Body.List, held{}) }})
		}
	}
	return out
}

func funcName(p *pkg, d *ast.FuncDecl) string {
	if d.Recv != nil {
		tn, _ := recvType(d)
		return p.spec.id + "." + tn + "." + d.Name.Name
	}
	return p.spec.id + "." + d.Name.Name
}

// assignsThroughReceiver: a pointer receiver with any destination rooted at it; a value receiver with a
// destination that goes through an index or a dereference (shared backing store).
func assignsThroughReceiver(d *ast.FuncDecl) (bool, string) {
	if len(d.Recv.List[0].Names) == 0 || d.Body == nil {
		return false, ""
	}
	rn := d.Recv.List[0].Names[0]
	if rn.Name == "_" {
		return false, ""
	}
	_, ptr := recvType(d)
	found, detail := false, ""
	rooted := func(e ast.Expr) (isRecv bool, indirect bool) {
		for {
			switch t := e.(type) {
			case *ast.ParenExpr:
				e = t.X
			case *ast.SelectorExpr:
				e = t.X
			case *ast.IndexExpr:
				indirect = true
				e = t.X
			case *ast.SliceExpr:
				indirect = true
				e = t.X
			case *ast.StarExpr:
				indirect = true
				e = t.X
			case *ast.Ident:
				return t.Obj != nil && t.Obj == rn.Obj, indirect
			default:
				return false, false
			}
		}
	}
	dest := func(e ast.Expr) {
		if _, bare := e.(*ast.Ident); bare {
			return // rebinding the receiver variable itself is local
		}
		if is, ind := rooted(e); is && (ptr || ind) && !found {
			found, detail = true, exprString(e)
		}
	}
	ast.Inspect(d.Body, func(n ast.Node) bool {
		switch t := n.(type) {
		case *ast.AssignStmt:
			if t.Tok != token.DEFINE {
				for _, l := range t.Lhs {
					dest(l)
				}
			}
		case *ast.IncDecStmt:
			dest(t.X)
		case *ast.RangeStmt:
			if t.Tok == token.ASSIGN {
				if t.Key != nil {
					dest(t.Key)
				}
				if t.Value != nil {
					dest(t.Value)
				}
			}
		case *ast.CallExpr:
			if isBuiltin(t.Fun, "delete", "clear", "copy") && len(t.Args) > 0 {
				if is, _ := rooted(t.Args[0]); is && !found {
					if _, bare := t.Args[0].(*ast.Ident); !bare {
						found, detail = true, exprString(t.Fun)+"("+exprString(t.Args[0])+")"
					}
				}
			}
		}
		return true
	})
	return found, detail
}

// ---------------------------------------------------------------------------------------------
// the discipline, evaluated here only to name offending rows for the human reader
// (the authoritative evaluation is Avro.Conc.Guarded in Lean)

func unguarded(f *facts) []string {
	var out []string
	var mutexes []string
	for _, v := range f.Vars {
		if v.Sync == "Mutex" || v.Sync == "RWMutex" {
			mutexes = append(mutexes, v.Name)
		}
	}
	known := map[string]bool{}
	for _, v := range f.Vars {
		known[v.Name] = true
		var accs []access
		for _, a := range f.Accesses {
			if a.Var == v.Name && !a.AtInit {
				accs = append(accs, a)
			}
		}
		if v.Sync != "" {
			for _, a := range accs {
				if !a.SyncCall {
					out = append(out, fmt.Sprintf("%s: sync object %s used other than through its methods (%s) at %s", a.Func, a.Var, a.How, a.Pos))
				}
			}
			continue
		}
		written := false
		for _, a := range accs {
			written = written || a.Write
		}
		if !written {
			continue
		}
		ok := func(m string, a access) bool {
			for _, h := range a.Held {
				if h.Mutex == m && (h.Excl || !a.Write) {
					return true
				}
			}
			return false
		}
		cand := ""
		for _, m := range mutexes {
			all := true
			for _, a := range accs {
				all = all && ok(m, a)
			}
			if all {
				cand = m
				break
			}
		}
		if cand != "" {
			continue
		}
		// name the rows that break the best candidate (the mutex guarding most accesses)
		best, bestN := "", -1
		for _, m := range mutexes {
			n := 0
			for _, a := range accs {
				if ok(m, a) {
					n++
				}
			}
			if n > bestN {
				best, bestN = m, n
			}
		}
		for _, a := range accs {
			if best == "" || !ok(best, a) {
				kind := "reads"
				if a.Write {
					kind = "writes"
				}
				hs := []string{}
				for _, h := range a.Held {
					hs = append(hs, fmt.Sprintf("%s/%s", h.Mutex, map[bool]string{true: "ex", false: "sh"}[h.Excl]))
				}
				need := "no package-level mutex is held consistently for this variable"
				if bestN > 0 {
					need = "other accesses hold " + best
				}
				out = append(out, fmt.Sprintf("%s %s %s (%s) at %s holding [%s]; %s", a.Func, kind, a.Var, a.How, a.Pos, strings.Join(hs, " "), need))
			}
		}
	}
	for _, a := range f.Accesses {
		if !known[a.Var] {
			out = append(out, "access to unknown variable "+a.Var)
		}
	}
	sort.Strings(out)
	return out
}

// ---------------------------------------------------------------------------------------------
// output

func leanStr(s string) string {
	s = strings.ReplaceAll(s, "\\", "\\\\")
	s = strings.ReplaceAll(s, "\"", "\\\"")
	return "\"" + s + "\""
}

func leanBool(b bool) string {
	if b {
		return "true"
	}
	return "false"
}

func writeLean(f *facts, path string) error {
	var b strings.Builder
	b.WriteString("import AvroModel.LockFactsTypes\n")
	b.WriteString("/-! GENERATED by harness/cmd/factgen from the library's working tree on every `./check` run. Do not edit.\n")
	b.WriteString("    Package-level variables, every syntactic access to them with the mutexes held, Codec methods, per-call state types. -/\n")
	b.WriteString("namespace Avro.Generated\nopen Avro.Conc\n\n")
	b.WriteString("def lockVars : List PkgVar := [\n")
	for i, v := range f.Vars {
		fmt.Fprintf(&b, "  { pkg := %s, name := %s, typ := %s, sync := %s, hasInit := %s }%s\n", leanStr(v.Pkg), leanStr(v.Name), leanStr(v.Type), leanStr(v.Sync), leanBool(v.HasInit), sep(i, len(f.Vars)))
	}
	b.WriteString("]\n\ndef lockAccesses : List Access := [\n")
	for i, a := range f.Accesses {
		hs := []string{}
		for _, h := range a.Held {
			hs = append(hs, fmt.Sprintf("{ mutex := %s, excl := %s }", leanStr(h.Mutex), leanBool(h.Excl)))
		}
		fmt.Fprintf(&b, "  { fn := %s, var := %s, write := %s, syncCall := %s, atInit := %s, held := [%s] }%s\n",
			leanStr(a.Func), leanStr(a.Var), leanBool(a.Write), leanBool(a.SyncCall), leanBool(a.AtInit), strings.Join(hs, ", "), sep(i, len(f.Accesses)))
	}
	b.WriteString("]\n\ndef codecMethods : List CodecMethod := [\n")
	for i, c := range f.Codecs {
		fmt.Fprintf(&b, "  { pkg := %s, typ := %s, method := %s, ptrRecv := %s, assignsThroughReceiver := %s, writesPackageState := %s }%s\n",
			leanStr(c.Pkg), leanStr(c.Type), leanStr(c.Method), leanBool(c.PtrRecv), leanBool(c.AssignsThroughReceiver), leanBool(c.WritesPackageState), sep(i, len(f.Codecs)))
	}
	b.WriteString("]\n\ndef perCallTypes : List PerCallType := [\n")
	for i, c := range f.PerCall {
		fmt.Fprintf(&b, "  { pkg := %s, typ := %s, declared := %s, storedInPkgVar := %s }%s\n", leanStr(c.Pkg), leanStr(c.Type), leanBool(c.Declared), leanBool(c.StoredInPkgVar), sep(i, len(f.PerCall)))
	}
	b.WriteString("]\n\ndef lockFacts : LockFacts :=\n  { vars := lockVars, accesses := lockAccesses, codecMethods := codecMethods, perCall := perCallTypes }\n\nend Avro.Generated\n")
	return os.WriteFile(path, []byte(b.String()), 0o644)
}

func sep(i, n int) string {
	if i+1 < n {
		return ","
	}
	return ""
}

func main() {
	repo := flag.String("repo", "/repo", "path of the library working tree")
	out := flag.String("out", ".", "output directory")
	leafworker := flag.Int("leafworker", -1, "internal: produce the rows of the leaf table from this index on (subprocess of factgen)")
	flag.Parse()
	if *leafworker >= 0 {
		leafWorker(*leafworker)
		return
	}
	for _, s := range pkgSpecs {
		p, err := loadPkg(*repo, s)
		if err != nil {
			fmt.Fprintln(os.Stderr, "factgen:", err)
			os.Exit(1)
		}
		pkgs[s.importPath] = p
	}
	f := &facts{Accesses: []access{}, Codecs: []codecMethod{}, PerCall: []perCall{}, Unguarded: []string{}}
	for _, s := range pkgSpecs {
		p := pkgs[s.importPath]
		for _, v := range p.vars {
			f.Vars = append(f.Vars, v)
		}
		for fi, file := range p.files {
			_ = fi
			for _, d := range file.Decls {
				switch d := d.(type) {
				case *ast.GenDecl:
					if d.Tok != token.VAR {
						continue
					}
					for _, sp := range d.Specs {
						vs := sp.(*ast.ValueSpec)
						name := p.spec.id + ".init#" + vs.Names[0].Name
						f.Accesses = append(f.Accesses, walkFunc(p, file, name, true, func(w *walker) {
							for _, e := range vs.Values {
								w.expr(e, false, held{})
							}
						})...)
					}
				case *ast.FuncDecl:
					if d.Body == nil {
						continue
					}
					atInit := d.Recv == nil && d.Name.Name == "init"
					accs := walkFunc(p, file, funcName(p, d), atInit, func(w *walker) { w.block(d.Body.List, held{}) })
					f.Accesses = append(f.Accesses, accs...)
					if d.Recv != nil && codecMethodNames[d.Name.Name] {
						tn, ptr := recvType(d)
						n := 0
						for m := range p.ptrMeth[tn] {
							if codecMethodNames[m] {
								n++
							}
						}
						if n >= 2 {
							at, detail := assignsThroughReceiver(d)
							wp := false
							for _, a := range accs {
								if a.Write && !a.SyncCall {
									wp = true
									detail += " writes " + a.Var
								}
							}
							f.Codecs = append(f.Codecs, codecMethod{Pkg: p.spec.id, Type: tn, Method: d.Name.Name, PtrRecv: ptr,
								AssignsThroughReceiver: at, WritesPackageState: wp, Pos: p.pos(d), Detail: strings.TrimSpace(detail)})
						}
					}
				}
			}
		}
	}
	// per-call state types
	avro := pkgs[pkgSpecs[0].importPath]
	for _, t := range perCallTypes {
		pc := perCall{Pkg: "avro", Type: t, Declared: avro.types[t]}
		re := regexp.MustCompile(`(^|[^A-Za-z0-9_])` + regexp.QuoteMeta(t) + `($|[^A-Za-z0-9_])`)
		for _, s := range pkgSpecs {
			for _, v := range pkgs[s.importPath].vars {
				if re.MatchString(v.Type) {
					pc.StoredInPkgVar = true
					pc.Where += v.Name + " "
				}
			}
		}
		f.PerCall = append(f.PerCall, pc)
	}
	// deterministic order; duplicates (same function, variable, kind, lock set) collapse in the Lean table
	sort.Slice(f.Vars, func(i, j int) bool { return f.Vars[i].Name < f.Vars[j].Name })
	key := func(a access) string {
		return fmt.Sprintf("%s|%s|%v|%v|%v|%v", a.Var, a.Func, a.Write, a.SyncCall, a.AtInit, a.Held)
	}
	sort.SliceStable(f.Accesses, func(i, j int) bool {
		if ki, kj := key(f.Accesses[i]), key(f.Accesses[j]); ki != kj {
			return ki < kj
		}
		return f.Accesses[i].Pos < f.Accesses[j].Pos
	})
	sort.Slice(f.Codecs, func(i, j int) bool {
		a, b := f.Codecs[i], f.Codecs[j]
		return a.Pkg+"."+a.Type+"."+a.Method < b.Pkg+"."+b.Type+"."+b.Method
	})
	f.Unguarded = unguarded(f)

	lean := *f
	lean.Accesses = nil
	seen := map[string]bool{}
	for _, a := range f.Accesses {
		if k := key(a); !seen[k] {
			seen[k] = true
			lean.Accesses = append(lean.Accesses, a)
		}
	}
	if err := os.MkdirAll(*out, 0o755); err != nil {
		fmt.Fprintln(os.Stderr, "factgen:", err)
		os.Exit(1)
	}
	if err := writeLean(&lean, filepath.Join(*out, "LockFacts.lean")); err != nil {
		fmt.Fprintln(os.Stderr, "factgen:", err)
		os.Exit(1)
	}
	js, _ := json.MarshalIndent(f, "", " ")
	if err := os.WriteFile(filepath.Join(*out, "LockFacts.json"), append(js, '\n'), 0o644); err != nil {
		fmt.Fprintln(os.Stderr, "factgen:", err)
		os.Exit(1)
	}
	fmt.Printf("factgen: %d variables, %d accesses (%d distinct rows), %d codec methods, %d unguarded\n",
		len(f.Vars), len(f.Accesses), len(lean.Accesses), len(f.Codecs), len(f.Unguarded))
	// C11: what the New methods allocate (go/ast); C05: schema type x Go kind by execution of the library
	if err := genAlloc(*out); err != nil {
		fmt.Fprintln(os.Stderr, "factgen:", err)
		os.Exit(1)
	}
	if err := genLeaf(*out); err != nil {
		fmt.Fprintln(os.Stderr, "factgen:", err)
		os.Exit(1)
	}
}
