package main

// LeafTable (property C05): BY EXECUTION of the real library, for every Avro schema type crossed with
// every Go kind as the type T of field A in
//
//	struct{ Pre [2]uint64; A T; Post [2]uint64 }        (reflect.StructOf; only A is named in the schema)
//
// the real Schema.Codec is called; accepted/rejected is recorded; for accepted pairs valid encodings of
// all-ones-like values (-1 and the extremes of the schema type, NaN patterns, 0xFF bytes) are decoded into a
// holder whose memory is pre-filled with a canary byte, and the measured footprint is recorded: the range of
// modified bytes relative to field A, whether anything outside [0, sizeof(T)) of A changed, unsafe.Sizeof(T).
//
// The rows are produced by a worker subprocess (`factgen -leafworker k`), so that a fatal runtime error of the
// library under a mutation is attributed to its row instead of killing fact generation for every property.

import (
	"bufio"
	"encoding/json"
	"fmt"
	"os"
	"os/exec"
	"path/filepath"
	"reflect"
	"runtime"
	"strings"
	"time"
	"unsafe"

	"github.com/philpearl/avro"
	avronull "github.com/philpearl/avro/null"
	avrotime "github.com/philpearl/avro/time"
	"github.com/unravelin/null/v5"
)

const leafCanary = 0xA5

type leafKind struct {
	name string
	typ  reflect.Type
	lean string // the kind as AvroModel's GoType
}

type leafSchema struct {
	name   string
	leanID string
	schema avro.Schema
	probes [][]byte // valid encodings of this schema
}

type leafRow struct {
	Schema    string `json:"schema"`
	Kind      string `json:"kind"`
	GoType    string `json:"goType"`
	Accepted  bool   `json:"accepted"`
	BuildErr  string `json:"buildErr,omitempty"`
	Probes    int    `json:"probes"`
	Size      int    `json:"size"`
	Lo        int    `json:"lo"` // first modified byte relative to A (0 when nothing changed)
	Hi        int    `json:"hi"` // one past the last modified byte relative to A (0 when nothing changed)
	Outside   bool   `json:"outside"`
	Panicked  bool   `json:"panicked"`
	Crashed   bool   `json:"crashed"`
	PanicMsg  string `json:"panicMsg,omitempty"`
	FailProbe string `json:"failProbe,omitempty"` // hex of the encoding that left the field / panicked
}

func zz(v int64) []byte {
	u := uint64(v<<1) ^ uint64(v>>63)
	var out []byte
	for u >= 0x80 {
		out = append(out, byte(u)|0x80)
		u >>= 7
	}
	return append(out, byte(u))
}

func cat(bs ...[]byte) []byte {
	var out []byte
	for _, b := range bs {
		out = append(out, b...)
	}
	return out
}

func ff(n int) []byte {
	b := make([]byte, n)
	for i := range b {
		b[i] = 0xFF
	}
	return b
}

func obj(o avro.SchemaObject) *avro.SchemaObject { return &o }

func leafSchemas() []leafSchema {
	prim := func(t string) avro.Schema { return avro.Schema{Type: t} }
	fixed := func(n int) avro.Schema {
		return avro.Schema{Type: "fixed", Object: obj(avro.SchemaObject{Name: fmt.Sprintf("fx%d", n), Size: n})}
	}
	intProbes := [][]byte{zz(-1), zz(1<<31 - 1), zz(-1 << 31), zz(0x7f), zz(-0x8000), zz(0x7fff)}
	longProbes := append([][]byte{zz(1<<63 - 1), zz(-1 << 63), zz(-1 << 32)}, intProbes...)
	union := func(bs ...avro.Schema) avro.Schema { return avro.Schema{Type: "union", Union: bs} }
	return []leafSchema{
		{"null", "sch_null", prim("null"), [][]byte{{}}},
		{"boolean", "sch_boolean", prim("boolean"), [][]byte{{1}, {0xFF}}},
		{"int", "sch_int", prim("int"), intProbes},
		{"long", "sch_long", prim("long"), longProbes},
		{"float", "sch_float", prim("float"), [][]byte{ff(4)}},
		{"double", "sch_double", prim("double"), [][]byte{ff(8)}},
		{"bytes", "sch_bytes", prim("bytes"), [][]byte{cat(zz(3), ff(3))}},
		{"string", "sch_string", prim("string"), [][]byte{cat(zz(3), ff(3))}},
		{"fixed0", "sch_fixed0", fixed(0), [][]byte{{}}},
		{"fixed1", "sch_fixed1", fixed(1), [][]byte{ff(1)}},
		{"fixed4", "sch_fixed4", fixed(4), [][]byte{ff(4)}},
		{"fixed16", "sch_fixed16", fixed(16), [][]byte{ff(16)}},
		{"enum", "sch_enum", avro.Schema{Type: "enum", Object: obj(avro.SchemaObject{Name: "en", Symbols: []string{"A", "B"}})}, [][]byte{zz(1)}},
		{"record", "sch_record", avro.Schema{Type: "record", Object: obj(avro.SchemaObject{Name: "inner",
			Fields: []avro.SchemaRecordField{{Name: "X", Type: prim("long")}}})}, [][]byte{zz(-1), zz(1<<63 - 1)}},
		{"array", "sch_array", avro.Schema{Type: "array", Object: obj(avro.SchemaObject{Items: prim("long")})},
			[][]byte{cat(zz(2), zz(-1), zz(1<<63-1), zz(0)), {0}}},
		{"map", "sch_map", avro.Schema{Type: "map", Object: obj(avro.SchemaObject{Values: prim("long")})},
			[][]byte{cat(zz(1), zz(1), []byte("k"), zz(-1), zz(0)), {0}}},
		{"union_null_long", "sch_union_null_long", union(prim("null"), prim("long")), [][]byte{cat(zz(1), zz(-1)), cat(zz(1), zz(1<<63-1)), zz(0)}},
		{"union_long_null", "sch_union_long_null", union(prim("long"), prim("null")), [][]byte{cat(zz(0), zz(-1)), zz(1)}},
		{"union_null_string", "sch_union_null_string", union(prim("null"), prim("string")), [][]byte{cat(zz(1), zz(3), ff(3)), zz(0)}},
		{"union_null_double", "sch_union_null_double", union(prim("null"), prim("double")), [][]byte{cat(zz(1), ff(8)), zz(0)}},
		{"union_long_string", "sch_union_long_string", union(prim("long"), prim("string")), [][]byte{cat(zz(0), zz(-1)), cat(zz(1), zz(3), ff(3))}},
		{"long_micros", "sch_long_micros", avro.Schema{Type: "long", Object: obj(avro.SchemaObject{LogicalType: "timestamp-micros"})}, longProbes},
		{"int_date", "sch_int_date", avro.Schema{Type: "int", Object: obj(avro.SchemaObject{LogicalType: "date"})}, intProbes},
	}
}

func leafKinds() []leafKind {
	t := reflect.TypeOf
	return []leafKind{
		{"bool", t(false), ".bool"},
		{"int", t(int(0)), ".int 64"},
		{"int8", t(int8(0)), ".int 8"},
		{"int16", t(int16(0)), ".int 16"},
		{"int32", t(int32(0)), ".int 32"},
		{"int64", t(int64(0)), ".int 64"},
		{"uint", t(uint(0)), ".uint 64"},
		{"uint8", t(uint8(0)), ".uint 8"},
		{"uint16", t(uint16(0)), ".uint 16"},
		{"uint32", t(uint32(0)), ".uint 32"},
		{"uint64", t(uint64(0)), ".uint 64"},
		{"uintptr", t(uintptr(0)), ".uint 64"},
		{"float32", t(float32(0)), ".float32"},
		{"float64", t(float64(0)), ".float64"},
		{"complex64", t(complex64(0)), ".complex"},
		{"complex128", t(complex128(0)), ".complex"},
		{"string", t(""), ".string"},
		{"[]byte", t([]byte(nil)), ".slice (.uint 8)"},
		{"[]int64", t([]int64(nil)), ".slice (.int 64)"},
		{"[]string", t([]string(nil)), ".slice .string"},
		{"[0]byte", t([0]byte{}), ".array 0 (.uint 8)"},
		{"[1]byte", t([1]byte{}), ".array 1 (.uint 8)"},
		{"[3]byte", t([3]byte{}), ".array 3 (.uint 8)"},
		{"[4]byte", t([4]byte{}), ".array 4 (.uint 8)"},
		{"[16]byte", t([16]byte{}), ".array 16 (.uint 8)"},
		{"[4]int32", t([4]int32{}), ".array 4 (.int 32)"},
		{"[4]int8", t([4]int8{}), ".array 4 (.int 8)"},
		{"map[string]int64", t(map[string]int64(nil)), ".map .string (.int 64)"},
		{"map[int]int64", t(map[int]int64(nil)), ".map (.int 64) (.int 64)"},
		{"map[string]string", t(map[string]string(nil)), ".map .string .string"},
		{"struct{X int64}", t(struct{ X int64 }{}), `.struct "" "" [.mk "X" true "" "" (.int 64)]`},
		{"struct{X int16}", t(struct{ X int16 }{}), `.struct "" "" [.mk "X" true "" "" (.int 16)]`},
		{"*int64", t((*int64)(nil)), ".ptr (.int 64)"},
		{"*int16", t((*int16)(nil)), ".ptr (.int 16)"},
		{"*string", t((*string)(nil)), ".ptr .string"},
		{"interface{}", t((*any)(nil)).Elem(), ".iface"},
		{"chan int", t((chan int)(nil)), ".chan"},
		{"func()", t((func())(nil)), ".func"},
		{"time.Time", t(time.Time{}), ".time"},
		{"null.Int", t(null.Int{}), ".nullT .int"},
		{"null.Bool", t(null.Bool{}), ".nullT .bool"},
		{"null.Float", t(null.Float{}), ".nullT .double"},
		{"null.String", t(null.String{}), ".nullT .string"},
		{"null.Time", t(null.Time{}), ".nullT .time"},
	}
}

func hasPointers(t reflect.Type) bool {
	switch t.Kind() {
	case reflect.Bool, reflect.Int, reflect.Int8, reflect.Int16, reflect.Int32, reflect.Int64,
		reflect.Uint, reflect.Uint8, reflect.Uint16, reflect.Uint32, reflect.Uint64, reflect.Uintptr,
		reflect.Float32, reflect.Float64, reflect.Complex64, reflect.Complex128:
		return false
	case reflect.Array:
		return t.Len() > 0 && hasPointers(t.Elem())
	case reflect.Struct:
		for i := 0; i < t.NumField(); i++ {
			if hasPointers(t.Field(i).Type) {
				return true
			}
		}
		return false
	}
	return true
}

// leafMeasure runs one (schema, kind) pair against the real library.
func leafMeasure(s leafSchema, k leafKind) (row leafRow) {
	row = leafRow{Schema: s.name, Kind: k.name, GoType: k.lean, Size: int(k.typ.Size())}
	pad := reflect.TypeOf([2]uint64{})
	ht := reflect.StructOf([]reflect.StructField{
		{Name: "Pre", Type: pad, Tag: `json:"pre_not_in_schema"`},
		{Name: "A", Type: k.typ},
		{Name: "Post", Type: pad, Tag: `json:"post_not_in_schema"`},
	})
	outer := avro.Schema{Type: "record", Object: obj(avro.SchemaObject{Name: "holder",
		Fields: []avro.SchemaRecordField{{Name: "A", Type: s.schema}}})}
	var codec avro.Codec
	func() {
		defer func() {
			if r := recover(); r != nil {
				row.Accepted, row.Panicked, row.PanicMsg = true, true, "build: "+fmt.Sprint(r)
			}
		}()
		c, err := outer.Codec(reflect.New(ht).Interface())
		if err != nil {
			row.BuildErr = err.Error()
			return
		}
		codec, row.Accepted = c, true
	}()
	if codec == nil {
		return
	}
	offA, size, total := int(ht.Field(1).Offset), int(k.typ.Size()), int(ht.Size())
	ptrful := hasPointers(k.typ)
	lo, hi := total, -total
	for _, enc := range s.probes {
		row.Probes++
		hv := reflect.New(ht)
		mem := unsafe.Slice((*byte)(hv.UnsafePointer()), total)
		expect := make([]byte, total)
		for i := range expect {
			expect[i] = leafCanary
			if ptrful && i >= offA && i < offA+size {
				expect[i] = 0 // pointer words must stay valid for the collector: zero instead of the canary
			}
		}
		copy(mem, expect)
		func() {
			defer func() {
				if r := recover(); r != nil {
					row.Panicked, row.PanicMsg = true, fmt.Sprint(r)
					if row.FailProbe == "" {
						row.FailProbe = fmt.Sprintf("%x", enc)
					}
				}
			}()
			// 16 further bytes follow the encoding, so that a codec that consumes or copies too much has something to copy
			buf := append(append([]byte(nil), enc...), 0xEE, 0xEE, 0xEE, 0xEE, 0xEE, 0xEE, 0xEE, 0xEE, 0xEE, 0xEE, 0xEE, 0xEE, 0xEE, 0xEE, 0xEE, 0xEE)
			_ = codec.Read(avro.NewReadBuf(buf), hv.UnsafePointer())
		}()
		for i := range mem {
			if mem[i] != expect[i] {
				rel := i - offA
				if rel < lo {
					lo = rel
				}
				if rel+1 > hi {
					hi = rel + 1
				}
				if rel < 0 || rel >= size {
					row.Outside = true
					if row.FailProbe == "" {
						row.FailProbe = fmt.Sprintf("%x", enc)
					}
				}
			}
		}
		runtime.GC() // a pointer stored into a word the collector does not expect shows up here (fatal: isolated by the parent)
		runtime.KeepAlive(hv)
	}
	if hi > -total {
		row.Lo, row.Hi = lo, hi
		if ptrful && lo >= 0 && hi <= size {
			// which bytes of a stored pointer differ from zero depends on the address: report the whole field
			row.Lo, row.Hi = 0, size
		}
	}
	return row
}

// leafWorker prints one JSON row per line, each preceded by a `#BEGIN k` line, starting at row index `start`.
func leafWorker(start int) {
	avrotime.RegisterCodecs()
	avronull.RegisterCodecs()
	w := bufio.NewWriter(os.Stdout)
	k := 0
	for _, s := range leafSchemas() {
		for _, kind := range leafKinds() {
			if k >= start {
				fmt.Fprintf(w, "#BEGIN %d\n", k)
				w.Flush()
				row := leafMeasure(s, kind)
				js, _ := json.Marshal(row)
				w.Write(js)
				w.WriteByte('\n')
				w.Flush()
			}
			k++
		}
	}
	fmt.Fprintln(w, "#END")
	w.Flush()
}

func leafRows() ([]leafRow, error) {
	schemas, kinds := leafSchemas(), leafKinds()
	n := len(schemas) * len(kinds)
	rows := make([]leafRow, 0, n)
	self, err := os.Executable()
	if err != nil {
		return nil, err
	}
	for restarts := 0; len(rows) < n; restarts++ {
		if restarts > 200 {
			return nil, fmt.Errorf("leaf worker keeps crashing")
		}
		cmd := exec.Command(self, "-leafworker", fmt.Sprint(len(rows)))
		cmd.Env = append(os.Environ(), "GOTRACEBACK=single")
		out, _ := cmd.Output() // the exit status is judged by the #END marker
		cur, ended := -1, false
		for _, line := range strings.Split(string(out), "\n") {
			switch {
			case strings.HasPrefix(line, "#BEGIN "):
				fmt.Sscanf(line, "#BEGIN %d", &cur)
			case line == "#END":
				ended = true
			case strings.HasPrefix(line, "{"):
				var r leafRow
				if err := json.Unmarshal([]byte(line), &r); err != nil {
					return nil, err
				}
				rows = append(rows, r)
				cur = -1
			}
		}
		if !ended {
			// the worker died inside row `cur` (or before announcing one): record it as crashed and resume after it
			k := len(rows)
			if cur >= 0 && cur != k {
				return nil, fmt.Errorf("leaf worker out of step: row %d announced, %d rows read", cur, k)
			}
			s, kind := schemas[k/len(kinds)], kinds[k%len(kinds)]
			rows = append(rows, leafRow{Schema: s.name, Kind: kind.name, GoType: kind.lean, Accepted: true, Crashed: true,
				Outside: true, Size: int(kind.typ.Size()), PanicMsg: "fatal runtime error in the worker process"})
		}
	}
	return rows, nil
}

// ---- Lean rendering ----

func leanSchemaExpr(s avro.Schema) string {
	o := "none"
	if s.Object != nil {
		x := s.Object
		var fs, syms []string
		for _, f := range x.Fields {
			fs = append(fs, fmt.Sprintf("SchemaField.mk %s (%s)", leanStr(f.Name), leanSchemaExpr(f.Type)))
		}
		for _, y := range x.Symbols {
			syms = append(syms, leanStr(y))
		}
		o = fmt.Sprintf("(some (SchemaObject.mk %s %s %s %s [%s] (%s) (%s) %d [%s]))", leanStr(x.Type), leanStr(x.LogicalType),
			leanStr(x.Name), leanStr(x.Namespace), strings.Join(fs, ", "), leanSchemaExpr(x.Items), leanSchemaExpr(x.Values), x.Size, strings.Join(syms, ", "))
	}
	var us []string
	for _, u := range s.Union {
		us = append(us, leanSchemaExpr(u))
	}
	return fmt.Sprintf("Schema.mk %s %s [%s]", leanStr(s.Type), o, strings.Join(us, ", "))
}

func writeLeafLean(rows []leafRow, path string) error {
	var b strings.Builder
	b.WriteString("import AvroModel.LeafTableTypes\n")
	b.WriteString("/-! GENERATED by harness/cmd/factgen (leaf.go) BY EXECUTION of the library's working tree on every `./check` run. Do not edit.\n")
	b.WriteString("    Schema type x Go kind: accepted by the real Schema.Codec? measured store footprint of decoding into field A of\n")
	b.WriteString("    struct{Pre [2]uint64; A T; Post [2]uint64} pre-filled with a canary byte. -/\n")
	b.WriteString("namespace Avro.Generated\nopen Avro\n\n")
	for _, s := range leafSchemas() {
		fmt.Fprintf(&b, "def %s : Schema := %s\n", s.leanID, leanSchemaExpr(s.schema))
	}
	ids := map[string]string{}
	for _, s := range leafSchemas() {
		ids[s.name] = s.leanID
	}
	b.WriteString("\ndef leafTable : List LeafRow := [\n")
	for i, r := range rows {
		fmt.Fprintf(&b, "  { schemaName := %s, schema := %s, kind := %s, goType := %s, accepted := %s, probes := %d, size := %d, lo := %d, hi := %d, outside := %s, panicked := %s, crashed := %s }%s\n",
			leanStr(r.Schema), ids[r.Schema], leanStr(r.Kind), r.GoType, leanBool(r.Accepted), r.Probes, r.Size, r.Lo, r.Hi,
			leanBool(r.Outside), leanBool(r.Panicked), leanBool(r.Crashed), sep(i, len(rows)))
	}
	b.WriteString("]\n\nend Avro.Generated\n")
	return os.WriteFile(path, []byte(b.String()), 0o644)
}

func genLeaf(out string) error {
	rows, err := leafRows()
	if err != nil {
		return err
	}
	if err := writeLeafLean(rows, filepath.Join(out, "LeafTable.lean")); err != nil {
		return err
	}
	js, _ := json.MarshalIndent(map[string]any{"rows": rows}, "", " ")
	if err := os.WriteFile(filepath.Join(out, "LeafTable.json"), append(js, '\n'), 0o644); err != nil {
		return err
	}
	acc, bad := 0, 0
	for _, r := range rows {
		if r.Accepted {
			acc++
			if r.Outside || r.Hi > r.Size || r.Lo < 0 || r.Panicked || r.Crashed {
				bad++
			}
		}
	}
	fmt.Printf("factgen: leaf table %d rows, %d accepted, %d accepted rows leaving the field or failing\n", len(rows), acc, bad)
	return nil
}
