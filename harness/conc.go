package main

// Property C12: concurrent independent use is race-free and result-equivalent.
//
// This is the SEARCH tool with the real runtime. One case `(mix seed goroutines opsPerGoroutine gomaxprocs)`
// starts N goroutines, each performing a seeded random mix of the operations the property's quantifier lists
// (building codecs, registering codec/schema builders for private types, decoding with a shared codec into
// private targets, encoding with a shared codec into private buffers, writing and reading whole files, closing
// banks obtained on other goroutines, parsing timestamps with many zone offsets). Every goroutine records one
// result string per operation; the same operations are then re-run sequentially and the results compared.
// Outcome `(ok digest)` or `(mismatch ...)`. `./check` runs this under the race detector (binary
// `harness-race`); a race report is an oracle failure.
//
// `(facts)` reports what factgen's Go-side evaluation of the lock discipline said for this run (from
// .work/LockFacts.json), so that the source positions of unguarded accesses reach the replay file; the
// authoritative evaluation is done by the Lean driver on the regenerated table.

import (
	"bytes"
	"crypto/sha256"
	"encoding/hex"
	"encoding/json"
	"errors"
	"fmt"
	"math/rand"
	"os"
	"reflect"
	"runtime"
	"strings"
	"sync"
	"sync/atomic"
	"time"
	"unsafe"

	"github.com/philpearl/avro"
	avronull "github.com/philpearl/avro/null"
	avrotime "github.com/philpearl/avro/time"
)

func init() {
	props["C12"] = prop{gen: genC12, exec: execC12}
}

func genC12(c *ctx) {
	c.emitf("(facts)")
	c.emitf("(regstorm 8 %d)", c.scale(250, 1500))
	c.emitf("(sample %d)", c.rng.Int63n(1<<30))
	n := c.scale(10, 60)
	procs := []int{1, 2, 4, 8, 16}
	for i := 0; i < n; i++ {
		g := []int{2, 4, 8, 16, 32}[c.rng.Intn(5)]
		ops := c.scale(120, 400)
		if i == 0 {
			g, ops = 8, c.scale(300, 1000) // one wide case first
		}
		c.emitf("(mix %d %d %d %d)", c.rng.Int63n(1<<40), g, ops, procs[i%len(procs)])
	}
}

// --- record types used by the mix ------------------------------------------------------------------

type cInner struct {
	K string  `json:"k"`
	V float64 `json:"v"`
}

type cA struct {
	ID    int64    `json:"id"`
	Name  string   `json:"name"`
	Tags  []string `json:"tags"`
	Score float64  `json:"score"`
	OK    bool     `json:"ok"`
	Inner cInner   `json:"inner"`
}

type cB struct {
	N     int32     `json:"n"`
	Nums  []int64   `json:"nums"`
	Blob  []byte    `json:"blob"`
	When  time.Time `json:"when"`
	Items []cInner  `json:"items"`
}

type cS struct {
	A int64  `json:"a"`
	S string `json:"s,omitempty"`
}

type cC struct {
	Label string           `json:"label,omitempty"`
	Count int64            `json:"count,omitempty"`
	M     map[string]int64 `json:"m"`
}

func mkA(v int64) cA {
	r := rand.New(rand.NewSource(v))
	a := cA{ID: v, Name: fmt.Sprintf("name-%d", r.Intn(1000)), Score: float64(r.Intn(1000)) / 8, OK: v%2 == 0,
		Inner: cInner{K: fmt.Sprintf("k%d", r.Intn(50)), V: float64(r.Intn(100))}}
	for i := 0; i < r.Intn(4); i++ {
		a.Tags = append(a.Tags, fmt.Sprintf("t%d", r.Intn(100)))
	}
	return a
}

func mkB(v int64) cB {
	r := rand.New(rand.NewSource(v))
	b := cB{N: int32(r.Intn(1 << 20)), Blob: []byte(fmt.Sprintf("blob%d", r.Intn(1000))),
		When: time.Unix(1600000000+int64(r.Intn(1<<25)), int64(r.Intn(1000))*1000000).In(time.FixedZone("", (r.Intn(27)-13)*3600))}
	for i := 0; i < r.Intn(5); i++ {
		b.Nums = append(b.Nums, int64(r.Intn(1<<30))-1<<29)
	}
	for i := 0; i < r.Intn(3); i++ {
		b.Items = append(b.Items, cInner{K: fmt.Sprintf("i%d", i), V: float64(r.Intn(9))})
	}
	return b
}

func mkC(v int64) cC {
	r := rand.New(rand.NewSource(v))
	c := cC{Label: fmt.Sprintf("l%d", r.Intn(3)), Count: int64(r.Intn(3)), M: map[string]int64{}}
	if c.Label == "l0" {
		c.Label = ""
	}
	for i := 0; i < r.Intn(4); i++ {
		c.M[fmt.Sprintf("m%d", r.Intn(20))] = int64(r.Intn(1000))
	}
	return c
}

func js(v any) string {
	b, err := json.Marshal(v)
	if err != nil {
		return "json-error:" + err.Error()
	}
	return string(b)
}

func short(s string) string {
	h := sha256.Sum256([]byte(s))
	return hex.EncodeToString(h[:6])
}

// --- a custom codec for the goroutines' private types ----------------------------------------------

// privCodec decodes a long into the first field of a private struct {P int64; G<g> int64} and stamps the
// second field with the identity of the builder that was registered for the type.
type privCodec struct{ stamp int64 }

func (c privCodec) Read(r *avro.ReadBuf, p unsafe.Pointer) error {
	v, err := r.Varint()
	if err != nil {
		return err
	}
	*(*int64)(p) = v
	*(*int64)(unsafe.Add(p, 8)) = c.stamp
	return nil
}
func (c privCodec) Skip(r *avro.ReadBuf) error         { _, err := r.Varint(); return err }
func (c privCodec) New(r *avro.ReadBuf) unsafe.Pointer { return unsafe.Pointer(new([2]int64)) }
func (c privCodec) Omit(p unsafe.Pointer) bool         { return false }
func (c privCodec) Write(w *avro.WriteBuf, p unsafe.Pointer) {
	w.Varint(*(*int64)(p))
}

// --- shared state of one harness process -----------------------------------------------------------

type concShared struct {
	codecA, codecB, codecC avro.Codec
	encA, encB, encC       [][]byte // records pre-encoded with the shared codecs
	files                  [][]byte // whole container files of cA records (null, deflate, snappy)
	fileN                  []int
	privTyp, outerTyp      []reflect.Type
}

const maxPriv = 64

var (
	concOnce  sync.Once
	concState *concShared
	concErr   error
)

func concSetup() (*concShared, error) {
	concOnce.Do(func() {
		avrotime.RegisterCodecs()
		avronull.RegisterCodecs()
		s := &concShared{}
		build := func(zero any) avro.Codec {
			sch, err := avro.SchemaForType(zero)
			if err != nil {
				concErr = err
				return nil
			}
			c, err := sch.Codec(zero)
			if err != nil {
				concErr = err
			}
			return c
		}
		s.codecA, s.codecB, s.codecC = build(cA{}), build(cB{}), build(cC{})
		if concErr != nil {
			return
		}
		for i := int64(0); i < 32; i++ {
			a, b, c := mkA(i), mkB(i), mkC(i)
			w := avro.NewWriteBuf(nil)
			s.codecA.Write(w, unsafe.Pointer(&a))
			s.encA = append(s.encA, append([]byte(nil), w.Bytes()...))
			w.Reset()
			s.codecB.Write(w, unsafe.Pointer(&b))
			s.encB = append(s.encB, append([]byte(nil), w.Bytes()...))
			w.Reset()
			s.codecC.Write(w, unsafe.Pointer(&c))
			s.encC = append(s.encC, append([]byte(nil), w.Bytes()...))
		}
		for i, comp := range []avro.Compression{avro.CompressionNull, avro.CompressionDeflate, avro.CompressionSnappy} {
			var buf bytes.Buffer
			enc, err := avro.NewEncoderFor[cA](&buf, comp, 200)
			if err != nil {
				concErr = err
				return
			}
			n := 20 + 7*i
			for k := 0; k < n; k++ {
				a := mkA(int64(1000*i + k))
				if err := enc.Encode(&a); err != nil {
					concErr = err
					return
				}
			}
			if err := enc.Flush(); err != nil {
				concErr = err
				return
			}
			s.files = append(s.files, buf.Bytes())
			s.fileN = append(s.fileN, n)
		}
		for g := 0; g < maxPriv; g++ {
			pt := reflect.StructOf([]reflect.StructField{
				{Name: "P", Type: reflect.TypeOf(int64(0)), Tag: `json:"p"`},
				{Name: fmt.Sprintf("G%d", g), Type: reflect.TypeOf(int64(0)), Tag: `json:"g"`},
			})
			ot := reflect.StructOf([]reflect.StructField{
				{Name: "A", Type: reflect.TypeOf(int64(0)), Tag: `json:"a"`},
				{Name: "X", Type: pt, Tag: `json:"x"`},
				{Name: "S", Type: reflect.TypeOf(""), Tag: `json:"s"`},
			})
			s.privTyp = append(s.privTyp, pt)
			s.outerTyp = append(s.outerTyp, ot)
		}
		concState = s
	})
	return concState, concErr
}

// --- operations -------------------------------------------------------------------------------------

type concOp struct {
	kind int
	arg  int64
}

var errConcStop = errors.New("stop")

const concKinds = 11

type concRun struct {
	s     *concShared
	banks chan *avro.ResourceBank
}

func (cr *concRun) giveBank(rb *avro.ResourceBank) {
	select {
	case cr.banks <- rb:
	default:
		rb.Close()
	}
}

// runOp executes one operation for goroutine g; the result string depends only on (g, op).
func (cr *concRun) runOp(g int, op concOp) (res string) {
	defer func() {
		if r := recover(); r != nil {
			res = "panic:" + clean(fmt.Sprint(r))
		}
	}()
	s := cr.s
	v := op.arg
	switch op.kind {
	case 0: // build a codec for one of the struct types from its generated schema, use it once
		switch v % 3 {
		case 0:
			sch, err := avro.SchemaForType(cA{})
			if err != nil {
				return "err:" + err.Error()
			}
			c, err := sch.Codec(cA{})
			if err != nil {
				return "err:" + err.Error()
			}
			in := mkA(v)
			w := avro.NewWriteBuf(nil)
			c.Write(w, unsafe.Pointer(&in))
			var out cA
			r := avro.NewReadBuf(w.Bytes())
			if err := c.Read(r, unsafe.Pointer(&out)); err != nil {
				return "err:" + err.Error()
			}
			res = js(out)
			cr.giveBank(r.ExtractResourceBank())
			return res
		case 1:
			sch, err := avro.SchemaForType(&cB{})
			if err != nil {
				return "err:" + err.Error()
			}
			c, err := sch.Codec(&cB{})
			if err != nil {
				return "err:" + err.Error()
			}
			in := mkB(v)
			w := avro.NewWriteBuf(nil)
			c.Write(w, unsafe.Pointer(&in))
			var out cB
			r := avro.NewReadBuf(w.Bytes())
			if err := c.Read(r, unsafe.Pointer(&out)); err != nil {
				return "err:" + err.Error()
			}
			res = js(out)
			cr.giveBank(r.ExtractResourceBank())
			return res
		default:
			sch, err := avro.SchemaForType(cC{})
			if err != nil {
				return "err:" + err.Error()
			}
			c, err := sch.Codec(cC{})
			if err != nil {
				return "err:" + err.Error()
			}
			var out cC
			r := avro.NewReadBuf(s.encC[int(v>>2)%len(s.encC)])
			if err := c.Read(r, unsafe.Pointer(&out)); err != nil {
				return "err:" + err.Error()
			}
			res = js(out)
			cr.giveBank(r.ExtractResourceBank())
			return res
		}
	case 1: // schema generation
		var sch avro.Schema
		var err error
		switch v % 3 {
		case 0:
			sch, err = avro.SchemaForType(cA{})
		case 1:
			sch, err = avro.SchemaForType(cB{})
		default:
			sch, err = avro.SchemaForType(cC{})
		}
		if err != nil {
			return "err:" + err.Error()
		}
		b, err := sch.Marshal()
		if err != nil {
			return "err:" + err.Error()
		}
		// the result belongs to this goroutine: it may rename its record and fields (as a caller deriving a
		// variant schema would) without anybody else noticing
		if v%5 == 0 && sch.Object != nil {
			sch.Object.Name = fmt.Sprintf("renamed_by_g%d", g)
			for i := range sch.Object.Fields {
				sch.Object.Fields[i].Name += "_x"
			}
		}
		return string(b)
	case 2: // register builder and schema for this goroutine's private type, then build and use a codec that needs them
		pt, ot := s.privTyp[g%maxPriv], s.outerTyp[g%maxPriv]
		stamp := int64(g%maxPriv) + 1000
		avro.Register(pt, func(schema avro.Schema, typ reflect.Type, omit bool) (avro.Codec, error) {
			if typ != pt {
				return nil, fmt.Errorf("builder of %v called for %v", pt, typ)
			}
			return privCodec{stamp: stamp}, nil
		})
		avro.RegisterSchema(pt, avro.Schema{Type: "long"})
		zero := reflect.New(ot)
		sch, err := avro.SchemaForType(zero.Interface())
		if err != nil {
			return "err:" + err.Error()
		}
		sb, _ := sch.Marshal()
		c, err := sch.Codec(zero.Interface())
		if err != nil {
			return "err:" + err.Error()
		}
		// wire data by hand: long a, long x, string s
		w := avro.NewWriteBuf(nil)
		w.Varint(v)
		w.Varint(v * 3)
		str := fmt.Sprintf("s%d", v%97)
		w.Varint(int64(len(str)))
		w.Write([]byte(str))
		r := avro.NewReadBuf(w.Bytes())
		if err := c.Read(r, zero.UnsafePointer()); err != nil {
			return "err:" + err.Error()
		}
		res = short(string(sb)) + js(zero.Interface())
		cr.giveBank(r.ExtractResourceBank())
		return res
	case 3: // decode with a SHARED codec into a private target
		var r *avro.ReadBuf
		switch v % 3 {
		case 0:
			var out cA
			r = avro.NewReadBuf(s.encA[int(v>>2)%len(s.encA)])
			if err := s.codecA.Read(r, unsafe.Pointer(&out)); err != nil {
				return "err:" + err.Error()
			}
			res = js(out)
		case 1:
			var out cB
			r = avro.NewReadBuf(s.encB[int(v>>2)%len(s.encB)])
			if err := s.codecB.Read(r, unsafe.Pointer(&out)); err != nil {
				return "err:" + err.Error()
			}
			res = js(out)
		default:
			var out cC
			r = avro.NewReadBuf(s.encC[int(v>>2)%len(s.encC)])
			if err := s.codecC.Read(r, unsafe.Pointer(&out)); err != nil {
				return "err:" + err.Error()
			}
			res = js(out)
		}
		cr.giveBank(r.ExtractResourceBank())
		return res
	case 4: // encode with a SHARED codec into a private buffer
		w := avro.NewWriteBuf(make([]byte, 0, 16))
		if v%2 == 0 {
			in := mkA(v)
			s.codecA.Write(w, unsafe.Pointer(&in))
		} else {
			in := mkB(v)
			s.codecB.Write(w, unsafe.Pointer(&in))
		}
		return hx(w.Bytes())
	case 5: // write a whole file with a private Encoder, read it back with ReadFile
		comp := []avro.Compression{avro.CompressionNull, avro.CompressionDeflate, avro.CompressionSnappy}[v%3]
		var buf bytes.Buffer
		enc, err := avro.NewEncoderFor[cA](&buf, comp, 64+int(v%5)*50)
		if err != nil {
			return "err:" + err.Error()
		}
		n := 1 + int(v%9)
		for k := 0; k < n; k++ {
			a := mkA(v + int64(k))
			if err := enc.Encode(&a); err != nil {
				return "err:" + err.Error()
			}
		}
		if err := enc.Flush(); err != nil {
			return "err:" + err.Error()
		}
		var sb strings.Builder
		cnt := 0
		// some reads are stopped early by the callback: it closes the bank it was given (it owns it) and returns an error
		stopAt := -1
		if v%7 == 0 {
			stopAt = int(v>>4) % n
		}
		err = avro.ReadFile(bytes.NewReader(buf.Bytes()), cA{}, func(val unsafe.Pointer, rb *avro.ResourceBank) error {
			sb.WriteString(js(*(*cA)(val)))
			cnt++
			rb.Close()
			if cnt-1 == stopAt {
				return errConcStop
			}
			return nil
		})
		if stopAt >= 0 {
			if !errors.Is(err, errConcStop) {
				return "err:callback error not returned: " + fmt.Sprint(err)
			}
		} else if err != nil {
			return "err:" + err.Error()
		}
		return fmt.Sprintf("%d:%s", cnt, short(sb.String()))
	case 6: // read a whole pre-built file; banks are handed to other goroutines
		i := int(v % int64(len(s.files)))
		var sb strings.Builder
		cnt := 0
		err := avro.ReadFile(bytes.NewReader(s.files[i]), &cA{}, func(val unsafe.Pointer, rb *avro.ResourceBank) error {
			sb.WriteString(js(*(*cA)(val)))
			cnt++
			cr.giveBank(rb)
			return nil
		})
		if err != nil {
			return "err:" + err.Error()
		}
		return fmt.Sprintf("%d/%d:%s", cnt, s.fileN[i], short(sb.String()))
	case 7: // close banks that were filled on other goroutines (handed over through the channel)
		for k := 0; k < 4; k++ {
			select {
			case rb := <-cr.banks:
				rb.Close()
			default:
			}
		}
		return "closed"
	case 8: // timestamp parsing with many distinct zone offsets (shared timezone cache)
		off := int(v%1681) - 840 // minutes, -14:00 .. +14:00
		sign := '+'
		if off < 0 {
			sign, off = '-', -off
		}
		str := fmt.Sprintf("20%02d-%02d-%02dT%02d:%02d:%02d.%03d%c%02d:%02d", v%50, 1+v%12, 1+v%28, v%24, v%60, (v>>3)%60, v%1000, sign, off/60, off%60)
		if v%11 == 0 {
			str = str[:23] + "Z"
		}
		w := avro.NewWriteBuf(nil)
		w.Varint(int64(len(str)))
		w.Write([]byte(str))
		var t time.Time
		r := avro.NewReadBuf(w.Bytes())
		err := avrotime.StringCodec{}.Read(r, unsafe.Pointer(&t))
		r.ExtractResourceBank().Close()
		if err != nil {
			return "err:" + err.Error()
		}
		_, zoff := t.Zone()
		return fmt.Sprintf("%s|%d|%d", t.Format(time.RFC3339Nano), zoff, t.UnixNano())
	case 9: // a file whose records mostly allocate nothing: banks of empty records are closed at once,
		// the others are retained (with their records) until the whole file is read
		comp := []avro.Compression{avro.CompressionNull, avro.CompressionDeflate, avro.CompressionSnappy}[v%3]
		var buf bytes.Buffer
		enc, err := avro.NewEncoderFor[cS](&buf, comp, 64+int(v%5)*50)
		if err != nil {
			return "err:" + err.Error()
		}
		n := 3 + int(v%10)
		want := make([]cS, n)
		for k := 0; k < n; k++ {
			want[k] = cS{A: v + int64(k)}
			if (v>>uint(k%30))&3 == 0 {
				want[k].S = fmt.Sprintf("g%d-%d-%d", g, v, k)
			}
			if err := enc.Encode(&want[k]); err != nil {
				return "err:" + err.Error()
			}
		}
		if err := enc.Flush(); err != nil {
			return "err:" + err.Error()
		}
		var kept []cS
		var keptBanks []*avro.ResourceBank
		err = avro.ReadFile(bytes.NewReader(buf.Bytes()), cS{}, func(val unsafe.Pointer, rb *avro.ResourceBank) error {
			rec := *(*cS)(val)
			kept = append(kept, rec)
			if rec.S == "" {
				rb.Close()
			} else {
				keptBanks = append(keptBanks, rb)
			}
			return nil
		})
		if err != nil {
			return "err:" + err.Error()
		}
		res = fmt.Sprintf("%d", len(kept))
		if len(kept) != n {
			res = fmt.Sprintf("err:%d records delivered, %d written", len(kept), n)
		}
		for k := range kept {
			if k < n && kept[k] != want[k] {
				res = fmt.Sprintf("err:retained record %d changed while its bank was still open: %s, written %s", k, js(kept[k]), js(want[k]))
				break
			}
		}
		for _, rb := range keptBanks {
			rb.Close()
		}
		return res
	default: // re-registration of the library's own codec packages
		if v%2 == 0 {
			avrotime.RegisterCodecs()
		} else {
			avronull.RegisterCodecs()
		}
		return "registered"
	}
}

func execC12(op string, args []sx) sx {
	switch op {
	case "facts":
		return factsOutcome()
	case "sample": // one result of every kind of operation, run alone (shows what is being compared)
		s, err := concSetup()
		if err != nil {
			return T("setup-error", A(clean(err.Error())))
		}
		cr := &concRun{s: s, banks: make(chan *avro.ResourceBank, 256)}
		out := []sx{}
		for k := 0; k < concKinds; k++ {
			out = append(out, T(fmt.Sprintf("kind%d", k), A(cleanLong(cr.runOp(int(args[0].int())%maxPriv, concOp{kind: k, arg: args[0].int() + int64(k)})))))
		}
		return T("samples", out...)
	case "regstorm":
		// many goroutines register builders for distinct types at the same time and use each at once: a registration
		// that has returned is in force (no update may be lost)
		g, n := int(args[0].int()), int(args[1].int())
		fmt.Fprintf(os.Stderr, "C12-CASE (regstorm %d %d)\n", g, n)
		defer fmt.Fprintf(os.Stderr, "C12-CASE-END\n")
		var lost atomic.Int64
		var wg sync.WaitGroup
		start := make(chan struct{})
		for i := 0; i < g; i++ {
			wg.Add(1)
			go func(i int) {
				defer wg.Done()
				<-start
				for k := 0; k < n; k++ {
					t := reflect.ArrayOf(1000+i*n+k, reflect.TypeOf(int64(0)))
					avro.Register(t, func(s avro.Schema, typ reflect.Type, omit bool) (avro.Codec, error) { return privCodec{stamp: 1}, nil })
					outer := reflect.StructOf([]reflect.StructField{{Name: "V", Type: t, Tag: `json:"v"`}})
					sch := avro.Schema{Type: "record", Object: &avro.SchemaObject{Name: "o", Fields: []avro.SchemaRecordField{{Name: "v", Type: avro.Schema{Type: "long"}}}}}
					if _, err := sch.Codec(reflect.New(outer).Interface()); err != nil {
						lost.Add(1)
					}
				}
			}(i)
		}
		close(start)
		wg.Wait()
		if l := lost.Load(); l > 0 {
			return T("mismatch", T("lost-registrations", I(l)), T("of", I(int64(g*n))))
		}
		return T("ok", T("registrations", I(int64(g*n))))
	case "mix":
		seed, g, n := args[0].int(), int(args[1].int()), int(args[2].int())
		procs := 0
		if len(args) > 3 {
			procs = int(args[3].int())
		}
		fmt.Fprintf(os.Stderr, "C12-CASE (mix %d %d %d %d)\n", seed, g, n, procs)
		out := runMix(seed, g, n, procs)
		fmt.Fprintf(os.Stderr, "C12-CASE-END\n")
		return out
	}
	panic("harness: unknown C12 op " + op)
}

func runMix(seed int64, g, n, procs int) sx {
	s, err := concSetup()
	if err != nil {
		return T("setup-error", A(clean(err.Error())))
	}
	if procs > 0 {
		defer runtime.GOMAXPROCS(runtime.GOMAXPROCS(procs))
	}
	ops := make([][]concOp, g)
	for i := range ops {
		r := rand.New(rand.NewSource(seed*1000003 + int64(i)))
		ops[i] = make([]concOp, n)
		for k := range ops[i] {
			ops[i][k] = concOp{kind: r.Intn(concKinds), arg: r.Int63n(1 << 40)}
		}
	}
	conc := make([][]string, g)
	cr := &concRun{s: s, banks: make(chan *avro.ResourceBank, 256)}
	var wg sync.WaitGroup
	start := make(chan struct{})
	for i := 0; i < g; i++ {
		wg.Add(1)
		go func(i int) {
			defer wg.Done()
			res := make([]string, n)
			<-start
			for k, op := range ops[i] {
				res[k] = cr.runOp(i, op)
			}
			conc[i] = res
		}(i)
	}
	close(start)
	wg.Wait()
	drain := func() {
		for {
			select {
			case rb := <-cr.banks:
				rb.Close()
			default:
				return
			}
		}
	}
	drain()
	// the same operations, one goroutine at a time
	h := sha256.New()
	kinds := make([]int, concKinds)
	errs := 0
	for i := 0; i < g; i++ {
		for k, op := range ops[i] {
			want := cr.runOp(i, op)
			if want != conc[i][k] {
				drain()
				return T("mismatch", T("goroutine", I(int64(i))), T("op", I(int64(k))), T("kind", I(int64(op.kind))), T("arg", I(op.arg)),
					T("concurrent", A(clean(conc[i][k]))), T("alone", A(clean(want))))
			}
			if strings.HasPrefix(want, "err:") || strings.HasPrefix(want, "panic:") {
				errs++
			}
			kinds[op.kind]++
			h.Write([]byte(want))
			h.Write([]byte{0})
		}
	}
	drain()
	if errs > 0 {
		// find the first failing one again for the report
		for i := 0; i < g; i++ {
			for k, op := range ops[i] {
				if strings.HasPrefix(conc[i][k], "err:") || strings.HasPrefix(conc[i][k], "panic:") {
					return T("op-failed", T("kind", I(int64(op.kind))), T("arg", I(op.arg)), A(clean(conc[i][k])), T("count", I(int64(errs))))
				}
			}
		}
	}
	return T("ok", A(hex.EncodeToString(h.Sum(nil)[:8])), T("ops", I(int64(g*n))))
}

// factsOutcome reads factgen's JSON mirror written by ./check for this run.
func factsOutcome() sx {
	var f struct {
		Vars      []json.RawMessage `json:"vars"`
		Accesses  []json.RawMessage `json:"accesses"`
		Unguarded []string          `json:"unguarded"`
	}
	for _, p := range []string{os.Getenv("VERIF_LOCKFACTS"), "../.work/LockFacts.json", ".work/LockFacts.json"} {
		if p == "" {
			continue
		}
		b, err := os.ReadFile(p)
		if err != nil {
			continue
		}
		if err := json.Unmarshal(b, &f); err != nil {
			return T("factgen", A("unreadable"))
		}
		un := []sx{}
		for _, u := range f.Unguarded {
			un = append(un, A(cleanLong(u)))
		}
		return T("factgen", T("vars", I(int64(len(f.Vars)))), T("accesses", I(int64(len(f.Accesses)))), T("unguarded", un...))
	}
	return T("factgen", A("missing"))
}

func cleanLong(msg string) string {
	msg = strings.Map(func(r rune) rune {
		if r == '(' || r == ')' || r == ' ' || r == '\n' || r == '\t' || r == '\r' {
			return '_'
		}
		return r
	}, msg)
	if len(msg) > 400 {
		msg = msg[:400]
	}
	if msg == "" {
		msg = "_"
	}
	return msg
}
