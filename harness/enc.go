package main

import (
	"bytes"
	"compress/flate"
	"encoding/binary"
	"errors"
	"fmt"
	"hash/crc32"
	"io"
	"math/rand"
	"os"
	"strconv"
	"strings"
	"unsafe"

	"github.com/golang/snappy"
	"github.com/philpearl/avro"
)

func init() {
	props["ENC9"] = prop{gen: func(c *ctx) { genENC(c, false) }, exec: execENC}
	props["ENC16"] = prop{gen: func(c *ctx) { genENC(c, true) }, exec: execENC}
}

type recB struct {
	B []byte `json:"b"`
}
type recE struct{}

var errInjected = errors.New("injected write failure")

// timeoutErr wraps errInjected and claims to be a transient timeout (net.Error style)
type timeoutErr struct{}

func (timeoutErr) Error() string   { return "injected timeout" }
func (timeoutErr) Timeout() bool   { return true }
func (timeoutErr) Temporary() bool { return true }
func (timeoutErr) Unwrap() error   { return errInjected }

// recWriter records every Write call; it fails on call number failAt (1-based, 0 = never)
// after accepting `accept` bytes of that call.
type pathLikeErr struct {
	Op  string
	Err error
}

func (e *pathLikeErr) Error() string { return e.Op + ": " + e.Err.Error() }
func (e *pathLikeErr) Unwrap() error { return e.Err }

// wrapsWriterError: err wraps the very error value the writer returned (and hence its root cause)
func wrapsWriterError(err error, w *recWriter) bool {
	return errors.Is(err, errInjected) && w.lastErr != nil && errors.Is(err, w.lastErr)
}

type recWriter struct {
	lastErr error
	calls   int
	failAt  int
	accept  int
	writes  [][]byte
	partial []byte
	failed  bool
}

// Flush: some destinations (bufio, gzip) have one; this one always succeeds - an error of an earlier Write must not
// be replaced by its result
func (w *recWriter) Flush() error { return nil }

func (w *recWriter) Write(p []byte) (int, error) {
	w.calls++
	if w.calls == w.failAt {
		n := w.accept
		if n > len(p) {
			n = len(p)
		}
		w.partial = append([]byte(nil), p[:n]...)
		w.failed = true
		// the kind of error varies with the case: plain, timeout-typed, joined with a deadline error -
		// whatever its type, the caller must see an error that wraps it
		var e error = errInjected
		switch (w.failAt + w.accept) % 4 {
		case 1:
			e = timeoutErr{}
		case 2:
			e = errors.Join(errInjected, os.ErrDeadlineExceeded)
		case 3:
			// a chain, as os.File (*fs.PathError -> errno) and net.Conn (*net.OpError -> ...) return: the error the writer
			// returned - not only its root cause - must stay reachable
			e = &pathLikeErr{Op: "write", Err: timeoutErr{}}
		}
		w.lastErr = e
		return n, e
	}
	w.writes = append(w.writes, append([]byte(nil), p...))
	return len(p), nil
}

// inflate tries to decompress a chunk with an implementation independent of the library's wrappers.
func inflate(codec string, chunk []byte) ([]byte, bool) {
	switch codec {
	case "deflate":
		r := flate.NewReader(bytes.NewReader(chunk))
		out, err := io.ReadAll(r)
		if err != nil {
			return nil, false
		}
		return out, true
	case "snappy":
		if len(chunk) < 4 {
			return nil, false
		}
		if n, err := snappy.DecodedLen(chunk[:len(chunk)-4]); err != nil || n > 1<<24 {
			return nil, false
		}
		out, err := snappy.Decode(nil, chunk[:len(chunk)-4])
		if err != nil {
			return nil, false
		}
		if crc32.ChecksumIEEE(out) != binary.BigEndian.Uint32(chunk[len(chunk)-4:]) {
			return nil, false
		}
		return out, true
	}
	return nil, false
}

type encIface interface {
	encode(payload []byte) error
	flush() error
}
type encB struct{ e *avro.Encoder[recB] }
type encEm struct{ e *avro.Encoder[recE] }

func (x encB) encode(p []byte) error { return x.e.Encode(&recB{B: p}) }
func (x encB) flush() error          { return x.e.Flush() }
func (x encEm) encode([]byte) error  { return x.e.Encode(&recE{}) }
func (x encEm) flush() error         { return x.e.Flush() }

func newEnc(w io.Writer, codec string, bs int, rectype string) (encIface, error) {
	if rectype == "e" {
		e, err := avro.NewEncoderFor[recE](w, avro.Compression(codec), bs)
		if err != nil {
			return nil, err
		}
		return encEm{e}, nil
	}
	e, err := avro.NewEncoderFor[recB](w, avro.Compression(codec), bs)
	if err != nil {
		return nil, err
	}
	return encB{e}, nil
}

// runEnc executes the call history; returns the index of the first failing call (0 = constructor,
// i+1 = ops[i]) or -1, and whether the returned error wraps the injected one.
func runEnc(w *recWriter, codec string, bs int, rectype string, ops []sx) (failed int, wraps bool) {
	e, err := newEnc(w, codec, bs, rectype)
	if err != nil {
		return 0, wrapsWriterError(err, w)
	}
	for i, op := range ops {
		var err error
		if op.tag() == "e" {
			err = e.encode(op.args()[0].bytes())
		} else {
			err = e.flush()
		}
		if err != nil {
			return i + 1, wrapsWriterError(err, w)
		}
	}
	return -1, false
}

func chunksSx(codec string, ws [][]byte) (sx, sx) {
	a, b := L(), L()
	for _, c := range ws {
		a.list = append(a.list, H(c))
		if out, ok := inflate(codec, c); ok {
			b.list = append(b.list, H(out))
		} else {
			b.list = append(b.list, A("none"))
		}
	}
	return a, b
}

func failedSx(i int) sx {
	if i < 0 {
		return A("none")
	}
	return A(strconv.Itoa(i))
}

var (
	freeKey string
	freeOut sx
)

// encScenario: uses of FileWriter that the Encoder never makes; judged here with the library's own reader
func encScenario(name, codec string) sx {
	switch name {
	case "two-destinations":
		// one FileWriter, two destinations: each gets a header, then each gets a block
		sch, err := avro.SchemaForType(recB{})
		if err != nil {
			return T("violated", hs("schema: "+err.Error()))
		}
		js, err := sch.Marshal()
		if err != nil {
			return T("violated", hs("marshal: "+err.Error()))
		}
		fw, err := avro.NewFileWriter(js, avro.Compression(codec))
		if err != nil {
			return T("violated", hs("NewFileWriter: "+err.Error()))
		}
		var f1, f2 bytes.Buffer
		if err := fw.WriteHeader(&f1); err != nil {
			return T("violated", hs(err.Error()))
		}
		f2.Write(fw.AppendHeader(nil))
		rec := func(b string) []byte {
			w := avro.NewWriteBuf(nil)
			w.Varint(int64(len(b)))
			w.Write([]byte(b))
			return append([]byte(nil), w.Bytes()...)
		}
		for i, step := range []struct {
			w *bytes.Buffer
			b string
		}{{&f1, "first-1"}, {&f2, "second-1"}, {&f1, "first-2"}, {&f2, "second-2"}} {
			if err := fw.WriteBlock(step.w, 1, rec(step.b)); err != nil {
				return T("violated", hs(fmt.Sprintf("WriteBlock %d: %v", i, err)))
			}
		}
		for _, f := range []struct {
			name string
			data []byte
			want []string
		}{{"first", f1.Bytes(), []string{"first-1", "first-2"}}, {"second", f2.Bytes(), []string{"second-1", "second-2"}}} {
			var got []string
			err := avro.ReadFile(bytes.NewReader(f.data), recB{}, func(val unsafe.Pointer, rb *avro.ResourceBank) error {
				got = append(got, string((*recB)(val).B))
				rb.Close()
				return nil
			})
			if err != nil || fmt.Sprint(got) != fmt.Sprint(f.want) {
				return T("violated", hs(fmt.Sprintf("the %s of two files written through one FileWriter reads back as %v, %v (written %v)", f.name, got, err, f.want)))
			}
		}
		return T("ok")
	case "same-named-types":
		// two DISTINCT struct types with the same (package-qualified) name - function-local types called `row` - used one after
		// the other through every entry point that takes a Go type: each must be treated as the type it is
		r1, r2 := sameNameA(codec), sameNameB(codec)
		if r1 != "" {
			return T("violated", hs("first type called row: "+r1))
		}
		if r2 != "" {
			return T("violated", hs("second type called row (after the first was used): "+r2))
		}
		if r := sameNameA(codec); r != "" {
			return T("violated", hs("first type called row, used again after the second: "+r))
		}
		return T("ok")
	case "direct-blocks-fault":
		// FileWriter used directly (WriteHeader, then WriteBlock with row counts 0, 1, 0, 3 - empty blocks are legal), the
		// destination failing at every write index with 0 or 1 bytes of that write accepted
		sch, err := avro.SchemaForType(recB{})
		if err != nil {
			return T("violated", hs("schema: "+err.Error()))
		}
		js, err := sch.Marshal()
		if err != nil {
			return T("violated", hs("marshal: "+err.Error()))
		}
		rec := func(b string) []byte {
			w := avro.NewWriteBuf(nil)
			w.Varint(int64(len(b)))
			w.Write([]byte(b))
			return append([]byte(nil), w.Bytes()...)
		}
		blocks := []struct {
			rows int
			data []byte
		}{{0, nil}, {1, rec("one")}, {0, []byte{}}, {3, append(append(rec("a"), rec("bb")...), rec("")...)}}
		run := func(w *recWriter) (call string, err error) {
			defer func() {
				if r := recover(); r != nil {
					err = fmt.Errorf("PANIC: %v", r)
				}
			}()
			fw, err := avro.NewFileWriter(js, avro.Compression(codec))
			if err != nil {
				return "NewFileWriter", err
			}
			call = "WriteHeader"
			if err := fw.WriteHeader(w); err != nil {
				return call, err
			}
			for i, b := range blocks {
				call = fmt.Sprintf("WriteBlock#%d(rows=%d)", i, b.rows)
				if err := fw.WriteBlock(w, b.rows, b.data); err != nil {
					return call, err
				}
			}
			return "", nil
		}
		free := &recWriter{}
		if call, err := run(free); err != nil {
			return T("violated", hs(fmt.Sprintf("fault-free direct use fails in %s: %v", call, err)))
		}
		n := len(free.writes)
		for k := 1; k <= n; k++ {
			for acc := 0; acc <= 1; acc++ {
				fl := &recWriter{failAt: k, accept: acc}
				call, err := run(fl)
				switch {
				case err == nil:
					return T("violated", hs(fmt.Sprintf("write %d of %d failed and every call returned nil", k, n)))
				case strings.HasPrefix(err.Error(), "PANIC: "):
					return T("violated", hs(fmt.Sprintf("write %d of %d failed and %s panicked: %v", k, n, call, err)))
				case !wrapsWriterError(err, fl):
					return T("violated", hs(fmt.Sprintf("write %d of %d failed and %s returned an error that does not wrap the writer's: %v", k, n, call, err)))
				}
				if len(fl.writes) != k-1 {
					return T("violated", hs(fmt.Sprintf("write %d of %d failed and %d writes had been accepted before", k, n, len(fl.writes))))
				}
				// the sync marker is random per FileWriter, so accepted writes are compared by length only here (the byte-for-byte
				// prefix clause is judged by the model on the Encoder histories, where the marker is fixed)
				for i, wr := range fl.writes {
					if len(wr) != len(free.writes[i]) {
						return T("violated", hs(fmt.Sprintf("with a failure at write %d, write %d has %d bytes; fault-free %d", k, i+1, len(wr), len(free.writes[i]))))
					}
				}
			}
		}
		return T("ok")
	}
	panic("harness: unknown enc scenario " + name)
}

// execFWD: (fwd codec k acc (ops...)) - the file writer driven directly; ops are (h) = WriteHeader and (b rows data) = WriteBlock
func execFWD(a []sx) (out sx) {
	codec, k, acc := a[0].atom, int(a[1].int()), int(a[2].int())
	sch, err := avro.SchemaForType(recB{})
	if err != nil {
		return T("panic", hs("schema: "+err.Error()))
	}
	js, err := sch.Marshal()
	if err != nil {
		return T("panic", hs("marshal: "+err.Error()))
	}
	fw, err := avro.NewFileWriter(js, avro.Compression(codec))
	if err != nil {
		return T("panic", hs("NewFileWriter: "+err.Error()))
	}
	w := &recWriter{failAt: k, accept: acc}
	big := false
	defer func() {
		if r := recover(); r != nil {
			out = T("panic", hs(fmt.Sprint(r)))
		}
	}()
	for i, o := range a[3].args() {
		var err error
		switch o.tag() {
		case "h":
			err = fw.WriteHeader(w)
		case "bn":
			// (bn rows n): a block of n incompressible bytes (not carried in the case: the comparison does not depend on them)
			data := make([]byte, o.args()[1].int())
			rand.New(rand.NewSource(int64(len(data)))).Read(data)
			big = true
			err = fw.WriteBlock(w, int(o.args()[0].int()), data)
		default:
			err = fw.WriteBlock(w, int(o.args()[0].int()), o.args()[1].bytes())
		}
		if err != nil {
			return T("res", I(int64(i)), I(int64(len(w.writes))), boolSx(wrapsWriterError(err, w)))
		}
	}
	if big {
		return T("res", A("none"), I(int64(len(w.writes))), A("true"))
	}
	rec := T("writes")
	for _, x := range w.writes {
		rec.list = append(rec.list, H(x))
	}
	if w.failed {
		// the destination did refuse a write and every call returned nil
		return T("res", A("none"), I(int64(len(w.writes))), A("swallowed"), rec)
	}
	return T("res", A("none"), I(int64(len(w.writes))), A("true"), rec)
}

func sameNameRoundTrip[T comparable](codec string, vals []T) string {
	var buf bytes.Buffer
	e, err := avro.NewEncoderFor[T](&buf, avro.Compression(codec), 64)
	if err != nil {
		return "NewEncoderFor: " + err.Error()
	}
	for i := range vals {
		if err := e.Encode(&vals[i]); err != nil {
			return "Encode: " + err.Error()
		}
	}
	if err := e.Flush(); err != nil {
		return "Flush: " + err.Error()
	}
	file := buf.Bytes()
	var got []T
	var zero T
	if err := avro.ReadFile(bytes.NewReader(file), zero, func(p unsafe.Pointer, rb *avro.ResourceBank) error {
		got = append(got, *(*T)(p))
		return nil
	}); err != nil {
		return "ReadFile: " + err.Error()
	}
	if len(got) != len(vals) {
		return fmt.Sprintf("%d records written, %d read", len(vals), len(got))
	}
	for i := range vals {
		if got[i] != vals[i] {
			return fmt.Sprintf("record %d written as %+v reads back as %+v", i, vals[i], got[i])
		}
	}
	// the schema in the file header is this type's, and a codec built from it for this type decodes the first record
	sch, err := avro.SchemaForType(zero)
	if err != nil {
		return "SchemaForType: " + err.Error()
	}
	c, err := sch.Codec(zero)
	if err != nil {
		return "Schema.Codec: " + err.Error()
	}
	w := avro.NewWriteBuf(nil)
	c.Write(w, unsafe.Pointer(&vals[0]))
	var back T
	rb := avro.NewReadBuf(append([]byte(nil), w.Bytes()...))
	if err := c.Read(rb, unsafe.Pointer(&back)); err != nil {
		return "Codec.Read: " + err.Error()
	}
	if back != vals[0] {
		return fmt.Sprintf("Schema.Codec round trip: %+v reads back as %+v", vals[0], back)
	}
	return ""
}

func sameNameA(codec string) string {
	type row struct {
		A int64  `json:"a"`
		S string `json:"s"`
	}
	return sameNameRoundTrip(codec, []row{{1, "one"}, {-2, ""}, {64, "sixty-four"}})
}

func sameNameB(codec string) string {
	type row struct {
		S string  `json:"s"`
		B bool    `json:"b"`
		A int64   `json:"a"`
		F float64 `json:"f"`
	}
	return sameNameRoundTrip(codec, []row{{"x", true, 7, 1.5}, {"", false, -1, 0}, {"third", true, 1 << 40, -2.25}})
}

func execENC(op string, a []sx) sx {
	if op == "enc-scenario" {
		return encScenario(a[0].atom, a[1].atom)
	}
	if op == "fwd" {
		return execFWD(a)
	}
	codec, bs, rectype := a[0].atom, int(a[1].int()), a[2].atom
	k, acc := int(a[3].int()), int(a[4].int())
	ops := a[5].list
	// the fault-free run of a history is shared by all its fault cases
	key := codec + a[1].atom + rectype + a[5].String()
	if key != freeKey {
		free := &recWriter{}
		ff, _ := runEnc(free, codec, bs, rectype, ops)
		fw, fi := chunksSx(codec, free.writes)
		freeKey, freeOut = key, T("free", failedSx(ff), fw, fi)
	}
	out := T("run", freeOut)
	if k > 0 {
		fl := &recWriter{failAt: k, accept: acc}
		lf, wraps := runEnc(fl, codec, bs, rectype, ops)
		lw, _ := chunksSx(codec, fl.writes)
		part := A("none")
		if fl.failed {
			part = H(fl.partial)
		}
		wr := "false"
		if wraps {
			wr = "true"
		}
		out.list = append(out.list, T("faulty", failedSx(lf), A(wr), lw, part))
	}
	return out
}

func genENC(c *ctx, faults bool) {
	codecs := []string{"null", "deflate", "snappy"}
	nHist := c.scale(400, 6000)
	if faults {
		nHist = c.scale(60, 600)
	}
	for h := 0; h < nHist; h++ {
		codec := codecs[h%3]
		rectype := "b"
		if c.rng.Intn(8) == 0 {
			rectype = "e"
		}
		// record payload sizes are chosen around the threshold so that >= / > and reset bugs show
		base := []int{0, 1, 2, 5, 17, 64, 300}[c.rng.Intn(7)]
		var bs int
		switch c.rng.Intn(6) {
		case 0:
			bs = 0
		case 1:
			bs = 1
		case 2:
			bs = base + 1 // encoding of one record of size base (length prefix is 1 byte when base<64)
		case 3:
			bs = 2*(base+1) + c.rng.Intn(3) - 1
		case 4:
			bs = 3*(base+1) + c.rng.Intn(5) - 2
		default:
			bs = 1 << 14
		}
		if bs < 0 {
			bs = 0
		}
		nops := 1 + c.rng.Intn(c.scale(14, 60))
		ops := L()
		for i := 0; i < nops; i++ {
			switch {
			case c.rng.Intn(5) == 0:
				ops.list = append(ops.list, T("f"))
			default:
				n := base
				switch c.rng.Intn(4) {
				case 0:
					n = c.rng.Intn(2*base + 2)
				case 1:
					n = base + c.rng.Intn(3) - 1
				}
				if n < 0 {
					n = 0
				}
				if rectype == "e" {
					n = 0
				}
				p := make([]byte, n)
				for j := range p {
					p[j] = byte(c.rng.Intn(4)) // compressible
				}
				ops.list = append(ops.list, T("e", H(p)))
			}
		}
		if c.rng.Intn(3) != 0 {
			ops.list = append(ops.list, T("f"))
		}
		// fault-free case
		c.emit(T("enc", A(codec), I(int64(bs)), A(rectype), I(0), I(0), ops))
		if !faults {
			continue
		}
		// every failing write index k of this history (exhaustive per history), three acceptance lengths
		free := &recWriter{}
		runEnc(free, codec, bs, rectype, ops.list)
		total := len(free.writes)
		for k := 1; k <= total+1; k++ {
			accs := []int{0, 1 << 30}
			if k <= total && len(free.writes[k-1]) > 1 {
				accs = append(accs, 1+c.rng.Intn(len(free.writes[k-1])-1))
			}
			for _, acc := range accs {
				c.emit(T("enc", A(codec), I(int64(bs)), A(rectype), I(int64(k)), I(int64(acc)), ops))
			}
		}
	}
	{
		// the file writer driven directly: any row counts (0 = empty block), failure at every write index and one past the end
		recEnc := func(b []byte) []byte {
			w := avro.NewWriteBuf(nil)
			w.Varint(int64(len(b)))
			w.Write(b)
			return append([]byte(nil), w.Bytes()...)
		}
		for h := 0; h < c.scale(6, 60); h++ {
			codec := codecs[h%3]
			ops := T("ops", T("h"))
			nb := 1 + c.rng.Intn(4)
			for b := 0; b < nb; b++ {
				rows := []int{0, 0, 1, 2, 3}[c.rng.Intn(5)]
				if h < 3 {
					rows = []int{0, 1, 0, 3}[b%4]
				}
				var data []byte
				for r := 0; r < rows; r++ {
					p := make([]byte, c.rng.Intn(6))
					c.rng.Read(p)
					data = append(data, recEnc(p)...)
				}
				ops.list = append(ops.list, T("b", I(int64(rows)), H(data)))
			}
			total := 1 + 4*nb
			if !faults {
				c.emit(T("fwd", A(codec), I(0), I(0), ops))
				continue
			}
			for k := 1; k <= total+1; k++ {
				for acc := 0; acc <= 1; acc++ {
					c.emit(T("fwd", A(codec), I(int64(k)), I(int64(acc)), ops))
				}
			}
		}
	}
	if faults {
		// blocks above 1 MiB and 2 MiB (a writer that splits large payloads must report a failure of any piece)
		for i, n := range []int64{1<<20 + 1, 3 << 19, 2<<20 + 77} {
			ops := T("ops", T("h"), T("bn", I(1), I(n)), T("b", I(1), H([]byte{2, 7})))
			for k := 1; k <= 10; k++ {
				c.emit(T("fwd", A(codecs[i%3]), I(int64(k)), I(int64(k%2)), ops))
			}
		}
	}
	for _, codec := range codecs {
		if faults {
			c.emit(T("enc-scenario", A("direct-blocks-fault"), A(codec)))
		} else {
			c.emit(T("enc-scenario", A("two-destinations"), A(codec)))
			c.emit(T("enc-scenario", A("same-named-types"), A(codec)))
		}
	}
	emitAll := func(codec string, bs int, ops sx) {
		c.emit(T("enc", A(codec), I(int64(bs)), A("b"), I(0), I(0), ops))
		if !faults {
			return
		}
		free := &recWriter{}
		runEnc(free, codec, bs, "b", ops.list)
		for k := 1; k <= len(free.writes)+1; k++ {
			for _, acc := range []int{0, 1 << 30, 70000} {
				c.emit(T("enc", A(codec), I(int64(bs)), A("b"), I(int64(k)), I(int64(acc)), ops))
			}
		}
	}
	// record counts per block around the one-/two-byte boundary of the count's varint (63 | 64, 127 | 128)
	for i, n := range []int{63, 64, 65, 100, 127, 128, 129} {
		ops := L()
		for k := 0; k < n; k++ {
			ops.list = append(ops.list, T("e", H([]byte{byte(k)})))
		}
		ops.list = append(ops.list, T("f"))
		if !faults || i%3 == 0 {
			emitAll(codecs[i%3], 1<<14, ops)
		}
	}
	// one block above 64 KiB (and above 128 KiB): writers that split large payloads, readers that chunk
	for i, n := range []int{70000, 140000} {
		p := make([]byte, n)
		for j := range p {
			p[j] = byte(c.rng.Intn(251))
		}
		emitAll(codecs[(i+1)%3], 64, L(T("e", H(p)), T("e", H([]byte{1, 2, 3})), T("f")))
	}
}
