package main

import (
	"encoding/hex"
	"fmt"
	"strconv"
	"strings"
)

// sx is an S-expression: an atom or a list.
type sx struct {
	atom string
	list []sx
	isL  bool
}

func (s sx) String() string {
	if !s.isL {
		return s.atom
	}
	var b strings.Builder
	s.write(&b)
	return b.String()
}

// write renders in time linear in the output (deeply nested trees occur in C14)
func (s sx) write(b *strings.Builder) {
	if !s.isL {
		b.WriteString(s.atom)
		return
	}
	b.WriteByte('(')
	for i, x := range s.list {
		if i > 0 {
			b.WriteByte(' ')
		}
		x.write(b)
	}
	b.WriteByte(')')
}

func A(s string) sx             { return sx{atom: s} }
func L(xs ...sx) sx             { return sx{list: xs, isL: true} }
func I(v int64) sx              { return sx{atom: strconv.FormatInt(v, 10)} }
func U(v uint64) sx             { return sx{atom: strconv.FormatUint(v, 10)} }
func H(b []byte) sx             { return sx{atom: hx(b)} }
func T(tag string, xs ...sx) sx { return sx{list: append([]sx{A(tag)}, xs...), isL: true} }

func (s sx) tag() string {
	if s.isL && len(s.list) > 0 && !s.list[0].isL {
		return s.list[0].atom
	}
	return ""
}
func (s sx) args() []sx {
	if s.isL && len(s.list) > 0 {
		return s.list[1:]
	}
	return nil
}
func (s sx) int() int64 {
	v, err := strconv.ParseInt(s.atom, 10, 64)
	if err != nil {
		panic("harness: bad int atom " + s.atom)
	}
	return v
}
func (s sx) uint() uint64 {
	v, err := strconv.ParseUint(s.atom, 10, 64)
	if err != nil {
		panic("harness: bad uint atom " + s.atom)
	}
	return v
}
func (s sx) bytes() []byte {
	if !strings.HasPrefix(s.atom, "x") {
		panic("harness: bad bytes atom " + s.atom)
	}
	b, err := hex.DecodeString(s.atom[1:])
	if err != nil {
		panic("harness: bad hex " + s.atom)
	}
	return b
}

func parseSx(line string) (sx, error) {
	toks := tokenize(line)
	x, rest, err := parseToks(toks)
	if err != nil {
		return sx{}, err
	}
	if len(rest) != 0 {
		return sx{}, fmt.Errorf("trailing tokens")
	}
	return x, nil
}

func tokenize(s string) []string {
	var toks []string
	cur := strings.Builder{}
	flush := func() {
		if cur.Len() > 0 {
			toks = append(toks, cur.String())
			cur.Reset()
		}
	}
	for _, c := range s {
		switch c {
		case '(', ')':
			flush()
			toks = append(toks, string(c))
		case ' ', '\t', '\n', '\r':
			flush()
		default:
			cur.WriteRune(c)
		}
	}
	flush()
	return toks
}

func parseToks(toks []string) (sx, []string, error) {
	if len(toks) == 0 {
		return sx{}, nil, fmt.Errorf("unexpected end")
	}
	if toks[0] == "(" {
		toks = toks[1:]
		out := sx{isL: true}
		for {
			if len(toks) == 0 {
				return sx{}, nil, fmt.Errorf("unclosed list")
			}
			if toks[0] == ")" {
				return out, toks[1:], nil
			}
			x, rest, err := parseToks(toks)
			if err != nil {
				return sx{}, nil, err
			}
			out.list = append(out.list, x)
			toks = rest
		}
	}
	if toks[0] == ")" {
		return sx{}, nil, fmt.Errorf("unexpected )")
	}
	return sx{atom: toks[0]}, toks[1:], nil
}
