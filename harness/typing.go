package main

// Property C05: the schema-type x Go-kind matrix — alone, behind a pointer, as slice element, as map value,
// inside a nested struct — through the real Schema.Codec and Read, with in-range and out-of-range values.
//
//	(tread ctx <struct type> <record schema> <bytes> impl)
//
// The destination struct is  struct{ Pre [8]byte; S int64; A <T in context>; Post [8]byte }  where only A is named
// in the schema; Pre/S/Post are pre-filled with recognisable values and must come back unchanged; the struct sits
// between canary arrays inside one allocation (newCell), so stores that leave it are seen as (clobber).
// impl:  (builderr) | (ok <dump of the whole struct> restLen) | (err <dump>) | (clobber <dump>) | (panic msg)
//
//	(cread <type> <schema> <bytes> ...)   random records whose Go struct has one field replaced by a random kind
//	(leaf)                                what factgen measured for the leaf table on this run (offending rows named)

import (
	"encoding/json"
	"os"
	"reflect"
	"unsafe"

	"github.com/philpearl/avro"
)

func init() { props["C05"] = prop{gen: genC05, exec: execC05} }

const sibByte = 0x5A
const sibInt = 0x5A5A5A5A5A5A5A5A

type c05Schema struct {
	name   string
	s      avro.Schema
	values [][]byte // encodings: in-range, all-ones-like and out-of-range for narrower Go kinds
}

func c05Schemas() []c05Schema {
	prim := sPrim
	ints := [][]byte{refVarint(-1), refVarint(0x7fff), refVarint(0x8000), refVarint(-0x8001), refVarint(1<<31 - 1), refVarint(1 << 31)}
	longs := append([][]byte{refVarint(1<<63 - 1), refVarint(-1 << 63)}, ints...)
	ffs := func(n int) []byte {
		b := make([]byte, n)
		for i := range b {
			b[i] = 0xFF
		}
		return b
	}
	cat := func(bs ...[]byte) []byte {
		var out []byte
		for _, b := range bs {
			out = append(out, b...)
		}
		return out
	}
	return []c05Schema{
		{"null", prim("null"), [][]byte{{}}},
		{"boolean", prim("boolean"), [][]byte{{1}, {0xFF}}},
		{"int", prim("int"), ints},
		{"long", prim("long"), longs},
		{"float", prim("float"), [][]byte{ffs(4), refLE(0x3f800000, 4)}},
		{"double", prim("double"), [][]byte{ffs(8), refLE(0x3ff0000000000000, 8)}},
		{"bytes", prim("bytes"), [][]byte{cat(refVarint(3), ffs(3)), {0}}},
		{"string", prim("string"), [][]byte{cat(refVarint(3), ffs(3)), cat(refVarint(20), []byte("2021-02-03T04:05:06Z"))}},
		{"fixed0", sFixed("fx0", 0), [][]byte{{}}},
		{"fixed1", sFixed("fx1", 1), [][]byte{ffs(1)}},
		{"fixed4", sFixed("fx4", 4), [][]byte{ffs(4)}},
		{"fixed16", sFixed("fx16", 16), [][]byte{ffs(16)}},
		{"enum", avro.Schema{Type: "enum", Object: &avro.SchemaObject{Name: "en", Symbols: []string{"A", "B"}}}, [][]byte{refVarint(1)}},
		{"record", sRecord("inner", avro.SchemaRecordField{Name: "X", Type: prim("long")}), [][]byte{refVarint(-1), refVarint(1 << 40)}},
		{"array", sArray(prim("long")), [][]byte{cat(refVarint(2), refVarint(-1), refVarint(1<<40), refVarint(0))}},
		{"map", sMap(prim("long")), [][]byte{cat(refVarint(1), refVarint(1), []byte("k"), refVarint(-1), refVarint(0))}},
		{"union_null_long", sUnion(prim("null"), prim("long")), [][]byte{cat(refVarint(1), refVarint(-1)), cat(refVarint(1), refVarint(1<<40)), refVarint(0)}},
		{"union_long_null", sUnion(prim("long"), prim("null")), [][]byte{cat(refVarint(0), refVarint(-1)), refVarint(1)}},
		{"union_null_string", sUnion(prim("null"), prim("string")), [][]byte{cat(refVarint(1), refVarint(3), ffs(3)), refVarint(0)}},
		{"union_long_string", sUnion(prim("long"), prim("string")), [][]byte{cat(refVarint(0), refVarint(-1))}},
		{"long_micros", sLogical("long", "timestamp-micros"), [][]byte{refVarint(-1), refVarint(1 << 50)}},
		{"int_date", sLogical("int", "date"), [][]byte{refVarint(-1), refVarint(20000)}},
	}
}

func c05Kinds() []sx {
	u8 := T("uint", I(8))
	return []sx{
		A("bool"), tInt(0), tInt(8), tInt(16), tInt(32), tInt(64),
		A("uintgo"), u8, T("uint", I(16)), T("uint", I(32)), T("uint", I(64)), A("uintptr"),
		A("f32"), A("f64"), A("complex64"), A("complex"), A("string"),
		tBytes, T("slice", tInt(64)), T("slice", A("string")),
		T("array", I(0), u8), T("array", I(1), u8), T("array", I(3), u8), T("array", I(4), u8), T("array", I(16), u8), T("array", I(4), tInt(32)),
		T("map", tString, tInt(64)), T("map", tInt(64), tInt(64)), T("map", tString, tString),
		T("struct", hs("In"), hs(""), T("field", hs("X"), A("true"), hs(""), hs(""), tInt(64))),
		T("struct", hs("In16"), hs(""), T("field", hs("X"), A("true"), hs(""), hs(""), tInt(16))),
		T("ptr", tInt(64)), T("ptr", tInt(16)), A("iface"), A("chan"), A("func"),
		A("time"), T("nullT", A("int")), T("nullT", A("bool")), T("nullT", A("double")), T("nullT", A("string")), T("nullT", A("time")),
	}
}

// c05Wrap puts (schema, kind, value bytes) into a context.
func c05Wrap(ctx string, s avro.Schema, k sx, val []byte) (avro.Schema, sx, []byte) {
	switch ctx {
	case "alone":
		return s, k, val
	case "ptr":
		return s, T("ptr", k), val
	case "ptrptr":
		return s, T("ptr", T("ptr", k)), val
	case "nullable-ptr":
		return sUnion(sPrim("null"), s), T("ptr", k), append(refVarint(1), val...)
	case "slice":
		b := append(refVarint(2), val...)
		b = append(b, val...)
		return sArray(s), T("slice", k), append(b, 0)
	case "map":
		b := append(refVarint(1), refVarint(2)...)
		b = append(b, 'k', 'y')
		b = append(b, val...)
		return sMap(s), T("map", tString, k), append(b, 0)
	case "nested":
		inner := T("struct", hs("N"), hs(""), T("field", hs("X"), A("true"), hs("x"), hs(""), k), T("field", hs("Y"), A("true"), hs("not_in_schema"), hs(""), tInt(64)))
		return sRecord("nested", avro.SchemaRecordField{Name: "x", Type: s}), inner, val
	}
	panic("harness: c05 context " + ctx)
}

func c05Holder(k sx) sx {
	sib := T("array", I(8), T("uint", I(8)))
	return T("struct", hs("H"), hs(""),
		T("field", hs("Pre"), A("true"), hs("pre_not_in_schema"), hs(""), sib),
		T("field", hs("S"), A("true"), hs("s_not_in_schema"), hs(""), tInt(64)),
		T("field", hs("A"), A("true"), hs("a"), hs(""), k),
		T("field", hs("Post"), A("true"), hs("post_not_in_schema"), hs(""), sib))
}

// c05HolderEmb: the field the schema names sits in an EMBEDDED struct that is not at offset 0, so
// it is a promoted field of the holder; buildRecordCodec looks at direct fields only (the schema
// field is skipped) - matching promoted fields would need the outer offset
func c05HolderEmb(k sx) sx {
	sib := T("array", I(8), T("uint", I(8)))
	inner := T("struct", hs(""), hs(""), T("field", hs("A"), A("true"), hs("a"), hs(""), k))
	return T("struct", hs("H"), hs(""),
		T("field", hs("Pre"), A("true"), hs("pre_not_in_schema"), hs(""), sib),
		T("field", hs("S"), A("true"), hs("s_not_in_schema"), hs(""), tInt(64)),
		T("field", hs("EmbInner"), A("true"), hs("emb_not_in_schema"), hs(""), inner),
		T("field", hs("Post"), A("true"), hs("post_not_in_schema"), hs(""), sib))
}

func genC05(c *ctx) {
	c.emitf("(leaf)")
	ctxs := []string{"alone", "ptr", "slice", "map", "nested", "nullable-ptr", "ptrptr"}
	for _, s := range c05Schemas() {
		for _, k := range c05Kinds() {
			for ci, cx := range ctxs {
				vals := s.values
				if ci > 0 && !c.thorough && len(vals) > 3 {
					vals = vals[:3] // every value alone; the first three in the other contexts
				}
				for _, v := range vals {
					ws, wk, wv := c05Wrap(cx, s.s, k, v)
					// trailing bytes must stay unread
					wv = append(append([]byte(nil), wv...), 0x7e)
					sch := sRecord("holder", avro.SchemaRecordField{Name: "a", Type: ws})
					c.emit(T("tread", A(cx), A(s.name), c05Holder(wk), schemaSx(sch), H(wv)))
					if ci == 0 {
						c.emit(T("tread", A("embedded"), A(s.name), c05HolderEmb(wk), schemaSx(sch), H(wv)))
					}
				}
			}
		}
	}
	// array block counts that overflow the slice length (the count is data, the slice is memory): every item kind
	for _, k := range []sx{tInt(64), tInt(16), T("ptr", tInt(64)), tString, T("array", I(4), T("uint", I(8)))} {
		item, isch := refVarint(-1), sPrim("long")
		if !k.isL && k.atom == "string" {
			item, isch = append(refVarint(2), 'h', 'i'), sPrim("string")
		}
		if k.tag() == "array" {
			item, isch = []byte{1, 2, 3, 4}, sFixed("fx4", 4)
		}
		rep := func(n int) []byte {
			var out []byte
			for i := 0; i < n; i++ {
				out = append(out, item...)
			}
			return out
		}
		// well-formed arrays in several blocks of growing, shrinking and equal sizes (plain and size-prefixed):
		// the slice is re-sized per block, every item must land inside the backing array
		for _, pat := range [][]int{{1, 5}, {2, 3, 40}, {1, 1, 1, 9}, {5, 1}, {16, 17}, {3, 3}, {1, 2, 4, 8, 16, 32}} {
			for _, sized := range []bool{false, true} {
				var b []byte
				for _, n := range pat {
					if sized {
						b = append(b, refVarint(int64(-n))...)
						b = append(b, refVarint(int64(n*len(item)))...)
					} else {
						b = append(b, refVarint(int64(n))...)
					}
					b = append(b, rep(n)...)
				}
				b = append(b, refVarint(0)...)
				b = append(b, 0x7e)
				sch := sRecord("holder", avro.SchemaRecordField{Name: "a", Type: sArray(isch)})
				c.emit(T("tread", A("blocks"), A("array-multi-block"), c05Holder(T("slice", k)), schemaSx(sch), H(b)))
			}
		}
		for _, first := range []int{0, 1, 2, 5} {
			for _, big := range []int64{1<<63 - 1, 1<<63 - 2, (1<<63 - 1) - int64(first) + 1, 1 << 62, -1 << 63, -(1<<63 - 1), -(1<<63 - 2)} {
				// only counts the slice length cannot take (Len+count overflows, or -count stays negative); counts that
				// fit but are not backed by data are finding D14 of property C06
				cnt := big
				if big < 0 {
					cnt = -big
				}
				if !(cnt < 0 || cnt > (1<<63-1)-int64(first)) {
					continue
				}
				var b []byte
				if first > 0 {
					b = append(refVarint(int64(first)), rep(first)...)
				}
				b = append(b, refVarint(big)...)
				if big < 0 {
					b = append(b, refVarint(int64(3*len(item)))...)
				}
				b = append(b, rep(3)...)
				sch := sRecord("holder", avro.SchemaRecordField{Name: "a", Type: sArray(isch)})
				c.emit(T("tread", A("blocks"), A("array-count-overflow"), c05Holder(T("slice", k)), schemaSx(sch), H(b)))
			}
		}
	}
	// a schema that refers to an earlier record BY NAME (the library does not resolve named references: such a pair must be
	// rejected, whatever was built earlier in the process) - in particular for a field of a different layout
	{
		inner := sRecord("Inner", avro.SchemaRecordField{Name: "x", Type: sPrim("long")})
		strct := func(fields ...sx) sx { return T("struct", append([]sx{hs(""), hs("")}, fields...)...) }
		fld := func(name, js string, t sx) sx { return T("field", hs(name), A("true"), hs(js), hs(""), t) }
		innerT := strct(fld("X", "x", tInt(64)))
		otherT := strct(fld("Y", "y", tString))
		for _, second := range []sx{otherT, innerT, tString, T("ptr", otherT)} {
			sch := sRecord("outer", avro.SchemaRecordField{Name: "a", Type: inner}, avro.SchemaRecordField{Name: "b", Type: sPrim("Inner")})
			ty := strct(fld("A", "a", innerT), fld("B", "b", second))
			c.emit(T("cread", ty, schemaSx(sch), H([]byte{2, 4})))
		}
	}
	// type confusion at depth: a compatible struct for a random record, with one leaf type replaced
	kinds := c05Kinds()
	n := c.scale(400, 8000)
	for i := 0; i < n; i++ {
		w := &wgen{rng: c.rng, maxDepth: 1 + c.rng.Intn(3), nullLeaves: true}
		s := w.record(0)
		v := w.value(s)
		p := w.plan(s, v, c.rng.Intn(3) == 0)
		bs := encodeSpec(p, s, v)
		tg := &tgen{wgen: w}
		full := tg.structFor(s)
		mutated := full
		if c.rng.Intn(4) != 0 {
			mutated = c05Mutate(c, full, kinds)
		}
		c.emit(T("cread", mutated, schemaSx(s.toSchema()), H(bs)))
	}
}

// c05Mutate replaces one randomly chosen leaf type of a type descriptor by a random kind.
func c05Mutate(c *ctx, t sx, kinds []sx) sx {
	var leaves int
	var count func(t sx)
	count = func(t sx) {
		if !t.isL {
			leaves++
			return
		}
		switch t.tag() {
		case "int", "uint", "nullT":
			leaves++
		case "slice", "ptr":
			count(t.list[1])
		case "array":
			leaves++
		case "map":
			count(t.list[2])
		case "struct":
			for _, f := range t.list[3:] {
				count(f.list[5])
			}
		}
	}
	count(t)
	if leaves == 0 {
		return t
	}
	target := c.rng.Intn(leaves)
	idx := 0
	var rw func(t sx) sx
	leaf := func(t sx) sx {
		idx++
		if idx-1 == target {
			return kinds[c.rng.Intn(len(kinds))]
		}
		return t
	}
	rw = func(t sx) sx {
		if !t.isL {
			return leaf(t)
		}
		switch t.tag() {
		case "int", "uint", "nullT", "array":
			return leaf(t)
		case "slice", "ptr":
			return T(t.tag(), rw(t.list[1]))
		case "map":
			return T("map", t.list[1], rw(t.list[2]))
		case "struct":
			out := sx{isL: true, list: append([]sx(nil), t.list[:3]...)}
			for _, f := range t.list[3:] {
				nf := sx{isL: true, list: append([]sx(nil), f.list...)}
				nf.list[5] = rw(f.list[5])
				out.list = append(out.list, nf)
			}
			return out
		}
		return t
	}
	return rw(t)
}

func execC05(op string, a []sx) sx {
	switch op {
	case "leaf":
		return leafOutcome()
	case "cread":
		return execCodec("cread", a)
	case "tread":
		b := build(a[2], a[3])
		if b.err != nil {
			return T("builderr")
		}
		dst := newCell(b.typ)
		// pre-fill the sibling fields that the schema does not name
		for i := 0; i < 8; i++ {
			dst.v.Field(0).Index(i).SetUint(sibByte)
			dst.v.Field(3).Index(i).SetUint(sibByte)
		}
		dst.v.Field(1).SetInt(sibInt)
		r := avro.NewReadBuf(a[4].bytes())
		err := b.codec.Read(r, dst.ptr())
		if !dst.intact() {
			return T("clobber", c05Dump(dst.v))
		}
		if l, cp, bad := sliceOverrun(dst.v.Field(2), 0); bad {
			return T("overrun", I(int64(l)), I(int64(cp)))
		}
		if err != nil {
			return T("err", c05Dump(dst.v))
		}
		return T("ok", c05Dump(dst.v), I(int64(r.Len())))
	}
	panic("harness: unknown C05 op " + op)
}

// sliceOverrun finds a slice whose length exceeds its capacity (items were stored past the end of the backing array)
func sliceOverrun(v reflect.Value, depth int) (l, c int, bad bool) {
	if depth > 4 {
		return 0, 0, false
	}
	switch v.Kind() {
	case reflect.Slice:
		if v.Len() > v.Cap() {
			return v.Len(), v.Cap(), true
		}
		if k := v.Type().Elem().Kind(); k == reflect.Slice || k == reflect.Pointer || k == reflect.Struct {
			for i := 0; i < v.Len() && i < 8; i++ {
				if l, c, bad := sliceOverrun(v.Index(i), depth+1); bad {
					return l, c, true
				}
			}
		}
	case reflect.Pointer:
		if !v.IsNil() {
			return sliceOverrun(v.Elem(), depth+1)
		}
	case reflect.Struct:
		for i := 0; i < v.NumField(); i++ {
			if l, c, bad := sliceOverrun(v.Field(i), depth+1); bad {
				return l, c, true
			}
		}
	}
	return 0, 0, false
}

// c05Dump is dumpVal, protected against values that cannot be walked any more
func c05Dump(v reflect.Value) (out sx) {
	defer func() {
		if r := recover(); r != nil {
			out = T("undumpable")
		}
	}()
	return dumpVal(v)
}

var _ = unsafe.Pointer(nil)

// leafOutcome reports factgen's measurements for the leaf table of this run (JSON mirror written by ./check).
func leafOutcome() sx {
	var f struct {
		Rows []struct {
			Schema    string `json:"schema"`
			Kind      string `json:"kind"`
			Accepted  bool   `json:"accepted"`
			Size      int    `json:"size"`
			Lo        int    `json:"lo"`
			Hi        int    `json:"hi"`
			Outside   bool   `json:"outside"`
			Panicked  bool   `json:"panicked"`
			Crashed   bool   `json:"crashed"`
			PanicMsg  string `json:"panicMsg"`
			FailProbe string `json:"failProbe"`
		} `json:"rows"`
	}
	for _, p := range []string{os.Getenv("VERIF_LEAFTABLE"), "../.work/LeafTable.json", ".work/LeafTable.json"} {
		if p == "" {
			continue
		}
		b, err := os.ReadFile(p)
		if err != nil {
			continue
		}
		if err := json.Unmarshal(b, &f); err != nil {
			return T("factgen", A("unreadable"))
		}
		acc := 0
		bad := T("bad")
		for _, r := range f.Rows {
			if !r.Accepted {
				continue
			}
			acc++
			if r.Outside || r.Hi > r.Size || r.Lo < 0 || r.Panicked || r.Crashed {
				bad.list = append(bad.list, T("row", A(cleanLong(r.Schema)), A(cleanLong(r.Kind)), T("size", I(int64(r.Size))),
					T("modified", I(int64(r.Lo)), I(int64(r.Hi))), T("outside", boolSx(r.Outside)), T("panicked", boolSx(r.Panicked)),
					T("crashed", boolSx(r.Crashed)), T("encoding", A("x"+r.FailProbe)), A(cleanLong(r.PanicMsg))))
			}
		}
		return T("factgen", T("rows", I(int64(len(f.Rows)))), T("accepted", I(int64(acc))), bad)
	}
	return T("factgen", A("missing"))
}
