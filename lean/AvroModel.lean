import AvroModel.Bytes
import AvroModel.Lemmas.Bytes
import AvroModel.Props.C17
