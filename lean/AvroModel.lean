-- This module serves as the root of the `AvroModel` library.
-- Import modules here that should be built as part of the library.
import AvroModel.Basic
