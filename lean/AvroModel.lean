import AvroModel.Bytes
import AvroModel.Lemmas.Bytes
import AvroModel.Props.C17
import AvroModel.Schema
import AvroModel.Lemmas.Schema
import AvroModel.Props.C14
