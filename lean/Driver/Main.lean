import AvroModel.Drv.Sexp
import AvroModel.Drv.C17
import AvroModel.Drv.Enc
import AvroModel.Drv.CodecDrv
import AvroModel.Drv.Mal
import AvroModel.Drv.E2E
import AvroModel.Drv.Time
import AvroModel.Drv.Bank
import AvroModel.Drv.Conc
import AvroModel.Drv.SchemaGen
import AvroModel.Drv.File
import AvroModel.Drv.Schema
import AvroModel.Drv.Typing
open Avro Avro.Sexp Avro.Drv

def dispatch (prop : String) (op : String) (args : List Sexp) : Verdict :=
  if op == "e2e-big" then bigVerdict args else
  match prop with
  | "C17" => c17 op args
  | "C09" => c09 op args
  | "C16" => c16 op args
  | "C03" => c03 op args
  | "C04" => c04 op args
  | "C13" => c13 op args
  | "C06" => c06 op args
  | "C01" => c01 op args
  | "C02" => if op == "e2e" then c02e2e args else c02 op args
  | "C18" => c18 op args
  | "C19" => c19 op args
  | "C10" => c10 op args
  | "C12" => c12 op args
  | "C15" => c15 op args
  | "C20" => c20 op args
  | "C07" => c07 op args
  | "C08" => c08 op args
  | "C14" => c14 op args
  | "C05" => c05 op args
  | "C11" => c11 op args
  | _ => .bad s!"unknown property {prop}"

partial def loop (prop : String) (h : IO.FS.Stream) (out : IO.FS.Stream) : IO Unit := do
  let line ← h.getLine
  if line.isEmpty then return ()
  let v : Verdict :=
    match Sexp.parse line with
    | some (.list (.atom op :: args)) => dispatch prop op args
    | _ => .bad "parse"
  out.putStrLn v.render
  loop prop h out

def main (args : List String) : IO UInt32 := do
  match args with
  | [prop] =>
    let stdin ← IO.getStdin
    let stdout ← IO.getStdout
    loop prop stdin stdout
    stdout.flush
    return 0
  | _ => IO.eprintln "usage: modeldriver <property>"; return 2
