import AvroModel.Drv.Sexp
import AvroModel.Drv.C17
import AvroModel.Drv.Enc
import AvroModel.Drv.Schema
open Avro Avro.Sexp Avro.Drv

def dispatch (prop : String) (op : String) (args : List Sexp) : Verdict :=
  match prop with
  | "C17" => c17 op args
  | "C09" => c09 op args
  | "C16" => c16 op args
  | "C14" => c14 op args
  | _ => .bad s!"unknown property {prop}"

partial def loop (prop : String) (h : IO.FS.Stream) (out : IO.FS.Stream) : IO Unit := do
  let line ← h.getLine
  if line.isEmpty then return ()
  let v : Verdict :=
    match Sexp.parse line with
    | some (.list (.atom op :: args)) => dispatch prop op args
    | _ => .bad "parse"
  out.putStrLn v.render
  loop prop h out

def main (args : List String) : IO UInt32 := do
  match args with
  | [prop] =>
    let stdin ← IO.getStdin
    let stdout ← IO.getStdout
    loop prop stdin stdout
    stdout.flush
    return 0
  | _ => IO.eprintln "usage: modeldriver <property>"; return 2
