import AvroModel.Codec
import AvroModel.SchemaTypes
/-!
Model of codec construction (`build.go`: buildCodec and its helpers, nameForField, omitEmpty) and
of the library's registered builders (`time/time.go` buildTimeCodec, `null/null.go`).
-/
namespace Avro

mutual
/-- Go types as `reflect` shows them to the library. `int w`: signed integer kinds (Go `int` is 64);
`time`/`nullT`/`custom` are named types that can be keys of the codec registry. -/
inductive GoType where
  | bool | int (w : Nat) | uint (w : Nat) | float32 | float64 | complex | string
  | slice (elem : GoType)
  | array (n : Nat) (elem : GoType)
  | map (key val : GoType)
  | ptr (elem : GoType)
  | struct (name pkg : String) (fields : List GoField)
  | time
  | nullT (k : NullKind)
  | custom (id : Nat) (under : GoType)
  | iface | chan | func | unsafeptr
  /-- back-reference to a named type that is being defined (self-referential types cannot be written
  as finite trees); resolved through a type environment by `schemaForType` (SchemaGen.lean). For codec
  construction it is an unsupported kind. -/
  | ref (name : String)
/-- `reflect.StructField`: name, IsExported, `Tag.Get("json")`, `Tag.Get("bq")`, type -/
inductive GoField where
  | mk (name : String) (exported : Bool) (jsonTag bqTag : String) (type : GoType)
end

instance : Inhabited GoType := ⟨.bool⟩

def GoField.name : GoField → String | .mk n _ _ _ _ => n
def GoField.exported : GoField → Bool | .mk _ e _ _ _ => e
def GoField.jsonTag : GoField → String | .mk _ _ j _ _ => j
def GoField.bqTag : GoField → String | .mk _ _ _ b _ => b
def GoField.type : GoField → GoType | .mk _ _ _ _ t => t

/-- the comma-separated parts of a struct tag value (what repeated `strings.Cut(s, ",")` yields),
on character lists so that closed instances reduce in the kernel (`String.splitOn` does not) -/
def splitCommas : List Char → List (List Char)
  | [] => [[]]
  | c :: cs =>
    match splitCommas cs with
    | [] => [[]]
    | h :: t => if c == ',' then [] :: h :: t else (c :: h) :: t

/-- `nameForField` (build.go:245) -/
def nameForField (f : GoField) : String :=
  if !f.exported then "-"
  else if f.bqTag == "-" then "-"
  else
    let name := String.ofList ((splitCommas f.jsonTag.toList).headD [])
    if name == "-" then "-"
    else if name == "" then f.name
    else name

/-- `omitEmpty` (build.go:266) -/
def omitEmptyTag (jsonTag : String) : Bool :=
  ((splitCommas jsonTag.toList).drop 1).any (· == "omitempty".toList)

/-- the codec registry: the library's own registrations (time.Time, null.*) once
`RegisterCodecs` ran, and user registrations as predicates "builder accepts this schema". -/
structure Reg where
  lib : Bool
  custom : Nat → Option (Schema → Bool)

mutual
/-- zero value of a Go type -/
def zeroVal : GoType → GoVal
  | .bool => .bool false
  | .int _ => .int 0
  | .uint _ => .int 0
  | .float32 => .f32 0
  | .float64 => .f64 0
  | .string => .str []
  | .slice (.uint 8) => .bytes []
  | .slice _ => .slice []
  | .array n (.uint 8) => .fixed (List.replicate n 0)
  | .map _ _ => .map true [] []
  | .ptr _ => .ptr none
  | .struct _ _ fs => .struct (zeroFields fs)
  | .time => .time TimeVal.zero
  | .nullT k =>
    .nullw false (match k with
      | .int => .int 0 | .bool => .bool false | .double => .f64 0 | .float => .f64 0
      | .string => .str [] | .time => .time TimeVal.zero)
  | .custom _ u => zeroVal u
  | _ => .unit
def zeroFields : List GoField → List GoVal
  | [] => []
  | .mk _ _ _ _ t :: fs => zeroVal t :: zeroFields fs
end

/-- `ntf[name] = sf`: the *last* struct field with a given (non-"-") name wins; returns its index -/
def lookupField (name : String) : List GoField → Nat → Option (Nat × GoField) → Option (Nat × GoField)
  | [], _, acc => acc
  | f :: fs, i, acc =>
    if nameForField f != "-" && nameForField f == name then lookupField name fs (i + 1) (some (i, f))
    else lookupField name fs (i + 1) acc

def isPtr : GoType → Bool | .ptr _ => true | _ => false

/-- registered builders of the library: `buildTimeCodec` and the `null.*` builders -/
def buildTime (s : Schema) : Except String Codec :=
  if s.type == "string" then .ok .timeString
  else if s.type == "long" then
    let mult : Int := match s.object with
      | some o => if o.logicalType == "timestamp-micros" then 1000
                  else if o.logicalType == "timestamp-millis" then 1000000 else 1
      | none => 1
    .ok (.timeLong mult)
  else if s.type == "int" then
    match s.object with
    | some o => if o.logicalType == "date" then .ok .date else .error "time codec"
    | none => .error "time codec"
  else .error "time codec"

def buildNull (k : NullKind) (s : Schema) : Except String Codec :=
  match k with
  | .int => if s.type == "long" || s.type == "int" then .ok (.nullw .int) else .error "null.Int"
  | .bool => if s.type == "boolean" then .ok (.nullw .bool) else .error "null.Bool"
  | .double | .float =>
    if s.type == "double" then .ok (.nullw .double)
    else if s.type == "float" then .ok (.nullw .float) else .error "null.Float"
  | .string => if s.type == "string" then .ok (.nullw .string) else .error "null.String"
  | .time => if s.type == "string" then .ok (.nullw .time) else .error "null.Time"

/-- `registry[typ]` -/
def regLookup (reg : Reg) : GoType → Option (Schema → Except String Codec)
  | .time => if reg.lib then some buildTime else none
  | .nullT k => if reg.lib then some (buildNull k) else none
  | .custom id _ =>
    match reg.custom id with
    | some acc => some fun s => if acc s then .ok (.custom id) else .error "custom builder"
    | none => none
  | _ => none

def buildLong (typ : Option GoType) (oe : Bool) : Except String Codec :=
  match typ with
  | none => .ok (.int 64 oe)
  | some (.int 64) => .ok (.int 64 oe)
  | some (.int 32) => .ok (.int 32 oe)
  | some (.int 16) => .ok (.int 16 oe)
  | some (.custom _ (.int 64)) => .ok (.int 64 oe)
  | some (.custom _ (.int 32)) => .ok (.int 32 oe)
  | some (.custom _ (.int 16)) => .ok (.int 16 oe)
  | some _ => .error "long codec"

/-- the kind the `typ.Kind()` tests see: a named non-registered type shows its underlying kind -/
def GoType.strip : GoType → GoType
  | .custom _ u => u
  | t => t

mutual
/-- `buildCodec(schema, typ, omit)` (build.go:32): pointer unwrapping and the registry come first
(except for union and null schemas), then the switch on the schema type (`buildKind`).
`fuel` bounds the recursion depth. -/
def buildCodec (reg : Reg) : Nat → Schema → Option GoType → Bool → Except String Codec
  | 0, _, _, _ => .error "fuel"
  | fuel + 1, s, typ, oe =>
    if s.type != "union" && s.type != "null" then
      match typ with
      | some (.ptr e) =>
        -- buildPointerCodec
        match buildCodec reg fuel s (some e) false with
        | .ok c => .ok (.pointer c)
        | .error e => .error e
      | some t =>
        match regLookup reg t with
        | some builder => builder s
        | none => buildKind reg fuel s typ oe
      | none => buildKind reg fuel s typ oe
    else buildKind reg fuel s typ oe

/-- the `switch schema.Type` of buildCodec with the per-type builders inlined -/
def buildKind (reg : Reg) : Nat → Schema → Option GoType → Bool → Except String Codec
  | 0, _, _, _ => .error "fuel"
  | fuel + 1, s, typ, oe =>
      let k := typ.map GoType.strip
      if s.type == "null" then .ok .null
      else if s.type == "boolean" then
        match k with
        | none | some .bool => .ok (.bool oe)
        | _ => .error "boolean"
      else if s.type == "int" || s.type == "long" then buildLong k oe
      else if s.type == "float" then
        match k with
        | none | some .float32 => .ok (.float oe)
        | _ => .error "float"
      else if s.type == "double" then
        match k with
        | none | some .float64 => .ok (.double oe)
        | some .float32 => .ok (.f32double oe)
        | _ => .error "double"
      else if s.type == "bytes" then
        match k with
        | none | some (.slice (.uint 8)) => .ok (.bytes oe)
        | _ => .error "bytes"
      else if s.type == "string" then
        match k with
        | none | some .string => .ok (.string oe)
        | _ => .error "string"
      else if s.type == "record" then
        match s.object with
        | none => .error "record schema does not have object"
        | some o =>
          match k with
          | none =>
            match buildFields reg fuel o.fields none with
            | .ok (cs, ts) => .ok (.record [] cs ts)
            | .error e => .error e
          | some (.struct _ _ gfs) =>
            match buildFields reg fuel o.fields (some gfs) with
            | .ok (cs, ts) => .ok (.record (zeroFields gfs) cs ts)
            | .error e => .error e
          | some .time | some (.nullT _) =>
            -- unregistered library types are plain structs with no exported matching fields
            match buildFields reg fuel o.fields (some []) with
            | .ok (cs, ts) => .ok (.record [] cs ts)
            | .error e => .error e
          | _ => .error "record"
      else if s.type == "enum" then .error "enum not currently supported"
      else if s.type == "array" then
        match s.object with
        | none => .error "array schema does not have object"
        | some o =>
          match k with
          | none =>
            match buildCodec reg fuel o.items none false with
            | .ok c => .ok (.array c oe)
            | .error e => .error e
          | some (.slice e) =>
            match buildCodec reg fuel o.items (some e) false with
            | .ok c => .ok (.array c oe)
            | .error e => .error e
          | _ => .error "array"
      else if s.type == "map" then
        match s.object with
        | none => .error "map schema does not have object"
        | some o =>
          match k with
          | none =>
            match buildCodec reg fuel o.values none false with
            | .ok c => .ok (.map c oe)
            | .error e => .error e
          | some (.map key v) =>
            if key.strip matches .string then
              match buildCodec reg fuel o.values (some v) false with
              | .ok c => .ok (.map c oe)
              | .error e => .error e
            else .error "map key"
          | _ => .error "map"
      else if s.type == "union" then buildUnion reg fuel s.union typ oe
      else if s.type == "fixed" then
        match s.object with
        | none => .error "fixed schema does not have object"
        | some o =>
          match k with
          | none => .ok (.fixed o.size)
          | some (.array n (.uint 8)) => if (n : Int) = o.size then .ok (.fixed o.size) else .error "fixed size"
          | _ => .error "fixed"
      else .error "not currently supported"

/-- `buildUnionCodec` (build.go:210) -/
def buildUnion (reg : Reg) : Nat → List Schema → Option GoType → Bool → Except String Codec
  | 0, _, _, _ => .error "fuel"
  | fuel + 1, branches, typ, oe =>
    let nullable : Option (Nat × Schema) :=
      match branches with
      | [a, b] =>
        if a.type == "null" then some (1, b)
        else if b.type == "null" then some (0, a)
        else none
      | _ => none
    match nullable with
    | some (nonNull, u) =>
      match buildCodec reg fuel u typ oe with
      | .ok (.string o) => .ok (.unionNullString o nonNull)
      | .ok c => .ok (.unionOne c nonNull)
      | .error e => .error e
    | none =>
      match buildBranches reg fuel branches typ oe with
      | .ok cs => .ok (.union cs)
      | .error e => .error e

def buildBranches (reg : Reg) : Nat → List Schema → Option GoType → Bool → Except String (List Codec)
  | 0, _, _, _ => .error "fuel"
  | _ + 1, [], _, _ => .ok []
  | fuel + 1, b :: bs, typ, oe =>
    match buildCodec reg fuel b typ oe, buildBranches reg fuel bs typ oe with
    | .ok c, .ok cs => .ok (c :: cs)
    | .error e, _ => .error e
    | _, .error e => .error e

/-- the field loop of `buildRecordCodec` (build.go:307): the schema is in the driving seat -/
def buildFields (reg : Reg) : Nat → List SchemaField → Option (List GoField) → Except String (List Codec × List (Option Nat))
  | 0, _, _ => .error "fuel"
  | _ + 1, [], _ => .ok ([], [])
  | fuel + 1, sf :: sfs, gfs =>
    let found : Option (Nat × GoField) :=
      match gfs with
      | some fs => lookupField sf.name fs 0 none
      | none => none
    let built := match found with
      | some (_, gf) => buildCodec reg fuel sf.type (some gf.type) (omitEmptyTag gf.jsonTag)
      | none => buildCodec reg fuel sf.type none false
    match built, buildFields reg fuel sfs gfs with
    | .ok c, .ok (cs, ts) => .ok (c :: cs, (found.map (·.1)) :: ts)
    | .error e, _ => .error e
    | _, .error e => .error e
end

end Avro
