import AvroModel.Bytes
/-!
Model of `encoder.go` (Encoder.Encode / Flush) and `filewriter.go` (WriteHeader / WriteBlock)
over an `io.Writer` that may fail on its k-th call.

External code as parameters: `compress` (compress/flate, snappy + CRC), the record codec
(an `encode` op carries the bytes `codec.Write` appended), the random sync marker.
-/
namespace Avro

/-- The underlying `io.Writer`: counts calls, fails on call number `failAt` (1-based; 0 = never)
after accepting `accept` bytes of that call's data. -/
structure WState where
  calls : Nat := 0
  failAt : Nat := 0
  accept : Nat := 0
  accepted : Bytes := []
  log : List Bytes := []
  deriving Repr

def WState.write (w : WState) (d : Bytes) : WState × Bool :=
  if w.calls + 1 = w.failAt then
    ({ w with calls := w.calls + 1, accepted := w.accepted ++ d.take w.accept }, false)
  else
    ({ w with calls := w.calls + 1, accepted := w.accepted ++ d, log := w.log ++ [d] }, true)

/-- A sequence of `w.Write` calls each of whose error is checked and returned at once. -/
def WState.writeAll (w : WState) : List Bytes → WState × Bool
  | [] => (w, true)
  | d :: ds =>
    match w.write d with
    | (w', true) => w'.writeAll ds
    | (w', false) => (w', false)

structure EncCfg where
  blockSize : Nat
  compress : Bytes → Bytes
  sync : Bytes
  header : Bytes

/-- The four writes of `FileWriter.WriteBlock` (filewriter.go:109). -/
def blockChunks (cfg : EncCfg) (count : Nat) (block : Bytes) : List Bytes :=
  [writeVarint count, writeVarint (cfg.compress block).length, cfg.compress block, cfg.sync]

structure EncState where
  count : Nat := 0
  wb : Bytes := []
  deriving Repr

/-- `Encoder.Flush` (encoder.go:84): state is reset only when `WriteBlock` succeeded. -/
def encFlush (cfg : EncCfg) (s : EncState) (w : WState) : EncState × WState × Bool :=
  if s.count > 0 then
    match w.writeAll (blockChunks cfg s.count s.wb) with
    | (w', true) => ({ count := 0, wb := [] }, w', true)
    | (w', false) => (s, w', false)
  else (s, w, true)

/-- `Encoder.Encode` (encoder.go:69): `rec` is what `codec.Write` appended for this record. -/
def encEncode (cfg : EncCfg) (s : EncState) (w : WState) (rec : Bytes) : EncState × WState × Bool :=
  let s' : EncState := { count := s.count + 1, wb := s.wb ++ rec }
  if cfg.blockSize ≤ s'.wb.length then encFlush cfg s' w else (s', w, true)

inductive EncOp where
  | encode (rec : Bytes)
  | flush
  deriving Repr

def encStep (cfg : EncCfg) (s : EncState) (w : WState) : EncOp → EncState × WState × Bool
  | .encode r => encEncode cfg s w r
  | .flush => encFlush cfg s w

/-- Runs the calls in order until one returns an error; returns the index of that call. -/
def encRunFrom (cfg : EncCfg) : List EncOp → Nat → EncState → WState → EncState × WState × Option Nat
  | [], _, s, w => (s, w, none)
  | op :: ops, i, s, w =>
    match encStep cfg s w op with
    | (s', w', true) => encRunFrom cfg ops (i + 1) s' w'
    | (s', w', false) => (s', w', some i)

/-- `NewEncoderFor` writes the header with one `Write`; its failure is reported as call index 0,
the API calls after it are numbered from 1. -/
def encRun (cfg : EncCfg) (w : WState) (ops : List EncOp) : EncState × WState × Option Nat :=
  match w.write cfg.header with
  | (w', true) => encRunFrom cfg ops 1 {} w'
  | (w', false) => ({}, w', some 0)

/-! ### The file writer used directly (`filewriter.go`: `WriteHeader`, `WriteBlock`)

`WriteBlock(w, rowCount, block)` accepts any row count, including 0 with an empty block (an empty block is legal in a
container); the Encoder never issues such a call, a program using `FileWriter` itself can. -/

inductive FwOp where
  | header
  | block (rows : Nat) (data : Bytes)
  deriving Repr

/-- one call: `WriteHeader` is one `Write`, `WriteBlock` the four of `blockChunks`, each checked at once -/
def fwStep (cfg : EncCfg) (w : WState) : FwOp → WState × Bool
  | .header => w.writeAll [cfg.header]
  | .block n d => w.writeAll (blockChunks cfg n d)

/-- Runs the calls in order until one returns an error; returns the index of that call. -/
def fwRunFrom (cfg : EncCfg) : List FwOp → Nat → WState → WState × Option Nat
  | [], _, w => (w, none)
  | op :: ops, i, w =>
    match fwStep cfg w op with
    | (w', true) => fwRunFrom cfg ops (i + 1) w'
    | (w', false) => (w', some i)

/-! ### Reference partition (written from the property statement, not from the code) -/

/-- `specPart bs ops pend`: the blocks (each a list of record encodings) that must have been
emitted, and the records still pending, after `ops`, starting with `pend` pending.
A block is closed after the first record that brings the pending byte size to at least `bs`,
and on flush if anything is pending. -/
def specPart (bs : Nat) : List EncOp → List Bytes → List (List Bytes) × List Bytes
  | [], pend => ([], pend)
  | .flush :: ops, pend =>
    if pend = [] then specPart bs ops []
    else ((pend :: (specPart bs ops []).1), (specPart bs ops []).2)
  | .encode r :: ops, pend =>
    if bs ≤ (pend ++ [r]).flatten.length then
      (((pend ++ [r]) :: (specPart bs ops []).1), (specPart bs ops []).2)
    else specPart bs ops (pend ++ [r])

def encodings : List EncOp → List Bytes
  | [] => []
  | .encode r :: ops => r :: encodings ops
  | .flush :: ops => encodings ops

/-- The bytes of one block on the wire. -/
def frame (cfg : EncCfg) (blk : List Bytes) : Bytes :=
  (blockChunks cfg blk.length blk.flatten).flatten

end Avro
