import AvroModel.Build
/-!
Typing of codec trees against Go types (properties C05 and C11).

The codec model (`Codec.lean`) works on abstract Go values, so a store of the wrong width or
through a pointer of the wrong pointee shape cannot be seen there directly.  This file adds the
missing level:

* `HasType v T`   — which abstract values inhabit which Go type (an `int16` field holds an
                    integer in the 16-bit range, a `[4]byte` field four bytes, …);
* `wt c T`        — every load/store codec `c` performs through a pointer `p : *T` fits `T`:
                    the store width of an integer codec *equals* the size of the field
                    (`IntCodec[T].Read` does `*(*T)(p) = T(i)`, int.go:20), `fixedCodec` copies
                    exactly `len([n]byte)` bytes (fixed.go:18), `recordCodec.Read` adds offsets of
                    fields of this very struct (record.go:31), `arrayCodec` steps by the size of
                    the slice's own element type (array.go:49), `MapCodec` assigns values of the
                    map's own element type (map.go:54), `PointerCodec` stores a pointer to a
                    pointee of the pointer's element type (pointer.go:15);
* `allocs c`      — `c.New` returns a non-nil pointer (null.go:21 returns nil; unions delegate);
* `allocOK c`     — every codec in an element position (array item, map value, pointer target)
                    allocates — `MapCodec.Read` hands the result of `valueCodec.New` to
                    `mapassign` (map.go:50-54).

`Props/C05.lean` proves that `buildCodec` only produces `wt` codecs, that `wt` codecs never get
`stuck` and deliver values of the destination's type, and that the mismatched pairs the property
lists are build errors.
-/
namespace Avro

/-- `typ.Elem().Kind() == reflect.Uint8` for the element types the model distinguishes -/
def isU8 : GoType → Bool
  | .uint 8 => true
  | _ => false

mutual
/-- Go types in which a named (`custom`) type is never a name for another named type or for one of
the library's registered struct types (`type T time.Time` is, for the library, a struct without
exported fields; the abstract values have no separate form for it).  On such types `GoType.strip`
reaches the kind in one step. -/
def GoType.wf : GoType → Bool
  | .slice e => e.wf
  | .array _ e => e.wf
  | .map k v => k.wf && v.wf
  | .ptr e => e.wf
  | .struct _ _ fs => wfFields fs
  | .custom _ u => (match u with | .custom _ _ | .time | .nullT _ => false | _ => true) && u.wf
  | _ => true
def wfFields : List GoField → Bool
  | [] => true
  | .mk _ _ _ _ t :: fs => t.wf && wfFields fs
end

/-- the library's registered types -/
def libType (t : GoType) : Bool :=
  match t.strip with
  | .time | .nullT _ => true
  | _ => false

/-- `typ.Key().Kind() == reflect.String` -/
def isStringKey (t : GoType) : Bool :=
  match t.strip with
  | .string => true
  | _ => false

/-- payload of a `null.*` wrapper of kind `k` -/
def nullInnerOK : NullKind → GoVal → Bool
  | .int, .int v => decide (inRange 64 v)
  | .bool, .bool _ => true
  | .double, .f64 _ => true
  | .float, .f64 _ => true
  | .string, .str _ => true
  | .time, .time _ => true
  | _, _ => false

mutual
/-- `hasTy T v`: abstract value `v` is a value of Go type `T`.  Types the library cannot decode
into (complex, interfaces, channels, functions, arrays of anything but bytes) have the single
opaque inhabitant `.unit`; that is also what `zeroVal` gives for them. -/
def hasTy : GoType → GoVal → Bool
  | .bool, v => match v with | .bool _ => true | _ => false
  | .int w, v => match v with | .int i => decide (inRange w i) | _ => false
  | .uint w, v => match v with | .int i => decide (0 ≤ i ∧ i < 2 ^ w) | _ => false
  | .float32, v => match v with | .f32 _ => true | _ => false
  | .float64, v => match v with | .f64 _ => true | _ => false
  | .string, v => match v with | .str _ => true | _ => false
  | .slice e, v =>
    match v with
    | .bytes _ => isU8 e
    | .slice items => !isU8 e && items.all (hasTy e)
    | _ => false
  | .array n e, v =>
    match v with
    | .fixed bs => isU8 e && bs.length == n
    | .unit => !isU8 e
    | _ => false
  | .map k e, v =>
    match v with
    | .map _ ks vs => (isStringKey k || ks.isEmpty) && ks.length == vs.length && vs.all (hasTy e)
    | _ => false
  | .ptr e, v =>
    match v with
    | .ptr none => true
    | .ptr (some x) => hasTy e x
    | _ => false
  | .struct _ _ fs, v => match v with | .struct vs => hasTyFields fs vs | _ => false
  | .time, v => match v with | .time _ => true | _ => false
  | .nullT k, v => match v with | .nullw _ inner => nullInnerOK k inner | _ => false
  | .custom _ u, v => hasTy u v
  | .complex, v | .iface, v | .chan, v | .func, v | .unsafeptr, v | .ref _, v =>
    match v with | .unit => true | _ => false
/-- field-wise -/
def hasTyFields : List GoField → List GoVal → Bool
  | [], vs => match vs with | [] => true | _ => false
  | .mk _ _ _ _ t :: fs, vs =>
    match vs with
    | v :: vs' => hasTy t v && hasTyFields fs vs'
    | [] => false
end

/-- `HasType v T`: value `v` inhabits Go type `T` -/
def HasType (v : GoVal) (T : GoType) : Bool := hasTy T v

mutual
/-- `wt c T`: the loads and stores of codec `c` through `p : *T` fit `T`.  Kinds are tested on
`T.strip` as `typ.Kind()` does for a named type.  `.null` fits everything (`nullCodec.Read` does
not touch `p`); codecs built without a Go type (`targets[i] = none`) are only ever used through
`Skip` and carry no requirement; user-registered codecs are outside the judgement. -/
def wt : Codec → GoType → Bool
  | .null, _ => true
  | .bool _, t => match t.strip with | .bool => true | _ => false
  | .int w _, t => match t.strip with | .int w' => w == w' | _ => false
  | .float _, t => match t.strip with | .float32 => true | _ => false
  | .double _, t => match t.strip with | .float64 => true | _ => false
  | .f32double _, t => match t.strip with | .float32 => true | _ => false
  | .bytes _, t => match t.strip with | .slice e => isU8 e | _ => false
  | .string _, t => match t.strip with | .string => true | _ => false
  | .fixed n, t => match t.strip with | .array m e => isU8 e && (m : Int) == n | _ => false
  | .array item _, t => match t.strip with | .slice e => !isU8 e && wt item e | _ => false
  | .map val _, t => match t.strip with | .map k e => isStringKey k && wt val e | _ => false
  | .pointer c, t => match t.strip with | .ptr e => wt c e | _ => false
  | .record zero cs ts, t =>
    match t.strip with
    | .struct _ _ fs => hasTyFields fs zero && wtFields cs ts fs
    | _ => false
  | .union cs, t => wtAll cs t
  | .unionOne c _, t => wt c t
  | .unionNullString _ _, t => match t.strip with | .string => true | _ => false
  | .timeString, t | .timeLong _, t | .date, t => match t.strip with | .time => true | _ => false
  | .nullw k, t =>
    match t.strip with
    | .nullT k' =>
      -- `null.Float` serves both the float and the double codec
      k == k' || (k == .float && k' == .double) || (k == .double && k' == .float)
    | _ => false
  | .custom _, _ => false
/-- every field with a target: the index is a field of this struct and the codec fits its type -/
def wtFields : List Codec → List (Option Nat) → List GoField → Bool
  | [], _, _ => true
  | _ :: _, [], _ => false
  | _ :: cs, none :: ts, fs => wtFields cs ts fs
  | c :: cs, some i :: ts, fs =>
    (match fs[i]? with
     | some f => wt c f.type
     | none => false) && wtFields cs ts fs
/-- all branches of a general union decode into the same `p` -/
def wtAll : List Codec → GoType → Bool
  | [], _ => true
  | c :: cs, t => wt c t && wtAll cs t
end

mutual
/-- `c.New(r) != nil`.  For a general union this follows `zeroUnion` (first branch that is not the
null codec). -/
def allocs : Codec → Bool
  | .null => false
  | .union cs => allocsU cs
  | .unionOne c _ => allocs c
  | _ => true
def allocsU : List Codec → Bool
  | [] => false
  | .null :: cs => allocsU cs
  | c :: _ => allocs c
end

mutual
/-- every codec in an element position allocates its element -/
def allocOK : Codec → Bool
  | .array item _ => allocs item && allocOK item
  | .map val _ => allocs val && allocOK val
  | .pointer c => allocs c && allocOK c
  | .record _ cs ts => allocOKFields cs ts
  | .union cs => allocOKAll cs
  | .unionOne c _ => allocOK c
  | _ => true
def allocOKFields : List Codec → List (Option Nat) → Bool
  | [], _ => true
  | _ :: _, [] => true
  | _ :: cs, none :: ts => allocOKFields cs ts
  | c :: cs, some _ :: ts => allocOK c && allocOKFields cs ts
def allocOKAll : List Codec → Bool
  | [] => true
  | c :: cs => allocOK c && allocOKAll cs
end

end Avro
