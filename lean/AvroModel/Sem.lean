import AvroModel.Wire
import AvroModel.Build
/-!
Value-level semantics connecting the wire specification (`Wire.lean`) with Go values:

* `classify` : the Go-shaped `Schema` ↦ the tidy `ASchema` the specification speaks about;
* `ofAvro`   : what a codec must deliver for a datum (the *specification* of `read`, written
               without reference to bytes);
* `toAvro`   : the datum a codec must write for a Go value (the specification of `write`).
-/
namespace Avro

mutual
/-- `Schema` ↦ `ASchema` (fuel bounds the nesting depth; `none` for schemas the specification
does not define: unknown type names, missing objects, negative fixed sizes). -/
def classify : Nat → Schema → Option ASchema
  | 0, _ => none
  | fuel + 1, s =>
    if s.type = "null" then some .null
    else if s.type = "boolean" then some .boolean
    else if s.type = "int" then some .int
    else if s.type = "long" then some .long
    else if s.type = "float" then some .float
    else if s.type = "double" then some .double
    else if s.type = "bytes" then some .bytes
    else if s.type = "string" then some .string
    else if s.type = "fixed" then
      match s.object with
      | some o => if o.size < 0 then none else some (.fixed o.size.toNat)
      | none => none
    else if s.type = "enum" then
      match s.object with
      | some o => some (.enum o.symbols.length)
      | none => none
    else if s.type = "record" then
      match s.object with
      | some o =>
        match classifyFields fuel o.fields with
        | some (ns, as) => some (.record ns as)
        | none => none
      | none => none
    else if s.type = "array" then
      match s.object with
      | some o =>
        match classify fuel o.items with
        | some a => some (.array a)
        | none => none
      | none => none
    else if s.type = "map" then
      match s.object with
      | some o =>
        match classify fuel o.values with
        | some a => some (.map a)
        | none => none
      | none => none
    else if s.type = "union" then
      match classifyBranches fuel s.union with
      | some as => some (.union as)
      | none => none
    else none

def classifyFields : Nat → List SchemaField → Option (List String × List ASchema)
  | 0, _ => none
  | _ + 1, [] => some ([], [])
  | fuel + 1, f :: fs =>
    match classify fuel f.type, classifyFields fuel fs with
    | some a, some (ns, as) => some (f.name :: ns, a :: as)
    | _, _ => none

def classifyBranches : Nat → List Schema → Option (List ASchema)
  | 0, _ => none
  | _ + 1, [] => some []
  | fuel + 1, b :: bs =>
    match classify fuel b, classifyBranches fuel bs with
    | some a, some as => some (a :: as)
    | _, _ => none
end

/-- result of delivering a datum into a Go destination -/
inductive Fit (α : Type) where
  | ok (a : α)
  | misfit            -- the datum does not fit the Go field (range, unparsable time): must be an error
  | illtyped          -- codec, datum and destination do not belong together (excluded by typing)
  deriving Repr

@[inline] def Fit.bind {α β : Type} (f : Fit α) (k : α → Fit β) : Fit β :=
  match f with
  | .ok a => k a
  | .misfit => .misfit
  | .illtyped => .illtyped

instance : Monad Fit where
  pure := .ok
  bind := Fit.bind

/-- deliver every item with `f`, in order; the first item that does not fit decides -/
def mapFit (f : Value → Fit GoVal) : List Value → Fit (List GoVal)
  | [] => .ok []
  | v :: vs => do
    let g ← f v
    let gs ← mapFit f vs
    pure (g :: gs)

/-- record fields in schema order; a field without a target is dropped -/
def fieldsFit (f : Codec → Value → GoVal → Fit GoVal) :
    List Codec → List (Option Nat) → List Value → List GoVal → Fit (List GoVal)
  | [], _, [], fs => .ok fs
  | _ :: cs, none :: ts, _ :: vs, fs => fieldsFit f cs ts vs fs
  | c :: cs, some i :: ts, v :: vs, fs =>
    match fs[i]? with
    | none => .illtyped
    | some cur => do
      let g ← f c v cur
      fieldsFit f cs ts vs (listSet fs i g)
  | _, _, _, _ => .illtyped

/-- `mapassign` of all entries in order -/
def assignAll : List Bytes → List GoVal → List Bytes → List GoVal → List Bytes × List GoVal
  | k :: ks, g :: gs, ks0, vs0 => assignAll ks gs (mapAssign k g ks0 vs0).1 (mapAssign k g ks0 vs0).2
  | _, _, ks0, vs0 => (ks0, vs0)

section
variable (env : Env)

/-- The Go value a codec must produce for datum `v` when the destination currently holds `dst`. -/
def ofAvro : Nat → Codec → Value → GoVal → Fit GoVal
  | 0, _, _, _ => .illtyped
  | fuel + 1, c, v, dst =>
    match c, v with
    | .null, .null => .ok dst
    | .bool _, .bool b => .ok (.bool b)
    | .int w _, .int i => if inRange w i then .ok (.int i) else .misfit
    | .float _, .float b => .ok (.f32 b)
    | .double _, .double b => .ok (.f64 b)
    | .f32double _, .double b => .ok (.f32 (env.narrow b))
    | .bytes _, .bytes bs => if bs.isEmpty then .ok dst else .ok (.bytes bs)
    | .string _, .bytes bs => .ok (.str bs)
    | .fixed _, .bytes bs => .ok (.fixed bs)
    | .array item _, .array vs =>
      match dst with
      | .slice items =>
        -- a Go slice holds fewer than 2^63 elements
        if items.length + vs.length ≥ 2 ^ 63 then .illtyped else do
        let gs ← mapFit (fun v => ofAvro fuel item v (Codec.zero env item)) vs
        pure (.slice (items ++ gs))
      | _ => .illtyped
    | .map val _, .map ks vs =>
      match dst with
      | .map _ ks0 vs0 => do
        let gs ← mapFit (fun v => ofAvro fuel val v (Codec.zero env val)) vs
        pure (.map false (assignAll ks gs ks0 vs0).1 (assignAll ks gs ks0 vs0).2)
      | _ => .illtyped
    | .pointer c', v =>
      match dst with
      | .ptr none => do
        let g ← ofAvro fuel c' v (Codec.zero env c')
        pure (.ptr (some g))
      | .ptr (some x) => do
        let g ← ofAvro fuel c' v x
        pure (.ptr (some g))
      | _ => .illtyped
    | .record _ codecs targets, .record vs =>
      match dst with
      | .struct fs => do
        let fs' ← fieldsFit (ofAvro fuel) codecs targets vs fs
        pure (.struct fs')
      | _ => .illtyped
    | .union cs, .union idx v' =>
      match cs[idx]? with
      | some c' => ofAvro fuel c' v' dst
      | none => .illtyped
    | .unionOne c' nonNull, .union idx v' =>
      if idx ≥ 2 then .illtyped
      else if idx = nonNull then ofAvro fuel c' v' dst
      else .ok dst
    | .unionNullString _ nonNull, .union idx v' =>
      if idx ≥ 2 then .illtyped
      else if idx = nonNull then
        match v' with
        | .bytes bs => .ok (.str bs)
        | _ => .illtyped
      else .ok dst
    | .timeString, .bytes bs =>
      if bs.isEmpty then .ok dst else
      match env.parseTime bs with
      | some t => .ok (.time t)
      | none => .misfit
    | .timeLong mult, .int i => .ok (.time (env.ofNanos (wrap64 (i * mult))))
    | .date, .int i => if inRange 32 i then .ok (.time (env.ofDays i)) else .misfit
    | .nullw k, v =>
      let dstInner : GoVal := match dst with | .nullw _ x => x | x => x
      match k, v with
      | .int, .int i => .ok (.nullw true (.int i))
      | .bool, .bool b => .ok (.nullw true (.bool b))
      | .double, .double b => .ok (.nullw true (.f64 b))
      | .float, .float b => .ok (.nullw true (.f64 (env.widen b)))
      | .string, .bytes bs => .ok (.nullw true (.str bs))
      | .time, .bytes bs =>
        if bs.isEmpty then .ok (.nullw true dstInner) else
        match env.parseTime bs with
        | some t => .ok (.nullw true (.time t))
        | none => .misfit
      | _, _ => .illtyped
    | _, _ => .illtyped

end

/-! ### Write direction: the datum a Go value denotes under a codec -/

section
variable (env : Env)

/-- Which Go values denote *null* in a nullable union (C02): a nil pointer, a pointer chain ending in
nil, an invalid `null.*` wrapper — also behind a pointer —, a zero omitempty field, and (the
library's convention for `time.Time`) the zero time in a direct field. Written from the property
statement; it deliberately does not call `PointerCodec.Omit`'s model for the pointer cases. -/
def specNull (env : Env) : Codec → GoVal → Bool
  | .pointer _, .ptr none => true
  | .pointer (.pointer c), .ptr (some x) => specNull env (.pointer c) x
  | .pointer (.nullw _), .ptr (some (.nullw valid _)) => !valid
  | .pointer _, _ => false
  | c, g => omits env c g

mutual
/-- `toAvro c g`: the Avro datum that `write c g` has to encode. For a nullable union the branch
is null exactly when `nullp` holds: `specNull env` for the specification's reading (C02),
`omits env` for the code's own notion. -/
def toAvro (nullp : Codec → GoVal → Bool) : Nat → Codec → GoVal → Option Value
  | 0, _, _ => none
  | fuel + 1, c, g =>
    match c, g with
    | .null, _ => some .null
    | .bool _, .bool b => some (.bool b)
    | .int _ _, .int i => some (.int i)
    | .float _, .f32 b => some (.float b)
    | .double _, .f64 b => some (.double b)
    | .f32double _, .f32 b => some (.double (env.widen b))
    | .bytes _, .bytes bs => some (.bytes bs)
    | .string _, .str bs => some (.bytes bs)
    | .fixed _, .fixed bs => some (.bytes bs)
    | .array item _, .slice items => (toAvroItems nullp fuel item items).map .array
    | .map val _, .map _ ks vs => (toAvroItems nullp fuel val vs).map (.map ks)
    | .pointer c', .ptr none =>
      match Codec.stripPtr c' with
      | .array _ _ => some (.array [])
      | .map _ _ => some (.map [] [])
      | _ => none
    | .pointer c', .ptr (some x) => toAvro nullp fuel c' x
    | .record _ codecs targets, .struct fs => (toAvroFields nullp fuel codecs targets fs).map .record
    | .unionOne c' nonNull, g =>
      if nullp c' g then some (.union (1 - nonNull) .null)
      else (toAvro nullp fuel c' g).map (.union nonNull)
    | .unionNullString o nonNull, .str bs =>
      if o && bs.isEmpty then some (.union (1 - nonNull) .null)
      else some (.union nonNull (.bytes bs))
    | .timeString, .time t => some (.bytes (env.fmtTime t))
    | .timeLong mult, .time t =>
      let nanos : Int := t.unix * 1000000000 + t.nsec
      some (.int (if mult = 1 then wrap64 nanos else if mult = 1000000 then Int.fdiv nanos 1000000 else Int.fdiv nanos 1000))
    | .date, .time t => some (.int (Int.fdiv t.unix 86400))
    | .nullw k, .nullw _ inner =>
      match k, inner with
      | .int, .int v => some (.int v)
      | .bool, .bool b => some (.bool b)
      | .double, .f64 b => some (.double b)
      | .float, .f64 b => some (.float (env.narrow b))
      | .string, .str bs => some (.bytes bs)
      | .time, .time t => some (.bytes (env.fmtTime t))
      | _, _ => none
    | _, _ => none

def toAvroItems (nullp : Codec → GoVal → Bool) : Nat → Codec → List GoVal → Option (List Value)
  | 0, _, _ => none
  | _ + 1, _, [] => some []
  | fuel + 1, c, g :: gs =>
    match toAvro nullp fuel c g, toAvroItems nullp fuel c gs with
    | some v, some vs => some (v :: vs)
    | _, _ => none

def toAvroFields (nullp : Codec → GoVal → Bool) : Nat → List Codec → List (Option Nat) → List GoVal → Option (List Value)
  | 0, _, _, _ => none
  | _ + 1, [], _, _ => some []
  | fuel + 1, c :: cs, some i :: ts, fs =>
    match fs[i]? with
    | none => none
    | some g =>
      match toAvro nullp fuel c g, toAvroFields nullp fuel cs ts fs with
      | some v, some vs => some (v :: vs)
      | _, _ => none
  | _ + 1, _ :: _, _, _ => none
end

end

end Avro

namespace Avro

/-! ### The documented normalisations of C01, written from the property statement

`normSpec T oe g`: the value that must be read back for a value `g` of Go type `T` written in a field
whose tag has (`oe = true`) or has not `omitempty`:
* nil and empty slices, maps and byte strings are identified (our `GoVal` already identifies nil and
  empty slices / byte strings; for maps the nil flag is set exactly when the map is empty), also
  behind a chain of pointers to a slice or map (`*[]T`, `**[]T`, `***map…`, whose schema is the plain
  array / map): a nil pointer at any level of such a chain and the chain to the empty collection are
  identified (representative: the chain of non-nil pointers to the empty collection), with or
  without omitempty; `*[]byte` is an ordinary pointer;
* a zero value in an omitempty field reads back as the zero value (−0.0 becomes +0.0);
* an invalid `null.*` wrapper carries no payload;
* times compare by instant and UTC offset (the value itself).
Everything else must come back unchanged.

`dev` is a bit mask of recorded deviations of the real code (known findings), applied only to explain
a mismatch: bit 0 = D27 (a non-nil pointer to an invalid `null.*` wrapper is written as the non-null
branch and reads back valid), bit 1 = D30 (`**T`, not ending in a slice or map, with a nil inner
pointer reads back as a nil outer pointer), bit 2 = D32 (a `time.Time` at the zero instant in a
non-UTC zone — `IsZero()` ignores the zone — is omitted and reads back as `time.Time{}` in UTC,
wherever the time codec's `Omit` decides, i.e. not directly behind a pointer and not inside a valid
`null.Time`). -/

/-- the type is a chain of pointers (possibly none) ending in a non-byte slice or a map: its
generated schema is the plain array / map -/
def GoType.collChain : GoType → Bool
  | .slice e => !(e.strip matches .uint 8)
  | .map _ _ => true
  | .ptr e => GoType.collChain e
  | _ => false

/-- the representative of "nil somewhere in a pointer chain to a slice or map": non-nil pointers to
the empty collection -/
def GoType.emptyChain : GoType → GoVal
  | .ptr e => .ptr (some (GoType.emptyChain e))
  | .map _ _ => .map true [] []
  | _ => .slice []

def normSpecD (dev : Nat) : Nat → GoType → Bool → GoVal → GoVal
  | 0, _, _, g => g
  | fuel + 1, T, oe, g =>
    match T.strip, g with
    | .float32, .f32 b => if oe && isZeroF32 b then .f32 0 else .f32 b
    | .float64, .f64 b => if oe && isZeroF64 b then .f64 0 else .f64 b
    | .slice e, .slice items => .slice (items.map (normSpecD dev fuel e false))
    | .map _ v, .map _ ks vs => .map ks.isEmpty ks (vs.map (normSpecD dev fuel v false))
    | .ptr e, .ptr none => if e.collChain then .ptr (some e.emptyChain) else .ptr none
    | .ptr e, .ptr (some x) =>
      let x' := normSpecD dev fuel e false x
      match e.strip, x', x with
      | .ptr _, .ptr none, _ => if dev / 2 % 2 == 1 && !e.collChain then .ptr none else .ptr (some x')
      | .nullT _, _, .nullw false p => if dev % 2 == 1 then .ptr (some (.nullw true p)) else .ptr (some x')
      | .time, _, _ => .ptr (some x)
      | _, _, _ => .ptr (some x')
    | .struct _ _ fs, .struct gs =>
      .struct (List.zipWith (fun (f : GoField) g => normSpecD dev fuel f.type (omitEmptyTag f.jsonTag) g) fs gs)
    | .nullT k, .nullw false _ =>
      .nullw false (match k with
        | .int => .int 0 | .bool => .bool false | .double => .f64 0 | .float => .f64 0
        | .string => .str [] | .time => .time TimeVal.zero)
    | .time, .time t => if dev / 4 % 2 == 1 && t.isZero then .time TimeVal.zero else .time t
    | _, g => g

/-- The documented normalisations only. -/
abbrev normSpec := normSpecD 0

end Avro
