import Lean
/-! `#audit Ns` prints one line per theorem in namespace `Ns` with the axioms it depends on.
Used by `./check` to count obligations and to reject anything beyond the three standard axioms. -/
open Lean Elab Command

elab "#audit " ns:ident : command => do
  let env ← getEnv
  let nsName := ns.getId
  let names := env.constants.fold (init := #[]) fun acc n ci =>
    if nsName.isPrefixOf n && !n.isInternalDetail then
      match ci with
      | .thmInfo _ => acc.push n
      | _ => acc
    else acc
  let names := names.qsort (fun a b => a.toString < b.toString)
  for n in names do
    let axs ← liftCoreM (collectAxioms n)
    let axs := axs.qsort (fun a b => a.toString < b.toString)
    IO.println s!"AUDIT {n} {axs.toList}"
