/-!
The Go-shaped schema representation of schema.go (`Schema`, `SchemaObject`, `SchemaRecordField`),
shared by the JSON model (`Schema.lean`, property C14), the codec construction model (`Build.lean`)
and the schema generation model (`SchemaGen.lean`). Deliberately *not* a tidy sum type.
-/
namespace Avro

mutual
/-- `type Schema struct { Type string; Object *SchemaObject; Union []Schema }` -/
inductive Schema where
  | mk (type : String) (object : Option SchemaObject) (union : List Schema)
/-- `type SchemaObject struct {…}`; `items`/`values` are Schema values (zero value when absent) -/
inductive SchemaObject where
  | mk (type logicalType name nspace : String) (fields : List SchemaField)
       (items values : Schema) (size : Int) (symbols : List String)
/-- `type SchemaRecordField struct { Name string; Type Schema }` -/
inductive SchemaField where
  | mk (name : String) (type : Schema)
end

instance : Inhabited Schema := ⟨.mk "" none []⟩

def Schema.type : Schema → String | .mk t _ _ => t
def Schema.object : Schema → Option SchemaObject | .mk _ o _ => o
def Schema.union : Schema → List Schema | .mk _ _ u => u

/-- the zero `Schema{}` -/
def Schema.zero : Schema := .mk "" none []
/-- `Schema{Type: t}` -/
def Schema.prim (t : String) : Schema := .mk t none []

def SchemaObject.type : SchemaObject → String | .mk t _ _ _ _ _ _ _ _ => t
def SchemaObject.logicalType : SchemaObject → String | .mk _ l _ _ _ _ _ _ _ => l
def SchemaObject.name : SchemaObject → String | .mk _ _ n _ _ _ _ _ _ => n
def SchemaObject.nspace : SchemaObject → String | .mk _ _ _ n _ _ _ _ _ => n
def SchemaObject.fields : SchemaObject → List SchemaField | .mk _ _ _ _ f _ _ _ _ => f
def SchemaObject.items : SchemaObject → Schema | .mk _ _ _ _ _ i _ _ _ => i
def SchemaObject.values : SchemaObject → Schema | .mk _ _ _ _ _ _ v _ _ => v
def SchemaObject.size : SchemaObject → Int | .mk _ _ _ _ _ _ _ s _ => s
def SchemaObject.symbols : SchemaObject → List String | .mk _ _ _ _ _ _ _ _ s => s

/-- the zero `SchemaObject{}` -/
def SchemaObject.zero : SchemaObject := .mk "" "" "" "" [] Schema.zero Schema.zero 0 []

def SchemaField.name : SchemaField → String | .mk n _ => n
def SchemaField.type : SchemaField → Schema | .mk _ t => t

end Avro
