/-
Bytes: the primitive wire layer of philpearl/avro (buffer.go, int.go, float.go, bool.go).

Everything here is core-only so that the model driver links as an executable.
Go integers are modelled as `Int`/`Nat`; the places where 64-bit wrap-around is
observable are explicit (`wrap64`, `toU64`).
-/
namespace Avro

abbrev Bytes := List UInt8

/-- Error classes of `ReadBuf.uvarint` (buffer.go). -/
inductive VErr where
  | eof        -- io.EOF from ReadByte
  | overflow   -- errOverflow
  deriving DecidableEq, Repr

/-- `binary.AppendUvarint`: base-128, least significant group first. -/
def putUvarint (n : Nat) : Bytes :=
  if h : n < 128 then [n.toUInt8]
  else (n % 128 + 128).toUInt8 :: putUvarint (n / 128)
decreasing_by omega

/-- Zig-zag map of `binary.AppendVarint`: `ux := uint64(x) << 1; if x < 0 { ux = ^ux }`. -/
def zigzag (v : Int) : Nat :=
  if v ≥ 0 then (2 * v).toNat else (-2 * v - 1).toNat

/-- `int64(v>>1) ^ -int64(v&1)` of `ReadBuf.Varint`. -/
def unzig (n : Nat) : Int :=
  if n % 2 = 0 then (n / 2 : Nat) else -((n / 2 : Nat) : Int) - 1

/-- `WriteBuf.Varint` = `binary.AppendVarint`. -/
def writeVarint (v : Int) : Bytes := putUvarint (zigzag v)

/-- `ReadBuf.uvarint` (buffer.go:124): `i` is the byte index, `x` the accumulator.
The shift is `7*i`.  On a successful return the accumulator never exceeded
64 bits (lemma `readUvarintAux_lt`), so no wrap needs to be modelled; on the
error paths the (garbage) value is not part of the outcome. -/
def readUvarintAux : Nat → Nat → Bytes → Except VErr (Nat × Bytes)
  | _, _, [] => .error .eof
  | i, x, b :: rest =>
    if b.toNat < 128 then
      if i > 9 ∨ (i = 9 ∧ b.toNat > 1) then .error .overflow
      else .ok (x + b.toNat * 2 ^ (7 * i), rest)
    else readUvarintAux (i + 1) (x + (b.toNat % 128) * 2 ^ (7 * i)) rest

def readUvarint (bs : Bytes) : Except VErr (Nat × Bytes) := readUvarintAux 0 0 bs

/-- `ReadBuf.Varint`. -/
def readVarint (bs : Bytes) : Except VErr (Int × Bytes) :=
  match readUvarint bs with
  | .ok (n, rest) => .ok (unzig n, rest)
  | .error e => .error e

/-- Range of a signed Go integer of `w` bits. -/
def inRange (w : Nat) (v : Int) : Prop := -(2 : Int) ^ (w - 1) ≤ v ∧ v < (2 : Int) ^ (w - 1)

instance (w : Nat) (v : Int) : Decidable (inRange w v) := by unfold inRange; exact inferInstance

/-- Outcome of `IntCodec[T].Read` (int.go): the range test comes first, then the
varint error is returned.  `w` is `8 * unsafe.Sizeof(T(0))`. -/
inductive IntErr where
  | varint (e : VErr)
  | range
  deriving DecidableEq, Repr

def readInt (w : Nat) (bs : Bytes) : Except IntErr (Int × Bytes) :=
  match readVarint bs with
  | .ok (v, rest) => if inRange w v then .ok (v, rest) else .error .range
  | .error e => .error (.varint e)

def writeInt (_w : Nat) (v : Int) : Bytes := writeVarint v

/-- little-endian bytes of a `k`-byte unsigned quantity -/
def putLE : Nat → Nat → Bytes
  | 0, _ => []
  | k + 1, n => (n % 256).toUInt8 :: putLE k (n / 256)

def getLE : Bytes → Nat
  | [] => 0
  | b :: rest => b.toNat + 256 * getLE rest

/-- `fixedCodec.Read` / `ReadBuf.Next`: take exactly `k` bytes or fail with EOF. -/
def takeN (k : Nat) (bs : Bytes) : Option (Bytes × Bytes) :=
  if k ≤ bs.length then some (bs.take k, bs.drop k) else none

/-- float codecs (float.go): the value is its IEEE bit pattern; the codec copies 4 / 8 bytes. -/
def writeF32 (bits : Nat) : Bytes := putLE 4 bits
def writeF64 (bits : Nat) : Bytes := putLE 8 bits

def readFixedBits (k : Nat) (bs : Bytes) : Option (Nat × Bytes) :=
  match takeN k bs with
  | some (b, rest) => some (getLE b, rest)
  | none => none

def readF32 := readFixedBits 4
def readF64 := readFixedBits 8

/-- `BoolCodec` (bool.go) -/
def writeBool (b : Bool) : Bytes := [if b then 1 else 0]

def readBool : Bytes → Option (Bool × Bytes)
  | [] => none
  | b :: rest => some (b != 0, rest)

end Avro
