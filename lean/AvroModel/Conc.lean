import AvroModel.LockFactsTypes
/-! # Conc: threads × RW-mutexes × shared variables

A small-step interleaving semantics used by property C12.  What is modelled: sequentially consistent
interleaving of N threads, each a list of actions; `sync.RWMutex`/`sync.Mutex` as "one writer or many
readers"; plain shared variables holding a number; a per-thread log of the values read.  What is *not*
modelled (trusted / searched with the race detector instead): the Go memory model below lock
acquire/release, `sync.Pool` internals (its operations are `atomicOp`s), the scheduler's fairness
(a waiting writer blocking new readers only removes behaviours).

A *data race* is a state in which two different threads are both about to perform conflicting plain
accesses to the same variable (the happens-before-free formulation: nothing orders the two accesses).

Mirrors: `sync.RWMutex` as used in /repo/build.go:17-30,38-40, /repo/buildschema.go:10-41 and `sync.Mutex`
in /repo/time/parse.go:138-150. -/
namespace Avro.Conc

abbrev Tid := Nat

/-- Lock mode: shared (`RLock`) or exclusive (`Lock`). -/
inductive Mode where
  | sh | ex
  deriving DecidableEq, Repr

/-- One step of a thread. `M` names mutexes, `V` names shared plain variables. -/
inductive Act (M V : Type) where
  | acq (m : M) (mode : Mode)     -- mu.Lock() / mu.RLock()
  | rel (m : M)                   -- mu.Unlock() / mu.RUnlock()
  | rd (x : V)                    -- plain read of a shared variable
  | wr (x : V) (val : Nat)        -- plain write
  | atomicOp                      -- an operation of an atomic object (sync.Pool Get/Put, …)
  | localStep                     -- thread-private computation
  deriving DecidableEq, Repr

/-- State of one RW-mutex: the exclusive holder, the shared holders. -/
structure LockSt where
  writer : Option Tid
  readers : List Tid
  deriving Repr

def LockSt.free : LockSt := ⟨none, []⟩

/-- Global state. Threads are indexed by `Nat`; a thread that is not there has the empty program. -/
structure St (M V : Type) where
  prog : Tid → List (Act M V)
  locks : M → LockSt
  mem : V → Nat
  seen : Tid → List Nat

/-- Function update. -/
def upd {α β : Type} [DecidableEq α] (f : α → β) (a : α) (b : β) : α → β := fun x => if x = a then b else f x

@[simp] theorem upd_same {α β : Type} [DecidableEq α] (f : α → β) (a : α) (b : β) : upd f a b a = b := by simp [upd]
theorem upd_other {α β : Type} [DecidableEq α] (f : α → β) {a x : α} (b : β) (h : x ≠ a) : upd f a b x = f x := by simp [upd, h]

section Sem
variable {M V : Type} [DecidableEq M] [DecidableEq V]

/-- Thread `t` takes its next step. Acquire blocks (no rule) unless the mutex is available in the requested
mode; releasing a mutex one does not hold has no rule (Go: fatal "unlock of unlocked mutex"). -/
inductive Step : St M V → Tid → St M V → Prop
  | acqEx {σ : St M V} {t : Tid} {m : M} {rest} :
      σ.prog t = .acq m .ex :: rest → (σ.locks m).writer = none → (σ.locks m).readers = [] →
      Step σ t { σ with prog := upd σ.prog t rest, locks := upd σ.locks m ⟨some t, []⟩ }
  | acqSh {σ : St M V} {t : Tid} {m : M} {rest} :
      σ.prog t = .acq m .sh :: rest → (σ.locks m).writer = none →
      Step σ t { σ with prog := upd σ.prog t rest, locks := upd σ.locks m ⟨none, t :: (σ.locks m).readers⟩ }
  | relEx {σ : St M V} {t : Tid} {m : M} {rest} :
      σ.prog t = .rel m :: rest → (σ.locks m).writer = some t →
      Step σ t { σ with prog := upd σ.prog t rest, locks := upd σ.locks m ⟨none, (σ.locks m).readers⟩ }
  | relSh {σ : St M V} {t : Tid} {m : M} {rest} :
      σ.prog t = .rel m :: rest → (σ.locks m).writer ≠ some t → t ∈ (σ.locks m).readers →
      Step σ t { σ with prog := upd σ.prog t rest,
                        locks := upd σ.locks m ⟨(σ.locks m).writer, (σ.locks m).readers.erase t⟩ }
  | rd {σ : St M V} {t : Tid} {x : V} {rest} :
      σ.prog t = .rd x :: rest →
      Step σ t { σ with prog := upd σ.prog t rest, seen := upd σ.seen t (σ.mem x :: σ.seen t) }
  | wr {σ : St M V} {t : Tid} {x : V} {v : Nat} {rest} :
      σ.prog t = .wr x v :: rest →
      Step σ t { σ with prog := upd σ.prog t rest, mem := upd σ.mem x v }
  | atomicOp {σ : St M V} {t : Tid} {rest} :
      σ.prog t = .atomicOp :: rest → Step σ t { σ with prog := upd σ.prog t rest }
  | localStep {σ : St M V} {t : Tid} {rest} :
      σ.prog t = .localStep :: rest → Step σ t { σ with prog := upd σ.prog t rest }

/-- States reachable from `σ₀` by any interleaving. -/
inductive Reachable (σ₀ : St M V) : St M V → Prop
  | refl : Reachable σ₀ σ₀
  | step {σ σ' : St M V} {t : Tid} : Reachable σ₀ σ → Step σ t σ' → Reachable σ₀ σ'

/-- Initial state: no lock held, empty read logs. -/
def init (progs : Tid → List (Act M V)) (mem : V → Nat) : St M V :=
  { prog := progs, locks := fun _ => LockSt.free, mem := mem, seen := fun _ => [] }

/-- The mode in which thread `t` holds mutex `m`, if it does. -/
def holds (σ : St M V) (t : Tid) (m : M) : Option Mode :=
  if (σ.locks m).writer = some t then some .ex
  else if t ∈ (σ.locks m).readers then some .sh else none

/-- The action thread `t` is about to perform. -/
def next (σ : St M V) (t : Tid) : Option (Act M V) := (σ.prog t).head?

/-- Two plain accesses to the same variable, at least one a write. -/
def conflicts : Act M V → Act M V → Prop
  | .wr x _, .wr y _ => x = y
  | .wr x _, .rd y => x = y
  | .rd x, .wr y _ => x = y
  | _, _ => False

/-- A data race: two different threads are simultaneously about to perform conflicting accesses. -/
def Race (σ : St M V) : Prop :=
  ∃ t u a b, t ≠ u ∧ next σ t = some a ∧ next σ u = some b ∧ conflicts a b

/-- The lock discipline, as a property of a state. `L x` is the mutex guarding `x`; `none` means `x` is
read-only (no thread ever writes it). Every thread about to write `x` holds `L x` exclusively; every thread
about to read a guarded `x` holds `L x` in some mode. -/
def Disciplined (L : V → Option M) (σ : St M V) : Prop :=
  ∀ t a, next σ t = some a →
    (∀ x v, a = .wr x v → ∃ m, L x = some m ∧ holds σ t m = some .ex) ∧
    (∀ x, a = .rd x → ∀ m, L x = some m → holds σ t m ≠ none)

/-- RW-mutex consistency: an exclusive holder excludes all shared holders. -/
def LockOK (σ : St M V) : Prop :=
  ∀ m t, (σ.locks m).writer = some t → (σ.locks m).readers = []

/-! ## The static discipline of one thread program -/

/-- Effect of one action on the thread-local lock set `h` (which mutex is held in which mode), or `none` if
the action violates the discipline: acquiring a mutex already held (Go: self-deadlock), releasing one not
held, writing a variable without its mutex held exclusively (or a variable that has no mutex), reading a
guarded variable without its mutex. -/
def stepHeld (L : V → Option M) (h : M → Option Mode) : Act M V → Option (M → Option Mode)
  | .acq m mode => if h m = none then some (upd h m (some mode)) else none
  | .rel m => if h m = none then none else some (upd h m none)
  | .rd x => match L x with
    | none => some h
    | some m => if h m = none then none else some h
  | .wr x _ => match L x with
    | none => none
    | some m => if h m = some .ex then some h else none
  | .atomicOp => some h
  | .localStep => some h

/-- Run the static check over a whole thread program. -/
def run (L : V → Option M) (h : M → Option Mode) : List (Act M V) → Option (M → Option Mode)
  | [] => some h
  | a :: p => (stepHeld L h a).bind fun h' => run L h' p

/-- A thread program respects discipline `L` when started holding `h`. -/
def Checked (L : V → Option M) (h : M → Option Mode) (p : List (Act M V)) : Prop := (run L h p).isSome

/-- The invariant carried along every execution of checked programs. -/
structure Inv (L : V → Option M) (σ : St M V) : Prop where
  lockOK : LockOK σ
  nodup : ∀ m, (σ.locks m).readers.Nodup
  checked : ∀ t, Checked L (holds σ t) (σ.prog t)

end Sem

/-! ## From the regenerated facts to the discipline -/

/-- Package-level mutexes named by the facts. -/
def mutexes (f : LockFacts) : List String :=
  (f.vars.filter fun v => v.sync == "Mutex" || v.sync == "RWMutex").map (·.name)

/-- Accesses to `x` that can run concurrently with user goroutines (everything outside initialisation). -/
def liveAccesses (f : LockFacts) (x : String) : List Access :=
  f.accesses.filter fun a => a.var == x && !a.atInit

/-- Access `a` is performed with mutex `m` held: exclusively if it is a write, in any mode if it is a read. -/
def accessOK (m : String) (a : Access) : Bool :=
  a.held.any fun h => h.mutex == m && (h.excl || !a.write)

/-- The mutex guarding variable `x`: for a variable written after initialisation, the first package-level
mutex under which *every* live access happens (consistent lock set); `none` for variables never written
after initialisation (read-only). -/
def lockOf (f : LockFacts) (x : String) : Option String :=
  if (liveAccesses f x).any (·.write) then
    (mutexes f).find? fun m => (liveAccesses f x).all (accessOK m)
  else none

/-- Discipline for one variable. A sync object is used only through its methods (atomic operations).
A plain variable is either never written after initialisation, or has a guarding mutex. -/
def varOK (f : LockFacts) (v : PkgVar) : Bool :=
  if v.sync != "" then (liveAccesses f v.name).all (·.syncCall)
  else (liveAccesses f v.name).all (fun a => !a.syncCall) &&
       (!(liveAccesses f v.name).any (·.write) || (lockOf f v.name).isSome)

/-- Row well-formedness: the access names a known variable; its lock set names each mutex once. -/
def rowOK (f : LockFacts) (a : Access) : Bool :=
  f.vars.any (·.name == a.var) && decide (a.held.map (·.mutex)).Nodup

/-- **The discipline predicate over the regenerated facts.** Every write to a shared package-level variable
happens under that variable's mutex held exclusively; every read under it held shared or exclusively;
variables with no mutex are never written outside initialisation; sync objects are only used through their
methods. -/
def Guarded (f : LockFacts) : Bool :=
  f.vars.all (varOK f) && f.accesses.all (rowOK f)

/-- Access `a` is covered by some package-level mutex in the mode it needs. -/
def coveredBySome (f : LockFacts) (a : Access) : Bool := (mutexes f).any fun m => accessOK m a

/-- The rows that break the discipline (for reporting; `Guarded` is the authoritative predicate): misuse of a
sync object, or an access to a variable that is written after initialisation and has no consistent mutex —
then the accesses covered by no mutex are named (all of them if each is covered but by different mutexes). -/
def unguardedRows (f : LockFacts) : List Access :=
  f.accesses.filter fun a =>
    !a.atInit && (!rowOK f a ||
      f.vars.any fun v => v.name == a.var &&
        (if v.sync != "" then !a.syncCall
         else a.syncCall ||
           ((liveAccesses f a.var).any (·.write) && (lockOf f a.var).isNone &&
             (!coveredBySome f a || (liveAccesses f a.var).all (coveredBySome f)))))

def modeOf (h : HeldLock) : Mode := if h.excl then .ex else .sh

/-- `body` executed with the locks `hs` acquired in order around it and released in reverse order. -/
def bracket (hs : List HeldLock) (body : List (Act String String)) : List (Act String String) :=
  match hs with
  | [] => body
  | h :: hs => .acq h.mutex (modeOf h) :: (bracket hs body ++ [.rel h.mutex])

/-- The action of one fact row. -/
def accessAct (a : Access) (val : Nat) : Act String String :=
  if a.syncCall then .atomicOp else if a.write then .wr a.var val else .rd a.var

/-- Thread programs the facts describe: any sequence of library accesses, each performed under exactly the
lock set the extractor recorded for it (each access is its own critical section: the finest, hence most
permissive, splitting of the real critical sections), interleaved with thread-private steps. -/
inductive FromFacts (f : LockFacts) : List (Act String String) → Prop
  | nil : FromFacts f []
  | op (a : Access) (val : Nat) (rest : List (Act String String)) :
      a ∈ f.accesses → a.atInit = false → FromFacts f rest →
      FromFacts f (bracket a.held [accessAct a val] ++ rest)
  | localStep (rest : List (Act String String)) : FromFacts f rest → FromFacts f (.localStep :: rest)

/-! ## The registry as data: a map guarded by a lock -/

/-- The registries (`registry`, `schemaRegistry`, `tzMap`) as association lists; newest binding first. -/
def regInsert {K β : Type} (k : K) (v : β) (r : List (K × β)) : List (K × β) := (k, v) :: r

def regLookup {K β : Type} [DecidableEq K] (k : K) (r : List (K × β)) : Option β :=
  (r.find? fun e => e.1 = k).map (·.2)

end Avro.Conc
