import AvroModel.Bytes
/-!
Reference reader for the Avro object container format, written from the Avro 1.8
specification ("Object Container Files"). It shares no definitions with the model of
`file.go` / `filewriter.go`; it is the oracle that judges the bytes the library writes.
-/
namespace Avro.Spec

open Avro

def magic : Bytes := [0x4F, 0x62, 0x6A, 0x01]

/-- a `bytes`/`string` datum: zig-zag long length, then that many bytes -/
def readLenBytes (bs : Bytes) : Option (Bytes × Bytes) :=
  match readVarint bs with
  | .ok (n, rest) => if n < 0 then none else takeN n.toNat rest
  | .error _ => none

def readMetaEntries : Nat → Bytes → Option (List (Bytes × Bytes) × Bytes)
  | 0, bs => some ([], bs)
  | n + 1, bs =>
    match readLenBytes bs with
    | none => none
    | some (k, r1) =>
      match readLenBytes r1 with
      | none => none
      | some (v, r2) =>
        match readMetaEntries n r2 with
        | none => none
        | some (es, r3) => some ((k, v) :: es, r3)

/-- map blocks: count (negative: |count| entries preceded by a byte size), … , 0 -/
def readMeta : Nat → Bytes → Option (List (Bytes × Bytes) × Bytes)
  | 0, _ => none
  | fuel + 1, bs =>
    match readVarint bs with
    | .error _ => none
    | .ok (c, r) =>
      if c = 0 then some ([], r)
      else
        let body : Option (Nat × Bytes) :=
          if c < 0 then
            match readVarint r with
            | .ok (_, r') => some ((-c).toNat, r')
            | .error _ => none
          else some (c.toNat, r)
        match body with
        | none => none
        | some (n, r') =>
          if n > r'.length then none else
          match readMetaEntries n r' with
          | none => none
          | some (es, r'') =>
            match readMeta fuel r'' with
            | none => none
            | some (es', r''') => some (es ++ es', r''')

structure Header where
  metadata : List (Bytes × Bytes)
  sync : Bytes
  deriving Repr

def readHeader (bs : Bytes) : Option (Header × Bytes) :=
  match takeN 4 bs with
  | none => none
  | some (m, r) =>
    if m ≠ magic then none else
    match readMeta (r.length + 1) r with
    | none => none
    | some (metadata, r') =>
      match takeN 16 r' with
      | none => none
      | some (sync, r'') => some ({ metadata := metadata, sync := sync }, r'')

def Header.lookup (h : Header) (key : Bytes) : Option Bytes :=
  -- maps: a later entry for the same key replaces an earlier one
  (h.metadata.reverse.find? (fun kv => kv.1 == key)).map (·.2)

structure Block where
  count : Int
  payload : Bytes
  deriving Repr

/-- file data blocks: count (long), byte size (long), payload, 16-byte sync marker equal to the header's -/
def readBlocks (sync : Bytes) : Nat → Bytes → Option (List Block)
  | 0, _ => none
  | fuel + 1, bs =>
    if bs = [] then some [] else
    match readVarint bs with
    | .error _ => none
    | .ok (count, r1) =>
      match readVarint r1 with
      | .error _ => none
      | .ok (size, r2) =>
        if size < 0 ∨ count < 0 then none else
        match takeN size.toNat r2 with
        | none => none
        | some (payload, r3) =>
          match takeN 16 r3 with
          | none => none
          | some (s, r4) =>
            if s ≠ sync then none else
            match readBlocks sync fuel r4 with
            | none => none
            | some bl => some ({ count := count, payload := payload } :: bl)

def str (s : String) : Bytes := s.toUTF8.toList

end Avro.Spec
