/-! Row types of the table `AvroModel/Generated/LockFacts.lean`, which `harness/cmd/factgen` re-extracts from the
library's Go sources (go/ast) on every `./check` run.  Plain data only. -/
namespace Avro.Conc

/-- A package-level `var` of avro, avro/time or avro/null. `name` is qualified (`avro.registry`).
`sync` is `""` for a plain variable, otherwise the name of its `sync`/`atomic` type (`Mutex`, `RWMutex`, `Pool`, …). -/
structure PkgVar where
  pkg : String
  name : String
  typ : String
  sync : String
  hasInit : Bool
  deriving Repr, DecidableEq

/-- A package-level mutex syntactically held at an access: exclusively (`Lock`) or shared (`RLock`). -/
structure HeldLock where
  mutex : String
  excl : Bool
  deriving Repr, DecidableEq

/-- One syntactic access to a package-level variable from function `fn`.
`write`: assignment rooted at the variable, `m[k] = v`, `delete`, `&x`, inc/dec, pointer-receiver call on a value.
`syncCall`: a method call on a sync object (`mu.Lock()`, `pool.Get()`): an atomic operation, not a plain access.
`atInit`: inside a package-level initialiser or `func init` (happens before any user goroutine). -/
structure Access where
  fn : String
  var : String
  write : Bool
  syncCall : Bool
  atInit : Bool
  held : List HeldLock
  deriving Repr, DecidableEq

/-- One of the methods Read/Skip/New/Omit/Write of a type implementing `avro.Codec`. -/
structure CodecMethod where
  pkg : String
  typ : String
  method : String
  ptrRecv : Bool
  assignsThroughReceiver : Bool
  writesPackageState : Bool
  deriving Repr, DecidableEq

/-- A type whose values are the private state of one call or one user-owned object. -/
structure PerCallType where
  pkg : String
  typ : String
  declared : Bool
  storedInPkgVar : Bool
  deriving Repr, DecidableEq

structure LockFacts where
  vars : List PkgVar
  accesses : List Access
  codecMethods : List CodecMethod
  perCall : List PerCallType
  deriving Repr

end Avro.Conc
