import AvroModel.Bytes
/-!
Time: model of the Go packages `/repo/time` (parse.go, time.go) and of the `null.Time`
wrapper in `/repo/null/null.go`.  Core-only; the model driver links against this file.

* `parseTime` mirrors `time/parse.go: parseTime` index by index.  Every `in[k]`, `in[a:b]`,
  `remaining[0]`, `remaining[i+1:]` and the `_ = in[1]` / `_ = in[3]` of `atoi2`/`atoi4` is an
  `idx`/`slice`/`sliceFrom` that can yield `TOutcome.panic`; nothing is totalised.
  The function stops where the Go code calls `time.Date` / `getTimezone`: its result is the
  argument tuple (`TimeFields`).  `time.Date`, `time.FixedZone` stay trusted; their documented
  normalisation is `unixOf` below (used by the driver and by `DateCodec.Read`).
* `renderRFC3339`, `renderDate` are the RFC 3339 grammar written as a generator;
  `formatNano` is the model of `Time.Format(time.RFC3339Nano)`.
* `daysFromCivil`, `unixOf`: proleptic Gregorian calendar arithmetic.
* `dateDecode/dateEncodeDay`, `longDecode/longEncode`: the logical-type codecs of time/time.go
  as integer functions, Go's fixed-width wrap-around explicit (`wrapS`).
-/
namespace Avro.Time

open Avro

/-! ## Outcomes -/

/-- error classes of parseTime / StringCodec.Read (one per `fmt.Errorf` site) -/
inductive TErr where
  | short10 | dash | year | month | day | short20 | missingT | colon | hour | minute | second
  | fracShort | tzMissing | tzSign | tzLen | tzColon | tzHour | tzMin | trailing
  | varint | eof
  deriving DecidableEq, Repr

/-- Go run-time checks that can fire in parse.go -/
inductive TPanic where
  | index   -- index out of range
  | slice   -- slice bounds out of range
  deriving DecidableEq, Repr

inductive TOutcome (α : Type) where
  | ok (a : α)
  | err (e : TErr)
  | panic (k : TPanic)
  deriving Repr

namespace TOutcome
def bind {α β : Type} (x : TOutcome α) (f : α → TOutcome β) : TOutcome β :=
  match x with
  | ok a => f a
  | err e => err e
  | panic k => panic k

instance : Monad TOutcome where
  pure := ok
  bind := bind

def isPanic {α : Type} : TOutcome α → Bool
  | panic _ => true
  | _ => false
end TOutcome

/-- the tuple handed to `time.Date(y, time.Month(m), d, h, min, s, nsec, tz)`;
`offset` is the argument of `getTimezone` (0 for `time.UTC`) -/
structure TimeFields where
  year : Nat
  month : Nat
  day : Nat
  hour : Nat
  min : Nat
  sec : Nat
  nsec : Nat
  offset : Int
  deriving DecidableEq, Repr

/-! ## Go string primitives -/

/-- `s[k]` on a Go string: the byte (as a number) or an index panic -/
def idx (s : Bytes) (k : Nat) : TOutcome Nat :=
  match s[k]? with
  | some b => .ok b.toNat
  | none => .panic .index

/-- `s[a:b]` -/
def slice (s : Bytes) (a b : Nat) : TOutcome Bytes :=
  if a ≤ b ∧ b ≤ s.length then .ok ((s.take b).drop a) else .panic .slice

/-- `s[a:]` where `a` is a Go `int` (may be computed, may be negative) -/
def sliceFrom (s : Bytes) (a : Int) : TOutcome Bytes :=
  if 0 ≤ a ∧ a ≤ s.length then .ok (s.drop a.toNat) else .panic .slice

/-- `if cond { return error }` -/
def check (ok : Bool) (e : TErr) : TOutcome Unit := if ok then .ok () else .err e

/-- `x, err := atoiN(..); if err != nil { return wrapped error }` -/
def num (r : TOutcome (Option Nat)) (e : TErr) : TOutcome Nat :=
  r.bind fun o => match o with
    | some n => .ok n
    | none => .err e

/-- `int(b - '0')` for a byte `b`: the subtraction is done in uint8 (wraps), so the result is in
0..255 and the `< 0` tests of atoi2/atoi4 never fire -/
def subZero (b : Nat) : Nat := (b + 256 - 48) % 256

/-- parse.go:156 `atoi2` -/
def atoi2 (s : Bytes) : TOutcome (Option Nat) := do
  let _ ← idx s 1                 -- `_ = in[1]`
  let a ← idx s 0
  let b ← idx s 1
  let a := subZero a
  let b := subZero b
  if a > 9 ∨ b > 9 then pure none else pure (some (a * 10 + b))

/-- parse.go:165 `atoi4` -/
def atoi4 (s : Bytes) : TOutcome (Option Nat) := do
  let _ ← idx s 3                 -- `_ = in[3]`
  let a ← idx s 0
  let b ← idx s 1
  let c ← idx s 2
  let d ← idx s 3
  let a := subZero a
  let b := subZero b
  let c := subZero c
  let d := subZero d
  if a > 9 ∨ b > 9 ∨ c > 9 ∨ d > 9 then pure none
  else pure (some (a * 1000 + b * 100 + c * 10 + d))

/-! ## parseTime (parse.go:13) -/

/-- parse.go:14-33: length test, the two dashes, year, month, day -/
def parseDate (inp : Bytes) : TOutcome (Nat × Nat × Nat) := do
  check (!(inp.length < 10)) .short10
  let c4 ← idx inp 4
  check (c4 == 45) .dash          -- `in[4] != '-' ||` (short-circuit: in[7] only if in[4] is '-')
  let c7 ← idx inp 7
  check (c7 == 45) .dash
  let y ← num ((slice inp 0 4).bind atoi4) .year
  let m ← num ((slice inp 5 7).bind atoi2) .month
  let d ← num ((slice inp 8 10).bind atoi2) .day
  pure (y, m, d)

/-- parse.go:39-64: `T`, the two colons, hour, minute, second, `remaining := in[19:]` -/
def parseClock (inp : Bytes) : TOutcome (Nat × Nat × Nat × Bytes) := do
  check (!(inp.length < 20)) .short20
  let cT ← idx inp 10
  check (cT == 84) .missingT
  let c13 ← idx inp 13
  check (c13 == 58) .colon
  let c16 ← idx inp 16
  check (c16 == 58) .colon
  let h ← num ((slice inp 11 13).bind atoi2) .hour
  let mi ← num ((slice inp 14 16).bind atoi2) .minute
  let s ← num ((slice inp 17 19).bind atoi2) .second
  let rem ← sliceFrom inp 19
  pure (h, mi, s, rem)

/-- parse.go:77-89, the loop `for i, c = range remaining { … }` over the bytes not yet visited.
Arguments: the unvisited suffix, `pos` = byte index of its first byte, and the current values of
the variables `i`, `val`, `mult`.  Result: the values of `i`, `val`, `mult` after the loop.

Rune stepping: `range` decodes UTF-8, `i` is the byte index of the rune start.  Every byte visited
before the loop stops is an ASCII digit (one-byte rune), so the next rune always starts at `pos`;
a byte ≥ 0x80 at `pos` decodes to a rune ≥ 0x80 or to U+FFFD — not a digit — and the loop breaks
there with `i = pos - 1`, exactly like for any other non-digit byte.  When the range is exhausted
`i` keeps the index of the last rune (the variables are assigned, not redeclared). -/
def fracLoop : Bytes → Nat → Int → Nat → Nat → Int × Nat × Nat
  | [], _, i, val, mult => (i, val, mult)
  | c :: rest, pos, _, val, mult =>
    if 48 ≤ c.toNat ∧ c.toNat ≤ 57 then
      if mult > 1 then fracLoop rest (pos + 1) pos (val * 10 + (c.toNat - 48)) (mult / 10)
      else fracLoop rest (pos + 1) pos val mult
    else ((pos : Int) - 1, val, mult)

/-- parse.go:65-94: `c := remaining[0]`, optional fraction -/
def parseFrac (rem : Bytes) : TOutcome (Nat × Bytes) := do
  let c ← idx rem 0
  if c == 46 || c == 44 then
    let rem ← sliceFrom rem 1
    check (rem.length != 0) .fracShort
    let r := fracLoop rem 0 0 0 1000000000
    let rem ← sliceFrom rem (r.1 + 1)
    check (rem.length != 0) .tzMissing
    pure (r.2.1 * r.2.2, rem)
  else pure (0, rem)

/-- parse.go:96-128: zone designator; the result is the `getTimezone` argument (0 for UTC) and
what is left of the string -/
def parseZone (rem : Bytes) : TOutcome (Int × Bytes) := do
  let c ← idx rem 0
  let rem ← sliceFrom rem 1
  if c == 90 then pure (0, rem)
  else
    let sign : Int ← (if c == 43 then TOutcome.ok 1 else if c == 45 then TOutcome.ok (-1) else TOutcome.err .tzSign)
    check (!(rem.length < 5)) .tzLen
    let c2 ← idx rem 2
    check (c2 == 58) .tzColon
    let tzh ← num ((slice rem 0 2).bind atoi2) .tzHour
    let tzm ← num ((slice rem 3 5).bind atoi2) .tzMin
    let rem ← sliceFrom rem 5
    pure (sign * ((tzh * 60 * 60 + tzm * 60 : Nat) : Int), rem)

/-- parse.go:13 `parseTime` -/
def parseTime (inp : Bytes) : TOutcome TimeFields := do
  let ymd ← parseDate inp
  if inp.length == 10 then
    pure ⟨ymd.1, ymd.2.1, ymd.2.2, 0, 0, 0, 0, 0⟩
  else
    let clk ← parseClock inp
    let fr ← parseFrac clk.2.2.2
    let zn ← parseZone fr.2
    check (zn.2.length == 0) .trailing
    pure ⟨ymd.1, ymd.2.1, ymd.2.2, clk.1, clk.2.1, clk.2.2.1, fr.1, zn.1⟩

/-- time.go:97 `StringCodec.Read` (also `nullTimeCodec.Read`, null.go:232, which only sets
`Valid` first): varint length, `l == 0` leaves the destination untouched (`none`),
`ReadBuf.Next(int(l))` (buffer.go:77), then `parseTime`. -/
def stringCodecRead (bs : Bytes) : TOutcome (Option TimeFields) :=
  match readVarint bs with
  | .error _ => .err .varint
  | .ok (l, rest) =>
    if l = 0 then .ok none
    else if l < 0 ∨ l > rest.length then .err .eof
    else (parseTime (rest.take l.toNat)).bind fun f => .ok (some f)

/-! ## RFC 3339 as a generator -/

/-- ASCII digit of `n % 10` -/
def dig (n : Nat) : UInt8 := (48 + n % 10).toUInt8

def d2 (n : Nat) : Bytes := [dig (n / 10), dig n]
def d4 (n : Nat) : Bytes := [dig (n / 1000), dig (n / 100), dig (n / 10), dig n]

/-- `time-offset = "Z" / ("+" / "-") time-hour ":" time-minute` -/
inductive Zone where
  | z
  | off (neg : Bool) (hh mm : Nat)
  deriving DecidableEq, Repr

def Zone.seconds : Zone → Int
  | .z => 0
  | .off neg hh mm => (if neg then -1 else 1) * ((hh * 3600 + mm * 60 : Nat) : Int)

def renderZone : Zone → Bytes
  | .z => [90]
  | .off neg hh mm => (if neg then 45 else 43) :: (d2 hh ++ [58] ++ d2 mm)

/-- `full-date = date-fullyear "-" date-month "-" date-mday` -/
def renderDate (y m d : Nat) : Bytes := d4 y ++ [45] ++ d2 m ++ [45] ++ d2 d

/-- `time-secfrac = sep 1*DIGIT` (absent when there are no digits) -/
def renderFrac (frac : List (Fin 10)) (sep : UInt8) : Bytes :=
  match frac with
  | [] => []
  | _ => sep :: frac.map fun d => dig d.val

/-- `date-time = full-date "T" partial-time time-offset`.  Only the date/clock fields of `f` are
used; fraction digits, separator (`'.'` = 46 or `','` = 44) and zone are given separately. -/
def renderRFC3339 (f : TimeFields) (frac : List (Fin 10)) (sep : UInt8) (zn : Zone) : Bytes :=
  renderDate f.year f.month f.day ++ [84] ++ d2 f.hour ++ [58] ++ d2 f.min ++ [58] ++ d2 f.sec
    ++ renderFrac frac sep ++ renderZone zn

/-- value of a digit string read as a decimal number, continuing from `acc` -/
def digitsVal (acc : Nat) (ds : List (Fin 10)) : Nat := ds.foldl (fun a d => a * 10 + d.val) acc

/-- nanoseconds denoted by a fraction: the first nine digits, right-padded with zeros
(further digits are dropped, as `time.Parse` does) -/
def fracNanos (frac : List (Fin 10)) : Nat :=
  digitsVal 0 (frac.take 9 ++ List.replicate (9 - frac.length) 0)

/-! ## Calendar -/

def isLeap (y : Int) : Bool := y % 4 == 0 && (y % 100 != 0 || y % 400 == 0)

def daysInMonth (y : Int) (m : Nat) : Nat :=
  match m with
  | 2 => if isLeap y then 29 else 28
  | 4 => 30 | 6 => 30 | 9 => 30 | 11 => 30
  | _ => 31

/-- days of the months before month `m` (1-based) in year `y` -/
def daysBeforeMonth (y : Int) (m : Nat) : Nat :=
  ((List.range (m - 1)).map fun k => daysInMonth y (k + 1)).sum

/-- days from 0000-01-01 to `y`-01-01 (proleptic Gregorian; year 0 is a leap year) -/
def daysBeforeYear (y : Int) : Int := 365 * y + (y + 3) / 4 - (y + 99) / 100 + (y + 399) / 400

/-- days from 1970-01-01 to `y-m-d`, `1 ≤ m ≤ 12`; linear in `d` (any integer) -/
def daysFromCivil (y : Int) (m : Nat) (d : Int) : Int :=
  daysBeforeYear y + daysBeforeMonth y m + (d - 1) - 719528

structure ValidDate (y m d : Nat) : Prop where
  year : y ≤ 9999
  month : 1 ≤ m ∧ m ≤ 12
  day : 1 ≤ d ∧ d ≤ daysInMonth y m

/-- the field ranges `time.Parse` accepts (no leap second, hour ≤ 23) -/
structure ValidFields (f : TimeFields) : Prop where
  date : ValidDate f.year f.month f.day
  hour : f.hour ≤ 23
  min : f.min ≤ 59
  sec : f.sec ≤ 59

def Zone.Valid : Zone → Prop
  | .z => True
  | .off _ hh mm => hh ≤ 23 ∧ mm ≤ 59

/-- `time.Date(y, m, d, h, mi, s, _, FixedZone(off)).Unix()`: month normalised into the year,
everything else linear (the documented normalisation of out-of-range values) -/
def goDateUnix (y m d h mi s : Int) (off : Int) : Int :=
  let y' := y + (m - 1) / 12
  let m' := ((m - 1) % 12).toNat + 1
  (daysFromCivil y' m' d) * 86400 + h * 3600 + mi * 60 + s - off

/-- Unix seconds of the instant `time.Date` builds from the fields -/
def unixOf (f : TimeFields) : Int :=
  goDateUnix f.year f.month f.day f.hour f.min f.sec f.offset

/-! ## Format(time.RFC3339Nano) -/

/-- the nine fraction digits of a nanosecond count -/
def digits9 (n : Nat) : List (Fin 10) :=
  [⟨n / 100000000 % 10, Nat.mod_lt _ (by decide)⟩, ⟨n / 10000000 % 10, Nat.mod_lt _ (by decide)⟩,
   ⟨n / 1000000 % 10, Nat.mod_lt _ (by decide)⟩, ⟨n / 100000 % 10, Nat.mod_lt _ (by decide)⟩,
   ⟨n / 10000 % 10, Nat.mod_lt _ (by decide)⟩, ⟨n / 1000 % 10, Nat.mod_lt _ (by decide)⟩,
   ⟨n / 100 % 10, Nat.mod_lt _ (by decide)⟩, ⟨n / 10 % 10, Nat.mod_lt _ (by decide)⟩,
   ⟨n % 10, Nat.mod_lt _ (by decide)⟩]

/-- remove trailing zeros -/
def trimZeros : List (Fin 10) → List (Fin 10)
  | [] => []
  | d :: ds =>
    match trimZeros ds with
    | [] => if d = 0 then [] else [d]
    | t => d :: t

/-- zone designator of `Format` for layout `Z07:00`: `Z` iff the offset is 0, otherwise sign,
`|offset| / 3600` and `|offset| / 60 % 60` (seconds of the offset are not printed) -/
def zoneOfOffset (off : Int) : Zone :=
  if off = 0 then .z
  else .off (off < 0) (off.natAbs / 3600) (off.natAbs / 60 % 60)

/-- model of `t.Format(time.RFC3339Nano)` for a time whose civil fields in its own zone are `f`
(year 0..9999, |offset| < 100 h): `.999999999` prints the fraction without trailing zeros and
nothing when it is zero -/
def formatNano (f : TimeFields) : Bytes :=
  renderRFC3339 f (trimZeros (digits9 f.nsec)) 46 (zoneOfOffset f.offset)

/-! ## Logical-type codecs of time/time.go -/

/-- conversion to a signed Go integer of `w` bits (two's complement wrap-around) -/
def wrapS (w : Nat) (x : Int) : Int := (x + 2 ^ (w - 1)) % 2 ^ w - 2 ^ (w - 1)

/-- a `time.Time` as an absolute instant: Unix seconds and nanosecond within the second -/
structure Instant where
  sec : Int
  nsec : Int
  deriving DecidableEq, Repr

/-- `time.Unix(0, n)`: floor division into seconds and non-negative nanoseconds -/
def ofUnixNano (n : Int) : Instant := ⟨n / 1000000000, n % 1000000000⟩

def Instant.nanos (t : Instant) : Int := t.sec * 1000000000 + t.nsec

/-- time.go:61 `DateCodec.Read` after the int32 has been read:
`time.Date(1970, 1, 1+int(l), 0, 0, 0, 0, time.UTC)` -/
def dateDecode (l : Int) : Instant := ⟨goDateUnix 1970 1 (1 + l) 0 0 0 0, 0⟩

/-- `DateCodec.Read` on bytes: `Int32Codec.Read` then `dateDecode` -/
def dateRead (bs : Bytes) : Except IntErr (Instant × Bytes) :=
  match readInt 32 bs with
  | .ok (l, rest) => .ok (dateDecode l, rest)
  | .error e => .error e

/-- time.go:81 `DateCodec.Write`: `day := int32(secs / 86400); if secs % 86400 < 0 { day-- }`
with Go's truncated `/` and `%` and int32 wrap-around -/
def dateEncodeDay (t : Instant) : Int :=
  let day := wrapS 32 (Int.tdiv t.sec 86400)
  if Int.tmod t.sec 86400 < 0 then wrapS 32 (day - 1) else day

def dateWrite (t : Instant) : Bytes := writeInt 32 (dateEncodeDay t)

/-- time.go:151 `LongCodec.Read` after the int64 has been read: `time.Unix(0, l*c.mult)`,
the product wraps in int64 -/
def longDecode (mult : Int) (l : Int) : Instant := ofUnixNano (wrapS 64 (l * mult))

def longRead (mult : Int) (bs : Bytes) : Except IntErr (Instant × Bytes) :=
  match readInt 64 bs with
  | .ok (l, rest) => .ok (longDecode mult l, rest)
  | .error e => .error e

/-- time.go:171 `LongCodec.Write`: `switch c.mult { case 1: UnixNano; case 1e6: UnixMilli;
default: UnixMicro }`; the stdlib computes `sec*k + nsec/(1e9/k)` in int64 -/
def longEncode (mult : Int) (t : Instant) : Int :=
  if mult = 1 then wrapS 64 (t.sec * 1000000000 + t.nsec)
  else if mult = 1000000 then wrapS 64 (t.sec * 1000 + t.nsec / 1000000)
  else wrapS 64 (t.sec * 1000000 + t.nsec / 1000)

def longWrite (mult : Int) (t : Instant) : Bytes := writeInt 64 (longEncode mult t)

/-- resolutions of the three long interpretations (time.go:25 `buildTimeCodec`) -/
inductive Res where
  | ns   -- plain long: the library's nanosecond convention, mult 1
  | us   -- timestamp-micros, mult 1000
  | ms   -- timestamp-millis, mult 1000000
  deriving DecidableEq, Repr

def Res.mult : Res → Int
  | .ns => 1
  | .us => 1000
  | .ms => 1000000

/-- the instant `t` rounded down to a multiple of `m` nanoseconds -/
def floorNanos (m : Int) (t : Instant) : Int := t.nanos / m * m

end Avro.Time
