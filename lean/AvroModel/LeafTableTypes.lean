import AvroModel.Build
/-!
Row type of the regenerated table `AvroModel/Generated/LeafTable.lean` (property C05): what the real
`Schema.Codec` answered for one (schema type, Go kind) pair and the measured store footprint of
decoding into field `A : T` of `struct{Pre [2]uint64; A T; Post [2]uint64}`.
-/
namespace Avro

structure LeafRow where
  schemaName : String
  schema : Schema        -- the schema of field A
  kind : String          -- Go spelling of T
  goType : GoType        -- T as the model's GoType
  accepted : Bool        -- Schema.Codec returned a codec
  probes : Nat           -- number of valid encodings decoded
  size : Nat             -- unsafe.Sizeof(T)
  lo : Int               -- first modified byte, relative to A (0 if nothing changed)
  hi : Int               -- one past the last modified byte, relative to A (0 if nothing changed)
  outside : Bool         -- a byte outside [0, size) of A changed (padding, Pre, Post)
  panicked : Bool        -- building or decoding a valid encoding panicked
  crashed : Bool         -- the worker process died in this row (fatal runtime error)

/-- the soundness condition of one row -/
def LeafRow.sound (r : LeafRow) : Bool :=
  !r.accepted || (decide (0 ≤ r.lo) && decide (r.hi ≤ r.size) && !r.outside && !r.panicked && !r.crashed)

/-- the registry after `RegisterCodecs` of avro/time and avro/null, without user registrations -/
def regLib : Reg := { lib := true, custom := fun _ => none }

def isOk {α ε : Type} : Except ε α → Bool
  | .ok _ => true
  | .error _ => false

mutual
/-- every signed integer kind replaced by `int64` (used to recognise a pair that the model rejects only because
of an integer width it does not know) -/
def widenInts : GoType → GoType
  | .int _ => .int 64
  | .slice e => .slice (widenInts e)
  | .array n e => .array n (widenInts e)
  | .map k v => .map k (widenInts v)
  | .ptr e => .ptr (widenInts e)
  | .struct n p fs => .struct n p (widenFields fs)
  | .custom id u => .custom id (widenInts u)
  | t => t
def widenFields : List GoField → List GoField
  | [] => []
  | .mk n e j b t :: fs => .mk n e j b (widenInts t) :: widenFields fs
end

/-- the implementation accepts a pair the model rejects, the model accepts it once integer widths are widened,
and the measured stores cover exactly the field: a newly supported integer width with a codec of that width -/
def LeafRow.widthExtension (r : LeafRow) : Bool :=
  r.accepted && !isOk (buildCodec regLib 10 r.schema (some r.goType) false) &&
  isOk (buildCodec regLib 10 r.schema (some (widenInts r.goType)) false) &&
  decide (r.lo = 0) && decide (r.hi = r.size)

/-- model verdict = implementation verdict for one row (or the row is an integer-width extension) -/
def leafAgrees (r : LeafRow) : Bool :=
  isOk (buildCodec regLib 10 r.schema (some r.goType) false) == r.accepted || r.widthExtension

end Avro
