import AvroModel.Typing
import AvroModel.AllocFactsTypes
/-!
Typed-allocation model for property C11 (definitions only; theorems in `Props/C11.lean`):
how an allocation looks to the collector (`AllocShape`), what every codec's `New` allocates (`newShape`), what its
`Read` assumes behind `p` (`expectShape`), how a Go type looks to the collector (`shapeOf`), the judgement
`allocTyped` over codec trees, and the decidable conditions evaluated on the regenerated `AllocFacts` table.
-/
namespace Avro.Alloc
open Avro

/-- normalised kind of a `null.*` struct: `null.Float` serves the float and the double codec -/
def normNull : NullKind → NullKind
  | .float => .double
  | k => k

/-- how an allocation looks to the collector -/
inductive AllocShape where
  | nothing                      -- no allocation (`New` returns nil)
  | scalar (n : Nat)             -- n bytes, no pointers (noscan)
  | ptrSlot                      -- one pointer word: a pointer variable or a map variable
  | strHdr                       -- string header: data pointer, length
  | sliceHdr                     -- slice header: data pointer (first word), length, capacity
  | ownStruct                    -- a struct allocated with its own reflect.Type (pointers exactly where the type has them)
  | timeStruct                   -- time.Time allocated as time.Time
  | nullStruct (k : NullKind)    -- null.Int / Bool / Float / String / Time allocated as such
  | mapHeader                    -- the runtime's map header (what `reflect.MakeMap(t).Pointer()` points at)
  | opaque                       -- user-registered codec / type the library cannot decode into
  deriving DecidableEq, Repr

/-- pointer bitmap (one flag per word) of the shapes whose layout is fixed; `none` = the type's own bitmap -/
def AllocShape.bitmap : AllocShape → Option (List Bool)
  | .nothing => some []
  | .scalar n => some (List.replicate ((n + 7) / 8) false)
  | .ptrSlot => some [true]
  | .strHdr => some [true, false]
  | .sliceHdr => some [true, false, false]
  | _ => none

mutual
/-- what `c.New(r)` allocates -/
def newShape : Codec → AllocShape
  | .null => .nothing
  | .bool _ => .scalar 1
  | .int w _ => .scalar (w / 8)
  | .float _ => .scalar 4
  | .double _ => .scalar 8
  | .f32double _ => .scalar 4
  | .bytes _ => .sliceHdr
  | .string _ => .strHdr
  | .fixed n => .scalar n.toNat
  | .array _ _ => .sliceHdr
  | .map _ _ => .ptrSlot
  | .pointer _ => .ptrSlot
  | .record _ _ _ => .ownStruct
  | .union cs => newShapeU cs
  | .unionOne c _ => newShape c
  | .unionNullString _ _ => .strHdr
  | .timeString => .timeStruct
  | .timeLong _ => .timeStruct
  | .date => .timeStruct
  | .nullw k => .nullStruct (normNull k)
  | .custom _ => .opaque
/-- `unionCodec.New`: the first branch that allocates -/
def newShapeU : List Codec → AllocShape
  | [] => .nothing
  | .null :: cs => newShapeU cs
  | c :: _ => newShape c
end

mutual
/-- what `c.Read(r, p)` assumes `p` points at -/
def expectShape : Codec → AllocShape
  | .null => .nothing                     -- never dereferenced
  | .bool _ => .scalar 1                  -- *(*bool)(p)
  | .int w _ => .scalar (w / 8)           -- *(*T)(p) = T(i)
  | .float _ => .scalar 4                 -- fixedCodec{4}.Read
  | .double _ => .scalar 8
  | .f32double _ => .scalar 4             -- *(*float32)(p)
  | .bytes _ => .sliceHdr                 -- *(*[]byte)(p)
  | .string _ => .strHdr                  -- *(*string)(ptr)
  | .fixed n => .scalar n.toNat           -- copy into n bytes at p
  | .array _ _ => .sliceHdr               -- (*sliceHeader)(p)
  | .map _ _ => .ptrSlot                  -- *(*unsafe.Pointer)(p): pointer to a map variable
  | .pointer _ => .ptrSlot                -- (*unsafe.Pointer)(p)
  | .record _ _ _ => .ownStruct           -- unsafe.Add(p, field offset)
  | .union cs => expectShapeU cs
  | .unionOne c _ => expectShape c
  | .unionNullString _ _ => .strHdr
  | .timeString => .timeStruct            -- *(*time.Time)(p)
  | .timeLong _ => .timeStruct
  | .date => .timeStruct
  | .nullw k => .nullStruct (normNull k)  -- (*null.X)(p)
  | .custom _ => .opaque
def expectShapeU : List Codec → AllocShape
  | [] => .nothing
  | .null :: cs => expectShapeU cs
  | c :: _ => expectShape c
end

/-- how a value of Go type `T` looks to the collector -/
def shapeOf : GoType → AllocShape
  | .bool => .scalar 1
  | .int w => .scalar (w / 8)
  | .uint w => .scalar (w / 8)
  | .float32 => .scalar 4
  | .float64 => .scalar 8
  | .complex => .scalar 16
  | .string => .strHdr
  | .slice _ => .sliceHdr
  | .array n e => if isU8 e then .scalar n else .opaque
  | .map _ _ => .ptrSlot
  | .ptr _ => .ptrSlot
  | .struct _ _ _ => .ownStruct
  | .time => .timeStruct
  | .nullT k => .nullStruct (normNull k)
  | .custom _ u => shapeOf u
  | _ => .opaque


mutual
/-- `allocTyped c T`: in codec tree `c` (built for Go type `T`), at every position where the decoder allocates
and stores a reference —

* pointer target (`PointerCodec.Read`: `*pp = c.Codec.New(r)`, stored into a `*E` field),
* map value (`MapCodec.Read`: `val := valueCodec.New(r)` … `mapassign(t, m, &key, val)` copies an `E` from it),
* array item (`arrayCodec.resizeSlice`: `unsafe_NewArray(itemType, cap)`; the item codec reads at `Data + i*size`) —

the child's allocation has the collector-visible shape of the static element type `E`, and it is the shape the
child's `Read` assumes. -/
def allocTyped : Codec → GoType → Bool
  | .pointer c, t =>
    match t.strip with
    | .ptr e => newShape c == shapeOf e && newShape c == expectShape c && allocTyped c e
    | _ => false
  | .map val _, t =>
    match t.strip with
    | .map _ e => newShape val == shapeOf e && newShape val == expectShape val && allocTyped val e
    | _ => false
  | .array item _, t =>
    match t.strip with
    | .slice e => expectShape item == shapeOf e && allocTyped item e
    | _ => false
  | .record _ cs ts, t =>
    match t.strip with
    | .struct _ _ fs => allocTypedFields cs ts fs
    | _ => false
  | .union cs, t => allocTypedAll cs t
  | .unionOne c _, t => allocTyped c t
  | _, _ => true
def allocTypedFields : List Codec → List (Option Nat) → List GoField → Bool
  | [], _, _ => true
  | _ :: _, [], _ => true
  | _ :: cs, none :: ts, fs => allocTypedFields cs ts fs
  | c :: cs, some i :: ts, fs =>
    (match fs[i]? with
     | some f => allocTyped c f.type
     | none => false) && allocTypedFields cs ts fs
def allocTypedAll : List Codec → GoType → Bool
  | [], _ => true
  | c :: cs, t => allocTyped c t && allocTypedAll cs t
end


/-- shape of `reflect.TypeOf(<expr>)` for the initialisers the library uses (factgen spells `unsafe.` as `unsafe_` in
the Lean table) -/
def shapeOfInit (init : String) : Option AllocShape :=
  if init == "reflect.TypeOf(false)" then some (.scalar 1)
  else if init == "reflect.TypeOf(int64(0))" then some (.scalar 8)
  else if init == "reflect.TypeOf(int32(0))" then some (.scalar 4)
  else if init == "reflect.TypeOf(int16(0))" then some (.scalar 2)
  else if init == "reflect.TypeOf(int8(0))" then some (.scalar 1)
  else if init == "reflect.TypeOf(float32(0))" then some (.scalar 4)
  else if init == "reflect.TypeOf(float64(0))" then some (.scalar 8)
  else if init == "reflect.TypeOf(\"\")" then some .strHdr
  else if init == "reflect.TypeOf([]byte{})" then some .sliceHdr
  else if init == "reflect.TypeOf(sliceHeader{})" then some .sliceHdr      -- see `slice_header_layout_ok`
  else if init == "reflect.TypeOf(unsafe_Pointer(nil))" then some .ptrSlot
  else if init == "reflect.TypeOf(time.Time{})" then some .timeStruct
  else if init == "reflect.TypeOf(null.Int{})" then some (.nullStruct .int)
  else if init == "reflect.TypeOf(null.Bool{})" then some (.nullStruct .bool)
  else if init == "reflect.TypeOf(null.Float{})" then some (.nullStruct .double)
  else if init == "reflect.TypeOf(null.String{})" then some (.nullStruct .string)
  else if init == "reflect.TypeOf(null.Time{})" then some (.nullStruct .time)
  else none

/-- a codec of the model standing for Go codec type `pkg.typ` (under `case guard:` for the generic ones) -/
def repCodec (pkg typ guard : String) : Option Codec :=
  if pkg == "avro" then
    if typ == "BoolCodec" then some (.bool false)
    else if typ == "BytesCodec" then some (.bytes false)
    else if typ == "StringCodec" then some (.string false)
    else if typ == "Float32DoubleCodec" then some (.f32double false)
    else if typ == "IntCodec" then
      (if guard == "1" then some (.int 8 false) else if guard == "2" then some (.int 16 false)
       else if guard == "4" then some (.int 32 false) else if guard == "8" then some (.int 64 false) else none)
    else if typ == "floatCodec" then
      (if guard == "4" then some (.float false) else if guard == "8" then some (.double false) else none)
    else if typ == "MapCodec" then some (.map .null false)
    else if typ == "PointerCodec" then some (.pointer .null)
    else if typ == "arrayCodec" then some (.array .null false)
    else if typ == "recordCodec" then some (.record [] [] [])
    else if typ == "nullCodec" then some .null
    else none
  else if pkg == "avro/time" then
    if typ == "DateCodec" then some .date
    else if typ == "LongCodec" then some (.timeLong 1)
    else if typ == "StringCodec" then some .timeString
    else none
  else if pkg == "avro/null" then
    if typ == "nullIntCodec" then some (.nullw .int)
    else if typ == "nullBoolCodec" then some (.nullw .bool)
    else if typ == "nullDoubleCodec" then some (.nullw .double)
    else if typ == "nullFloatCodec" then some (.nullw .float)
    else if typ == "nullStringCodec" then some (.nullw .string)
    else if typ == "nullTimeCodec" then some (.nullw .time)
    else none
  else none

/-- the allowed forms of one `return` of a `New` method (and of the allocation in `resizeSlice`), and agreement
with `newShape` for the codec types the model knows.  A codec type the model does not know passes when it
allocates through `r.Alloc(<reflect.Type>)` (typed by construction), delegates, or returns nil; `other`
(anything else: e.g. `reflect.MakeMap(..).Pointer()`, `unsafe_NewArray` of a byte type for a non-fixed codec) never
passes. -/
def factOK (f : AllocFact) : Bool :=
  if f.method == "resizeSlice" then
    -- the backing array of a slice is allocated with the element type of the Go slice (scanned as such)
    f.form == "newarray" && f.arg == "recv.itemType"
  else if f.form == "alloc-var" then
    match shapeOfInit f.init, repCodec f.pkg f.typ f.guard with
    | some sh, some c => newShape c == sh
    | some _, none => true
    | none, some _ => false
    | none, none => f.init != ""
  else if f.form == "alloc-field" then
    (match repCodec f.pkg f.typ f.guard with
     | some c => newShape c == .ownStruct && f.arg == "recv.rtype"
     | none => true)
  else if f.form == "newarray" then
    -- only `fixedCodec`: n bytes without pointers
    f.pkg == "avro" && f.typ == "fixedCodec" && f.arg == "reflect.TypeOf(byte(0))"
  else if f.form == "nil" then
    (match repCodec f.pkg f.typ f.guard with
     | some c => newShape c == .nothing
     | none => f.pkg == "avro" && f.typ == "unionCodec")
  else if f.form == "delegate" then
    (match repCodec f.pkg f.typ f.guard with
     | some _ => false
     | none => true)
  else false

/-- the codec types whose `New` must appear in the table (so that an extraction that finds nothing cannot pass) -/
def requiredNews : List (String × String) :=
  [("avro", "BoolCodec"), ("avro", "BytesCodec"), ("avro", "StringCodec"), ("avro", "Float32DoubleCodec"),
   ("avro", "IntCodec"), ("avro", "floatCodec"), ("avro", "MapCodec"), ("avro", "PointerCodec"), ("avro", "arrayCodec"),
   ("avro", "recordCodec"), ("avro", "nullCodec"), ("avro", "fixedCodec"), ("avro", "unionCodec"),
   ("avro", "unionOneAndNullCodec"), ("avro", "unionNullString"), ("avro/time", "DateCodec"), ("avro/time", "LongCodec"),
   ("avro/time", "StringCodec"), ("avro/null", "nullIntCodec"), ("avro/null", "nullBoolCodec"),
   ("avro/null", "nullDoubleCodec"), ("avro/null", "nullFloatCodec"), ("avro/null", "nullStringCodec"),
   ("avro/null", "nullTimeCodec")]

def factsComplete (fs : List AllocFact) : Bool :=
  requiredNews.all (fun p => fs.any fun f => f.pkg == p.1 && f.typ == p.2 && f.method == "New") &&
  fs.any (fun f => f.pkg == "avro" && f.typ == "arrayCodec" && f.method == "resizeSlice")


def pinnedMapNew : AllocFact :=
  { pkg := "avro", typ := "MapCodec", method := "New", guard := "", form := "other", arg := "unsafe_Pointer(reflect.MakeMap(recv.rtype).Pointer())", init := "" }
def uintptrSlot : AllocFact :=
  { pkg := "avro", typ := "PointerCodec", method := "New", guard := "", form := "alloc-var", arg := "pointerType", init := "reflect.TypeOf(uintptr(0))" }
def byteBacking : AllocFact :=
  { pkg := "avro", typ := "arrayCodec", method := "resizeSlice", guard := "", form := "newarray", arg := "reflect.TypeOf(byte(0))", init := "" }

/-- `sliceHeader` (fixed.go:12), which `arrayCodec` overlays on Go slices and allocates for `*[]T`, has the layout
of a slice header: data pointer in the first word, then two scalar words. -/
def sliceHeaderOK (l : StructLayout) : Bool :=
  l.found && l.known && l.size == 24 &&
  (l.fields.map fun f => (f.offset, f.size, f.pointer)) == [(0, 8, true), (8, 8, false), (16, 8, false)]


/-- `mapiter` (unsafetricks.go:40), the stack buffer handed to `runtime.mapiterinit`: its first four words — the
ones both the pre-1.24 `hiter` and the 1.24 linkname iterator (`key`, `elem`, `typ`, `it`) use for pointers — are
pointer-typed, every pointer-typed field is a whole aligned word, and it is at least as large as reflect's own
iterator state for the toolchain in use. -/
def mapiterOK (l : StructLayout) (reflIter : Nat) : Bool :=
  l.found && l.known &&
  [0, 8, 16, 24].all (fun off => l.fields.any fun f => f.offset == off && f.size == 8 && f.pointer) &&
  l.fields.all (fun f => !f.pointer || (f.size == 8 && f.offset % 8 == 0)) &&
  decide (32 ≤ l.size) && decide (reflIter ≤ l.size)


end Avro.Alloc
