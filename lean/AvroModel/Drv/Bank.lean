import AvroModel.Drv.Sexp
import AvroModel.Bank
/-!
Driver handler for C10.

`(bankops (op…) (obs o…))` — an operation sequence executed by the harness against the real
`NewReadBuf / ReadBuf.Alloc / NextAsString / ExtractResourceBank / ResourceBank.Alloc / ToString / Close`,
with one observation per operation. The handler replays the sequence through `Avro.Bank.step`
(checking `Allowed` before every step), taking from the observation only what the model leaves open:
which bank the pool handed out, the capacity chosen when an arena or `sData` grew. It compares the
model's handles with the observed addresses (`.diff` on disagreement) and judges the observations
against the property directly (`.oracle`): fresh memory zero, no two live allocations overlapping,
no live handle changed, a bank handed out while still held.

harness operations            model operations
`(nb)`      NewReadBuf         get(choice)
`(a r t)`   rbuf r .Alloc      alloc (bank of r) t cap ; store h pattern
`(s r n)`   rbuf r .NextAsString(n)   toString (bank of r) bytes cap
`(x r)`     rbuf r .ExtractResourceBank   get(choice)   (the old bank becomes extracted bank k)
`(ba k t)` / `(bs k n)`   the same on extracted bank k directly
`(w i)`     write a new pattern through pointer i        store h v
`(c k)`     extracted bank k .Close                       close

`(fileretain codec blocksize nrecs seed closepct outcome)` — the oracle is the harness's own comparison.
-/
namespace Avro.Drv
open Avro Sexp Avro.Bank

structure HRec where
  lbank : Nat
  cell : Nat
  h : Handle

structure SRec where
  lbank : Nat
  arr : Int
  off : Int
  len : Nat

structure DS where
  w : World := init
  /-- observed bank id ↦ model bank id -/
  bidMap : List (Nat × Nat) := []
  /-- read buffer ↦ (model bank, logical bank) -/
  cur : Array (Nat × Nat) := #[]
  /-- extracted bank ↦ (model bank, logical bank) -/
  ext : Array (Nat × Nat) := #[]
  nLogical : Nat := 0
  closedL : List Nat := []
  hs : Array HRec := #[]
  ss : Array SRec := #[]
  /-- model cell ↦ observed cell id, model typed array ↦ observed array id, model byte array ↦ observed id -/
  cellMap : List ((Nat × Nat) × Nat) := []
  arrMap : List (Nat × Int) := []
  sarrMap : List (Nat × Int) := []
  reuse : Bool := false
  grew : Bool := false
  sgrew : Bool := false
  recycled : Bool := false
  closes : Nat := 0
  goPolicy : Bool := true

abbrev M := Except Verdict

private def lookup {α β : Type} [BEq α] (k : α) : List (α × β) → Option β
  | [] => none
  | (a, b) :: r => if a == k then some b else lookup k r

private def rlookup {α β : Type} [BEq β] (v : β) : List (α × β) → Option α
  | [] => none
  | (a, b) :: r => if b == v then some a else rlookup v r

/-- model prediction `k ↦ v` against a partial bijection -/
private def bij {α β : Type} [BEq α] [BEq β] (m : List (α × β)) (k : α) (v : β) : Option (List (α × β)) :=
  match lookup k m with
  | some v' => if v' == v then some m else none
  | none => match rlookup v m with
    | some _ => none
    | none => some ((k, v) :: m)

private def need {α : Type} (o : Option α) (why : String) : M α :=
  match o with
  | some a => pure a
  | none => throw (.bad why)

/-- one model step, `Allowed` checked first -/
private def mstep (i : Nat) (s : DS) (op : Op) (onDisallowed : Verdict) : M (DS × Ret) :=
  if Allowed s.w op then
    match step s.w op with
    | .ok w' r => pure ({ s with w := w' }, r)
    | .fault why => throw (.diff s!"op {i}: model faults: {why}")
  else throw onDisallowed

/-- the bad-list of an observation (its last element) must be empty -/
private def checkBad (i : Nat) (o : List Sexp) : M Unit :=
  match o.getLast? with
  | some (.list []) => pure ()
  | some (.list xs) => throw (.oracle s!"op {i}: contents of live handles changed: {Sexp.list xs}")
  | _ => throw (.bad s!"op {i}: no bad-list")

private def isLive (s : DS) (lb : Nat) : Bool := !s.closedL.contains lb

/-- `newResourceBank()` observed to return bank `bid` -/
private def mget (i : Nat) (s : DS) (bid : Nat) (what : String) : M (DS × Nat) :=
  match lookup bid s.bidMap with
  | some mb => do
    let (s, _) ← mstep i s (.get (some mb))
      (.oracle s!"op {i}: {what} holds bank {bid}, which another holder still owns (not closed since it was last handed out)")
    pure ({ s with reuse := true }, mb)
  | none => do
    let (s, r) ← mstep i s (.get none) (.bad "get none")
    match r with
    | .bank mb => pure ({ s with bidMap := (bid, mb) :: s.bidMap }, mb)
    | _ => throw (.bad "get result")

private def malloc (i : Nat) (s : DS) (mb lb t : Nat) (o : List Sexp) : M DS := do
  match o with
  | [.atom "p", cell, arr, idx, cap, zr, _] =>
    let cell ← need (asNat cell) "cell"; let arr ← need (asInt arr) "arr"; let idx ← need (asInt idx) "idx"
    let cap ← need (asNat cap) "cap"; let zr ← need (asNat zr) "zero"
    -- oracle on the observation alone
    if zr != 1 then throw (.oracle s!"op {i}: memory returned by Alloc is not zero")
    for hr in s.hs do
      if hr.cell == cell && isLive s hr.lbank then
        throw (.oracle s!"op {i}: Alloc returned a cell that a live pointer already occupies (cell {cell})")
    checkBad i o
    -- model
    let a0 := findArena t (s.w.banks mb).arenas
    let full := a0.len == a0.cap
    let (s, r) ← mstep i s (.alloc mb t cap) (.diff s!"op {i}: alloc not allowed in the model (bank state / capacity {cap} after growth from {a0.cap})")
    let h ← match r with | .ptr h => pure h | _ => throw (.bad "alloc result")
    let s := if full then { s with grew := s.grew || a0.cap > 0, goPolicy := s.goPolicy && cap == goNewCap a0.cap } else s
    let s := if (lookup (h.arr, h.idx) s.cellMap).isSome then { s with recycled := true } else s
    if (findArena t (s.w.banks mb).arenas).cap != cap then
      throw (.diff s!"op {i}: arena capacity: model {(findArena t (s.w.banks mb).arenas).cap}, observed {cap}")
    if idx != (h.idx : Int) then throw (.diff s!"op {i}: model cell index {h.idx}, observed {idx}")
    let arrMap ← match bij s.arrMap h.arr arr with
      | some m => pure m
      | none => throw (.diff s!"op {i}: model array {h.arr} does not correspond to observed array {arr}")
    let cellMap ← match bij s.cellMap (h.arr, h.idx) cell with
      | some m => pure m
      | none => throw (.diff s!"op {i}: model cell ({h.arr},{h.idx}) does not correspond to observed cell {cell}")
    -- the harness scribbles a pattern into the cell
    let (s, _) ← mstep i s (.store h (i + 1)) (.bad "store")
    pure { s with arrMap := arrMap, cellMap := cellMap, hs := s.hs.push ⟨lb, cell, h⟩ }
  | _ => throw (.bad s!"op {i}: alloc observation")

private def mstring (i : Nat) (s : DS) (mb lb n : Nat) (o : List Sexp) : M DS := do
  match o with
  | [.atom "s", arr, off, len, cok, cap, _] =>
    let arr ← need (asInt arr) "arr"; let off ← need (asInt off) "off"; let len ← need (asNat len) "len"
    let cok ← need (asNat cok) "cok"; let cap ← need (asNat cap) "cap"
    if cok != 1 || len != n then throw (.oracle s!"op {i}: the string returned is not the {n} bytes that were read")
    if len > 0 then
      for sr in s.ss do
        if sr.len > 0 && isLive s sr.lbank && sr.arr == arr && arr ≥ 0 && off ≥ 0 &&
            off < sr.off + sr.len && sr.off < off + len then
          throw (.oracle s!"op {i}: the new string overlaps a live string of the arena")
    checkBad i o
    let sd0 := (s.w.banks mb).sdata
    let fits := sd0.len + n ≤ sd0.cap
    let (s, r) ← mstep i s (.toString mb (List.replicate n 0) cap)
      (.diff s!"op {i}: toString not allowed in the model (bank state / capacity {cap} for {sd0.len}+{n} bytes)")
    let h ← match r with | .str h => pure h | _ => throw (.bad "toString result")
    let s := if fits then s else { s with sgrew := s.sgrew || sd0.cap > 0 }
    if (s.w.banks mb).sdata.cap != cap then
      throw (.diff s!"op {i}: sData capacity: model {(s.w.banks mb).sdata.cap}, observed {cap}")
    let s ← if len > 0 then do
        if off != (h.start : Int) then throw (.diff s!"op {i}: model string offset {h.start}, observed {off}")
        match h.arr with
        | none => throw (.diff s!"op {i}: model string has no array")
        | some x => match bij s.sarrMap x arr with
          | some m => pure { s with sarrMap := m }
          | none => throw (.diff s!"op {i}: model byte array {x} does not correspond to observed array {arr}")
      else pure s
    pure { s with ss := s.ss.push ⟨lb, arr, off, len⟩ }
  | _ => throw (.bad s!"op {i}: string observation")

private def oneOp (i : Nat) (s : DS) (op : Sexp) (o : Sexp) : M DS := do
  let o ← need (asList o) "observation"
  match op with
  | .list [.atom "nb"] =>
    match o with
    | [.atom "nb", bid, _] =>
      let bid ← need (asNat bid) "bid"
      checkBad i o
      let (s, mb) ← mget i s bid "the new read buffer"
      pure { s with cur := s.cur.push (mb, s.nLogical), nLogical := s.nLogical + 1 }
    | _ => throw (.bad s!"op {i}: nb observation")
  | .list [.atom "a", r, t] =>
    let r ← need (asNat r) "r"; let t ← need (asNat t) "t"
    let (mb, lb) ← need s.cur[r]? "readbuf"
    malloc i s mb lb t o
  | .list [.atom "ba", k, t] =>
    let k ← need (asNat k) "k"; let t ← need (asNat t) "t"
    let (mb, lb) ← need s.ext[k]? "extracted"
    malloc i s mb lb t o
  | .list [.atom "s", r, n] =>
    let r ← need (asNat r) "r"; let n ← need (asNat n) "n"
    let (mb, lb) ← need s.cur[r]? "readbuf"
    mstring i s mb lb n o
  | .list [.atom "bs", k, n] =>
    let k ← need (asNat k) "k"; let n ← need (asNat n) "n"
    let (mb, lb) ← need s.ext[k]? "extracted"
    mstring i s mb lb n o
  | .list [.atom "x", r] =>
    let r ← need (asNat r) "r"
    let (mb, lb) ← need s.cur[r]? "readbuf"
    match o with
    | [.atom "x", bidE, bidN, _] =>
      let bidE ← need (asNat bidE) "bidE"; let bidN ← need (asNat bidN) "bidN"
      checkBad i o
      if lookup bidE s.bidMap != some mb then
        throw (.diff s!"op {i}: extracted bank {bidE} is not the bank the read buffer was using")
      let s := { s with ext := s.ext.push (mb, lb) }
      let (s, mb') ← mget i s bidN "after ExtractResourceBank the read buffer"
      pure { s with cur := s.cur.set! r (mb', s.nLogical), nLogical := s.nLogical + 1 }
    | _ => throw (.bad s!"op {i}: x observation")
  | .list [.atom "w", j] =>
    let j ← need (asNat j) "j"
    let hr ← need s.hs[j]? "handle"
    checkBad i o
    let (s, _) ← mstep i s (.store hr.h (1000 + i)) (.diff s!"op {i}: pointer {j} is not live in the model")
    pure s
  | .list [.atom "c", k] =>
    let k ← need (asNat k) "k"
    let (mb, lb) ← need s.ext[k]? "extracted"
    checkBad i o
    let (s, _) ← mstep i s (.close mb) (.diff s!"op {i}: close not allowed in the model")
    pure { s with closedL := lb :: s.closedL, closes := s.closes + 1 }
  | _ => throw (.bad s!"op {i}: unknown operation {op}")

private def replay (ops obs : List Sexp) : Verdict :=
  let rec go (i : Nat) (s : DS) : List Sexp → List Sexp → M DS
    | op :: ops, o :: obs => do let s ← oneOp i s op o; go (i + 1) s ops obs
    | [], [] => pure s
    | _, _ => throw (.bad "observation count")
  match go 0 {} ops obs with
  | .error v => v
  | .ok s =>
    let b (x : Bool) := if x then "1" else "0"
    if s.hs.size + s.ss.size == 0 then .ok "trivial/bankops/no-allocation"
    else .ok s!"bankops/pool-reuse{b s.reuse}/cell-reuse{b s.recycled}/grow{b s.grew}/sgrow{b s.sgrew}/close{b (s.closes > 0)}/banks{min s.w.nbanks 4}{if s.goPolicy then "" else "/other-growth-policy"}"

private def kv (pre : String) (x : Sexp) : Option Nat :=
  match x with
  | .atom a => if a.startsWith pre then (a.drop pre.length).toNat? else none
  | _ => none

def c10 (op : String) (args : List Sexp) : Verdict :=
  match op, args with
  | "bankops", [.list ops, .list (.atom "obs" :: obs)] => replay ops obs
  | "bankops", [_, out] => .diff s!"implementation did not complete the sequence: {out}"
  | "fileretain", [.atom codec, _, _, _, _, out] =>
    match out with
    | .list [.atom "ok", k, c, bl] =>
      match kv "kept=" k, kv "closed=" c, kv "blocks=" bl with
      | some k, some c, some bl =>
        if k == 0 then .ok "trivial/fileretain/nothing-kept"
        else .ok s!"fileretain/{codec}/blocks{min bl 3}/closed{if c == 0 then "0" else "some"}"
      | _, _, _ => .bad "fileretain outcome"
    | .list (.atom "corrupt" :: rest) => .oracle s!"a retained record whose bank was not closed changed: {Sexp.list rest}"
    | .list (.atom "panic" :: rest) => .oracle s!"reading the file panicked: {Sexp.list rest}"
    | _ => .bad s!"fileretain outcome {out}"
  | "timeretain", [.atom codec, _, out] =>
    match out with
    | .list [.atom "ok", _, _, bl] =>
      match kv "blocks=" bl with
      | some bl => .ok s!"timeretain/{codec}/blocks{min bl 3}"
      | none => .bad "timeretain outcome"
    | .list (.atom "corrupt" :: rest) => .oracle s!"a retained record holding a time.Time changed while its bank was open (value, or the zone name reachable through its Location): {Sexp.list rest}"
    | .list (.atom "panic" :: rest) => .oracle s!"reading the file panicked: {Sexp.list rest}"
    | _ => .bad s!"timeretain outcome {out}"
  | _, _ => .bad s!"unknown case {op}"

end Avro.Drv
