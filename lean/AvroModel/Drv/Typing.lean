import AvroModel.Drv.CodecDrv
import AvroModel.Typing
import AvroModel.Alloc
import AvroModel.Generated.LeafTable
import AvroModel.Generated.AllocFacts
/-! Driver handlers for C05 (schema-type × Go-kind matrix with canaries and sibling fields, leaf table) and
C11 (GC-stress outcomes, allocation facts).

C05 verdicts: model accept/reject ≠ implementation ⇒ `.diff`; a clobbered canary, a changed sibling field, a decoded
value that is not a value of the field's type, or an accepted pair the typing judgement `wt` rejects ⇒ `.oracle`.
C11 verdicts: a value that changed under collection/churn, a panic or a crash ⇒ `.oracle`; regenerated allocation
facts that fail `factOK` ⇒ `.diff` (proof-level break; the failing schedule, if any, comes from the `gc` cases). -/
namespace Avro.Drv
open Avro Sexp Avro.Alloc

/-- Go kinds the harness spells with atoms of its own -/
partial def normType : Sexp → Sexp
  | .atom "uintgo" => .list [.atom "uint", .atom "64"]
  | .atom "uintptr" => .list [.atom "uint", .atom "64"]
  | .atom "complex64" => .atom "complex"
  | .list xs => .list (xs.map normType)
  | x => x

def sibInt : Int := 0x5A5A5A5A5A5A5A5A
def sibBytes : Bytes := List.replicate 8 0x5A

/-- the destination the harness prepares: siblings pre-filled, field A zero -/
def holderDst (ty : GoType) : GoVal :=
  match zeroVal ty with
  | .struct [_, _, a, _] => .struct [.fixed sibBytes, .int sibInt, a, .fixed sibBytes]
  | v => v

def sibsOK : GoVal → Bool
  | .struct [.fixed p, .int s, _, .fixed q] => p == sibBytes && s == sibInt && q == sibBytes
  | _ => false

def outcomeClass {α} : Outcome α → String
  | .ok _ => "ok" | .err => "err" | .panic => "panic" | .stuck => "stuck" | .fuel => "fuel"

/-- judge one decode: `dst` is the prepared destination, `sibs` says whether sibling fields are to be checked -/
def judgeRead (cls : String) (ctx : String) (ty : GoType) (schema : Schema) (bytes : Bytes) (dst : GoVal) (sibs : Bool) (impl : Sexp) : Verdict :=
  let icls := implClass impl
  if icls == "clobber" then .oracle s!"bytes outside the destination struct were modified (canary clobbered): {impl}" else
  if impl.hasAtom "invalid-bool" then .oracle s!"a bool destination holds a byte other than 0 or 1 - not a value of the field's type: {impl}" else
  if icls == "overrun" then .oracle s!"a decoded slice is longer than its capacity: items were stored past the end of the backing array (len cap): {impl}" else
  match buildCodec regLib 200 schema (some ty) false with
  | .error e =>
    if icls == "builderr" then .ok s!"reject/{cls}" else
    -- the implementation built a decoder for a pair the model rejects
    match buildCodec regLib 200 schema (some (widenInts ty)) false with
    | .error _ =>
      .oracle s!"a decoder was built for a mismatched (schema, Go type) pair, which the property requires to be rejected at build time (model: {e}); decoding answered {icls}"
    | .ok wcodec =>
      -- only an integer width the model does not know: emulate it as the 64-bit codec plus the range check of the field's width
      let wdst := match dst, zeroVal (widenInts ty) with
        | .struct [p, s, _, q], .struct [_, _, a, _] => if sibs then .struct [p, s, a, q] else zeroVal (widenInts ty)
        | _, z => z
      let wm := read timeEnv bigFuel wcodec bytes wdst
      match impl, wm with
      | .list [.atom "ok", g, r], .ok (mg, mr) =>
        (match parseGoVal g, asNat r with
         | some ig, some ir =>
           if sibs && !sibsOK ig then .oracle s!"a sibling field not named in the schema changed: {renderGoVal ig}"
           else if !(HasType ig ty) then .oracle s!"decoded value is not a value of the destination type: {renderGoVal ig}"
           else if !(HasType mg ty) then .diff s!"an integer outside the field's range was accepted: model (64-bit) value {renderGoVal mg}"
           else if renderGoVal mg == renderGoVal ig ∧ mr.length == ir then .ok s!"ext-int-width/{ctx}/ok"
           else .diff s!"integer width unknown to the model; widened model read gives {renderGoVal mg}"
         | _, _ => .bad "impl value")
      | .list (.atom "err" :: _), .ok (mg, _) =>
        if HasType mg ty then .diff s!"integer width unknown to the model; a fitting value was rejected ({renderGoVal mg})"
        else .ok s!"ext-int-width/{ctx}/err"
      | .list (.atom "err" :: _), .err => .ok s!"ext-int-width/{ctx}/err"
      | _, _ => .diff s!"model: build error ({e}); implementation built a codec and answered {icls}"
  | .ok codec =>
    if icls == "builderr" then .diff "model builds a codec; implementation rejects the pair" else
    let aok := allocOK codec
    if aok && !(wt codec ty) then .oracle "the implementation accepted a (schema, Go type) pair that the typing judgement rejects" else
    let model := read timeEnv bigFuel codec bytes dst
    match impl with
    | .list [.atom "ok", g, r] =>
      match parseGoVal g, asNat r with
      | some ig, some ir =>
        if sibs && !sibsOK ig then .oracle s!"a sibling field not named in the schema changed: {renderGoVal ig}"
        else if !aok then .ok s!"nullelem/{ctx}"
        else if !(HasType ig ty) then .oracle s!"decoded value is not a value of the destination type: {renderGoVal ig}"
        else match model with
          | .ok (mg, mr) =>
            if renderGoVal mg == renderGoVal ig ∧ mr.length == ir then .ok s!"accept/{ctx}/ok"
            else .diff s!"model read gives {renderGoVal mg} rest {mr.length}"
          | o => .diff s!"model read: {outcomeClass o}; implementation decoded {renderGoVal ig}"
      | _, _ => .bad "impl value"
    | .list [.atom "err", g] =>
      match parseGoVal g with
      | some ig =>
        if sibs && !sibsOK ig then .oracle s!"a sibling field not named in the schema changed (on the error path): {renderGoVal ig}"
        else if !aok then .ok s!"nullelem/{ctx}"
        else match model with
          | .err => .ok s!"accept/{ctx}/err"
          | o => .diff s!"model read: {outcomeClass o}; implementation reports an error"
      | none => .bad "impl value"
    | .list (.atom "err" :: _) =>
      if !aok then .ok s!"nullelem/{ctx}" else
      match model with
      | .err => .ok s!"accept/{ctx}/err"
      | o => .diff s!"model read: {outcomeClass o}; implementation reports an error"
    | .list (.atom "panic" :: _) =>
      if !aok then
        .oracle s!"[D28 map-null-values] decoding into a map whose value schema is null panics at run time (MapCodec.Read passes the nil result of nullCodec.New to mapassign); the pair was accepted when the decoder was built: {impl}"
      else .oracle s!"decoding panicked for an accepted pair: {impl}"
    | other => .oracle s!"implementation outcome {other}"

def describeLeaf (r : LeafRow) : String :=
  s!"{r.schemaName}_x_{r.kind}[accepted={r.accepted},size={r.size},modified={r.lo}..{r.hi},outside={r.outside},panicked={r.panicked},crashed={r.crashed}]"

def c05 (op : String) (args : List Sexp) : Verdict :=
  match op, args with
  | "leaf", [impl] =>
    let t := Generated.leafTable
    let bad := t.filter fun r => !r.sound
    let dis := t.filter fun r => !leafAgrees r
    if !bad.isEmpty then
      .oracle ("accepted (schema type, Go kind) pairs whose decode modified bytes outside the field, panicked or crashed " ++
        "(C05.leaf_sound cannot hold): " ++ "; ".intercalate (bad.map describeLeaf) ++ s!" -- factgen: {impl}")
    else if !dis.isEmpty then
      .diff ("the model's buildCodec and the implementation's Schema.Codec disagree on accept/reject (C05.leaf_model_agrees cannot hold): " ++
        "; ".intercalate (dis.map describeLeaf))
    else
      match impl with
      | .list [.atom "factgen", _, _, .list (.atom "bad" :: (_ :: _))] =>
        .diff s!"Lean's LeafRow.sound holds on the regenerated table but factgen's own evaluation names rows: {impl}"
      | _ => .ok s!"leaf/rows{t.length}/accepted{(t.filter (·.accepted)).length}"
  | "tread", [.atom ctx, .atom sname, ty, s, bs, impl] =>
    match parseGoType (normType ty), parseSchema s, asBytes bs with
    | some ty, some s, some bs => judgeRead s!"{ctx}/{sname}" ctx ty s bs (holderDst ty) true impl
    | _, _, _ => .bad "parse"
  | "cread", [ty, s, bs, impl] =>
    match parseGoType (normType ty), parseSchema s, asBytes bs with
    | some ty, some s, some bs => judgeRead "deep" "deep" ty s bs (zeroVal ty) false impl
    | _, _, _ => .bad "parse"
  | "crashed-case", _ => .oracle "the harness process died while running this case (fatal error in the library)"
  | _, _ => .bad s!"unknown C05 op {op}"

/-! ### C11 -/

partial def typeFeatures : GoType → List String
  | .ptr e => "ptr" :: typeFeatures e
  | .slice e => "slice" :: typeFeatures e
  | .map _ v => "map" :: typeFeatures v
  | .struct _ _ fs => fs.flatMap fun f => typeFeatures f.type
  | .time => ["time"]
  | .nullT _ => ["nullT"]
  | _ => []

def describeFact (f : AllocFact) : String :=
  s!"{f.pkg}.{f.typ}.{f.method}[case_{f.guard}]_returns_{f.form}({f.arg};{f.init})"

def c11 (op : String) (args : List Sexp) : Verdict :=
  match op, args with
  | "facts", [impl] =>
    let fs := Generated.allocFacts
    let bad := fs.filter fun f => !factOK f
    if !bad.isEmpty then
      .diff ("allocation facts regenerated from the source that are not typed allocations of the expected shape (C11.alloc_facts_ok cannot hold): " ++
        "; ".intercalate (bad.map describeFact) ++ s!" -- factgen: {impl}")
    else if !factsComplete fs then .diff "the regenerated allocation facts miss a codec type's New method or resizeSlice (C11.alloc_facts_complete cannot hold)"
    else if !sliceHeaderOK Generated.layout_sliceHeader then .diff "sliceHeader no longer has the layout of a slice header (C11.slice_header_layout_ok cannot hold)"
    else if !mapiterOK Generated.layout_mapiter Generated.reflectMapIterSize then
      .diff s!"mapiter no longer covers the runtime's iterator (pointer prefix / size; reflect iterator state {Generated.reflectMapIterSize} bytes) (C11.mapiter_layout_ok cannot hold)"
    else .ok s!"facts/rows{fs.length}"
  | "gc", [.atom mode, ty, s, _bs, _bs2, impl] =>
    c11 "gc" [.atom mode, ty, s, _bs, impl]
  | "gc", [.atom mode, ty, s, _bs, impl] =>
    match parseGoType (normType ty), parseSchema s with
    | some ty, some s =>
      let built := buildCodec regLib 200 s (some ty) false
      match impl with
      | .list [.atom "ok", _] =>
        (match built with
         | .ok _ =>
           let fs := ["map", "ptr", "slice", "time", "nullT"].filter fun f => (typeFeatures ty).contains f
           .ok s!"gc/{mode}/{"+".intercalate fs}"
         | .error e => .diff s!"model: build error ({e}); implementation decoded")
      | .list [.atom "builderr"] =>
        (match built with
         | .ok _ => .diff "model builds a codec; implementation rejects the pair"
         | .error _ => .ok "trivial/both-builderr")
      | .list [.atom "decodeerr"] => .ok "trivial/decode-error"
      | .list [.atom "ok", _, .atom "no-stable-baseline"] => .ok "trivial/gc-encode/value-without-stable-baseline"
      | .list (.atom "changed" :: _) =>
        .oracle s!"a decoded value did not survive garbage collection and allocation churn ({mode}): {impl}"
      | .list (.atom "panic" :: _) => .oracle s!"panic under garbage-collection pressure ({mode}): {impl}"
      | other => .oracle s!"implementation outcome {other}"
    | _, _ => .bad "parse"
  | "crashed-case", _ =>
    .oracle "the harness process died under garbage-collection pressure (fatal runtime error: bad pointer / fault in reclaimed memory)"
  | _, _ => .bad s!"unknown C11 op {op}"

end Avro.Drv
