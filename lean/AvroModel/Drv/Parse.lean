import AvroModel.Drv.Sexp
import AvroModel.Sem
/-! S-expression parsers / printers for the model's data types (driver only; not part of proofs). -/
namespace Avro.Drv
open Avro Sexp

def asStr (x : Sexp) : Option String := do
  let bs ← asBytes x
  pure (String.fromUTF8! (ByteArray.mk bs.toArray))

def asBool : Sexp → Option Bool
  | .atom "true" => some true
  | .atom "false" => some false
  | _ => none

partial def parseGoType : Sexp → Option GoType
  | .atom "bool" => some .bool
  | .atom "f32" => some .float32
  | .atom "f64" => some .float64
  | .atom "complex" => some .complex
  | .atom "string" => some .string
  | .atom "time" => some .time
  | .atom "iface" => some .iface
  | .atom "chan" => some .chan
  | .atom "func" => some .func
  | .atom "unsafeptr" => some .unsafeptr
  | .list [.atom "ref", n] => do pure (.ref (← asStr n))
  | .list [.atom "int", w] => do
    let w ← asNat w
    pure (.int (if w == 0 then 64 else w))
  | .list [.atom "uint", w] => do pure (.uint (← asNat w))
  | .list [.atom "slice", t] => do pure (.slice (← parseGoType t))
  | .list [.atom "array", n, t] => do pure (.array (← asNat n) (← parseGoType t))
  | .list [.atom "map", k, v] => do pure (.map (← parseGoType k) (← parseGoType v))
  | .list [.atom "ptr", t] => do pure (.ptr (← parseGoType t))
  | .list [.atom "nullT", .atom k] =>
    match k with
    | "int" => some (.nullT .int) | "bool" => some (.nullT .bool) | "double" => some (.nullT .double)
    | "float" => some (.nullT .float) | "string" => some (.nullT .string) | "time" => some (.nullT .time)
    | _ => none
  | .list [.atom "custom", id, t] => do pure (.custom (← asNat id) (← parseGoType t))
  | .list (.atom "struct" :: name :: pkg :: fields) => do
    let fs ← fields.mapM fun f =>
      match f with
      | .list [.atom "field", n, e, j, b, t] => do
        pure (GoField.mk (← asStr n) (← asBool e) (← asStr j) (← asStr b) (← parseGoType t))
      | _ => none
    pure (.struct (← asStr name) (← asStr pkg) fs)
  | _ => none

partial def parseSchema : Sexp → Option Schema
  | .list [.atom "s", t, obj, .list (.atom "union" :: us)] => do
    let t ← asStr t
    let us ← us.mapM parseSchema
    let o ← match obj with
      | .atom "none" => some none
      | .list [.atom "o", ot, lt, nm, ns, .list (.atom "fields" :: fs), items, values, size, .list (.atom "symbols" :: syms)] => do
        let fs ← fs.mapM fun f =>
          match f with
          | .list [.atom "f", n, s] => do pure (SchemaField.mk (← asStr n) (← parseSchema s))
          | _ => none
        pure (some (SchemaObject.mk (← asStr ot) (← asStr lt) (← asStr nm) (← asStr ns) fs
          (← parseSchema items) (← parseSchema values) (← asInt size) (← syms.mapM asStr)))
      | _ => none
    pure (Schema.mk t o us)
  | _ => none

partial def parseGoVal : Sexp → Option GoVal
  | .atom "unit" => some .unit
  | .list (.atom "unsupported" :: _) => some .unit
  | .list [.atom "bool", b] => do pure (.bool (← asBool b))
  | .list [.atom "int", v] => do pure (.int (← asInt v))
  | .list [.atom "f32", b] => do pure (.f32 (← asNat b))
  | .list [.atom "f64", b] => do pure (.f64 (← asNat b))
  | .list [.atom "str", b] => do pure (.str (← asBytes b))
  | .list [.atom "bytes", b] => do pure (.bytes (← asBytes b))
  | .list [.atom "bytesnil", _] => some (.bytes [])
  | .list [.atom "fixed", b] => do pure (.fixed (← asBytes b))
  | .list (.atom "slice" :: xs) => do pure (.slice (← xs.mapM parseGoVal))
  | .list (.atom "slicenil" :: _) => some (.slice [])
  | .list (.atom "map" :: .atom nl :: es) => do
    let kvs ← es.mapM fun e =>
      match e with
      | .list [k, v] => do pure ((← asBytes k), (← parseGoVal v))
      | _ => none
    pure (.map (nl == "nil") (kvs.map (·.1)) (kvs.map (·.2)))
  | .list [.atom "ptr", .atom "none"] => some (.ptr none)
  | .list [.atom "ptr", v] => do pure (.ptr (some (← parseGoVal v)))
  | .list (.atom "struct" :: xs) => do pure (.struct (← xs.mapM parseGoVal))
  | .list [.atom "time", s, n, o] => do pure (.time { unix := (← asInt s), nsec := (← asNat n), off := (← asInt o) })
  | .list [.atom "nullw", v, x] => do pure (.nullw (← asBool v) (← parseGoVal x))
  | _ => none

partial def parseASchema : Sexp → Option ASchema
  | .atom "null" => some .null | .atom "boolean" => some .boolean | .atom "int" => some .int
  | .atom "long" => some .long | .atom "float" => some .float | .atom "double" => some .double
  | .atom "bytes" => some .bytes | .atom "string" => some .string
  | .list [.atom "fixed", n] => do pure (.fixed (← asNat n))
  | .list [.atom "enum", n] => do pure (.enum (← asNat n))
  | .list [.atom "record", .list ns, .list fs] => do pure (.record (← ns.mapM asStr) (← fs.mapM parseASchema))
  | .list [.atom "array", s] => do pure (.array (← parseASchema s))
  | .list [.atom "map", s] => do pure (.map (← parseASchema s))
  | .list (.atom "union" :: bs) => do pure (.union (← bs.mapM parseASchema))
  | _ => none

partial def parseValue : Sexp → Option Value
  | .atom "null" => some .null
  | .list [.atom "bool", b] => do pure (.bool (← asBool b))
  | .list [.atom "int", i] => do pure (.int (← asInt i))
  | .list [.atom "float", b] => do pure (.float (← asNat b))
  | .list [.atom "double", b] => do pure (.double (← asNat b))
  | .list [.atom "bytes", b] => do pure (.bytes (← asBytes b))
  | .list (.atom "record" :: vs) => do pure (.record (← vs.mapM parseValue))
  | .list (.atom "array" :: vs) => do pure (.array (← vs.mapM parseValue))
  | .list [.atom "map", .list ks, .list vs] => do pure (.map (← ks.mapM asBytes) (← vs.mapM parseValue))
  | .list [.atom "union", i, v] => do pure (.union (← asNat i) (← parseValue v))
  | _ => none

partial def parsePlan : Sexp → Option Plan
  | .list [.atom "p", .list bl, .list subs] => do
    let bl ← bl.mapM fun b =>
      match b with
      | .list [n, s] => do pure ((← asNat n), (← asBool s))
      | _ => none
    pure (.node bl (← subs.mapM parsePlan))
  | _ => none

/-! canonical forms for comparison -/

def insertSorted (k : Bytes) (v : GoVal) : List (Bytes × GoVal) → List (Bytes × GoVal)
  | [] => [(k, v)]
  | (k', v') :: r => if k.toArray.toList.map (·.toNat) ≤ k'.toArray.toList.map (·.toNat) then (k, v) :: (k', v') :: r else (k', v') :: insertSorted k v r

def isNaN32 (b : Nat) : Bool := (b / 2 ^ 23) % 256 == 255 && b % 2 ^ 23 != 0
def isNaN64 (b : Nat) : Bool := (b / 2 ^ 52) % 2048 == 2047 && b % 2 ^ 52 != 0

/-- canonical rendering: maps sorted by key, every NaN identified (payload propagation through
float32<->float64 conversion is hardware behaviour outside the properties) -/
partial def renderGoVal : GoVal → String
  | .unit => "unit"
  | .bool b => s!"(bool {b})"
  | .int v => s!"(int {v})"
  | .f32 b => if isNaN32 b then "(f32 nan)" else s!"(f32 {b})"
  | .f64 b => if isNaN64 b then "(f64 nan)" else s!"(f64 {b})"
  | .str b => s!"(str {bytesToHex b})"
  | .bytes b => s!"(bytes {bytesToHex b})"
  | .fixed b => s!"(fixed {bytesToHex b})"
  | .slice xs => "(slice " ++ " ".intercalate (xs.map renderGoVal) ++ ")"
  | .map nl ks vs =>
    let sorted := (ks.zip vs).foldl (fun acc kv => insertSorted kv.1 kv.2 acc) []
    "(map " ++ (if nl then "nil " else "nonnil ") ++ " ".intercalate (sorted.map fun kv => s!"({bytesToHex kv.1} {renderGoVal kv.2})") ++ ")"
  | .ptr none => "(ptr none)"
  | .ptr (some x) => s!"(ptr {renderGoVal x})"
  | .struct fs => "(struct " ++ " ".intercalate (fs.map renderGoVal) ++ ")"
  | .time t => s!"(time {t.unix} {t.nsec} {t.off})"
  | .nullw v x => s!"(nullw {v} {renderGoVal x})"
  | .opaque id r => s!"(opaque {id} {bytesToHex r})"

/-- the Env used by the driver: hardware float conversion via Lean's native floats; the time
functions are installed by `Drv/Time.lean` when available. -/
def widenBits (b : Nat) : Nat :=
  -- NaN: the conversion instruction keeps sign and payload and sets the quiet bit
  if isNaN32 b then (b / 2 ^ 31) * 2 ^ 63 + 0x7FF8000000000000 + (b % 2 ^ 22) * 2 ^ 29
  else (Float32.ofBits b.toUInt32).toFloat.toBits.toNat
def narrowBits (b : Nat) : Nat :=
  if isNaN64 b then (b / 2 ^ 63) * 2 ^ 31 + 0x7FC00000 + (b % 2 ^ 51) / 2 ^ 29
  else (Float.ofBits b.toUInt64).toFloat32.toBits.toNat

def floorDiv (a b : Int) : Int := Int.fdiv a b

def ofNanosImpl (n : Int) : TimeVal := { unix := Int.fdiv n 1000000000, nsec := (Int.fmod n 1000000000).toNat, off := 0 }
def ofDaysImpl (d : Int) : TimeVal := { unix := d * 86400, nsec := 0, off := 0 }

def noCustom : CustomCodec := { read := fun _ => none, skip := fun _ => none, write := fun _ => [], omits := fun _ => false, zero := .unit }

end Avro.Drv
