import AvroModel.Drv.Sexp
/-! Driver handlers for C17 cases. -/
namespace Avro.Drv
open Avro Sexp

private def restOk (rest : Bytes) (n : Nat) : Bool := rest.length == n

/-- `(varint-w v impl-hex)` -/
def c17 (op0 : String) (args : List Sexp) : Verdict :=
  let op := if op0 == "intk-rt" then "int-rt" else op0   -- Go kind `int` behaves as int64
  match op, args with
  | "varint-w", [v, impl] =>
    match asInt v, asBytes impl with
    | some v, some ib =>
      let mb := writeVarint v
      if mb == ib then .ok s!"varint-w/len{mb.length}" else .oracle s!"spec bytes {bytesToHex mb} impl {bytesToHex ib}"
    | _, _ => .bad "args"
  | "int-r", [w, bs, impl] =>
    match asNat w, asBytes bs with
    | some w, some bs =>
      let m := readInt w bs
      match m, impl with
      | .ok (v, rest), .list [.atom "ok", iv, irest] =>
        if asInt iv == some v && asNat irest == some rest.length then .ok s!"int-r/w{w}/ok"
        else .oracle s!"spec ok {v} rest {rest.length} impl {impl}"
      | .error e, .list (.atom "err" :: _) =>
        .ok (match e with | .range => s!"int-r/w{w}/range" | .varint .eof => s!"int-r/w{w}/eof" | .varint .overflow => s!"int-r/w{w}/overflow")
      | .ok (v, rest), _ => .oracle s!"spec ok {v} rest {rest.length} impl {impl}"
      | .error _, _ => .oracle s!"spec error, impl {impl}"
    | _, _ => .bad "args"
  | "int-s", [w, bs, impl] =>   -- Skip of the built integer codec: the same varint rules, no width check
    match asNat w, asBytes bs with
    | some w, some bs =>
      match readVarint bs, impl with
      | .ok (_, rest), .list [.atom "ok", irest] =>
        if asNat irest == some rest.length then .ok s!"int-s/w{w}/ok" else .oracle s!"skip: spec leaves {rest.length} bytes, impl {impl}"
      | .error e, .list (.atom "err" :: _) => .ok (match e with | .eof => s!"int-s/w{w}/eof" | .overflow => s!"int-s/w{w}/overflow")
      | .ok (_, rest), _ => .oracle s!"skip: spec ok rest {rest.length}, impl {impl}"
      | .error _, _ => .oracle s!"skip: a malformed varint (truncated, longer than ten bytes or overflowing 64 bits) was accepted: {impl}"
    | _, _ => .bad "args"
  | "int-rt", [w, v, impl] =>   -- write then read through a built codec
    match asNat w, asInt v with
    | some w, some v =>
      let bs := writeInt w v
      match readInt w bs, impl with
      | .ok (v', []), .list [.atom "ok", ib, iv] =>
        if asBytes ib == some bs && asInt iv == some v' && v' == v then .ok s!"int-rt/w{w}/len{bs.length}"
        else .oracle s!"spec bytes {bytesToHex bs} value {v'} impl {impl}"
      | _, _ => .oracle s!"spec round-trip ok, impl {impl}"
    | _, _ => .bad "args"
  | "f-w", [k, bits, impl] =>
    match asNat k, asNat bits, asBytes impl with
    | some k, some bits, some ib =>
      let mb := putLE k bits
      if mb == ib then .ok s!"f-w/{k}" else .oracle s!"spec {bytesToHex mb} impl {bytesToHex ib}"
    | _, _, _ => .bad "args"
  | "f-r", [k, bs, impl] =>
    match asNat k, asBytes bs with
    | some k, some bs =>
      match readFixedBits k bs, impl with
      | some (bits, rest), .list [.atom "ok", ibits, irest] =>
        if asNat ibits == some bits && asNat irest == some rest.length then .ok s!"f-r/{k}/ok"
        else .oracle s!"spec {bits} impl {impl}"
      | none, .list (.atom "err" :: _) => .ok s!"f-r/{k}/eof"
      | some (bits, _), _ => .oracle s!"spec ok {bits} impl {impl}"
      | none, _ => .oracle s!"spec eof impl {impl}"
    | _, _ => .bad "args"
  | "f32d-rt", [bits, nan, impl] =>   -- float32 carried as double: impl reports bytes written and value read back
    match asNat bits, asAtom nan, impl with
    | some bits, some nan, .list [.atom "ok", ib, iv] =>
      match asBytes ib, asNat iv with
      | some ib, some iv =>
        if ib.length != 8 then .oracle "double encoding is not 8 bytes"
        else if nan == "nan" then .ok "f32d-rt/nan"   -- NaN payload quieting is outside the property
        else if iv == bits then .ok "f32d-rt/exact" else .oracle s!"float32 {bits} read back as {iv}"
      | _, _ => .bad "impl"
    | _, _, _ => .bad "args"
  | "bool-w", [b, impl] =>
    match asAtom b, asBytes impl with
    | some b, some ib => if writeBool (b == "true") == ib then .ok "bool-w" else .oracle s!"impl {bytesToHex ib}"
    | _, _ => .bad "args"
  | "bool-r", [bs, impl] =>
    match asBytes bs with
    | some bs =>
      match readBool bs, impl with
      | some (b, rest), .list [.atom "ok", ib, irest] =>
        if asAtom ib == some (toString b) && asNat irest == some rest.length then .ok "bool-r/ok" else .oracle s!"spec {b} impl {impl}"
      | none, .list (.atom "err" :: _) => .ok "bool-r/eof"
      | _, _ => .oracle s!"impl {impl}"
    | none => .bad "args"
  | _, _ => .bad s!"unknown op {op}"

end Avro.Drv
