import AvroModel.Drv.Sexp
import AvroModel.Encoder
import AvroModel.Container
/-! Driver handlers for the encoder histories (`enc` cases): C09 (fault-free run) and C16 (faulty run). -/
namespace Avro.Drv
open Avro Sexp

structure EncCase where
  codec : String
  bs : Nat
  rectype : String
  k : Nat
  acc : Nat
  ops : List EncOp
  freeFailed : Option Nat
  freeWrites : List Bytes
  freeInfl : List (Option Bytes)
  faulty : Option (Option Nat × Bool × List Bytes × Option Bytes)

def parseOps (rectype : String) : List Sexp → Option (List EncOp)
  | [] => some []
  | .list [.atom "e", p] :: r => do
    let p ← asBytes p
    let rest ← parseOps rectype r
    -- record encoding: struct{B []byte} is a bytes datum; struct{} encodes to nothing
    let enc := if rectype == "e" then [] else writeVarint p.length ++ p
    pure (.encode enc :: rest)
  | .list [.atom "f"] :: r => do
    let rest ← parseOps rectype r
    pure (.flush :: rest)
  | _ => none

def parseFailed : Sexp → Option (Option Nat)
  | .atom "none" => some none
  | .atom s => s.toNat?.map some
  | _ => none

def parseOptBytes : Sexp → Option (Option Bytes)
  | .atom "none" => some none
  | x => (asBytes x).map some

def parseEnc (args : List Sexp) : Option EncCase :=
  match args with
  | [codec, bs, rt, k, acc, .list ops, .list (.atom "run" :: .list [.atom "free", ff, .list fw, .list fi] :: rest)] => do
    let codec ← asAtom codec
    let bs ← asNat bs
    let rt ← asAtom rt
    let k ← asNat k
    let acc ← asNat acc
    let ops ← parseOps rt ops
    let ff ← parseFailed ff
    let fw ← fw.mapM asBytes
    let fi ← fi.mapM parseOptBytes
    let faulty ← match rest with
      | [] => some none
      | [.list [.atom "faulty", lf, .atom wr, .list lw, part]] => do
        let lf ← parseFailed lf
        let lw ← lw.mapM asBytes
        let part ← parseOptBytes part
        pure (some (lf, wr == "true", lw, part))
      | _ => none
    pure { codec, bs, rectype := rt, k, acc, ops, freeFailed := ff, freeWrites := fw, freeInfl := fi, faulty }
  | _ => none

/-- compare the implementation's fault-free write log with the expected block structure -/
def checkBlocks (codec : String) (sync : Bytes) : List (List Bytes) → List Bytes → List (Option Bytes) → Option String
  | [], [], _ => none
  | [], _ :: _, _ => some "more writes than the reference partition has blocks"
  | blk :: blks, c1 :: c2 :: c3 :: c4 :: ws, _ :: _ :: i3 :: _ :: is =>
    if c1 != writeVarint blk.length then some s!"record count chunk {bytesToHex c1} for a block of {blk.length} records"
    else if c2 != writeVarint c3.length then some s!"size chunk {bytesToHex c2} but payload has {c3.length} bytes"
    else if (if codec == "null" then some c3 else i3) != some blk.flatten then some s!"payload of block does not hold the expected records"
    else if c4 != sync then some "block not followed by the header's sync marker"
    else checkBlocks codec sync blks ws is
  | _ :: _, _, _ => some "fewer writes than the reference partition requires"

def parseFwOps : List Sexp → Option (List FwOp)
  | [] => some []
  | .list [.atom "h"] :: r => (parseFwOps r).map (FwOp.header :: ·)
  | .list [.atom "bn", n, _size] :: r => do
    -- a large block whose bytes are not carried in the case: which call fails does not depend on them
    let n ← asNat n
    let rest ← parseFwOps r
    pure (.block n [] :: rest)
  | .list [.atom "b", n, d] :: r => do
    let n ← asNat n
    let d ← asBytes d
    let rest ← parseFwOps r
    pure (.block n d :: rest)
  | _ => none

/-- `(fwd codec k acc (ops…) (res failedCall|none writesAccepted wraps))`: the file writer driven directly. The sync marker
is random and the compressors are external, so the model is compared on WHICH call fails and how many writes were
accepted whole before it (both independent of the bytes written). -/
def fwdVerdict (args : List Sexp) : Verdict :=
  match args with
  | [.atom codec, k, acc, .list (.atom "ops" :: ops), impl] =>
    match asNat k, asNat acc, parseFwOps ops with
    | some k, some acc, some ops =>
      let cfg : EncCfg := { blockSize := 0, compress := id, sync := [0], header := [0] }
      let (w, failed) := fwRunFrom cfg ops 0 { failAt := k, accept := acc }
      match impl with
      | .list (.atom "panic" :: why) => .oracle s!"a FileWriter call panicked when write {k} failed: {why}"
      | .list (.atom "res" :: f :: n :: .atom wraps :: recorded) =>
        match parseFailed f, asNat n with
        | some implFailed, some implN =>
          if implFailed.isNone && wraps == "swallowed" then
            .oracle s!"the destination refused write {k} and every call returned nil (the model reports call {failed.getD 0})"
          else if failed.isSome && implFailed.isNone then
            .diff s!"model: write {k} is issued (by call {failed.getD 0}); the implementation issued fewer writes"
          else if implFailed.isSome && wraps != "true" then
            .oracle s!"write {k} failed and call {implFailed.getD 0} returned an error that does not wrap the writer's error"
          else if implFailed != failed then .diff s!"model: failing call {failed}, implementation {implFailed}"
          else if implN != w.log.length then .diff s!"model: {w.log.length} writes accepted whole, implementation {implN}"
          else
            -- a fault-free run also hands over what the destination recorded: the specification's block reader must read the
            -- bytes after the header as exactly the blocks written (C02b.direct_container_valid)
            match recorded with
            | [.list (.atom "writes" :: ws)] =>
              match ws.mapM asBytes with
              | some (hdr :: rest) =>
                let sync := hdr.drop (hdr.length - 16)
                let blocks := ops.filterMap fun o => match o with | .block r d => some (r, d) | .header => none
                match Spec.readBlocks sync (blocks.length + 1) rest.flatten with
                | none => .oracle s!"the specification's block reader rejects what WriteHeader / WriteBlock {blocks.map (·.1)} wrote"
                | some bl =>
                  if bl.map (·.count) != blocks.map (fun b => (b.1 : Int)) then
                    .oracle s!"declared record counts {bl.map (·.count)} differ from the row counts passed to WriteBlock {blocks.map (·.1)}"
                  else if codec == "null" && bl.map (·.payload) != blocks.map (·.2) then
                    .oracle "a block payload differs from the bytes passed to WriteBlock (null codec)"
                  else .ok s!"fwd/{codec}/fault-free/container-valid"
              | _ => .bad "fwd writes"
            | _ => .ok s!"fwd/{codec}/{if failed.isSome then "fails" else "no-fault-reached"}"
        | _, _ => .bad "fwd outcome"
      | _ => .bad "fwd outcome"
    | _, _, _ => .bad "parse"
  | _ => .bad "parse"

def c09 (op : String) (args : List Sexp) : Verdict :=
  if op == "fwd" then fwdVerdict args else
  if op == "enc-scenario" then
    (match args with
     | [.atom name, .atom codec, .list [.atom "ok"]] => .ok s!"scenario/{name}/{codec}"
     | [.atom name, _, .list (.atom "violated" :: why)] => .oracle s!"{name}: {why}"
     | _ => .oracle s!"scenario outcome {args}")
  else
  if op != "enc" then .bad s!"unknown op {op}" else
  match args.getLast? with
  | some (.list (.atom "panic" :: why)) => .oracle s!"an Encode / Flush call panicked: {why}"
  | _ =>
  match parseEnc args with
  | none => .bad "parse"
  | some c =>
    if c.k != 0 then .ok "trivial/faulty-case" else
    match c.freeWrites, c.freeInfl with
    | [], _ => .oracle "no header written"
    | hdr :: ws, _ :: is =>
      match Spec.readHeader hdr with
      | none => .oracle "first write is not a well-formed container header"
      | some (h, rest) =>
        if rest != [] then .oracle "bytes after the sync marker in the header write" else
        if h.lookup (Spec.str "avro.codec") != some (Spec.str c.codec) then .oracle "avro.codec metadata does not name the configured codec" else
        if (h.lookup (Spec.str "avro.schema")).isNone then .oracle "no avro.schema in header" else
        if c.freeFailed.isSome then .oracle "a call failed although the writer never failed" else
        -- model run (compression abstracted: chunk *structure* is what the model predicts)
        let cfg : EncCfg := { blockSize := c.bs, compress := id, sync := h.sync, header := hdr }
        let (st, w, failed) := encRun cfg {} c.ops
        let spec := specPart c.bs c.ops []
        let modelBlocks := w.log.drop 1
        if failed.isSome then .bad "model run failed" else
        if modelBlocks.length != 4 * spec.1.length then .bad "model/spec block count mismatch" else
        if st.count != spec.2.length then .bad "model/spec pending mismatch" else
        if modelBlocks.length != ws.length then
          -- the reference partition (written from the property statement) fixes the number of blocks
          .oracle s!"the reference partition has {spec.1.length} blocks ({modelBlocks.length} writes), the encoder issued {ws.length} block writes"
        else match checkBlocks c.codec h.sync spec.1 ws is with
          | some e => .oracle e
          | none => .ok s!"enc/{c.codec}/blocks{min spec.1.length 5}/pending{min spec.2.length 2}"
    | _, _ => .bad "inflate list"

def replaceSync (a b : Bytes) (isHeader : Bool) (chunk : Bytes) : Bytes :=
  if isHeader then chunk.take (chunk.length - 16) ++ b
  else if chunk == a then b else chunk

def scenarioVerdict (args : List Sexp) : Verdict :=
  match args with
  | [.atom name, .atom codec, .list [.atom "ok"]] => .ok s!"scenario/{name}/{codec}"
  | [.atom name, _, .list (.atom "violated" :: why)] => .oracle s!"{name}: {why}"
  | _ => .oracle s!"scenario outcome {args}"

def c16 (op : String) (args : List Sexp) : Verdict :=
  if op == "enc-scenario" then scenarioVerdict args else
  if op == "fwd" then fwdVerdict args else
  if op != "enc" then .bad s!"unknown op {op}" else
  match args.getLast? with
  | some (.list (.atom "panic" :: why)) => .oracle s!"an Encode / Flush call panicked: {why}"
  | _ =>
  match parseEnc args with
  | none => .bad "parse"
  | some c =>
    match c.faulty with
    | none => .ok "trivial/fault-free-case"
    | some (lf, wraps, lw, part) =>
      match c.freeWrites with
      | [] => .oracle "no header written in the fault-free run"
      | hdr :: _ =>
        let syncA := hdr.drop (hdr.length - 16)
        let cfg : EncCfg := { blockSize := c.bs, compress := id, sync := syncA, header := hdr }
        let (_, _, mfailed) := encRun cfg { failAt := c.k, accept := c.acc } c.ops
        let total := c.freeWrites.length
        -- oracle 1: the call that triggered write k fails, with an error wrapping the writer's; earlier calls succeed
        if c.k ≤ total then
          match lf with
          | none => .oracle s!"write {c.k} failed but every call returned nil"
          | some i =>
            if !wraps then .oracle s!"call {i} returned an error that does not wrap the writer's error" else
            if mfailed != some i then
              (if mfailed.isNone then .diff "model: no call fails" else .oracle s!"error surfaced from call {i}, but write {c.k} is issued by call {mfailed.getD 0}")
            else
            -- oracle 2: accepted bytes are a prefix of the fault-free output with the same sync marker
            if lw.length != c.k - 1 then .oracle s!"{lw.length} writes succeeded before failing write {c.k}" else
            let syncB := match lw with | h :: _ => h.drop (h.length - 16) | [] => syncA
            let expect := (c.freeWrites.take (c.k - 1)).zipIdx.map fun (ch, j) => replaceSync syncA syncB (j == 0) ch
            if lw != expect then .oracle "writes accepted before the failure differ from the fault-free run" else
            let failing := (c.freeWrites.drop (c.k - 1)).headD []
            let failing' := if c.k == 1 then failing.take (failing.length - 16) else replaceSync syncA syncB false failing
            match part with
            | none => .oracle "failing write not observed"
            | some p =>
              let p' := if c.k == 1 then p.take (failing.length - 16) else p
              if p'.length ≤ failing'.length ∧ failing'.take p'.length == p' then .ok s!"enc-fault/{c.codec}/k{min c.k 9}/acc{if c.acc == 0 then "0" else if p.length == failing.length then "all" else "some"}"
              else .oracle "bytes accepted by the failing write are not a prefix of the fault-free chunk"
        else
          -- k beyond the number of writes: nothing fails
          match lf with
          | none => if mfailed.isNone then .ok "trivial/enc-fault/k-beyond" else .diff "model fails, implementation does not"
          | some i => .oracle s!"call {i} failed although write {c.k} is never issued"

end Avro.Drv
