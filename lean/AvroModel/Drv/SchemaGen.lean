import AvroModel.Drv.Parse
import AvroModel.Drv.CodecDrv
import AvroModel.Drv.Time
import AvroModel.SchemaGen
/-!
Driver handlers for C15 (schema generation) and C20 (registered custom codecs).

Every case is judged twice: the *model* (`schemaForType`, `buildCodec`, `write`/`read`) must agree
with the implementation (otherwise `.diff`), and an independent *specification oracle* written here
from the property text and the Avro specification must accept the implementation's outcome
(otherwise `.oracle`). The oracle shares no definition with `SchemaGen.lean`: it has its own reading
of struct tags (`String.splitOn`), its own registry lookup (last `rs` entry of the history) and is a
*relation* between a Go type and a schema (`conforms`), not a generator.
-/
namespace Avro.Drv
open Avro Sexp

/-! ### rendering (schemas have no decidable equality: compare renderings) -/

partial def renderSchema : Schema → String
  | .mk t o u =>
    let os := match o with
      | none => "none"
      | some (.mk ot lt nm ns fs items values size syms) =>
        s!"(o {repr ot} {repr lt} {repr nm} {repr ns} (" ++
          " ".intercalate (fs.map fun (f : SchemaField) => s!"({repr f.name} {renderSchema f.type})") ++
          s!") {renderSchema items} {renderSchema values} {size} {repr syms})"
    s!"(s {repr t} {os} [" ++ " ".intercalate (u.map renderSchema) ++ "])"

/-! ### the specification oracle -/

structure Spec where
  env : List (String × GoType)
  /-- `RegisterSchema` calls of the case in call order -/
  history : List (Nat × Schema)

def specPrim (t : String) : Schema := .mk t none []
def specNullable (s : Schema) : Schema := .mk "union" none [specPrim "null", s]

/-- the registered schema of a type: the library's documented registrations, and for a custom type
the most recent `RegisterSchema` call -/
def Spec.registered (sp : Spec) : GoType → Option Schema
  | .time => some (specNullable (specPrim "string"))
  | .nullT .int => some (specNullable (specPrim "long"))
  | .nullT .bool => some (specNullable (specPrim "boolean"))
  | .nullT .double | .nullT .float => some (specNullable (specPrim "double"))
  | .nullT .string | .nullT .time => some (specNullable (specPrim "string"))
  | .custom id _ => (sp.history.reverse.find? (·.1 == id)).map (·.2)
  | _ => none

def specTagParts (tag : String) : List String := tag.splitOn ","

/-- the JSON name of a field, `none` when the field is excluded -/
def specFieldName (f : GoField) : Option String :=
  if !f.exported || f.bqTag == "-" then none
  else
    match specTagParts f.jsonTag with
    | n :: _ => if n == "-" then none else if n == "" then some f.name else some n
    | [] => some f.name

def specOmitEmpty (f : GoField) : Bool := ((specTagParts f.jsonTag).drop 1).contains "omitempty"

def specNamespace (pkg : String) : String := (pkg.replace "/" ".").replace "-" "_"

def specUnder : GoType → GoType
  | .custom _ u => u
  | t => t

def specIsByte (e : GoType) : Bool := match specUnder e with | .uint 8 => true | _ => false
def specIsString (k : GoType) : Bool := match specUnder k with | .string => true | _ => false

/-- can the type be expressed at all: no unsupported kind and no type that contains itself in a
position that is part of the schema. Map keys must be strings unless `lenientKeys`. -/
partial def expressible (sp : Spec) (lenientKeys : Bool) (t : GoType) : Bool :=
  match sp.registered t with
  | some _ => true
  | none =>
    match specUnder t with
    | .bool | .int _ | .float32 | .float64 | .string => true
    | .slice e | .array _ e => specIsByte e || expressible sp lenientKeys e
    | .map k v => (lenientKeys || specIsString k) && expressible sp lenientKeys v
    | .ptr e => expressible sp lenientKeys e
    | .struct _ _ fs => fs.all fun f => (specFieldName f).isNone || expressible sp lenientKeys f.type
    | _ => false

def isPrimS (s : Schema) (t : String) : Bool :=
  match s with
  | .mk t' none [] => t' == t
  | _ => false

def nullFirst (s : Schema) : Option Schema :=
  match s with
  | .mk "union" none [a, x] => if isPrimS a "null" then some x else none
  | _ => none

def plainObject (o : SchemaObject) : Bool :=
  o.type == "" && o.logicalType == "" && o.size == 0 && o.symbols.isEmpty

mutual
/-- the documented mapping, as a relation between a Go type and a schema -/
partial def conforms (sp : Spec) (t : GoType) (s : Schema) : Bool :=
  match sp.registered t with
  | some r => renderSchema r == renderSchema s
  | none =>
    match specUnder t with
    | .bool => isPrimS s "boolean"
    | .int _ => isPrimS s "long"
    | .float32 | .float64 => isPrimS s "double"
    | .string => isPrimS s "string"
    | .slice e | .array _ e =>
      if specIsByte e then isPrimS s "bytes"
      else
        match s with
        | .mk "array" (some o) [] => plainObject o && o.name == "" && o.fields.isEmpty && conforms sp e o.items
        | _ => false
    | .map _ v =>
      match s with
      | .mk "map" (some o) [] => plainObject o && o.name == "" && o.fields.isEmpty && conforms sp v o.values
      | _ => false
    | .ptr e =>
      if s.type == "union" then
        (match nullFirst s with
          | some x => x.type != "union" && x.type != "array" && x.type != "map" && x.type != "null" && conforms sp e x
          | none => false)
        || conforms sp e s
      else (s.type == "array" || s.type == "map") && conforms sp e s
    | .struct name pkg fs =>
      match s with
      | .mk "record" (some o) [] =>
        plainObject o && o.name == name && o.nspace == specNamespace pkg &&
          conformsFields sp (fs.filter fun f => (specFieldName f).isSome) o.fields
      | _ => false
    | _ => false

partial def conformsFields (sp : Spec) : List GoField → List SchemaField → Bool
  | [], [] => true
  | f :: fs, sf :: sfs =>
    specFieldName f == some sf.name &&
    (if specOmitEmpty f then
      (match nullFirst sf.type with
        | some x => x.type != "union" && x.type != "null" && conforms sp f.type x
        | none => false)
      || (sf.type.type == "union" && conforms sp f.type sf.type)
     else conforms sp f.type sf.type) &&
    conformsFields sp fs sfs
  | _, _ => false
end

def hasDup (xs : List String) : Option String :=
  match xs with
  | [] => none
  | x :: r => if r.contains x then some x else hasDup r

def branchKind (s : Schema) : String :=
  if s.type == "record" || s.type == "enum" || s.type == "fixed" then
    match s.object with
    | some o => s!"{s.type}:{o.nspace}.{o.name}"
    | none => s.type
  else s.type

/-- Avro: "Unions may not immediately contain other unions" and "may not contain more than one schema
with the same type, except for the named types" -/
partial def unionFault (s : Schema) (inUnion : Bool) : Option String :=
  let sub : List (Schema × Bool) :=
    if s.type == "union" then s.union.map (·, true)
    else match s.object with
      | some o => (o.fields.map (·.type, false)) ++ [(o.items, false), (o.values, false)]
      | none => []
  if s.type == "union" && inUnion then some "a union directly inside a union"
  else
    match (if s.type == "union" then hasDup (s.union.map branchKind) else none) with
    | some k => some s!"union repeats the branch {k}"
    | none => sub.findSome? fun (x, u) => if x.type == "" then none else unionFault x u

/-- record definitions with a name (anonymous Go structs give the empty name and are not counted) -/
partial def namedDefs (s : Schema) : List String :=
  let here := match s.type, s.object with
    | "record", some o => if o.name == "" then [] else [s!"{o.nspace}.{o.name}"]
    | _, _ => []
  let sub := match s.object with
    | some o => (o.fields.flatMap fun f => namedDefs f.type) ++ (if o.items.type == "" then [] else namedDefs o.items) ++
        (if o.values.type == "" then [] else namedDefs o.values)
    | none => []
  here ++ sub ++ s.union.flatMap namedDefs

partial def dupFieldFault (s : Schema) : Option String :=
  let here := match s.type, s.object with
    | "record", some o => (hasDup (o.fields.map SchemaField.name)).map fun n => s!"record {o.name} has two fields named {n}"
    | _, _ => none
  match here with
  | some e => some e
  | none =>
    let subs := (match s.object with
      | some o => o.fields.map SchemaField.type ++ [o.items, o.values]
      | none => []) ++ s.union
    subs.findSome? fun (x : Schema) => if x.type == "" then none else dupFieldFault x

/-! hypotheses of the `_partial` theorems, evaluated on the type (to justify skipping a known finding) -/

/-- names defined by the parts of the type tree that schema generation expands -/
partial def expandedNames (sp : Spec) (t : GoType) : List String :=
  match sp.registered t with
  | some r => namedDefs r
  | none =>
    match specUnder t with
    | .slice e | .array _ e | .ptr e => expandedNames sp e
    | .map _ v => expandedNames sp v
    | .struct name pkg fs =>
      (if name == "" then [] else [s!"{specNamespace pkg}.{name}"]) ++
        fs.flatMap fun f => if (specFieldName f).isNone then [] else expandedNames sp f.type
    | _ => []

partial def dupJsonIn (sp : Spec) (t : GoType) : Bool :=
  match sp.registered t with
  | some _ => false
  | none =>
    match specUnder t with
    | .slice e | .array _ e | .ptr e => dupJsonIn sp e
    | .map _ v => dupJsonIn sp v
    | .struct _ _ fs =>
      (hasDup (fs.filterMap specFieldName)).isSome ||
        fs.any fun f => (specFieldName f).isSome && dupJsonIn sp f.type
    | _ => false

partial def containsRef : GoType → Bool
  | .ref _ => true
  | .slice e | .array _ e | .ptr e | .custom _ e => containsRef e
  | .map k v => containsRef k || containsRef v
  | .struct _ _ fs => fs.any fun f => containsRef f.type
  | _ => false

partial def containsReg (sp : Spec) : GoType → Bool
  | .time | .nullT _ => true
  | .custom id e => (sp.history.any (·.1 == id)) || containsReg sp e
  | .slice e | .array _ e | .ptr e => containsReg sp e
  | .map k v => containsReg sp k || containsReg sp v
  | .struct _ _ fs => fs.any fun f => containsReg sp f.type
  | _ => false

partial def containsPtr : GoType → Bool
  | .ptr _ => true
  | .slice e | .array _ e | .custom _ e => containsPtr e
  | .map k v => containsPtr k || containsPtr v
  | .struct _ _ fs => fs.any fun f => containsPtr f.type
  | _ => false

partial def containsOmit : GoType → Bool
  | .slice e | .array _ e | .custom _ e | .ptr e => containsOmit e
  | .map k v => containsOmit k || containsOmit v
  | .struct _ _ fs => fs.any fun f => specOmitEmpty f || containsOmit f.type
  | _ => false

partial def typeDepth : GoType → Nat
  | .slice e | .array _ e | .custom _ e | .ptr e => typeDepth e + 1
  | .map k v => max (typeDepth k) (typeDepth v) + 1
  | .struct _ _ fs => fs.foldl (fun m f => max m (typeDepth f.type)) 0 + 1
  | _ => 0

/-! ### parsing of cases -/

structure SgCase where
  ty : GoType
  envL : List (String × GoType)
  sreg : SReg
  reg : Reg
  history : List (Nat × Schema)
  lastInst : List (Nat × Nat)        -- custom id ↦ instance of the most recent `Register` call
  lastAcc : List (Nat × String)      -- custom id ↦ schema type the most recent builder accepts
  except : List String

def SgCase.env (c : SgCase) : TEnv := fun n => (c.envL.find? (·.1 == n)).map (·.2)
def SgCase.spec (c : SgCase) : Spec := { env := c.envL, history := c.history }

def parseEnv : Sexp → Option (List (String × GoType))
  | .list (.atom "env" :: es) => es.mapM fun e =>
      match e with
      | .list [k, t] => do pure ((← asStr k), (← parseGoType t))
      | _ => none
  | _ => none

structure Regs where
  sreg : SReg := SReg.empty
  reg : Reg := regLib
  history : List (Nat × Schema) := []
  lastInst : List (Nat × Nat) := []
  lastAcc : List (Nat × String) := []
  userTime : Bool := false   -- a user registration for time.Time is in force (not modelled: never at the end of a history)

def parseRegs : Sexp → Option Regs
  | .list (.atom "regs" :: es) =>
    es.foldlM (init := ({} : Regs)) fun r e =>
      match e with
      | .list [.atom "rs", id, s] => do
        let id ← asNat id
        let s ← parseSchema s
        pure { r with sreg := r.sreg.register id s, history := r.history ++ [(id, s)] }
      | .list [.atom "rc", id, inst, acc] => do
        let id ← asNat id
        let inst ← asNat inst
        let acc ← asStr acc
        pure { r with reg := r.reg.register id (fun s => s.type == acc),
                      lastInst := (id, inst) :: r.lastInst.filter (·.1 != id),
                      lastAcc := (id, acc) :: r.lastAcc.filter (·.1 != id) }
      -- a user registration for time.Time is only generated directly before a library re-registration:
      -- together they leave the library's own codec and schema in force (the most recent registration wins)
      | .list [.atom "usertime"] => pure { r with userTime := true }
      | .list [.atom "usernullint"] => pure { r with userTime := true }
      | .list [.atom "lib", _] => pure { r with userTime := false }
      | _ => none
  | _ => none

def parseExcept : Sexp → Option (List String)
  | .list (.atom "except" :: ms) => ms.mapM asAtom
  | _ => none

def parseSg (t env regs ex : Sexp) : Option SgCase := do
  let r ← parseRegs regs
  if r.userTime then none
  pure { ty := (← parseGoType t), envL := (← parseEnv env), sreg := r.sreg, reg := r.reg,
         history := r.history, lastInst := r.lastInst, lastAcc := r.lastAcc, except := (← parseExcept ex) }

def sgFuel : Nat := 4000

def showGen : Gen Schema → String
  | .ok s => "ok " ++ renderSchema s
  | .err => "err"
  | .overflow => "overflow"

/-- which of the known findings apply to this type (hypothesis of the `_partial` theorem fails) -/
def knownApplies (c : SgCase) (k : String) : Bool :=
  let sp := c.spec
  match k with
  | "dup-named-struct" => (hasDup (expandedNames sp c.ty)).isSome
  | "dup-json-name" => dupJsonIn sp c.ty
  | _ => false

/-- the oracle's verdict on a successfully generated schema, minus the checks in `skip` -/
def schemaFaults (c : SgCase) (s : Schema) (skip : List String) : Option String :=
  let sp := c.spec
  if !conforms sp c.ty s then some "the schema does not follow the documented mapping for this type"
  else
    match unionFault s false with
    | some e => some e
    | none =>
      match (if skip.contains "dup-named-struct" then none else hasDup (namedDefs s)) with
      | some n => some s!"named type {n} is defined more than once"
      | none => if skip.contains "dup-json-name" then none else dupFieldFault s

def featureClass (c : SgCase) : String :=
  let sp := c.spec
  s!"d{min (typeDepth c.ty) 6}" ++ (if containsReg sp c.ty then "+reg" else "") ++ (if containsPtr c.ty then "+ptr" else "") ++
    (if containsOmit c.ty then "+omit" else "")

def implCodec : Sexp → Option String
  | .list [.atom "codec", .atom r] => some r
  | .list [.atom "codec", .list (.atom "panic" :: _)] => some "panic"
  | _ => none

/-- C15, one generated type: `(sgen SRC T ENV REGS EXCEPT impl)` -/
def sgenVerdict (c : SgCase) (impl : Sexp) : Verdict :=
  let sp := c.spec
  let skip := c.except.filter (knownApplies c)
  let lenient := false
  let model := schemaForItem c.sreg c.env sgFuel c.ty
  let canExpress := expressible sp lenient c.ty
  match impl with
  | .list [.atom "crash"] | .list [.atom "hang"] =>
    .oracle "schema generation does not return (fatal stack overflow): not total"
  | .list (.atom "panic" :: _) => .oracle s!"schema generation panics: {impl}"
  | .list (.atom "nondet" :: _) => .oracle s!"schema generation is not a function of the type: {impl}"
  | .list [.atom "err"] =>
    if canExpress then .oracle "an error for a type the documented mapping can express"
    else
      match model with
      | .err => .ok s!"sgen/err/{if containsRef c.ty then "self-referential" else "unsupported-kind"}/{featureClass c}"
      | m => .diff s!"model: {showGen m}"
  | .list [.atom "ok", sx, cx] =>
    match parseSchema sx, implCodec cx with
    | some s, some cres =>
      if !canExpress then
        .oracle s!"a schema was generated for a type that cannot be expressed ({if containsRef c.ty then "contains itself" else "unsupported kind or map key"})"
      else
        match schemaFaults c s skip with
        | some e => .oracle e
        | none =>
          if cres == "panic" then .oracle "Schema.Codec panics on the generated schema"
          else
            match model with
            | .ok ms =>
              if renderSchema ms != renderSchema s then .diff s!"model schema {renderSchema ms}"
              else
                let mc := buildCodec c.reg 400 ms (some c.ty) false
                match mc, cres with
                | .ok _, "ok" => .ok s!"sgen/ok/codec-built/{featureClass c}"
                | .error _, "builderr" => .ok s!"sgen/ok/codec-refused/{featureClass c}"
                | .ok _, _ => .diff "model builds a codec for the generated schema, the implementation refuses"
                | .error e, _ => .diff s!"model refuses the codec ({e}), the implementation builds one"
            | m => .diff s!"model: {showGen m}"
    | _, _ => .bad "implementation outcome"
  | _ => .bad "implementation outcome"

/-- the twin line of a known finding: only that finding is judged here -/
def sgenKnownVerdict (c : SgCase) (k : String) (impl : Sexp) : Verdict :=
  if !knownApplies c k then .ok s!"trivial/known-check/{k}/not-applicable"
  else
    match impl with
    | .list [.atom "ok", sx, _] =>
      match parseSchema sx with
      | none => .bad "implementation schema"
      | some s =>
        match k with
        | "dup-named-struct" =>
          match hasDup (namedDefs s) with
          | some n => .oracle s!"named type {n} is defined more than once"
          | none => .ok s!"known-check/{k}/holds"
        | "dup-json-name" =>
          match dupFieldFault s with
          | some e => .oracle e
          | none => .ok s!"known-check/{k}/holds"
        | _ => .bad "unknown tag"
    | _ => .ok s!"known-check/{k}/no-schema"

def c15 (op : String) (args : List Sexp) : Verdict :=
  match op, args with
  | "sgen", [_, t, env, regs, ex, impl] =>
    match parseSg t env regs ex with
    | some c => sgenVerdict c impl
    | none => .bad "parse"
  | "sgen-known", [.list [.atom "tag", .atom k], _, t, env, regs, ex, impl] =>
    match parseSg t env regs ex with
    | some c => sgenKnownVerdict c k impl
    | none => .bad "parse"
  | "crashed-case", _ => .oracle "the harness process died while running this case (fatal error in the library)"
  | _, _ => .bad s!"unknown op {op}"

/-! ### C20 -/

def le4 (v : Int) : Bytes :=
  let n := (v % 4294967296).toNat
  [(n % 256).toUInt8, (n / 256 % 256).toUInt8, (n / 65536 % 256).toUInt8, (n / 16777216 % 256).toUInt8]

def ofLe4 : Bytes → Option (List GoVal)
  | [] => some []
  | a :: b :: c :: d :: r => do
    let n := a.toNat + 256 * b.toNat + 65536 * c.toNat + 16777216 * d.toNat
    let v : Int := if n ≥ 2147483648 then (n : Int) - 4294967296 else n
    pure (.int v :: (← ofLe4 r))
  | _ => none

def customZero (v : GoVal) : Bool :=
  match v with
  | .int 0 => true
  | .str [] => true
  | .struct [.int 0, .str []] => true
  | .slice [] => true
  | _ => false

def rdLenBytes (bs : Bytes) : Option (Bytes × Bytes) :=
  match readVarint bs with
  | .ok (l, rest) => if l < 0 ∨ l > rest.length then none else some (rest.take l.toNat, rest.drop l.toNat)
  | .error _ => none

def splitColon : Bytes → Option (Bytes × Bytes)
  | [] => none
  | b :: r => if b == 58 then some ([], r) else (splitColon r).map fun (x, y) => (b :: x, y)

/-- the instrumented codecs of the harness (sgen.go `sgCodec`), by wire kind -/
def sgCustomCodec (kind : String) : CustomCodec :=
  { write := fun v =>
      match v with
      | .int x => writeVarint x
      | .str b => encLen b
      | .struct [.int a, .str b] => encLen ((toString a).toUTF8.toList ++ [58] ++ b)
      | .slice xs => encLen (xs.flatMap fun x => match x with | .int i => le4 i | _ => [])
      | _ => []
    omits := customZero
    zero := match kind with
      | "long" => .int 0 | "str" => .str [] | "struct" => .struct [.int 0, .str []] | _ => .slice []
    read := fun bs =>
      match kind with
      | "long" => match readVarint bs with | .ok (v, r) => some (.int v, r) | .error _ => none
      | "str" => (rdLenBytes bs).map fun (b, r) => (.str b, r)
      | "struct" => do
        let (b, r) ← rdLenBytes bs
        let (a, s) ← splitColon b
        let n ← (String.fromUTF8! (ByteArray.mk a.toArray)).toInt?
        pure (.struct [.int n, .str s], r)
      | _ => do
        let (b, r) ← rdLenBytes bs
        pure (.slice (← ofLe4 b), r)
    skip := fun bs =>
      match kind with
      | "long" => match readVarint bs with | .ok (_, r) => some r | .error _ => none
      | _ => (rdLenBytes bs).map (·.2) }

partial def customKinds : GoType → List (Nat × String)
  | .custom id u =>
    [(id, match u with | .int _ => "long" | .string => "str" | .struct _ _ _ => "struct" | _ => "slice")]
  | .slice e | .array _ e | .ptr e => customKinds e
  | .map k v => customKinds k ++ customKinds v
  | .struct _ _ fs => fs.flatMap fun f => customKinds f.type
  | _ => []

def sgEnv (kinds : List (Nat × String)) : Env :=
  { timeEnv with
    custom := fun id => sgCustomCodec ((kinds.find? (·.1 == id)).map (·.2) |>.getD "long") }

/-- occurrences of registered custom types that the writer must hand to their codec, in order.
A zero value directly in a nullable position (an `omitempty` field, or a type whose registered schema
is itself a nullable union) is written as the null branch without calling the codec's `Write`;
behind a non-nil pointer the value is always written. -/
partial def writtenOccurrences (sp : Spec) (hasCodec : Nat → Bool) (t : GoType) (v : GoVal) (nullablePos : Bool) : List Nat :=
  match t, v with
  | .custom id u, v =>
    if hasCodec id then
      let rsNullable := match sp.registered t with
        | some r => r.type == "union"
        | none => false
      if (nullablePos || rsNullable) && customZero v then [] else [id]
    else writtenOccurrences sp hasCodec u v nullablePos
  | .ptr _, .ptr none => []
  | .ptr e, .ptr (some x) =>
    match e with
    | .ptr _ => writtenOccurrences sp hasCodec e x false
    | .custom id _ => if hasCodec id then [id] else writtenOccurrences sp hasCodec e x false
    | _ => writtenOccurrences sp hasCodec e x false
  | .slice e, .slice xs => xs.flatMap fun x => writtenOccurrences sp hasCodec e x false
  | .map _ e, .map _ _ xs => xs.flatMap fun x => writtenOccurrences sp hasCodec e x false
  | .struct _ _ fs, .struct vs =>
    (fs.zip vs).flatMap fun (f, x) =>
      if (specFieldName f).isNone then [] else writtenOccurrences sp hasCodec f.type x (specOmitEmpty f)
  | _, _ => []

/-- nil and empty collections are identified, and an empty non-nil map equals a nil map. With
`lenientNull` (known finding) a pointer to an invalid `null.*` value is identified with a pointer to the
valid zero value. -/
partial def normVal (lenientNull : Bool) : GoVal → GoVal
  | .slice xs => .slice (xs.map (normVal lenientNull))
  | .map _ ks vs => .map ks.isEmpty ks (vs.map (normVal lenientNull))
  | .ptr (some (.nullw valid x)) => .ptr (some (.nullw (valid || lenientNull) x))
  | .ptr (some x) => .ptr (some (normVal lenientNull x))
  | .struct fs => .struct (fs.map (normVal lenientNull))
  | v => v

partial def ptrToInvalidNull : GoVal → Bool
  | .ptr (some (.nullw false _)) => true
  | .ptr (some x) => ptrToInvalidNull x
  | .slice xs | .struct xs => xs.any ptrToInvalidNull
  | .map _ _ vs => vs.any ptrToInvalidNull
  | _ => false

partial def multiEntryMap : GoVal → Bool
  | .map _ ks vs => ks.length > 1 || vs.any multiEntryMap
  | .slice xs | .struct xs => xs.any multiEntryMap
  | .ptr (some x) => multiEntryMap x
  | _ => false

def parseLog : Sexp → Option (List (Nat × Nat × String))
  | .list (.atom "log" :: es) => es.mapM fun e =>
      match e with
      | .list [id, inst, .atom op] => do pure ((← asNat id), (← asNat inst), op)
      | _ => none
  | _ => none

/-- the non-null branch of a nullable union, the schema itself otherwise: what a registered builder is
handed -/
def coreType (s : Schema) : String :=
  match s with
  | .mk "union" none [a, b] => if a.type == "null" then b.type else if b.type == "null" then a.type else "union"
  | s => s.type

/-- specification side of "a codec is built": every custom type of the case either has no registration
at all, or a registered schema together with a most recent builder that accepts that schema's core
type. (The remaining parts of the generated types are int64 / int32 / string / struct / slice /
string-keyed map / pointer, which the library supports.) -/
def codecExpected (c : SgCase) : Bool :=
  (customKinds c.ty).all fun (id, _) =>
    match c.lastAcc.find? (·.1 == id), c.spec.registered (.custom id .bool) with
    | none, none => true
    | some (_, acc), some rs => acc == coreType rs
    | _, _ => false

/-- `(c20 T ENV REGS VALUE impl)` -/
def c20Verdict (c : SgCase) (vx : Sexp) (impl : Sexp) : Verdict :=
  let sp := c.spec
  let lenientNull := c.except.contains "ptr-to-invalid-null" && ((parseGoVal vx).map ptrToInvalidNull).getD false
  let normVal := normVal lenientNull
  let model := schemaForItem c.sreg c.env sgFuel c.ty
  let hasCodec := fun id => c.lastInst.any (·.1 == id)
  let cls := (if c.history.isEmpty && c.lastInst.isEmpty then (if containsReg sp c.ty then "library" else "unregistered") else "custom") ++
    "/" ++ featureClass c
  match parseGoVal vx, impl with
  | none, _ => .bad "value"
  | _, .list (.atom "panic" :: _) => .oracle s!"panic: {impl}"
  | _, .list [.atom "err"] =>
    if expressible sp false c.ty then .oracle "schema generation fails for a type made of supported and registered types"
    else match model with
      | .err => .ok s!"c20/err/{cls}"
      | m => .diff s!"model: {showGen m}"
  | some v, .list (.atom "ok" :: sx :: cx :: rest) =>
    match parseSchema sx, implCodec cx with
    | some s, some cres =>
      -- schema: registered types appear with their registered schema, everything else by the mapping
      if !conforms sp c.ty s then .oracle "the generated schema does not put the registered schema at the registered type's positions"
      else
        match unionFault s false with
        | some e => .oracle e
        | none =>
          match model with
          | .ok ms =>
            if renderSchema ms != renderSchema s then .diff s!"model schema {renderSchema ms}"
            else
              let mc := buildCodec c.reg 400 ms (some c.ty) false
              match mc, cres, rest with
              | .error _, "builderr", _ => .ok s!"c20/codec-refused/{cls}"
              | .error e, _, _ => .diff s!"model refuses the codec ({e}), the implementation builds one"
              | .ok _, "builderr", _ =>
                if codecExpected c then
                  .oracle "no codec is built although every registered builder accepts the schema generated for its type"
                else .diff "model builds a codec, the implementation refuses"
              | .ok codec, _, [logx, bsx, backx, restx] =>
                match parseLog logx, asBytes bsx, asNat restx with
                | some log, some bs, some restLen =>
                  -- (1) which codec instance handled which occurrence
                  let expectW := writtenOccurrences sp hasCodec c.ty v false
                  let ws := log.filter (·.2.2 == "W")
                  let rs := log.filter (·.2.2 == "R")
                  let stale := log.find? fun (id, inst, _) => c.lastInst.find? (·.1 == id) != some (id, inst)
                  if log.any (·.2.2 == "foreign-type") then .oracle "a registered builder was called for a different type"
                  else if stale.isSome then
                    .oracle s!"a codec from an earlier registration handled a value: {stale.map fun (id, inst, op) => s!"type {id} instance {inst} {op}"}"
                  else if ws.map (·.1) != expectW then
                    .oracle s!"custom codec Write calls {ws.map (·.1)}, the value holds the registered types {expectW}"
                  else if rs.map (·.1) != expectW then
                    .oracle s!"custom codec Read calls {rs.map (·.1)}, the written value holds the registered types {expectW}"
                  else
                    -- (2) round trip
                    match backx with
                    | .list [.atom "err"] => .oracle "the written value cannot be read back"
                    | .list [.atom "clobber"] => .oracle "memory outside the value was overwritten"
                    | _ =>
                      match parseGoVal backx with
                      | none => .bad "read-back value"
                      | some back =>
                        if renderGoVal (normVal back) != renderGoVal (normVal v) then
                          .oracle s!"round trip changed the value: wrote {renderGoVal (normVal v)} read {renderGoVal (normVal back)}"
                        else if restLen != 0 then .oracle s!"{restLen} bytes left unread"
                        else
                          -- (3) bytes and decoded value against the model's codec tree
                          let env := sgEnv (customKinds c.ty)
                          if multiEntryMap v then .ok s!"c20/roundtrip/{cls}/multi-entry-map"
                          else
                            match write env bigFuel codec v with
                            | some mb =>
                              if mb != bs then .diff s!"model bytes {bytesToHex mb}"
                              else
                                match read env bigFuel codec bs (zeroVal c.ty) with
                                | .ok (mv, []) =>
                                  if renderGoVal (normVal mv) == renderGoVal (normVal back) then .ok s!"c20/roundtrip/{cls}"
                                  else .diff s!"model read {renderGoVal mv}"
                                | _ => .diff "model read fails"
                            | none => .diff "model write fails"
                | _, _, _ => .bad "implementation outcome fields"
              | _, _, _ => .bad "implementation outcome shape"
          | m => .diff s!"model: {showGen m}"
    | _, _ => .bad "implementation outcome"
  | _, _ => .bad "implementation outcome"

/-- twin line of the known finding: only the strict round trip is judged -/
def c20KnownVerdict (vx impl : Sexp) : Verdict :=
  match parseGoVal vx, impl with
  | some v, .list [.atom "ok", _, _, _, _, backx, _] =>
    if !ptrToInvalidNull v then .ok "trivial/known-check/ptr-to-invalid-null/not-applicable"
    else
      match parseGoVal backx with
      | some back =>
        if renderGoVal (normVal false back) != renderGoVal (normVal false v) then
          .oracle "a non-nil pointer to an invalid null.* value is read back as a valid zero value"
        else .ok "known-check/ptr-to-invalid-null/holds"
      | none => .ok "known-check/ptr-to-invalid-null/no-value"
  | some _, _ => .ok "known-check/ptr-to-invalid-null/no-roundtrip"
  | none, _ => .bad "value"

def c20 (op : String) (args : List Sexp) : Verdict :=
  match op, args with
  | "c20", [t, env, regs, v, ex, impl] =>
    match parseSg t env regs ex with
    | some c => c20Verdict c v impl
    | none => .bad "parse"
  | "c20-known", [_, _, _, _, v, _, impl] => c20KnownVerdict v impl
  | "c20x", [.atom name, impl] =>
    match impl with
    | .list [.atom "ok"] => .ok s!"scenario/{name}"
    | .list (.atom "violated" :: why) => .oracle s!"{name}: {why}"
    | other => .oracle s!"{name}: {other}"
  | "crashed-case", _ => .oracle "the harness process died while running this case (fatal error in the library)"
  | _, _ => .bad s!"unknown op {op}"

end Avro.Drv
