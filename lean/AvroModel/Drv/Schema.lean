import AvroModel.Drv.Sexp
import AvroModel.Schema
/-! Driver handler for C14 cases (see harness/schema.go for the line format). Not part of any proof. -/
namespace Avro.Drv
open Avro Sexp

private def strOfHex (x : Sexp) : Option String := do
  let bs ← asBytes x
  String.fromUTF8? (ByteArray.mk bs.toArray)

/-- `n | t | f | (i N) | (r xTEXT) | (s xUTF8) | (a …) | (o (xKEY v)…)` -/
partial def toJson : Sexp → Option Json
  | .atom "n" => some .null
  | .atom "t" => some (.bool true)
  | .atom "f" => some (.bool false)
  | .list [.atom "i", n] => (asInt n).map .num
  | .list [.atom "r", h] => (strOfHex h).map .numRaw
  | .list [.atom "s", h] => (strOfHex h).map .str
  | .list (.atom "a" :: xs) => (xs.mapM toJson).map .arr
  | .list (.atom "o" :: ms) =>
    (ms.mapM fun (m : Sexp) => match m with
      | .list [k, v] => do let k ← strOfHex k; let v ← toJson v; pure (k, v)
      | _ => none).map .obj
  | _ => none

private def dStr : Sexp → Option String
  | .list [.atom "s", h] => strOfHex h
  | _ => none

mutual
/-- reflective dump of `avro.Schema`: `(st (Type s) (Object nil|(p …)) (Union (l …)))` -/
partial def toSchema : Sexp → Option Schema
  | .list [.atom "st", .list [.atom "Type", t], .list [.atom "Object", o], .list [.atom "Union", .list (.atom "l" :: us)]] => do
    let t ← dStr t
    let o ← (match o with
      | .atom "nil" => some none
      | .list [.atom "p", x] => (toObject x).map some
      | _ => none)
    let us ← us.mapM toSchema
    pure (.mk t o us)
  | _ => none
partial def toObject : Sexp → Option SchemaObject
  | .list [.atom "st", .list [.atom "Type", t], .list [.atom "LogicalType", l], .list [.atom "Name", n],
      .list [.atom "Namespace", ns], .list [.atom "Fields", .list (.atom "l" :: fs)], .list [.atom "Items", i],
      .list [.atom "Values", v], .list [.atom "Size", .list [.atom "i", sz]], .list [.atom "Symbols", .list (.atom "l" :: ys)]] => do
    let t ← dStr t; let l ← dStr l; let n ← dStr n; let ns ← dStr ns
    let fs ← fs.mapM fun (f : Sexp) => match f with
      | .list [.atom "st", .list [.atom "Name", fname], .list [.atom "Type", ft]] => do
        let fname ← dStr fname; let ft ← toSchema ft; pure (SchemaField.mk fname ft)
      | _ => none
    let i ← toSchema i; let v ← toSchema v; let sz ← asInt sz
    let ys ← ys.mapM dStr
    pure (.mk t l n ns fs i v sz ys)
  | _ => none
end

/-! Boolean equality and a member-order normal form of `Json` (driver only). -/
mutual
partial def jbeq : Json → Json → Bool
  | .null, .null => true
  | .bool a, .bool b => a == b
  | .num a, .num b => a == b
  | .numRaw a, .numRaw b => a == b
  | .str a, .str b => a == b
  | .arr xs, .arr ys => xs.length == ys.length && (xs.zip ys).all fun (a, b) => jbeq a b
  | .obj xs, .obj ys => xs.length == ys.length && (xs.zip ys).all fun (a, b) => a.1 == b.1 && jbeq a.2 b.2
  | _, _ => false
end

partial def jnorm : Json → Json
  | .arr xs => .arr (xs.map jnorm)
  | .obj ms =>
    let ms := ms.map fun (k, v) => (k, jnorm v)
    .obj (ms.toArray.insertionSort (fun a b => a.1 < b.1)).toList
  | j => j

partial def jdepth : Json → Nat
  | .arr xs => 1 + xs.foldl (fun m x => max m (jdepth x)) 0
  | .obj ms => 1 + ms.foldl (fun m x => max m (jdepth x.2)) 0
  | _ => 0

/-! ### Independent reading of a document in the grammar (spec oracle): attribute values are looked
up by name; only the attributes that belong to the type are read. Shares no code with
`parseSchema`. -/
private def look (k : String) (ms : List (String × Json)) : Option Json := (ms.find? (·.1 == k)).map (·.2)
private def lookStr (k : String) (ms : List (String × Json)) : String :=
  match look k ms with | some (.str s) => s | _ => ""

mutual
partial def specRead : Json → Option Schema
  | .str t => some (.mk t none [])
  | .arr xs => (xs.mapM specRead).map (.mk "union" none)
  | .obj ms => do
    let t := lookStr "type" ms
    let fields ← (if t == "record" then
        match look "fields" ms with
        | some (.arr fs) => fs.mapM specField
        | some _ => none
        | none => some []
      else some [])
    let items ← (if t == "array" then match look "items" ms with | some v => specRead v | none => some Schema.zero else some Schema.zero)
    let values ← (if t == "map" then match look "values" ms with | some v => specRead v | none => some Schema.zero else some Schema.zero)
    let size ← (if t == "fixed" then match look "size" ms with | some (.num n) => some n | some _ => none | none => some 0 else some 0)
    let symbols ← (if t == "enum" then
        match look "symbols" ms with
        | some (.arr ys) => ys.mapM fun (y : Json) => match y with | .str s => some s | _ => none
        | some _ => none
        | none => some []
      else some [])
    pure (.mk t (some (.mk "" (lookStr "logicalType" ms) (lookStr "name" ms) (lookStr "namespace" ms) fields items values size symbols)) [])
  | _ => none
partial def specField : Json → Option SchemaField
  | .obj ms => do
    let t ← (match look "type" ms with | some v => specRead v | none => some Schema.zero)
    pure (.mk (lookStr "name" ms) t)
  | _ => none
end

private def hasUnknown : Json → Bool
  | .obj ms => ms.any fun m => !(objectKeys.contains m.1)
  | _ => false

private def topKind : Schema → String
  | .mk _ none [] => "name"
  | .mk _ none _ => "union"
  | .mk t (some _) _ => if ["record", "enum", "array", "map", "fixed"].contains t then t else "objprim"

private def errClass : PErr → String
  | .unexpectedToken => "not-a-schema"
  | .wrongKind a => s!"wrong-kind-{a}"
  | .duplicate _ => "duplicate-member"
  | .sizeSyntax => "size-syntax"
  | .sizeRange => "size-range"

/-- checks on the implementation's `Marshal()` output for the schema value `si` it produced.
`strictId`: the property demands that the output parses back to the identical schema (WF values,
and every generated schema). -/
def judgeMarshal (si : Schema) (strictId : Bool) (marsh : Sexp) (cls : String) : Verdict :=
  match marsh with
  | .list [.atom "merr"] =>
    if strictId then .oracle "Schema.Marshal returned an error for a well-formed schema" else .diff "Marshal error (model marshals every value)"
  | .list (.atom "panic" :: _) => .oracle s!"Schema.Marshal panicked: {marsh}"
  | .list [.atom "mnotjson", _] => .oracle "Schema.Marshal output is not valid JSON"
  | .list [.atom "maliased"] => .oracle "the bytes returned by an earlier Schema.Marshal call changed during this call (results share storage)"
  | .list [.atom "m", t, re] =>
    match toJson t with
    | none => .bad "marshal tree"
    | some jm =>
      let reImpl : Option (Option Schema) := match re with
        | .list [.atom "err"] => some none
        | .list [.atom "ok", s] => (toSchema s).map some
        | _ => none
      match reImpl with
      | none => .bad "reparse dump"
      | some reImpl =>
        let reModel := (parseSchema jm).toOption
        let same (a : Option Schema) := match a with | some x => x.beq si | none => false
        if strictId && !same reImpl then
          .oracle "marshal output does not parse back to the identical schema (SchemaFromString (Marshal s) ≠ s)"
        else if strictId && !same reModel then
          .oracle "marshal output does not denote the schema (model reading of Marshal output ≠ s)"
        else if !(match reImpl, reModel with | some a, some b => a.beq b | none, none => true | _, _ => false) then
          .diff "model and implementation read the marshal output differently"
        else if !jbeq (jnorm (marshalSchema si)) (jnorm jm) then
          .diff "marshal output differs from the model's (beyond member order)"
        else .ok cls
  | _ => .bad "marshal outcome"

def c14 (op : String) (args : List Sexp) : Verdict :=
  match op, args with
  | "gen", [.atom name, .list [.atom "res", r]] =>
    match r with
    | .list [.atom "err"] => .ok s!"gen/{name}/err"
    | .list [.atom "ok", s, marsh] =>
      match toSchema s with
      | none => .bad "schema dump"
      | some si => judgeMarshal si true marsh s!"gen/{name}/{if si.wf then "wf" else "nonwf"}"
    | _ => .bad "gen outcome"
  | "doc", [_, .list [.atom "res", _, .list (.atom "hdr-mismatch" :: rest)]] =>
    .oracle s!"the same text as the avro.schema entry of a container file header is read differently (FileSchema) from SchemaFromString: {rest}"
  | "doc", [_, .list [.atom "res", info, impl]] =>
    let implV : Option (Option (Schema × Sexp)) := match impl with
      | .list [.atom "err"] => some none
      | .list [.atom "ok", s, m] => (toSchema s).map fun s => some (s, m)
      | _ => none
    match implV with
    | none => .bad s!"impl outcome"
    | some implV =>
    match info with
    | .list [.atom "notjson"] =>
      (match implV with
       | none => .ok "text/not-json/rejected"
       | some _ => .oracle "malformed JSON text accepted")
    | .list [.atom "tree", .atom mode, t] =>
      match toJson t with
      | none => .bad "tree"
      | some j =>
        let lax := mode == "lax"
        let m := parseSchema j
        let inGrammar := j.isSchemaDoc && j.dupFree
        let spec := if inGrammar then specRead j else none
        match implV, m with
        | none, .error e => .ok (if lax then "text/lax-unicode/rejected" else s!"reject/{errClass e}")
        | none, .ok _ =>
          if lax then .ok "text/lax-unicode/rejected"
          else if inGrammar then .oracle "valid schema document rejected"
          else .diff "model accepts the document, implementation rejects it"
        | some _, .error e => .oracle s!"malformed document accepted ({errClass e})"
        | some (si, marsh), .ok sm =>
          if inGrammar && !(match spec with | some ss => ss.beq si | none => false) then
            .oracle "parsed schema does not preserve the structure of the document"
          else if !si.beq sm then .diff "parsed schema differs from the model's"
          else
            let d := jdepth j
            let cls := s!"accept/{if inGrammar then "grammar" else "outside"}/{if si.wf then "wf" else "nonwf"}/{topKind si}/d{if d > 8 then "9+" else toString d}{if hasUnknown j then "/x" else ""}"
            judgeMarshal si si.wf marsh cls
    | _ => .bad "tree info"
  | _, _ => .bad s!"unknown op {op}"

end Avro.Drv
