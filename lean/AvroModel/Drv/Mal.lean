import AvroModel.Drv.CodecDrv
/-! Driver handler for the malformed-input stream (C06). -/
namespace Avro.Drv
open Avro Sexp

/-- step budget for malformed inputs (the model's accumulators make huge declared counts quadratic) -/
def malFuel : Nat := 5000

/-- allocation allowed for an input of `len` bytes -/
def allocBound (len : Nat) : Nat := 4194304 + 1024 * len

def tagOf : Sexp → String
  | .list [.atom "tag", .atom t] => t
  | _ => "?"

/-- does the codec tree contain an array codec (the only place that allocates from a declared count) -/
partial def hasArray : Codec → Bool
  | .array _ _ => true
  | .map v _ => hasArray v
  | .pointer c => hasArray c
  | .record _ cs _ => cs.any hasArray
  | .union cs => cs.any hasArray
  | .unionOne c _ => hasArray c
  | _ => false

/-- summary of a codec in decoding order: (contains a map, contains an array, some map count is read before some array count) -/
abbrev MA := Bool × Bool × Bool

def MA.seq (a b : MA) : MA := (a.1 || b.1, a.2.1 || b.2.1, a.2.2 || b.2.2 || (a.1 && b.2.1))

/-- a damaged MAP count shifts every byte decoded after it, so an array count that is read later (below the map, in a
later item of an enclosing collection, or in a later field) can become garbage -/
partial def mapThenArray : Codec → MA
  | .map v _ => let s := mapThenArray v; MA.seq (true, false, false) (MA.seq (MA.seq s s) (true, false, false))
  | .array c _ => let s := mapThenArray c; MA.seq (false, true, false) (MA.seq (MA.seq s s) (false, true, false))  -- the next block's count follows the items
  | .pointer c => mapThenArray c
  | .record _ cs _ => cs.foldl (fun acc c => MA.seq acc (mapThenArray c)) (false, false, false)
  | .union cs => cs.foldl (fun acc c => let s := mapThenArray c; (acc.1 || s.1, acc.2.1 || s.2.1, acc.2.2 || s.2.2)) (false, false, false)
  | .unionOne c _ => mapThenArray c
  | _ => (false, false, false)

/-- may the recorded finding D14 explain memory / time spent on this case? only if an array count can be reached by the
damage: a mutated MAP count is not D14 unless an array count is decoded after that map count -/
def d14Applies (codec : Codec) (tag : String) : Bool :=
  hasArray codec && !(tag == "mcount" && !(mapThenArray codec).2.2)

def malCodec (env : Env) (op : String) (ty s bs : Sexp) (tag : String) (impl : Sexp) : Verdict :=
  match parseGoType ty, parseSchema s, asBytes bs with
  | some ty, some s, some bs =>
    match buildCodec regLib 200 s (some ty) false, implClass impl with
    | .error _, "builderr" => .ok "trivial/both-builderr"
    | .error e, _ => .diff s!"model: build error ({e})"
    | .ok _, "builderr" => .diff "model builds, implementation does not"
    | .ok codec, cls =>
      let modelCls : String :=
        if op == "mal-skip" then
          match skip env malFuel codec bs with
          | .ok r => s!"ok {r.length}" | .err => "err" | .panic => "panic" | .stuck => "stuck" | .fuel => "fuel"
        else
          match read env malFuel codec bs (zeroVal ty) with
          | .ok (_, r) => s!"ok {r.length}" | .err => "err" | .panic => "panic" | .stuck => "stuck" | .fuel => "fuel"
      let alloc : Nat := match impl with
        | .list xs => (xs.getLast?.bind asNat).getD 0
        | _ => 0
      -- the recorded finding D14: arrays are pre-allocated / iterated from the declared block count
      let d14 := if d14Applies codec tag then "[D14 array-count-not-backed] " else ""
      -- a panic is never part of D14 (that finding is about memory and time driven by the declared count)
      if cls == "panic" then .oracle s!"panic on malformed input ({tag}): {impl}"
      else if cls == "crash" then .oracle s!"{d14}process crashed on malformed input ({tag})"
      else if cls == "hang" then .oracle s!"{d14}did not terminate on malformed input ({tag})"
      else if cls == "clobber" then .oracle "memory outside the destination was modified"
      else if alloc > allocBound bs.length then .oracle s!"{d14}allocated {alloc} bytes for {bs.length} bytes of input ({tag})"
      else
        let implCls : String := match impl with
          | .list [.atom "ok", r, _] => s!"ok {r}"
          | .list (.atom "err" :: _) => "err"
          | _ => "?"
        if modelCls == "fuel" then .ok s!"mal/{op}/{tag}/model-out-of-budget"
        else if tag == "wrapper-varint" && op == "mal-read" && modelCls == "err" && cls == "ok" then
          -- the input is one varint followed by a well-formed tail: the only thing the model rejects is that varint (it overflows
          -- 64 bits, has more than ten bytes, or is outside the range of the Go field) - C17 / C05 require an error
          .oracle s!"a malformed or out-of-range varint in the first field was accepted ({impl}); everything after it is well formed"
        else if modelCls == implCls then .ok s!"mal/{op}/{tag}/{cls}"
        else .diff s!"model {modelCls}, implementation {implCls}"
  | _, _, _ => .bad "parse"

def c06 (op : String) (args : List Sexp) : Verdict :=
  match op, args with
  | "mal-read", [ty, s, bs, tag, impl] =>
    if impl.hasAtom "overrun" then .oracle s!"a decoded slice is longer than its capacity: items were stored past the end of the backing array (len cap): {impl}" else
    if impl.hasAtom "invalid-bool" then .oracle s!"decoding left a bool holding a byte other than 0 or 1 (memory that is not a value of its type): {impl}" else
    malCodec timeEnv op ty s bs (tagOf tag) impl
  | "mal-skip", [ty, s, bs, tag, impl] => malCodec timeEnv op ty s bs (tagOf tag) impl
  | "crashed-case", [_, .list (.atom op' :: rest), .list [.atom kind]] =>
    let tag := (rest.find? (fun x => match x with | .list [.atom "tag", _] => true | _ => false)).map tagOf |>.getD "?"
    let d14 := match op', rest with
      | "mal-read", ty :: s :: _ | "mal-skip", ty :: s :: _ =>
        match parseGoType ty, parseSchema s with
        | some ty, some s =>
          match buildCodec regLib 200 s (some ty) false with
          | .ok c => if d14Applies c tag then "[D14 array-count-not-backed] " else ""
          | _ => ""
        | _, _ => ""
      | _, _ => ""
    .oracle s!"{d14}process {kind} on malformed input ({op'}, {tag})"
  | "crashed-case", _ => .oracle "process crashed on an unidentified case"
  | "mal-file", [_, bs, tag, impl] =>
    match asBytes bs with
    | some bs =>
      let alloc : Nat := match impl with
        | .list xs => (xs.getLast?.bind asNat).getD 0
        | _ => 0
      let cls := implClass impl
      if cls == "panic" then .oracle s!"ReadFile panicked ({tagOf tag}): {impl}"
      else if cls == "hang" then .oracle "ReadFile did not terminate"
      else if alloc > allocBound bs.length then .oracle s!"ReadFile allocated {alloc} bytes for {bs.length} bytes of input ({tagOf tag})"
      else .ok s!"mal/file/{tagOf tag}/{cls}"
    | none => .bad "parse"
  | "mal-soak", [_, _, _, n, impl] =>
    match impl with
    | .list [.atom "ok", a] =>
      match asNat a, asNat n with
      | some a, some n =>
        -- the destination (and its map) is reused and everything else comes from recycled banks: nothing is allocated per record
        if a > 1048576 + n / 4 then .oracle s!"decoding one small record {n} times (banks closed at once) allocated {a} bytes: memory does not stay proportional to the input"
        else .ok "soak/steady-state"
      | _, _ => .bad "soak outcome"
    | other => .oracle s!"soak: {other}"
  | "mal-schema", [_, impl] =>
    let cls := implClass impl
    if cls == "panic" then .oracle s!"schema parsing / decoder construction panicked: {impl}"
    else if cls == "hang" then .oracle "schema parsing did not terminate"
    else .ok s!"mal/schema/{cls}"
  | _, _ => .bad s!"unknown op {op}"

end Avro.Drv
