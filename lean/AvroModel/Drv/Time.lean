import AvroModel.Drv.Sexp
import AvroModel.Time
/-! Driver handlers for C18 (timestamp strings) and C19 (logical date / timestamp integers).
Not part of any proof: recomputes the model outcome (`AvroModel/Time.lean`) and the spec-oracle
verdict for every case line of `harness/time.go`. -/
namespace Avro.Drv
open Avro Sexp Avro.Time

/-- one route's outcome as printed by the harness -/
inductive TOut where
  | ok (unix nsec off : Int)
  | err
  | panic (msg : String)
  | other (s : String)
  deriving BEq, Inhabited

def TOut.render : TOut → String
  | .ok u n o => s!"(ok {u} {n} {o})"
  | .err => "(err)"
  | .panic m => s!"(panic {m})"
  | .other s => s

def TOut.isPanic : TOut → Bool
  | .panic _ => true
  | _ => false

def parseTOut (x : Sexp) : TOut :=
  match x with
  | .list [.atom "ok", u, n, o] =>
    match asInt u, asInt n, asInt o with
    | some u, some n, some o => .ok u n o
    | _, _, _ => .other (toString x)
  | .list [.atom "err"] => .err
  | .list (.atom "panic" :: rest) => .panic (" ".intercalate (rest.map toString))
  | _ => .other (toString x)

/-- (unix, nsec, offset) of the time the Go code builds from the fields via `time.Date` -/
def tripleOf (f : TimeFields) : TOut := .ok (unixOf f) f.nsec f.offset

/-- the zero `time.Time` (destination left untouched by `StringCodec.Read` on length 0) -/
def zeroTime : TOut := .ok (-62135596800) 0 0

def frameOf (bs : Bytes) : Bytes := writeVarint bs.length ++ bs

def errName : TErr → String
  | .short10 => "short10" | .dash => "dash" | .year => "year" | .month => "month" | .day => "day"
  | .short20 => "short20" | .missingT => "missingT" | .colon => "colon" | .hour => "hour"
  | .minute => "minute" | .second => "second" | .fracShort => "fracShort" | .tzMissing => "tzMissing"
  | .tzSign => "tzSign" | .tzLen => "tzLen" | .tzColon => "tzColon" | .tzHour => "tzHour"
  | .tzMin => "tzMin" | .trailing => "trailing" | .varint => "varint" | .eof => "eof"

def resName : Res → String
  | .ns => "ns"
  | .us => "us"
  | .ms => "ms"

/-- model outcome of `StringCodec.Read` on framed bytes, as a route outcome -/
def modelRead (framed : Bytes) : TOut × String :=
  match stringCodecRead framed with
  | .ok none => (zeroTime, "untouched")
  | .ok (some f) => (tripleOf f, "ok")
  | .err e => (.err, s!"err/{errName e}")
  | .panic k => (.panic s!"{repr k}", "panic")

/-- civil date of a day number (days since 1970-01-01); driver-side inverse of `daysFromCivil`,
checked against it on every use -/
def civilFromDays (z0 : Int) : Int × Nat × Nat :=
  let z := z0 + 719468
  let era := z / 146097
  let doe := z - era * 146097
  let yoe := (doe - doe / 1460 + doe / 36524 - doe / 146096) / 365
  let y := yoe + era * 400
  let doy := doe - (365 * yoe + yoe / 4 - yoe / 100)
  let mp := (5 * doy + 2) / 153
  let d := doy - (153 * mp + 2) / 5 + 1
  let m := if mp < 10 then mp + 3 else mp - 9
  (if m ≤ 2 then y + 1 else y, m.toNat, d.toNat)

/-- civil fields, in its own zone, of the instant (unix, nsec) shown at offset `off` -/
def fieldsOfInstant (unix nsec off : Int) : Option TimeFields :=
  let loc := unix + off
  let days := loc / 86400
  let sod := loc % 86400
  let (y, m, d) := civilFromDays days
  if y < 0 ∨ y > 9999 then none
  else
    let f : TimeFields := ⟨y.toNat, m, d, (sod / 3600).toNat, (sod % 3600 / 60).toNat, (sod % 60).toNat, nsec.toNat, off⟩
    if unixOf f == unix then some f else none

def parseFracAtom (s : String) : Option (List (Fin 10)) :=
  match s.toList with
  | 'f' :: ds => ds.mapM fun c =>
      if '0' ≤ c ∧ c ≤ '9' then
        let n := c.toNat - 48
        if h2 : n < 10 then some ⟨n, h2⟩ else none
      else none
  | _ => none

def parseZoneSx : Sexp → Option Zone
  | .atom "Z" => some .z
  | .list [.atom "p", hh, mm] => do some (.off false (← asNat hh) (← asNat mm))
  | .list [.atom "m", hh, mm] => do some (.off true (← asNat hh) (← asNat mm))
  | _ => none

def isDigitB (b : UInt8) : Bool := 48 ≤ b.toNat && b.toNat ≤ 57

/-- RFC 3339 recogniser used only to decide whether an arbitrary test string lies in the image of
the renderer (the final re-rendering test makes it sound whatever the extraction does) -/
def recognise (bs : Bytes) : Option (TimeFields × List (Fin 10) × UInt8 × Zone) := do
  let a := bs.toArray
  if a.size < 20 then none
  let dg (i : Nat) : Option Nat := do
    let b ← a[i]?
    if isDigitB b then some (b.toNat - 48) else none
  let n2 (i : Nat) : Option Nat := do some ((← dg i) * 10 + (← dg (i + 1)))
  let y := (← n2 0) * 100 + (← n2 2)
  let mo ← n2 5
  let d ← n2 8
  let h ← n2 11
  let mi ← n2 14
  let s ← n2 17
  let rest := bs.drop 19
  let (sep, fracB, rest) : UInt8 × Bytes × Bytes :=
    match rest with
    | c :: r => if c == 46 || c == 44 then (c, r.takeWhile isDigitB, r.dropWhile isDigitB) else (46, [], rest)
    | [] => (46, [], [])
  let frac : List (Fin 10) := fracB.map fun b => Fin.ofNat 10 (b.toNat - 48)
  let zone : Zone ← (match rest with
    | [90] => some Zone.z
    | [sg, h1, h0, _, m1, m0] =>
      if (sg == 43 || sg == 45) && isDigitB h1 && isDigitB h0 && isDigitB m1 && isDigitB m0 then
        some (Zone.off (sg == 45) ((h1.toNat - 48) * 10 + (h0.toNat - 48)) ((m1.toNat - 48) * 10 + (m0.toNat - 48)))
      else none
    | _ => none)
  let f : TimeFields := ⟨y, mo, d, h, mi, s, 0, 0⟩
  if renderRFC3339 f frac sep zone == bs then some (f, frac, sep, zone) else none

private def zoneClass : Zone → String
  | .z => "Z"
  | .off false _ _ => "plus"
  | .off true _ _ => "minus"

/-- common judgement of the parsing routes of one string against the expected outcome
(`want` comes from the spec side, `routes` from the implementation) -/
private def firstBad (routes : List (String × TOut)) (want : TOut) : Option String :=
  match routes.find? (fun r => r.2 != want) with
  | some (n, o) => some s!"route {n}: implementation {o.render}, expected {want.render}"
  | none => none

private def anyPanic (routes : List (String × TOut)) : Option String :=
  match routes.find? (fun r => r.2.isPanic) with
  | some (n, o) => some s!"route {n} panicked: {o.render}"
  | none => none

def c18 (op : String) (args : List Sexp) : Verdict :=
  match op, args with
  | "rfc", [y, mo, d, h, mi, s, frac, sep, zone, hex, .list [.atom "r", lib, rec, nul, std]] =>
    match asNat y, asNat mo, asNat d, asNat h, asNat mi, asNat s, (asAtom frac).bind parseFracAtom,
        asAtom sep, parseZoneSx zone, asBytes hex with
    | some y, some mo, some d, some h, some mi, some s, some frac, some sep, some zone, some bs =>
      let f : TimeFields := ⟨y, mo, d, h, mi, s, 0, 0⟩
      let sepB : UInt8 := if sep == "comma" then 44 else 46
      if renderRFC3339 f frac sepB zone != bs then .bad "harness string differs from renderRFC3339"
      else
        let want := tripleOf { f with nsec := fracNanos frac, offset := zone.seconds }
        let routes := [("StringCodec", parseTOut lib), ("record", parseTOut rec), ("null.Time", parseTOut nul)]
        if parseTOut std != want then
          .bad s!"time.Parse {(parseTOut std).render} differs from the spec expectation {want.render}"
        else match firstBad routes want with
          | some why => .oracle s!"valid RFC 3339 string, {why} (= time.Parse)"
          | none =>
            let (m, _) := modelRead (frameOf bs)
            if m != want then .diff s!"model {m.render} implementation {want.render}"
            else .ok s!"rfc/frac{min frac.length 10}/{sep}/{zoneClass zone}"
    | _, _, _, _, _, _, _, _, _, _ => .bad "args"
  | "date", [y, mo, d, hex, .list [.atom "r", lib, rec, nul, std]] =>
    match asNat y, asNat mo, asNat d, asBytes hex with
    | some y, some mo, some d, some bs =>
      if renderDate y mo d != bs then .bad "harness string differs from renderDate"
      else
        let want := tripleOf ⟨y, mo, d, 0, 0, 0, 0, 0⟩
        let routes := [("StringCodec", parseTOut lib), ("record", parseTOut rec), ("null.Time", parseTOut nul)]
        if parseTOut std != want then
          .bad s!"time.Parse {(parseTOut std).render} differs from the spec expectation {want.render}"
        else match firstBad routes want with
          | some why => .oracle s!"date-only string, {why} (midnight UTC)"
          | none =>
            let (m, _) := modelRead (frameOf bs)
            if m != want then .diff s!"model {m.render} implementation {want.render}"
            else .ok (if y == 0 || y == 9999 then "date/limit-year" else if mo == 2 && d == 29 then "date/leap-day" else "date")
    | _, _, _, _ => .bad "args"
  | "str", [hex, .list [.atom "r", lib, rec, nul, std]] =>
    match asBytes hex with
    | some bs =>
      let routes := [("StringCodec", parseTOut lib), ("record", parseTOut rec), ("null.Time", parseTOut nul)]
      match anyPanic routes with
      | some why => .oracle s!"{why}"
      | none =>
        let stdO := parseTOut std
        let inGrammar := (recognise bs).isSome
        let valid := inGrammar && (match stdO with | .ok _ _ _ => true | _ => false)
        match (if valid then firstBad routes stdO else none) with
        | some why => .oracle s!"valid RFC 3339 string accepted by time.Parse, {why}"
        | none =>
          let (m, cls) := modelRead (frameOf bs)
          match firstBad routes m with
          | some why => .diff s!"model {m.render}: {why}"
          | none =>
            if valid then .ok "str/valid-rfc3339"
            else if bs.isEmpty then .ok "trivial/str/empty"
            else .ok s!"str/{cls}"
    | none => .bad "args"
  | "frame", [hex, .list [.atom "r", lib, rec, nul]] =>
    match asBytes hex with
    | some bs =>
      let routes := [("StringCodec", parseTOut lib), ("record", parseTOut rec), ("null.Time", parseTOut nul)]
      match anyPanic routes with
      | some why => .oracle s!"{why}"
      | none =>
        let (m, cls) := modelRead bs
        match firstBad routes m with
        | some why => .diff s!"model {m.render}: {why}"
        | none => .ok s!"frame/{cls}"
    | none => .bad "args"
  | "fmt", [unix, nsec, off, .list [.atom "f", fhex, .list [.atom "w", w1, r1], .list [.atom "w", w2, r2]]] =>
    match asInt unix, asInt nsec, asInt off, asBytes fhex, asBytes w1, asBytes w2 with
    | some unix, some nsec, some off, some fb, some w1, some w2 =>
      match fieldsOfInstant unix nsec off with
      | none => .bad "time outside years 0000-9999 or calendar self-check failed"
      | some f =>
        let m := formatNano f
        let want : TOut := .ok unix nsec off
        let routes := [("StringCodec", parseTOut r1), ("null.Time", parseTOut r2)]
        if m != fb then .bad s!"formatNano {bytesToHex m} differs from Format(RFC3339Nano) {bytesToHex fb}"
        else match anyPanic routes with
          | some why => .oracle s!"{why}"
          | none =>
            match firstBad routes want with
            | some why => .oracle s!"format then parse is not the identity: {why}"
            | none =>
              if w1 != frameOf m || w2 != frameOf m then .diff s!"written bytes differ from the model {bytesToHex (frameOf m)}"
              else
                let (mo, _) := modelRead (frameOf m)
                if mo != want then .diff s!"model {mo.render} implementation {want.render}"
                else
                  let nd := (trimZeros (digits9 f.nsec)).length
                  .ok s!"fmt/frac{nd}/{zoneClass (zoneOfOffset off)}{if unix < 0 then "/pre1970" else ""}"
    | _, _, _, _, _, _ => .bad "args"
  | "fmt", [_, _, _, .list [.atom "f", _, r1, r2]] =>
    -- a route that is not of the form (w bytes result): writing itself failed
    let bad := [r1, r2].filter fun r => match r with | .list (.atom "w" :: _) => false | _ => true
    .oracle s!"writing a time value (Format at nanosecond precision) fails: {bad}"
  | _, _ => .bad s!"unknown op {op}"

/-! ## C19 -/

/-- `(ok unix nsec off rest)` of the read-direction cases -/
private def parseRead (x : Sexp) : Option (Int × Int × Int × Int) :=
  match x with
  | .list [.atom "ok", u, n, o, r] => do some (← asInt u, ← asInt n, ← asInt o, ← asInt r)
  | _ => none

private def isErr (x : Sexp) : Bool :=
  match x with
  | .list [.atom "err"] => true
  | _ => false

private def resOf (s : String) : Option Res :=
  match s with
  | "ns" => some .ns
  | "us" => some .us
  | "ms" => some .ms
  | _ => none

private def sign (i : Int) : String := if i < 0 then "neg" else if i == 0 then "zero" else "pos"

def c19 (op : String) (args : List Sexp) : Verdict :=
  match op, args with
  | "date-r", [d, .list [.atom "r", direct, built]] =>
    match asInt d with
    | some d =>
      let m := dateRead (writeInt 32 d)
      if decide (inRange 32 d) then
        -- oracle: the Avro specification, d days from 1970-01-01
        let judge (name : String) (x : Sexp) : Option Verdict :=
          match parseRead x with
          | some (u, n, o, r) =>
            if u != d * 86400 || n != 0 then
              some (.oracle s!"{name}: day {d} decoded to unix {u} nsec {n}, the specification says {d * 86400}")
            else if r != 0 then some (.oracle s!"{name}: {r} bytes left unread")
            else if o != 0 then some (.diff s!"{name}: zone offset {o}, model 0")
            else none
          | none => some (.oracle s!"{name}: day {d} not decoded: {x}")
        match judge "DateCodec" direct, judge "record" built with
        | some v, _ => v
        | _, some v => v
        | none, none =>
          match m with
          | .ok (t, []) => if t.sec == d * 86400 && t.nsec == 0 then .ok s!"date-r/{sign d}" else .diff s!"model {repr t}"
          | _ => .diff "model does not decode"
      else
        match m with
        | .error _ => if isErr direct && isErr built then .ok "date-r/outside-int32" else .diff s!"model error, implementation {direct} {built}"
        | .ok _ => .bad "model accepts a day outside int32"
    | none => .bad "args"
  | "date-w", [unix, nsec, _off, .list [.atom "w", hex, back]] =>
    match asInt unix, asInt nsec, asBytes hex with
    | some unix, some nsec, some bs =>
      let t : Instant := ⟨unix, nsec⟩
      let day := unix / 86400
      if decide (inRange 32 day) then
        if bs != writeInt 32 day then
          .oracle s!"time unix {unix} written as {bytesToHex bs}, the floor day {day} is {bytesToHex (writeInt 32 day)}"
        else if parseTOut back != .ok (day * 86400) 0 0 then
          .oracle s!"time unix {unix} read back as {(parseTOut back).render}, expected start of day {day * 86400}"
        else if dateWrite t != bs then .diff s!"model bytes {bytesToHex (dateWrite t)}"
        else .ok s!"date-w/{sign unix}{if unix % 86400 != 0 || nsec != 0 then "/within-day" else "/midnight"}"
      else
        if dateWrite t != bs then .ok "date-w/outside-int32/differs-from-model"
        else .ok "date-w/outside-int32/wraps-like-model"
    | _, _, _ => .bad "args"
  | "long-r", [rho, l, impl] =>
    match (asAtom rho).bind resOf, asInt l with
    | some ρ, some l =>
      let m := longRead ρ.mult (writeInt 64 l)
      match m with
      | .ok (t, []) =>
        if decide (inRange 64 (l * ρ.mult)) then
          match parseRead impl with
          | some (u, n, o, r) =>
            if u * 1000000000 + n != l * ρ.mult || n < 0 || n ≥ 1000000000 then
              .oracle s!"long {l} x {ρ.mult} ns decoded to unix {u} nsec {n}"
            else if r != 0 then .oracle s!"{r} bytes left unread"
            else if o != 0 then .diff s!"zone offset {o}, model 0"
            else if t.sec != u || t.nsec != n then .diff s!"model {repr t}"
            else .ok s!"long-r/{resName ρ}/{sign l}"
          | none => .oracle s!"long {l} not decoded: {impl}"
        else
          -- outside the property's domain (l * mult is not an int64): only "returns a time" is required;
          -- the histogram records whether the implementation wraps like the model
          match parseRead impl with
          | some (u, n, _, _) =>
            if t.sec != u || t.nsec != n then .ok s!"long-r/{resName ρ}/outside-domain/differs-from-model"
            else .ok s!"long-r/{resName ρ}/outside-domain/wraps-like-model"
          | none => .diff s!"model ok, implementation {impl}"
      | _ => .bad "model does not decode a 64-bit value"
    | _, _ => .bad "args"
  | "long-w", [rho, unix, nsec, _off, .list [.atom "w", hex, back]] =>
    match (asAtom rho).bind resOf, asInt unix, asInt nsec, asBytes hex with
    | some ρ, some unix, some nsec, some bs =>
      let t : Instant := ⟨unix, nsec⟩
      let fl := floorNanos ρ.mult t
      let cls := resName ρ
      if decide (inRange 64 fl) then
        let l := t.nanos / ρ.mult
        let want := ofUnixNano fl
        if bs != writeInt 64 l then
          .oracle s!"time {unix}.{nsec} written as {bytesToHex bs}; floor to resolution {ρ.mult} ns is {l} = {bytesToHex (writeInt 64 l)}"
        else if parseTOut back != .ok want.sec want.nsec 0 then
          .oracle s!"time {unix}.{nsec} read back as {(parseTOut back).render}, expected {want.sec} {want.nsec}"
        else if longWrite ρ.mult t != bs then .diff s!"model bytes {bytesToHex (longWrite ρ.mult t)}"
        else .ok s!"long-w/{cls}/{sign unix}{if fl != t.nanos then "/sub-resolution" else "/exact"}"
      else
        -- outside the domain (the floored instant is not an int64 nanosecond count)
        if longWrite ρ.mult t != bs then .ok s!"long-w/{cls}/outside-domain/differs-from-model"
        else .ok s!"long-w/{cls}/outside-domain/wraps-like-model"
    | _, _, _, _ => .bad "args"
  | _, _ => .bad s!"unknown op {op}"

end Avro.Drv
