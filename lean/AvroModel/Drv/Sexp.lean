import AvroModel.Bytes
/-! S-expression line protocol shared by the Go harness and the model driver (not part of any proof). -/
namespace Avro

inductive Sexp where
  | atom (s : String)
  | list (xs : List Sexp)
  deriving Inhabited, BEq, Repr

namespace Sexp

/-- does the atom occur anywhere in the expression (as the head of a list or elsewhere) -/
partial def hasAtom (a : String) : Sexp → Bool
  | .atom s => s == a
  | .list xs => xs.any (hasAtom a)

partial def toStr : Sexp → String
  | atom s => s
  | list xs => "(" ++ " ".intercalate (xs.map toStr) ++ ")"

instance : ToString Sexp := ⟨toStr⟩

/-- tokenizer: parentheses and whitespace-separated atoms -/
def tokenize (s : String) : List String := Id.run do
  let mut toks : Array String := #[]
  let mut cur : String := ""
  for c in s.toList do
    if c == '(' || c == ')' then
      if cur != "" then toks := toks.push cur; cur := ""
      toks := toks.push (String.singleton c)
    else if c == ' ' || c == '\t' || c == '\n' || c == '\r' then
      if cur != "" then toks := toks.push cur; cur := ""
    else cur := cur.push c
  if cur != "" then toks := toks.push cur
  return toks.toList

partial def parseToks : List String → Option (Sexp × List String)
  | [] => none
  | "(" :: rest =>
    let rec go (acc : Array Sexp) (ts : List String) : Option (Sexp × List String) :=
      match ts with
      | [] => none
      | ")" :: r => some (list acc.toList, r)
      | _ => match parseToks ts with
        | some (x, r) => go (acc.push x) r
        | none => none
    go #[] rest
  | ")" :: _ => none
  | t :: rest => some (atom t, rest)

def parse (s : String) : Option Sexp :=
  match parseToks (tokenize s) with
  | some (x, []) => some x
  | _ => none

def hexDigit (c : Char) : Option Nat :=
  if '0' ≤ c ∧ c ≤ '9' then some (c.toNat - '0'.toNat)
  else if 'a' ≤ c ∧ c ≤ 'f' then some (c.toNat - 'a'.toNat + 10)
  else if 'A' ≤ c ∧ c ≤ 'F' then some (c.toNat - 'A'.toNat + 10)
  else none

/-- bytes are written as `x` followed by hex digits (so the empty string is `x`) -/
def hexToBytes (s : String) : Option Bytes :=
  match s.toList with
  | 'x' :: cs =>
    let rec go : List Char → Option Bytes
      | [] => some []
      | [_] => none
      | a :: b :: r => do
        let h ← hexDigit a; let l ← hexDigit b; let t ← go r
        pure ((h * 16 + l).toUInt8 :: t)
    go cs
  | _ => none

def nibble (n : Nat) : Char := if n < 10 then Char.ofNat (48 + n) else Char.ofNat (87 + n)

def bytesToHex (bs : Bytes) : String :=
  "x" ++ String.ofList (bs.flatMap fun b => [nibble (b.toNat / 16), nibble (b.toNat % 16)])

def asBytes : Sexp → Option Bytes
  | atom s => hexToBytes s
  | _ => none

def asInt : Sexp → Option Int
  | atom s => s.toInt?
  | _ => none

def asNat : Sexp → Option Nat
  | atom s => s.toNat?
  | _ => none

def asAtom : Sexp → Option String
  | atom s => some s
  | _ => none

def asList : Sexp → Option (List Sexp)
  | list xs => some xs
  | _ => none

def ofBytes (bs : Bytes) : Sexp := atom (bytesToHex bs)
def ofInt (i : Int) : Sexp := atom (toString i)
def ofNat (n : Nat) : Sexp := atom (toString n)
def tag (t : String) (xs : List Sexp) : Sexp := list (atom t :: xs)

end Sexp

/-- Verdict of the driver on one case line. -/
inductive Verdict where
  | ok (cls : String)                 -- model = implementation, oracle satisfied; `cls` feeds the distribution histogram
  | diff (detail : String)            -- model and implementation disagree (correspondence break)
  | oracle (detail : String)          -- implementation output contradicts the property (failing input)
  | bad (detail : String)             -- malformed case / harness inconsistency

def Verdict.render : Verdict → String
  | .ok c => s!"OK {c}"
  | .diff d => s!"DIFF {d}"
  | .oracle d => s!"ORACLE {d}"
  | .bad d => s!"BAD {d}"

end Avro
