import AvroModel.Drv.CodecDrv
import AvroModel.File
import AvroModel.Container
/-!
Driver handlers for the container-reader cases (`file` lines of harness/file.go): C07 and C08.

For every derived input (the file itself, a bit flip, a cut, a failing callback) the handler
* runs the model `File.readFile` with the record decoder := the codec model's `read` for the case's
  Go type and schema, and the external decompressors := the table the harness obtained by calling
  compress/flate, snappy and crc32 directly;
* judges the implementation's outcome by the property, using the layout the reference reader
  (`Spec.readHeader` / `Spec.readBlocks`) finds in the intact file.
-/
namespace Avro.Drv
open Avro Sexp File

structure Entry where
  dec : Option Bytes
  crc : Nat

/-- `base`: the decoded bytes of the same block in the unmodified file, for the relative forms
`same` and `(patch pos byte)` of harness/file.go `compactEntry` -/
def parseEntryRel (base : Option Bytes) : Sexp → Option Entry
  | .list [.atom "e", .atom "none", c] => do pure { dec := none, crc := (← asNat c) }
  | .list [.atom "e", .atom "same", c] => do pure { dec := some (← base), crc := (← asNat c) }
  | .list [.atom "e", .list [.atom "patch", pos, b], c] => do
    let d ← base
    let pos ← asNat pos
    let b ← asBytes b
    pure { dec := some (d.take pos ++ b ++ d.drop (pos + 1)), crc := (← asNat c) }
  | .list [.atom "e", d, c] => do pure { dec := some (← asBytes d), crc := (← asNat c) }
  | _ => none

def parseEntry : Sexp → Option Entry := parseEntryRel none

def expandIds : List Sexp → Option (List Nat)
  | [] => some []
  | .list [.atom "r", s, n] :: r => do
    let s ← asNat s; let n ← asNat n
    pure ((List.range n).map (· + s) ++ (← expandIds r))
  | .list [.atom "x", i, n] :: r => do
    let i ← asNat i; let n ← asNat n
    pure (List.replicate n i ++ (← expandIds r))
  | x :: r => do pure ((← asNat x) :: (← expandIds r))

inductive Mut where
  | id
  | cb (i : Nat)
  | flip (pos bit : Nat)
  | cut (k : Nat)
  | cbflip (i pos bit : Nat)
  | fill (pos len v : Nat)   -- bytes [pos, pos+len) all set to v (a zero-filled or 0xFF-filled marker)

def Mut.describe : Mut → String
  | .id => "intact file"
  | .cb i => s!"callback failing at record {i}"
  | .flip p b => s!"bit {b} of byte {p} flipped"
  | .cut k => s!"file cut after {k} bytes"
  | .cbflip i p b => s!"callback failing at record {i} and bit {b} of byte {p} (in that block's sync marker) flipped"
  | .fill p l v => s!"bytes {p}..{p + l - 1} all set to {v}"

def expandMuts : List Sexp → Option (List Mut)
  | [] => some []
  | .list [.atom "id"] :: r => do pure (.id :: (← expandMuts r))
  | .list [.atom "cb", i] :: r => do pure (.cb (← asNat i) :: (← expandMuts r))
  | .list [.atom "flip", p, b] :: r => do pure (.flip (← asNat p) (← asNat b) :: (← expandMuts r))
  | .list [.atom "cbflip", i, p, b] :: r => do pure (.cbflip (← asNat i) (← asNat p) (← asNat b) :: (← expandMuts r))
  | .list [.atom "fill", p, l, v] :: r => do pure (.fill (← asNat p) (← asNat l) (← asNat v) :: (← expandMuts r))
  | .list [.atom "fliprange", lo, hi] :: r => do
    let lo ← asNat lo; let hi ← asNat hi
    let fl := (List.range (hi - lo)).flatMap fun d => (List.range 8).map fun b => Mut.flip (lo + d) b
    pure (fl ++ (← expandMuts r))
  | .list [.atom "cuts", lo, hi] :: r => do
    let lo ← asNat lo; let hi ← asNat hi
    pure ((List.range (hi + 1 - lo)).map (fun d => Mut.cut (lo + d)) ++ (← expandMuts r))
  | _ => none

/-! ### the same walk over the container as harness/file.go `walkFile` -/

def skipLP (bs : Bytes) : Option Bytes :=
  match ioVarint bs with
  | .ok (l, r) => if l < 0 ∨ l.toNat > r.length then none else some (r.drop l.toNat)
  | .error _ => none

partial def walkEntries : Nat → Bytes → Option Bytes
  | 0, bs => some bs
  | n + 1, bs => (skipLP bs).bind skipLP |>.bind (walkEntries n)

partial def walkMeta (bs : Bytes) : Option Bytes :=
  match ioVarint bs with
  | .error _ => none
  | .ok (c, r) =>
    if c = 0 then some r else if c < 0 then none
    else (walkEntries c.toNat r).bind walkMeta

structure BlkLay where
  start : Nat
  payOff : Nat
  payEnd : Nat
  stop : Nat      -- end of the sync marker (= payEnd when the file ends before it)
  count : Int
  payload : Bytes

partial def walkBlocks (total : Nat) (bs : Bytes) (acc : Array BlkLay) : Array BlkLay :=
  if bs.isEmpty then acc else
  match ioVarint bs with
  | .error _ => acc
  | .ok (c, r1) =>
    match ioVarint r1 with
    | .error _ => acc
    | .ok (l, r2) =>
      if l < 0 ∨ l.toNat > r2.length then acc else
      let p := r2.take l.toNat
      let r3 := r2.drop l.toNat
      let lay : BlkLay := { start := total - bs.length, payOff := total - r2.length, payEnd := total - r3.length,
                            stop := total - r3.length + 16, count := c, payload := p }
      if r3.length < 16 then acc.push { lay with stop := lay.payEnd } else walkBlocks total (r3.drop 16) (acc.push lay)

/-- header length and the blocks whose payload is fully present -/
def walkFile (bs : Bytes) : Option (Nat × List BlkLay) :=
  if bs.take 4 != File.magic then none else
  match walkMeta (bs.drop 4) with
  | none => none
  | some r => if r.length < 16 then none else
    let body := r.drop 16
    some (bs.length - body.length, (walkBlocks bs.length body #[]).toList)

/-! ### the case -/

inductive Expect where
  | valid (blocks : List (List String))      -- rendered expected records per block
  | reject (why : String)
  | raw

structure FileCase where
  ty : GoType
  schema : Schema
  json : Bytes
  codecName : String
  file : Bytes
  expectSx : Sexp
  muts : List Mut
  infl : List Entry
  recs : List String
  outs : List (List Nat × String × List (Nat × Entry))

def renderDump (x : Sexp) : Option String := (parseGoVal x).map renderGoVal

def parseOut (infl : List Entry) : Sexp → Option (List Nat × String × List (Nat × Entry))
  | .list [.atom "o", .list ids, res, .list ov] => do
    let ids ← expandIds ids
    let res := match res with | .atom a => a | .list (.atom "panic" :: _) => "panic" | _ => "?"
    let ov ← ov.mapM fun o => match o with
      | .list [i, e] => do
        let i ← asNat i
        pure (i, (← parseEntryRel ((infl[i]?).bind (·.dec)) e))
      | _ => none
    pure (ids, res, ov)
  | _ => none

def parseFileCase (args : List Sexp) : Option FileCase :=
  match args with
  | [ty, .list [.atom "sch", s, js], .atom codec, file, expect, .list (.atom "muts" :: muts),
      .list (.atom "out" :: .list (.atom "infl" :: infl) :: .list (.atom "recs" :: recs) :: outs)] => do
    let infl ← infl.mapM parseEntry
    pure { ty := (← parseGoType ty), schema := (← parseSchema s), json := (← asBytes js), codecName := codec,
           file := (← asBytes file), expectSx := expect, muts := (← expandMuts muts),
           infl := infl, recs := (← recs.mapM renderDump), outs := (← outs.mapM (parseOut infl)) }
  | _ => none

def flipBit (bs : Bytes) (pos bit : Nat) : Bytes :=
  bs.take pos ++ (match bs.drop pos with | [] => [] | b :: r => (b ^^^ (1 <<< bit.toUInt8)) :: r)

def resClass {ε : Type} : Res ε → String
  | .ok => "ok" | .err _ => "err" | .cb _ => "cberr" | .panic _ => "panic" | .fuel => "fuel"

/-- the model's external code, from the harness's table -/
def mkExt (tbl : List (Bytes × Entry)) (json : Bytes) (decode : Bytes → Outcome (GoVal × Bytes)) : Ext GoVal :=
  { inflate := fun c => (tbl.find? (fun pe => pe.1 == c)).bind (·.2.dec),
    unsnappy := fun c => (tbl.find? (fun pe => pe.1.length ≥ 4 && pe.1.take (pe.1.length - 4) == c)).bind (·.2.dec),
    crc := fun d => match tbl.find? (fun pe => pe.2.dec == some d) with | some pe => pe.2.crc | none => 0,
    build := fun js => if js == json then some { decode := decode } else none }

/-- decode `n` records from block data with the codec model -/
def decodeN (decode : Bytes → Outcome (GoVal × Bytes)) : Nat → Bytes → Option (List String)
  | 0, _ => some []
  | n + 1, bs =>
    match decode bs with
    | .ok (v, r) => (decodeN decode n r).map (renderGoVal v :: ·)
    | _ => none

structure Intact where
  hdrLen : Nat
  blocks : List BlkLay
  exp : List (List String)           -- expected records per block
  datas : List (Option Bytes)        -- uncompressed block data per block (independent decompression)

def isPrefixOf (a b : List String) : Bool := a.length ≤ b.length && b.take a.length == a

/-- judge one derived input of a valid file by the property; `none` = satisfied -/
def judgeValid (c : FileCase) (it : Intact) (m : Mut) (del : List String) (res : String) (ov : List (Nat × Entry)) : Option String :=
  let all := it.exp.flatten
  let before (i : Nat) : Nat := ((it.exp.take i).map List.length).sum
  let through (i : Nat) : Nat := before (i + 1)
  let errUpTo (what : String) (lim : Nat) : Option String :=
    if res != "err" then some s!"{what}: result is {res}, an error is required"
    else if !isPrefixOf del all then some s!"{what}: delivered records are not a prefix of the file's records"
    else if del.length > lim then some s!"{what}: {del.length} records delivered, at most {lim} may be"
    else none
  if res == "panic" then some "ReadFile panicked" else
  match m with
  | .id =>
    if res != "ok" then some s!"intact file: result {res}"
    else if del != all then some "intact file: delivered records differ from the records the blocks declare" else none
  | .cb i =>
    if i < all.length then
      if res == "ok" then some s!"callback error at record {i} swallowed: ReadFile returned nil"
      else if res == "cbwrapped" then some s!"callback error at record {i} not returned unchanged (wrapped)"
      else if res != "cberr" then some s!"callback error at record {i}: a different error was returned"
      else if del.length != i + 1 then some s!"callback failing at record {i}: {del.length} callbacks were made"
      else if del != all.take (i + 1) then some s!"callback failing at record {i}: wrong records delivered"
      else none
    else if res != "ok" ∨ del != all then some "callback never failing: file not read completely" else none
  | .cbflip i _ _ =>
    -- the damaged marker comes after the record in the stream: the callback's error stops the reading first
    if i < all.length then
      if res == "ok" then some s!"{m.describe}: ReadFile returned nil"
      else if res != "cberr" then some s!"{m.describe}: the callback's error was not returned unchanged (result {res})"
      else if del != all.take (i + 1) then some s!"{m.describe}: {del.length} callbacks were made, reading must stop at record {i}"
      else none
    else none
  | .cut k =>
    let complete := (it.exp.zip it.blocks).flatMap fun (e, b) => if b.payEnd ≤ k then e else []
    let boundary := k == it.hdrLen || it.blocks.any (fun b => b.stop == k)
    if !isPrefixOf del all then some s!"cut at {k}: a partial, altered or invented record was delivered"
    else if del != complete then some s!"cut at {k}: {del.length} records delivered, the blocks whose payload is complete hold {complete.length}"
    else if boundary ∧ res != "ok" then some s!"cut at {k} (end of header or block): result {res}"
    else if !boundary ∧ res != "err" then some s!"cut at {k} (not a boundary): result {res}, an error is required"
    else none
  | .fill pos len v =>
    -- generated for sync markers only: a marker whose bytes are all `v` differs from the (random) marker of the file
    if (c.file.drop pos).take len == List.replicate len (UInt8.ofNat v) then none
    else if it.hdrLen - 16 ≤ pos ∧ pos < it.hdrLen then
      (if it.blocks.isEmpty then none else errUpTo s!"header sync marker replaced by {len} bytes {v}" (through 0))
    else
      match it.blocks.zipIdx.find? (fun (b, _) => b.payEnd ≤ pos ∧ pos < b.stop) with
      | some (_, i) => errUpTo s!"sync marker of block {i} replaced by {len} bytes {v}" (through i)
      | none => none
  | .flip pos _ =>
    if pos < 4 then
      (if res != "err" then some "wrong magic accepted" else if del != [] then some "records delivered from a file with wrong magic" else none)
    else if it.hdrLen - 16 ≤ pos ∧ pos < it.hdrLen then
      (if it.blocks.isEmpty then none else errUpTo "header sync marker damaged" (through 0))
    else
      match it.blocks.zipIdx.find? (fun (b, _) => b.start ≤ pos ∧ pos < b.stop) with
      | none => none
      | some (b, i) =>
        if pos ≥ b.payEnd then errUpTo s!"sync marker of block {i} damaged" (through i)
        else if pos < b.payOff then none
        else if c.codecName == "null" then none
        else if c.codecName == "snappy" ∧ pos + 4 ≥ b.payEnd then errUpTo s!"checksum of block {i} damaged" (before i)
        else
          match ov.find? (·.1 == i) with
          | none => some "harness: no independent decompression of the damaged payload"
          | some (_, e) =>
            let trailer := beU32 (b.payload.drop (b.payload.length - 4))
            let accepted : Option Bytes := match e.dec with
              | none => none
              | some d => if c.codecName == "snappy" ∧ e.crc != trailer then none else some d
            match accepted with
            | none => errUpTo s!"compressed payload of block {i} damaged (rejected by the independent decompressor)" (before i)
            | some d =>
              if it.datas[i]? == some (some d) then
                (if res != "ok" ∨ del != all then some s!"payload of block {i} changed without changing its content, but the file is not read completely" else none)
              else none   -- undetectable change of content: judged against the model below

def c07c08 (forCuts : Bool) (op : String) (args : List Sexp) : Verdict :=
  if op != "file" then .bad s!"unknown op {op}" else
  if File.kCodec != Spec.str "avro.codec" ∨ File.kSchema != Spec.str "avro.schema" ∨ File.vNull != Spec.str "null"
      ∨ File.vDeflate != Spec.str "deflate" ∨ File.vSnappy != Spec.str "snappy" then .bad "model constants" else
  match parseFileCase args with
  | none => .bad "parse"
  | some c =>
    if c.muts.length != c.outs.length then .bad s!"{c.muts.length} derived inputs, {c.outs.length} outcomes" else
    let env := noTimeEnv
    match buildCodec regLib 200 c.schema (some c.ty) false with
    | .error e => .bad s!"model cannot build the codec: {e}"
    | .ok codec =>
      let zero := zeroVal c.ty
      let decode : Bytes → Outcome (GoVal × Bytes) := fun bs => read env bigFuel codec bs zero
      -- the intact file as the independent walk sees it
      let baseWalk := (walkFile c.file).map (·.2) |>.getD []
      if baseWalk.length != c.infl.length then .bad s!"walk finds {baseWalk.length} payloads, harness {c.infl.length}" else
      let baseTbl := (baseWalk.map (·.payload)).zip c.infl
      -- expectation
      let expect : Except String (Option Intact × String) :=
        match c.expectSx with
        | .atom "raw" => .ok (none, "raw")
        | .list [.atom "biglen"] => .ok (none, "raw-biglen")
        | .list [.atom "reject", .atom why] => .ok (none, why)
        | .list (.atom kind :: rest) =>
          if kind != "valid" ∧ kind != "validd" then .error "expectation" else
          let blocksSx := if kind == "validd" then rest.drop 1 else rest
          let asch := if kind == "validd" then rest.head?.bind parseASchema else none
          let render (x : Sexp) : Option String :=
            if kind == "valid" then renderDump x
            else match asch, parseValue x with
              | some _, some v => match ofAvro env bigFuel codec v zero with | .ok g => some (renderGoVal g) | _ => none
              | _, _ => none
          match blocksSx.mapM (fun b => match b with | .list (.atom "blk" :: vs) => vs.mapM render | _ => none) with
          | none => .error "expected records do not parse / do not fit the target"
          | some exp =>
            -- validity, by the reference reader
            match Spec.readHeader c.file with
            | none => .error "reference reader rejects the header"
            | some (h, rest) =>
              match Spec.readBlocks h.sync (rest.length + 1) rest with
              | none => .error "reference reader rejects the blocks"
              | some blocks =>
                match walkFile c.file with
                | none => .error "walk rejects the file"
                | some (hdrLen, lays) =>
                  if hdrLen != c.file.length - rest.length then .error "header length" else
                  if blocks.length != exp.length ∨ lays.length != exp.length then .error s!"{blocks.length} blocks, {exp.length} expected" else
                  if (blocks.zip exp).any (fun (b, e) => b.count != e.length) then .error "block counts differ from the generator's" else
                  if (h.lookup (Spec.str "avro.schema")) != some c.json then .error "schema entry" else
                  let codecEntry := h.lookup (Spec.str "avro.codec")
                  if codecEntry != some (Spec.str c.codecName) ∧ !(codecEntry.isNone ∧ c.codecName == "null") then .error "codec entry" else
                  let datas : List (Option Bytes) := (lays.zip c.infl).map fun (l, e) =>
                    if c.codecName == "null" then some l.payload
                    else if c.codecName == "snappy" then
                      (if l.payload.length ≥ 4 ∧ e.crc == beU32 (l.payload.drop (l.payload.length - 4)) then e.dec else none)
                    else e.dec
                  if (datas.zip exp).any (fun (d, e) => match d with
                      | none => true
                      | some d => decodeN decode e.length d != some e) then
                    .error "a block does not decompress / decode to the generator's records"
                  else .ok (some { hdrLen := hdrLen, blocks := lays, exp := exp, datas := datas }, "valid")
        | _ => .error "expectation"
      match expect with
      | .error e => .bad s!"generated file: {e}"
      | .ok (intact, why) =>
        -- cuts of files above 16 kB: the oracle judges every cut; the model is run on the cuts within
        -- 24 bytes of a segment boundary (header end, block start, payload start / end, sync end) and on every 7th cut
        let marks : List Nat := match intact with
          | some it => it.hdrLen :: it.blocks.flatMap fun b => [b.start, b.payOff, b.payEnd, b.stop]
          | none => []
        let runModel (m : Mut) : Bool := match m with
          | .cut k => c.file.length ≤ 16384 || k % 7 == 0 || marks.any (fun x => x ≤ k + 24 && k ≤ x + 24)
          | _ => true
        -- every derived input
        let step (acc : Option Verdict × Nat) (mo : Mut × (List Nat × String × List (Nat × Entry))) : Option Verdict × Nat :=
          let (m, ids, res, ov) := mo
          let worse (v : Verdict) : Option Verdict × Nat :=
            match acc.1, v with
            | some (.oracle _), _ => acc
            | _, .oracle _ => (some v, acc.2)
            | some _, _ => acc
            | none, _ => (some v, acc.2)
          let input : Bytes := match m with
            | .id | .cb _ => c.file
            | .flip p b => flipBit c.file p b
            | .cbflip _ p b => flipBit c.file p b
            | .fill p l v => c.file.take p ++ List.replicate (min l (c.file.length - p)) (UInt8.ofNat v) ++ c.file.drop (p + l)
            | .cut k => c.file.take k
          if res == "skipped" then acc else
          match ids.mapM (fun i => c.recs[i]?) with
          | none => worse (.bad "record id")
          | some del =>
            -- oracle
            let orc : Option String :=
              if res == "panic" then some s!"ReadFile panicked ({m.describe})" else
              if res == "overalloc" then some s!"ReadFile allocated more than 64 MiB for a declared length the input does not back ({m.describe})" else
              match intact with
              | some it => judgeValid c it m del res ov
              | none =>
                if why == "raw" ∨ why == "raw-biglen" then none
                else if res != "err" then some s!"damaged header ({why}) accepted: result {res}"
                else if !del.isEmpty then some s!"damaged header ({why}): records delivered" else none
            match orc with
            | some e => worse (.oracle e)
            | none =>
              if !runModel m then (acc.1, acc.2 + 1) else
              -- model
              let tbl := if ov.isEmpty then baseTbl else
                let mw := (walkFile input).map (·.2) |>.getD []
                (ov.filterMap fun (i, e) => (mw[i]?).map fun l => (l.payload, e)) ++ baseTbl
              let X := mkExt tbl c.json decode
              let cb : Nat → Option Unit := match m with | .cb i | .cbflip i _ _ => fun j => if j == i then some () else none | _ => fun _ => none
              let o := readFile X (input.length + 1) cb input
              let mdel := o.delivered.map renderGoVal
              let mres := resClass o.res
              if mres == "fuel" then worse (.bad "model out of fuel")
              else if mres != res ∨ mdel != del then
                -- a damaged block accepted with other content than the independent decompressor yields
                let damagedPayload : Bool := match m, intact with
                  | .flip _ _, some _ => c.codecName != "null" && !ov.isEmpty
                  | _, _ => false
                if damagedPayload && (res == "ok" || del.length > mdel.length) then
                  worse (.oracle s!"{m.describe}: implementation ({res}, {del.length} records) accepts more than the decoding of what the independent decompressor yields ({mres}, {mdel.length} records)")
                else worse (.diff s!"{m.describe}: model ({mres}, {mdel.length} records) vs implementation ({res}, {del.length} records)")
              else (acc.1, acc.2 + 1)
        let (v, nok) := (c.muts.zip c.outs).foldl step (none, 0)
        match v with
        | some v => v
        | none =>
          let kind := match c.muts.head? with
            | some .id => if c.muts.length > 1 then "intact+callback" else "single"
            | some (.cb _) => "callback"
            | some (.cut _) => "cuts"
            | some (.cbflip _ _ _) => "callback+damaged-marker"
            | some (.fill _ _ _) => "filled-marker"
            | some (.flip p _) =>
              match intact with
              | some it =>
                if p < 4 then "flip-magic" else if p < it.hdrLen then "flip-header-sync"
                else match it.blocks.find? (fun (b : BlkLay) => b.start ≤ p ∧ p < b.stop) with
                  | some b => if p ≥ b.payEnd then "flip-sync" else if c.codecName == "snappy" ∧ p + 4 ≥ b.payEnd then "flip-crc" else "flip-payload"
                  | none => "flip"
              | none => "flip"
            | none => "empty"
          let _ := forCuts
          .ok s!"{if nok == 0 then "trivial/" else ""}file/{why}/{c.codecName}/{kind}/n{if nok ≥ 1000 then "1000+" else if nok ≥ 100 then "100+" else if nok ≥ 10 then "10+" else toString nok}"

def c07 (op : String) (args : List Sexp) : Verdict := c07c08 false op args
/-- `(big-cut codec size nrec (bigcut (layout b0 p0 e0 end) (cuts (c pos delivered err)…)))`: a file of two blocks whose first
payload exceeds the reader's 1 MiB chunk, truncated at chunk boundaries inside that payload. The file is too large to run the
list-based model on; the expectation is the statement of `C08.truncation` / `ok_iff_boundary` instantiated with the block layout
the recording writer observed: a cut strictly inside block j delivers the records of the blocks before j and an error, a cut on
a block boundary delivers them without error. -/
def bigCut (args : List Sexp) : Verdict :=
  match args with
  | [.atom codec, _, nrec, .list [.atom "bigcut", .list [.atom "layout", b0, _p0, pe0, e0, pe1, fin], .list (.atom "cuts" :: cuts)]] =>
    match asNat nrec, asNat b0, asNat e0, asNat fin, asNat pe0, asNat pe1 with
    | some nrec, some b0, some e0, some fin, some pe0, some pe1 =>
      let bad := cuts.filterMap fun c =>
        match c with
        | .list [.atom "c", pos, got, .atom err] =>
          match asNat pos, asNat got with
          | some pos, some got =>
            -- "exactly the records of those blocks whose payload is completely present"
            let wantGot := if pos < pe0 then 0 else if pos < pe1 then nrec else nrec + 1
            let wantErr := !(pos == b0 || pos == e0 || pos == fin)
            if pos < b0 then none
            else if got != wantGot || (err == "true") != wantErr then
              some s!"cut at {pos} (block 0 = [{b0},{e0}), its payload ends at {pe0}, file length {fin}): delivered {got} records, error={err}; a file cut there must deliver {wantGot} and error={wantErr}"
            else none
          | _, _ => some "unparsable cut"
        | _ => some "unparsable cut"
      match bad with
      | [] => .ok s!"bigcut/{codec}/{cuts.length}-cuts"
      | b :: _ => .oracle b
    | _, _, _, _, _, _ => .bad "parse"
  | [_, _, _, .list (.atom "writeerr" :: why)] => .oracle s!"writing the large file failed: {why}"
  | _ => .bad "parse"

def c08 (op : String) (args : List Sexp) : Verdict :=
  if op == "big-cut" then bigCut args else c07c08 true op args

end Avro.Drv
