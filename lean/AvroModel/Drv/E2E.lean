import AvroModel.Drv.CodecDrv
import AvroModel.Drv.SchemaGen
import AvroModel.Container
/-! Driver handlers for end-to-end cases: C01 (round trip through a container file) and the
container-level oracle of C02 (reference container reader + reference datum decoder). -/
namespace Avro.Drv
open Avro Sexp

structure E2ECase where
  ty : GoType
  codec : String
  vals : List GoVal
  schema : Schema
  res : Sexp
  recs : List Sexp
  container : Sexp

def parseE2E (args : List Sexp) : Option E2ECase :=
  match args with
  | [_, .atom codec, _, .list vals, _, .list [.atom "e2e", desc, schema, res, .list (.atom "recs" :: recs), cont]] => do
    pure { ty := (← parseGoType desc), codec, vals := (← vals.mapM parseGoVal), schema := (← parseSchema schema), res, recs, container := cont }
  | _ => none

def c01 (op : String) (args : List Sexp) : Verdict :=
  if op != "e2e" then .bad s!"unknown op {op}" else
  match args with
  | [_, _, _, _, _, .list [.atom "writeerr", e]] => .oracle s!"writing a supported type failed: {e}"
  | [_, _, _, _, _, .list (.atom "panic" :: e)] => .oracle s!"writing or reading back a supported type panics: {e}"
  | _ =>
  match parseE2E args with
  | none => .bad "parse"
  | some c =>
    let env := timeEnv
    -- the schema the library generated must be the one the model of schema generation yields
    let modelSchema := schemaForType SReg.empty TEnv.empty 4000 [] c.ty
    match modelSchema with
    | .ok ms =>
      if renderSchema ms != renderSchema c.schema then .diff s!"model schema {renderSchema ms}, implementation {renderSchema c.schema}" else
      match buildCodec regLib 200 c.schema (some c.ty) false with
      | .error e => .diff s!"model cannot build the codec: {e}"
      | .ok codec =>
        match c.res with
        | .atom "ok" =>
          if c.recs.length != c.vals.length then .oracle s!"{c.vals.length} records written, {c.recs.length} delivered" else
          -- per record: (oracle verdict, correspondence verdict)
          let judged : List (Option String × Option String) := (c.vals.zip c.recs).zipIdx.map fun ((g, r), i) =>
            -- oracle: the documented normalisations applied to the value written (independent of the codec model)
            let want := normSpec 64 c.ty false g
            match parseGoVal r with
            | none => (some s!"record {i}: unparsable implementation value", none)
            | some ir =>
              let got := renderGoVal (normSpec 64 c.ty false ir)
              let orc : Option String :=
                if got != renderGoVal want then
                  let masks : List (Nat × String) :=
                    [(1, "[D27 ptr-to-invalid-null only] "), (2, "[D30 ptr-ptr-inner-nil only] "),
                     (4, "[D32 zero-instant-nonutc only] "), (3, "[D27+D30 only] "), (5, "[D27+D32 only] "),
                     (6, "[D30+D32 only] "), (7, "[D27+D30+D32 only] ")]
                  let tag := (masks.find? fun m => got == renderGoVal (normSpecD m.1 64 c.ty false g)).elim "" (·.2)
                  some s!"{tag}record {i} read back as {got} (normalised), written value normalises to {renderGoVal want}"
                else none
              -- correspondence: the model's round trip gives what the implementation gave
              let cor : Option String :=
                match toAvro env (omits env) bigFuel codec g with
                | none => none
                | some v =>
                  match ofAvro env bigFuel codec v (zeroVal c.ty) with
                  | .ok ge => if renderGoVal ge == renderGoVal ir then none else some s!"record {i}: model round trip gives {renderGoVal ge}, implementation {renderGoVal ir}"
                  | _ => some s!"record {i}: model cannot read back its own datum"
              (orc, cor)
          -- a mismatch the recorded deviations do not explain comes first, then a correspondence break, then a recorded deviation
          let untagged := judged.findSome? fun (o, _) => match o with | some e => if e.startsWith "[" then none else some e | none => none
          let tagged := judged.findSome? fun (o, _) => match o with | some e => if e.startsWith "[" then some e else none | none => none
          let cor := judged.findSome? (·.2)
          match untagged, cor, tagged with
          | some e, _, _ => .oracle e
          | none, some d, _ => .diff d
          | none, none, some t => .oracle t
          | none, none, none => .ok s!"e2e/{c.codec}/recs{min c.vals.length 4}"
        | other => .oracle s!"reading back a file the library wrote failed: {other}"
    | .err => .diff "model: schema generation error"
    | .overflow => .bad "model schema generation out of fuel"

/-- decode `n` records of schema `a` from a block payload with the reference decoder -/
def decodeRecords (a : ASchema) : Nat → Bytes → Option (List Value × Bytes)
  | 0, bs => some ([], bs)
  | n + 1, bs =>
    match (decode bigFuel a bs).toOption with
    | none => none
    | some (v, r) =>
      match decodeRecords a n r with
      | none => none
      | some (vs, r') => some (v :: vs, r')

def c02e2e (args : List Sexp) : Verdict :=
  match parseE2E args with
  | none => .bad "parse"
  | some c =>
    let env := timeEnv
    match c.container, classify 400 c.schema, buildCodec regLib 200 c.schema (some c.ty) false with
    | .list [.atom "container", .atom "unsplittable"], _, _ => .oracle "the file is not a well-formed sequence of header and blocks"
    | .list [.atom "container", hdr, .list blocks], some a, .ok codec =>
      match asBytes hdr with
      | none => .bad "hdr"
      | some hdr =>
        match Spec.readHeader hdr with
        | none => .oracle "header is not a well-formed Avro container header"
        | some (h, rest) =>
          if rest != [] then .oracle "bytes after the header's sync marker" else
          if h.lookup (Spec.str "avro.codec") != some (Spec.str c.codec) then .oracle "avro.codec does not name the codec used" else
          if (h.lookup (Spec.str "avro.schema")).isNone then .oracle "no avro.schema in the header" else
          -- blocks: exact counts, payload = concatenation of exactly `count` record encodings
          let res : Except String (List Value) := blocks.foldlM (fun (acc : List Value) b =>
            match b with
            | .list [cnt, pl] =>
              match asInt cnt, asBytes pl with
              | some cnt, some pl =>
                if cnt ≤ 0 then .error "a block with a non-positive record count" else
                match decodeRecords a cnt.toNat pl with
                | none => .error "a block payload is not the encoding of its declared number of records"
                | some (vs, r) => if r != [] then .error s!"{r.length} bytes left over in a block" else .ok (acc ++ vs)
              | _, _ => .error "block"
            | _ => .error "block") []
          match res with
          | .error e => .oracle e
          | .ok datums =>
            if datums.length != c.vals.length then .oracle s!"{c.vals.length} records written, the file holds {datums.length}" else
            let bad := (c.vals.zip datums).zipIdx.findSome? fun ((g, v'), i) =>
              let g' := alignMaps codec g v'
              match toAvro env (specNull env) bigFuel codec g' with
              | none => some s!"record {i}: no datum for the generated value (harness)"
              | some v => if renderValue v == renderValue v' then none
                          else some s!"record {i}: file holds {renderValue v'}, the value's datum is {renderValue v}"
            match bad with
            | some e => .oracle e
            | none => .ok s!"e2e-container/{c.codec}/blocks{min blocks.length 4}"
    | _, none, _ => .bad "schema does not classify"
    | _, _, .error e => .diff s!"model cannot build the codec: {e}"
    | _, _, _ => .bad "container"

end Avro.Drv

namespace Avro.Drv
open Avro Sexp

/-- large-block files: the harness compares every delivered record itself -/
def bigVerdict (args : List Sexp) : Verdict :=
  match args with
  | [.atom codec, size, nrec, impl] =>
    match asNat nrec, impl with
    | some n, .list [.atom "ok", got, _] =>
      if asNat got == some (n + 1) then .ok s!"big/{codec}/{size}" else .oracle s!"{n + 1} records written in two blocks, {got} delivered"
    | _, other => .oracle s!"file with a block of {size} payload bytes: {other}"
  | _ => .bad "parse"

end Avro.Drv
