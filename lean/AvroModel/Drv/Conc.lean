import AvroModel.Drv.Sexp
import AvroModel.Conc
import AvroModel.Generated.LockFacts
/-! Driver handler for C12 cases.

* `(mix seed goroutines ops gomaxprocs impl)`: the implementation ran the mix concurrently (under the race
  detector) and again sequentially; `(ok digest …)` means every goroutine's results equal the sequential ones.
  The model has nothing to recompute for a schedule: the verdict is the oracle "results equal".
* `(facts impl)`: evaluates the discipline predicate `Avro.Conc.Guarded` on the regenerated table (the same
  predicate `C12.all_guarded` proves by `decide`) and names the offending rows; `impl` carries factgen's own
  Go-side evaluation with source positions. -/
namespace Avro.Drv
open Avro Sexp Avro.Conc

def describeAccess (a : Access) : String :=
  let held := " ".intercalate (a.held.map fun h => h.mutex ++ (if h.excl then "/Lock" else "/RLock"))
  let kind := if a.syncCall then "uses-sync-object" else if a.write then "WRITES" else "reads"
  s!"{a.fn}_{kind}_{a.var}_holding[{held}]"

def c12 (op : String) (args : List Sexp) : Verdict :=
  match op, args with
  | "facts", [impl] =>
    let f := Generated.lockFacts
    let rows := unguardedRows f
    let guarded := (f.vars.filter fun v => (lockOf f v.name).isSome).length
    let badCodecs := f.codecMethods.filter fun m => m.assignsThroughReceiver || m.writesPackageState
    let badPerCall := f.perCall.filter (·.storedInPkgVar)
    if !badCodecs.isEmpty then
      .diff ("codec methods that assign through their receiver or write package state (C12.codecs_immutable cannot hold): " ++
        "; ".intercalate (badCodecs.map fun m => s!"{m.pkg}.{m.typ}.{m.method}" ++
          (if m.assignsThroughReceiver then "_assigns-through-receiver" else "") ++ (if m.writesPackageState then "_writes-package-state" else "")))
    else if !badPerCall.isEmpty then
      .diff ("per-call state types stored in package-level variables (C12.per_call_state_not_shared cannot hold): " ++
        "; ".intercalate (badPerCall.map fun p => s!"{p.pkg}.{p.typ}"))
    else if Guarded f then
      match impl with
      | .list [.atom "factgen", _, _, .list (.atom "unguarded" :: (_ :: _))] =>
        .diff s!"Lean's Guarded holds on the regenerated table but factgen's own evaluation names unguarded accesses: {impl}"
      | _ => .ok s!"facts/guarded/vars{f.vars.length}/rows{f.accesses.length}/lockedvars{guarded}/codecmethods{f.codecMethods.length}"
    else
      let names := "; ".intercalate (rows.map describeAccess)
      .diff s!"lock discipline violated by the facts regenerated from the source (C12.all_guarded cannot hold): {names} -- factgen: {impl}"
  | "sample", [_, impl] =>
    match impl with
    | .list (.atom "samples" :: _) => .ok "trivial/sample"
    | _ => .bad s!"sample: {impl}"
  | "regstorm", [g, n, impl] =>
    match impl with
    | .list (.atom "ok" :: _) => .ok s!"regstorm/{g}x{n}"
    | .list (.atom "mismatch" :: _) => .oracle s!"registrations made concurrently were lost (a builder registered by a call that had returned was not found): {impl}"
    | .list [.atom "crashed"] => .oracle "the process died during concurrent registration"
    | other => .oracle s!"concurrent registration: {other}"
  | "mix", seed :: g :: n :: rest =>
    match asNat seed, asNat g, asNat n, rest.getLast? with
    | some _, some g, some n, some impl =>
      let procs := match rest with
        | [p, _] => (asNat p).getD 0
        | _ => 0
      match impl with
      | .list (.atom "ok" :: _) => .ok s!"mix/goroutines{g}/ops{n}/gomaxprocs{procs}"
      | .list (.atom "mismatch" :: _) => .oracle s!"an operation produced a different result running concurrently than alone: {impl}"
      | .list [.atom "crashed"] => .oracle "the process died during the concurrent mix (runtime fatal error, see the race run's log)"
      | .list (.atom "panic" :: _) => .oracle s!"panic during the concurrent mix: {impl}"
      | .list (.atom "op-failed" :: _) => .diff s!"an operation of the mix fails even when run alone: {impl}"
      | _ => .bad s!"mix outcome: {impl}"
    | _, _, _, _ => .bad "args"
  | _, _ => .bad s!"unknown C12 op {op}"

end Avro.Drv
