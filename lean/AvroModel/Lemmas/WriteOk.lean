import AvroModel.Lemmas.ReadOk
/-!
Write correctness: the bytes `write` produces for a Go value are exactly the specification's
encoding — under the canonical plan (one unsized block per non-empty collection) — of the datum
the value denotes (`toAvro`), whenever the specification defines an encoding for that datum.
-/
namespace Avro

mutual
/-- the plan the library's writer follows: each non-empty array/map is one block without a size -/
def canonPlan : Value → Plan
  | .record vs => .node [] (canonPlans vs)
  | .array vs => .node (if vs.isEmpty then [] else [(vs.length, false)]) (canonPlans vs)
  | .map _ vs => .node (if vs.isEmpty then [] else [(vs.length, false)]) (canonPlans vs)
  | .union _ v => .node [] [canonPlan v]
  | _ => .node [] []
def canonPlans : List Value → List Plan
  | [] => []
  | v :: vs => canonPlan v :: canonPlans vs
end

variable (env : Env)

/-- the null-ness notion of the code itself -/
abbrev codeNull : Codec → GoVal → Bool := omits env

structure WriteOkAt (n : Nat) : Prop where
  write : ∀ m c s g bs v bs', CodecFor c s → write env n c g = some bs → toAvro env (omits env) m c g = some v →
    encode (canonPlan v) s v = some bs' → bs' = bs
  items : ∀ m c s gs bs vs encs, CodecFor c s → writeItems env n c gs = some bs → toAvroItems env (omits env) m c gs = some vs →
    encodeItems (canonPlans vs) s vs = some encs → encs.flatten = bs ∧ encs.length = gs.length
  entries : ∀ m c s ks gs bs vs encs, CodecFor c s → writeEntries env n c ks gs = some bs → toAvroItems env (omits env) m c gs = some vs →
    encodeItems (canonPlans vs) s vs = some encs → (List.zipWith (fun k e => encBytes k ++ e) ks encs).flatten = bs ∧ ks.length = gs.length
  fields : ∀ m cs ss ts fs bs vs bs', CodecsFor cs ss → writeFields env n cs ts fs = some bs → toAvroFields env (omits env) m cs ts fs = some vs →
    encodeFields (canonPlans vs) ss vs = some bs' → bs' = bs

theorem encLen_eq_encBytes (b : Bytes) : encLen b = encBytes b := rfl

theorem stripPtr_array_schema : ∀ {c : Codec} {s : ASchema}, CodecFor c s → ∀ {x : Codec} {o : Bool}, Codec.stripPtr c = .array x o → ∃ s', s = .array s'
  | .pointer c, _, h, _, _, hs => by
    cases h with | pointer h' => exact stripPtr_array_schema h' (by simpa [Codec.stripPtr] using hs)
  | .array _ _, _, h, _, _, _ => by cases h; exact ⟨_, rfl⟩
  | .null, _, _, _, _, hs => by simp [Codec.stripPtr] at hs
  | .bool _, _, _, _, _, hs => by simp [Codec.stripPtr] at hs
  | .int _ _, _, _, _, _, hs => by simp [Codec.stripPtr] at hs
  | .float _, _, _, _, _, hs => by simp [Codec.stripPtr] at hs
  | .double _, _, _, _, _, hs => by simp [Codec.stripPtr] at hs
  | .f32double _, _, _, _, _, hs => by simp [Codec.stripPtr] at hs
  | .bytes _, _, _, _, _, hs => by simp [Codec.stripPtr] at hs
  | .string _, _, _, _, _, hs => by simp [Codec.stripPtr] at hs
  | .fixed _, _, _, _, _, hs => by simp [Codec.stripPtr] at hs
  | .record _ _ _, _, _, _, _, hs => by simp [Codec.stripPtr] at hs
  | .union _, _, _, _, _, hs => by simp [Codec.stripPtr] at hs
  | .unionOne _ _, _, _, _, _, hs => by simp [Codec.stripPtr] at hs
  | .unionNullString _ _, _, _, _, _, hs => by simp [Codec.stripPtr] at hs
  | .timeString, _, _, _, _, hs => by simp [Codec.stripPtr] at hs
  | .timeLong _, _, _, _, _, hs => by simp [Codec.stripPtr] at hs
  | .date, _, _, _, _, hs => by simp [Codec.stripPtr] at hs
  | .nullw _, _, _, _, _, hs => by simp [Codec.stripPtr] at hs
  | .custom _, _, _, _, _, hs => by simp [Codec.stripPtr] at hs
  | .map _ _, _, _, _, _, hs => by simp [Codec.stripPtr] at hs

theorem stripPtr_map_schema : ∀ {c : Codec} {s : ASchema}, CodecFor c s → ∀ {x : Codec} {o : Bool}, Codec.stripPtr c = .map x o → ∃ s', s = .map s'
  | .pointer c, _, h, _, _, hs => by
    cases h with | pointer h' => exact stripPtr_map_schema h' (by simpa [Codec.stripPtr] using hs)
  | .map _ _, _, h, _, _, _ => by cases h; exact ⟨_, rfl⟩
  | .null, _, _, _, _, hs => by simp [Codec.stripPtr] at hs
  | .bool _, _, _, _, _, hs => by simp [Codec.stripPtr] at hs
  | .int _ _, _, _, _, _, hs => by simp [Codec.stripPtr] at hs
  | .float _, _, _, _, _, hs => by simp [Codec.stripPtr] at hs
  | .double _, _, _, _, _, hs => by simp [Codec.stripPtr] at hs
  | .f32double _, _, _, _, _, hs => by simp [Codec.stripPtr] at hs
  | .bytes _, _, _, _, _, hs => by simp [Codec.stripPtr] at hs
  | .string _, _, _, _, _, hs => by simp [Codec.stripPtr] at hs
  | .fixed _, _, _, _, _, hs => by simp [Codec.stripPtr] at hs
  | .record _ _ _, _, _, _, _, hs => by simp [Codec.stripPtr] at hs
  | .union _, _, _, _, _, hs => by simp [Codec.stripPtr] at hs
  | .unionOne _ _, _, _, _, _, hs => by simp [Codec.stripPtr] at hs
  | .unionNullString _ _, _, _, _, _, hs => by simp [Codec.stripPtr] at hs
  | .timeString, _, _, _, _, hs => by simp [Codec.stripPtr] at hs
  | .timeLong _, _, _, _, _, hs => by simp [Codec.stripPtr] at hs
  | .date, _, _, _, _, hs => by simp [Codec.stripPtr] at hs
  | .nullw _, _, _, _, _, hs => by simp [Codec.stripPtr] at hs
  | .custom _, _, _, _, _, hs => by simp [Codec.stripPtr] at hs
  | .array _ _, _, _, _, _, hs => by simp [Codec.stripPtr] at hs

theorem encBlocks_single (encs : List Bytes) (bs' : Bytes)
    (h : encBlocks (if encs.isEmpty then [] else [(encs.length, false)]) encs = some bs') :
    bs' = if encs.isEmpty then writeVarint 0 else writeVarint encs.length ++ encs.flatten ++ writeVarint 0 := by
  cases encs with
  | nil => simp [encBlocks] at h; simp [h]
  | cons e es =>
    simp only [List.isEmpty_cons, Bool.false_eq_true, if_false] at h ⊢
    obtain ⟨rest, _, _, _, _, hr, rfl⟩ := encBlocks_cons_inv h
    simp only [List.take_length, List.drop_length] at hr ⊢
    obtain ⟨_, rfl⟩ := encBlocks_nil_inv hr
    simp

theorem toAvro_succ_of {nullp : Codec → GoVal → Bool} {m : Nat} {c : Codec} {g : GoVal} {v : Value}
    (h : toAvro env nullp m c g = some v) : ∃ m', m = m' + 1 := by
  cases m with
  | zero => simp [toAvro] at h
  | succ m' => exact ⟨m', rfl⟩

theorem writeOk_write (n : Nat) (ih : WriteOkAt env n) :
    ∀ m c s g bs v bs', CodecFor c s → write env (n + 1) c g = some bs → toAvro env (omits env) m c g = some v →
    encode (canonPlan v) s v = some bs' → bs' = bs := by
  intro m c s g bs v bs' hc hw ht he
  obtain ⟨m, rfl⟩ := toAvro_succ_of env ht
  have hwrite := ih.write
  cases hc with
  | null =>
    simp only [write, toAvro] at hw ht; cases hw; cases ht
    simp [canonPlan, encode] at he; exact he
  | bool =>
    cases g <;> simp only [write, toAvro] at hw ht <;> try (cases hw; done)
    cases hw; cases ht; simp [canonPlan, encode] at he; exact he.symm
  | intI =>
    cases g <;> simp only [write, toAvro] at hw ht <;> try (cases hw; done)
    cases hw; cases ht; simp [canonPlan, encode] at he; exact he.2.symm
  | intL =>
    cases g <;> simp only [write, toAvro] at hw ht <;> try (cases hw; done)
    cases hw; cases ht; simp [canonPlan, encode] at he; exact he.2.symm
  | float =>
    cases g <;> simp only [write, toAvro] at hw ht <;> try (cases hw; done)
    cases hw; cases ht; simp [canonPlan, encode] at he; exact he.2.symm
  | double =>
    cases g <;> simp only [write, toAvro] at hw ht <;> try (cases hw; done)
    cases hw; cases ht; simp [canonPlan, encode] at he; exact he.2.symm
  | f32double =>
    cases g <;> simp only [write, toAvro] at hw ht <;> try (cases hw; done)
    cases hw; cases ht; simp [canonPlan, encode] at he; exact he.2.symm
  | bytes =>
    cases g <;> simp only [write, toAvro] at hw ht <;> try (cases hw; done)
    cases hw; cases ht; simp [canonPlan, encode] at he; rw [encLen_eq_encBytes]; exact he.2.symm
  | string =>
    cases g <;> simp only [write, toAvro] at hw ht <;> try (cases hw; done)
    cases hw; cases ht; simp [canonPlan, encode] at he; rw [encLen_eq_encBytes]; exact he.2.symm
  | fixed =>
    cases g <;> simp only [write, toAvro] at hw ht <;> try (cases hw; done)
    cases hw; cases ht; simp [canonPlan, encode] at he; exact he.2.symm
  | @array item s' o hitem =>
    cases g <;> simp only [write, toAvro] at hw ht <;> try (cases hw; done)
    rename_i items
    cases hti : toAvroItems env (omits env) m item items with
    | none => simp [hti] at ht
    | some vs =>
      simp only [hti, Option.map_some, Option.some.injEq] at ht; subst ht
      obtain ⟨bl, subs, vs', encs, hp, hv, hi, hb⟩ := encode_array_inv he
      have hv' : vs' = vs := by cases hv; rfl
      subst hv'
      simp only [canonPlan, Plan.node.injEq] at hp
      obtain ⟨rfl, rfl⟩ := hp
      by_cases hemp : items.isEmpty = true
      · -- empty slice
        have : items = [] := by simpa using hemp
        subst this
        cases m with
        | zero => simp [toAvroItems] at hti
        | succ m =>
          simp [toAvroItems] at hti; subst hti
          simp [canonPlans, encodeItems] at hi; subst hi
          simp [encBlocks] at hb
          simp at hw; rw [← hw, ← hb]
      · simp only [hemp, Bool.false_eq_true, if_false] at hw
        cases hwi : writeItems env n item items with
        | none => simp [hwi] at hw
        | some body =>
          simp only [hwi, Option.some.injEq] at hw
          obtain ⟨hflat, hlen⟩ := ih.items m _ _ items body vs' encs hitem hwi hti hi
          have hvl : vs'.length = encs.length := (encodeItems_inv hi).length_eq
          have hne : ¬ (vs'.isEmpty = true) := by
            intro h; have : vs' = [] := by simpa using h
            subst this; simp at hvl
            have : items.length = 0 := by omega
            have : items = [] := List.eq_nil_of_length_eq_zero this
            simp [this] at hemp
          simp only [hne, Bool.false_eq_true, if_false] at hb
          rw [hvl] at hb
          have hne' : ¬ (encs.isEmpty = true) := by
            intro h; have : encs = [] := by simpa using h
            subst this; simp at hvl; simp [hvl] at hne
          have := encBlocks_single encs bs' (by simp only [hne', Bool.false_eq_true, if_false]; exact hb)
          simp only [hne', Bool.false_eq_true, if_false] at this
          rw [this, ← hw, hflat, hlen]
  | @map val s' o hval =>
    cases g <;> simp only [write, toAvro] at hw ht <;> try (cases hw; done)
    rename_i nl ks gs
    cases hti : toAvroItems env (omits env) m val gs with
    | none => simp [hti] at ht
    | some vs =>
      simp only [hti, Option.map_some, Option.some.injEq] at ht; subst ht
      obtain ⟨bl, subs, ks', vs', encs, hp, hv, hkl, hks, hi, hb⟩ := encode_map_inv he
      have hv' : ks = ks' ∧ vs' = vs := by cases hv; exact ⟨rfl, rfl⟩
      obtain ⟨hk', hv''⟩ := hv'
      subst hk'; subst hv''
      simp only [canonPlan, Plan.node.injEq] at hp
      obtain ⟨rfl, rfl⟩ := hp
      by_cases hemp : ks.isEmpty = true
      · have : ks = [] := by simpa using hemp
        subst this
        have : vs' = [] := by simpa using hkl.symm
        subst this
        simp [canonPlans, encodeItems] at hi; subst hi
        simp [encBlocks] at hb
        simp at hw; rw [← hw, ← hb]
      · simp only [hemp, Bool.false_eq_true, if_false] at hw
        cases hwi : writeEntries env n val ks gs with
        | none => simp [hwi] at hw
        | some body =>
          simp only [hwi, Option.some.injEq] at hw
          obtain ⟨hflat, hlen⟩ := ih.entries m _ _ ks gs body vs' encs hval hwi hti hi
          have hvl : vs'.length = encs.length := (encodeItems_inv hi).length_eq
          have hkne : ks ≠ [] := by intro h; simp [h] at hemp
          have hne : ¬ (vs'.isEmpty = true) := by
            intro h; have : vs' = [] := by simpa using h
            subst this; simp at hkl; exact hkne hkl
          simp only [hne, Bool.false_eq_true, if_false] at hb
          have hzl : (List.zipWith (fun k e => encBytes k ++ e) ks encs).length = vs'.length := by
            simp [List.length_zipWith]; omega
          rw [← hzl] at hb
          have hne' : ¬ ((List.zipWith (fun k e => encBytes k ++ e) ks encs).isEmpty = true) := by
            intro h
            have : (List.zipWith (fun k e => encBytes k ++ e) ks encs) = [] := by simpa using h
            rw [this] at hzl; simp at hzl
            have : vs' = [] := List.eq_nil_of_length_eq_zero hzl.symm
            simp [this] at hne
          have := encBlocks_single _ bs' (by rw [if_neg hne']; exact hb)
          rw [if_neg hne'] at this
          rw [this, ← hw, hflat, hzl, ← hkl]
  | pointer hc' =>
    cases g <;> simp only [write, toAvro] at hw ht <;> try (cases hw; done)
    rename_i tgt
    cases tgt with
    | none =>
      simp only at hw ht
      split at ht
      · rename_i item o hs
        obtain ⟨s', rfl⟩ := stripPtr_array_schema hc' hs
        cases ht
        simp only [hs] at hw; cases hw
        simp [canonPlan, canonPlans, encode, encodeItems, encBlocks] at he; exact he.symm
      · rename_i val o hs
        obtain ⟨s', rfl⟩ := stripPtr_map_schema hc' hs
        cases ht
        simp only [hs] at hw; cases hw
        simp [canonPlan, canonPlans, encode, encodeItems, encBlocks] at he; exact he.symm
      · cases ht
    | some x => exact hwrite m _ _ x bs v bs' hc' hw ht he
  | @record z cs ts ns ss hcs hl =>
    cases g <;> simp only [write, toAvro] at hw ht <;> try (cases hw; done)
    rename_i fs
    cases htf : toAvroFields env (omits env) m cs ts fs with
    | none => simp [htf] at ht
    | some vs =>
      simp only [htf, Option.map_some, Option.some.injEq] at ht; subst ht
      obtain ⟨bl, subs, vs', hp, hv, hf⟩ := encode_record_inv he
      have hv' : vs' = vs := by cases hv; rfl
      subst hv'
      simp only [canonPlan, Plan.node.injEq] at hp
      obtain ⟨_, rfl⟩ := hp
      exact ih.fields m _ _ _ fs bs vs' bs' hcs hw htf hf
  | union hcs => simp only [write] at hw; cases hw
  | @unionOne0 c0 s0 hc' =>
    simp only [write, toAvro] at hw ht
    by_cases ho : omits env c0 g = true
    · simp only [ho, if_true] at hw ht
      cases hw; cases ht
      simp [canonPlan, encode] at he
      rw [← he]; simp
    · simp only [ho, Bool.false_eq_true, if_false] at hw ht
      cases hw1 : write env n c0 g with
      | none => simp [hw1] at hw
      | some b =>
        simp only [hw1, Option.some.injEq] at hw
        cases ht1 : toAvro env (omits env) m c0 g with
        | none => simp [ht1] at ht
        | some v0 =>
          simp only [ht1, Option.map_some, Option.some.injEq] at ht; subst ht
          obtain ⟨bl, idx, v', b0, p', e, hp, hv, hb, he', hi, rfl⟩ := encode_union_inv he
          have hv' : idx = 0 ∧ v' = v0 := by cases hv; exact ⟨rfl, rfl⟩
          obtain ⟨hidx, hv''⟩ := hv'
          subst hidx; subst hv''
          simp only [canonPlan, Plan.node.injEq, List.cons.injEq, and_true] at hp
          obtain ⟨_, rfl⟩ := hp
          simp at hb; subst hb
          have := hwrite m _ _ g b v' e hc' hw1 ht1 he'
          rw [this, ← hw]
  | @unionOne1 c0 s0 hc' =>
    simp only [write, toAvro] at hw ht
    by_cases ho : omits env c0 g = true
    · simp only [ho, if_true] at hw ht
      cases hw; cases ht
      simp [canonPlan, encode] at he
      rw [← he]; simp
    · simp only [ho, Bool.false_eq_true, if_false] at hw ht
      cases hw1 : write env n c0 g with
      | none => simp [hw1] at hw
      | some b =>
        simp only [hw1, Option.some.injEq] at hw
        cases ht1 : toAvro env (omits env) m c0 g with
        | none => simp [ht1] at ht
        | some v0 =>
          simp only [ht1, Option.map_some, Option.some.injEq] at ht; subst ht
          obtain ⟨bl, idx, v', b0, p', e, hp, hv, hb, he', hi, rfl⟩ := encode_union_inv he
          have hv' : idx = 1 ∧ v' = v0 := by cases hv; exact ⟨rfl, rfl⟩
          obtain ⟨hidx, hv''⟩ := hv'
          subst hidx; subst hv''
          simp only [canonPlan, Plan.node.injEq, List.cons.injEq, and_true] at hp
          obtain ⟨_, rfl⟩ := hp
          simp at hb; subst hb
          have := hwrite m _ _ g b v' e hc' hw1 ht1 he'
          rw [this, ← hw]
  | unionNullString0 =>
    cases g <;> simp only [write, toAvro] at hw ht <;> try (cases hw; done)
    rename_i sb
    split at hw
    · rename_i hcond; simp only [hcond, if_true] at ht; cases hw; cases ht
      simp [canonPlan, encode] at he; rw [← he]; simp
    · rename_i hcond; simp only [hcond, if_false] at ht; cases hw; cases ht
      by_cases hl : sb.length < 2 ^ 63
      · simp [canonPlan, encode, hl] at he
        rw [encLen_eq_encBytes, ← he]; simp
      · simp [canonPlan, encode, hl] at he
  | unionNullString1 =>
    cases g <;> simp only [write, toAvro] at hw ht <;> try (cases hw; done)
    rename_i sb
    split at hw
    · rename_i hcond; simp only [hcond, if_true] at ht; cases hw; cases ht
      simp [canonPlan, encode] at he; rw [← he]; simp
    · rename_i hcond; simp only [hcond, if_false] at ht; cases hw; cases ht
      by_cases hl : sb.length < 2 ^ 63
      · simp [canonPlan, encode, hl] at he
        rw [encLen_eq_encBytes, ← he]; simp
      · simp [canonPlan, encode, hl] at he
  | timeString =>
    cases g <;> simp only [write, toAvro] at hw ht <;> try (cases hw; done)
    cases hw; cases ht; simp [canonPlan, encode] at he; rw [encLen_eq_encBytes]; exact he.2.symm
  | timeLong =>
    cases g <;> simp only [write, toAvro] at hw ht <;> try (cases hw; done)
    cases hw; cases ht; simp [canonPlan, encode] at he; exact he.2.symm
  | date =>
    cases g <;> simp only [write, toAvro] at hw ht <;> try (cases hw; done)
    cases hw; cases ht; simp [canonPlan, encode] at he; exact he.2.symm
  | nullInt =>
    cases g <;> simp only [write, toAvro] at hw ht <;> try (cases hw; done)
    rename_i valid inner
    cases inner <;> simp only at hw ht <;> try (cases hw; done)
    cases hw; cases ht; simp [canonPlan, encode] at he; exact he.2.symm
  | nullIntI =>
    cases g <;> simp only [write, toAvro] at hw ht <;> try (cases hw; done)
    rename_i valid inner
    cases inner <;> simp only at hw ht <;> try (cases hw; done)
    cases hw; cases ht; simp [canonPlan, encode] at he; exact he.2.symm
  | nullBool =>
    cases g <;> simp only [write, toAvro] at hw ht <;> try (cases hw; done)
    rename_i valid inner
    cases inner <;> simp only at hw ht <;> try (cases hw; done)
    cases hw; cases ht; simp [canonPlan, encode] at he; exact he.symm
  | nullDouble =>
    cases g <;> simp only [write, toAvro] at hw ht <;> try (cases hw; done)
    rename_i valid inner
    cases inner <;> simp only at hw ht <;> try (cases hw; done)
    cases hw; cases ht; simp [canonPlan, encode] at he; exact he.2.symm
  | nullFloat =>
    cases g <;> simp only [write, toAvro] at hw ht <;> try (cases hw; done)
    rename_i valid inner
    cases inner <;> simp only at hw ht <;> try (cases hw; done)
    cases hw; cases ht; simp [canonPlan, encode] at he; exact he.2.symm
  | nullString =>
    cases g <;> simp only [write, toAvro] at hw ht <;> try (cases hw; done)
    rename_i valid inner
    cases inner <;> simp only at hw ht <;> try (cases hw; done)
    cases hw; cases ht; simp [canonPlan, encode] at he; rw [encLen_eq_encBytes]; exact he.2.symm
  | nullTime =>
    cases g <;> simp only [write, toAvro] at hw ht <;> try (cases hw; done)
    rename_i valid inner
    cases inner <;> simp only at hw ht <;> try (cases hw; done)
    cases hw; cases ht; simp [canonPlan, encode] at he; rw [encLen_eq_encBytes]; exact he.2.symm

theorem writeOk_items (n : Nat) (ih : WriteOkAt env n) :
    ∀ m c s gs bs vs encs, CodecFor c s → writeItems env (n + 1) c gs = some bs → toAvroItems env (omits env) m c gs = some vs →
    encodeItems (canonPlans vs) s vs = some encs → encs.flatten = bs ∧ encs.length = gs.length := by
  intro m c s gs bs vs encs hc hw ht he
  cases m with
  | zero => simp [toAvroItems] at ht
  | succ m =>
  cases gs with
  | nil =>
    simp [writeItems] at hw; simp [toAvroItems] at ht; subst hw; subst ht
    simp [canonPlans, encodeItems] at he; subst he; simp
  | cons g gs =>
    simp only [writeItems] at hw
    simp only [toAvroItems] at ht
    split at hw <;> try (cases hw; done)
    rename_i a b ha hb; cases hw
    split at ht <;> try (cases ht; done)
    rename_i v vs' hv hvs; cases ht
    simp only [canonPlans, encodeItems] at he
    split at he <;> try (cases he; done)
    rename_i e es he1 he2; cases he
    have h1 := ih.write m c s g a v e hc ha hv he1
    obtain ⟨h2, h3⟩ := ih.items m c s gs b vs' es hc hb hvs he2
    simp [h1, h2, h3]

theorem writeOk_entries (n : Nat) (ih : WriteOkAt env n) :
    ∀ m c s ks gs bs vs encs, CodecFor c s → writeEntries env (n + 1) c ks gs = some bs → toAvroItems env (omits env) m c gs = some vs →
    encodeItems (canonPlans vs) s vs = some encs →
    (List.zipWith (fun k e => encBytes k ++ e) ks encs).flatten = bs ∧ ks.length = gs.length := by
  intro m c s ks gs bs vs encs hc hw ht he
  cases m with
  | zero => simp [toAvroItems] at ht
  | succ m =>
  cases gs with
  | nil =>
    cases ks with
    | nil =>
      simp [writeEntries] at hw; simp [toAvroItems] at ht; subst hw; subst ht
      simp [canonPlans, encodeItems] at he; subst he; simp
    | cons _ _ => simp [writeEntries] at hw
  | cons g gs =>
    cases ks with
    | nil => simp [writeEntries] at hw
    | cons k ks =>
      simp only [writeEntries] at hw
      simp only [toAvroItems] at ht
      split at hw <;> try (cases hw; done)
      rename_i a b ha hb; cases hw
      split at ht <;> try (cases ht; done)
      rename_i v vs' hv hvs; cases ht
      simp only [canonPlans, encodeItems] at he
      split at he <;> try (cases he; done)
      rename_i e es he1 he2; cases he
      have h1 := ih.write m c s g a v e hc ha hv he1
      obtain ⟨h2, h3⟩ := ih.entries m c s ks gs b vs' es hc hb hvs he2
      simp [h1, h2, h3, encLen_eq_encBytes]

theorem writeOk_fields (n : Nat) (ih : WriteOkAt env n) :
    ∀ m cs ss ts fs bs vs bs', CodecsFor cs ss → writeFields env (n + 1) cs ts fs = some bs → toAvroFields env (omits env) m cs ts fs = some vs →
    encodeFields (canonPlans vs) ss vs = some bs' → bs' = bs := by
  intro m cs ss ts fs bs vs bs' hcs hw ht he
  cases m with
  | zero => simp [toAvroFields] at ht
  | succ m =>
  cases hcs with
  | nil =>
    simp [writeFields] at hw; simp [toAvroFields] at ht; subst hw; subst ht
    simp [canonPlans, encodeFields] at he; exact he
  | @cons c s cs' ss' h1 h2 =>
    cases ts with
    | nil => simp [writeFields] at hw
    | cons t ts =>
      cases t with
      | none => simp [writeFields] at hw
      | some i =>
        simp only [writeFields] at hw
        simp only [toAvroFields] at ht
        cases hfi : fs[i]? with
        | none => simp [hfi] at hw
        | some g =>
          simp only [hfi] at hw ht
          split at hw <;> try (cases hw; done)
          rename_i a b ha hb; cases hw
          split at ht <;> try (cases ht; done)
          rename_i v vs' hv hvs; cases ht
          obtain ⟨p, ps', v0, vs0, a', b', hp, hvv, hea, heb, rfl⟩ := encodeFields_cons_inv he
          have hvv' : v0 = v ∧ vs0 = vs' := by cases hvv; exact ⟨rfl, rfl⟩
          obtain ⟨rfl, rfl⟩ := hvv'
          simp only [canonPlans, List.cons.injEq] at hp
          obtain ⟨rfl, rfl⟩ := hp
          rw [ih.write m c s g a v0 a' h1 ha hv hea, ih.fields m cs' ss' ts fs b vs0 b' h2 hb hvs heb]

/-- **Write correctness** at every step budget. -/
theorem writeOkAt : ∀ n, WriteOkAt env n := by
  intro n
  induction n with
  | zero =>
    constructor
    · intro m c s g bs v bs' _ h; simp [write] at h
    · intro m c s gs bs vs encs _ h; simp [writeItems] at h
    · intro m c s ks gs bs vs encs _ h; simp [writeEntries] at h
    · intro m cs ss ts fs bs vs bs' _ h; simp [writeFields] at h
  | succ n ih =>
    exact ⟨writeOk_write env n ih, writeOk_items env n ih, writeOk_entries env n ih, writeOk_fields env n ih⟩

end Avro
