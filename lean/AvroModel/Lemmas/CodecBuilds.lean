import AvroModel.Lemmas.Governs
/-! Lemmas for C15 `codec_builds`: for the supported fragment of Go types, `buildCodec` succeeds on the
generated schema. Success is stated for *all* fuels from some bound on (`BuildsFrom`), so no fuel
monotonicity of `buildCodec` is needed. -/
namespace Avro

/-- `buildCodec` succeeds for every fuel from `N` on -/
def BuildsFrom (reg : Reg) (N : Nat) (s : Schema) (typ : Option GoType) (oe : Bool) : Prop :=
  ∀ fuel, N ≤ fuel → ∃ c, buildCodec reg fuel s typ oe = .ok c

theorem buildsFrom_mono {reg : Reg} {N M : Nat} {s : Schema} {typ : Option GoType} {oe : Bool}
    (h : BuildsFrom reg N s typ oe) (hle : N ≤ M) : BuildsFrom reg M s typ oe :=
  fun fuel hf => h fuel (Nat.le_trans hle hf)

theorem prim_type (t : String) : (Schema.prim t).type = t := rfl

theorem buildCodec_union_eq (reg : Reg) (n : Nat) (s x : Schema) (typ : Option GoType) (oe : Bool)
    (h1 : s.type = "union") (h2 : s.union = [.prim "null", x]) :
    buildCodec reg (n + 3) s typ oe =
      (match buildCodec reg n x typ oe with
       | .ok (.string o) => .ok (.unionNullString o 1)
       | .ok c => .ok (.unionOne c 1)
       | .error e => .error e) := by
  have hc : (s.type != "union" && s.type != "null") = false := by simp [h1]
  simp only [buildCodec, hc, Bool.false_eq_true, if_false]
  simp [buildKind, h1, h2, buildUnion, prim_type]
  cases buildCodec reg n x typ oe with
  | error e => rfl
  | ok c => cases c <;> rfl

theorem buildsFrom_union {reg : Reg} {N : Nat} {s x : Schema} {typ : Option GoType} {oe : Bool}
    (h1 : s.type = "union") (h2 : s.union = [.prim "null", x]) (h : BuildsFrom reg N x typ oe) :
    BuildsFrom reg (N + 3) s typ oe := by
  intro fuel hf
  obtain ⟨n, rfl⟩ : ∃ n, fuel = n + 3 := ⟨fuel - 3, by omega⟩
  obtain ⟨c, hc⟩ := h n (by omega)
  rw [buildCodec_union_eq reg n s x typ oe h1 h2, hc]
  cases c <;> exact ⟨_, rfl⟩

theorem buildsFrom_ptr {reg : Reg} {N : Nat} {s : Schema} {e : GoType} {oe : Bool}
    (h1 : s.type ≠ "union") (h2 : s.type ≠ "null") (h : BuildsFrom reg N s (some e) false) :
    BuildsFrom reg (N + 1) s (some (.ptr e)) oe := by
  intro fuel hf
  obtain ⟨n, rfl⟩ : ∃ n, fuel = n + 1 := ⟨fuel - 1, by omega⟩
  obtain ⟨c, hc⟩ := h n (by omega)
  rw [buildCodec_ptr reg n s e oe h1 h2, hc]
  exact ⟨_, rfl⟩

theorem buildsFrom_array {reg : Reg} {N : Nat} {u : Schema} {e : GoType} {oe : Bool}
    (h : BuildsFrom reg N u (some e) false) : BuildsFrom reg (N + 2) (arraySchema u) (some (.slice e)) oe := by
  intro fuel hf
  obtain ⟨n, rfl⟩ : ∃ n, fuel = n + 2 := ⟨fuel - 2, by omega⟩
  obtain ⟨c, hc⟩ := h n (by omega)
  refine ⟨.array c oe, ?_⟩
  simp [buildCodec, arraySchema, Schema.type, regLookup, buildKind, Schema.object, GoType.strip, SchemaObject.items, hc]

theorem buildsFrom_map {reg : Reg} {N : Nat} {u : Schema} {v : GoType} {oe : Bool}
    (h : BuildsFrom reg N u (some v) false) : BuildsFrom reg (N + 2) (mapSchema u) (some (.map .string v)) oe := by
  intro fuel hf
  obtain ⟨n, rfl⟩ : ∃ n, fuel = n + 2 := ⟨fuel - 2, by omega⟩
  obtain ⟨c, hc⟩ := h n (by omega)
  refine ⟨.map c oe, ?_⟩
  simp [buildCodec, mapSchema, Schema.type, regLookup, buildKind, Schema.object, GoType.strip, SchemaObject.values, hc]

theorem buildsFrom_record {reg : Reg} {N : Nat} {name pkg gn gp : String} {sfs : List SchemaField} {fs : List GoField}
    {oe : Bool} (h : ∀ fuel, N ≤ fuel → ∃ r, buildFields reg fuel sfs (some fs) = .ok r) :
    BuildsFrom reg (N + 2) (recordSchema name pkg sfs) (some (.struct gn gp fs)) oe := by
  intro fuel hf
  obtain ⟨n, rfl⟩ : ∃ n, fuel = n + 2 := ⟨fuel - 2, by omega⟩
  obtain ⟨⟨cs, ts⟩, hc⟩ := h n (by omega)
  refine ⟨.record (zeroFields fs) cs ts, ?_⟩
  simp [buildCodec, recordSchema, Schema.type, regLookup, buildKind, Schema.object, GoType.strip, SchemaObject.fields, hc]

theorem buildsFrom_scalar (reg : Reg) (oe : Bool) :
    BuildsFrom reg 2 (.prim "boolean") (some .bool) oe ∧
    (∀ w, w = 64 ∨ w = 32 ∨ w = 16 → BuildsFrom reg 2 (.prim "long") (some (.int w)) oe) ∧
    BuildsFrom reg 2 (.prim "double") (some .float32) oe ∧
    BuildsFrom reg 2 (.prim "double") (some .float64) oe ∧
    BuildsFrom reg 2 (.prim "string") (some .string) oe ∧
    BuildsFrom reg 2 (.prim "bytes") (some (.slice (.uint 8))) oe := by
  refine ⟨?_, ?_, ?_, ?_, ?_, ?_⟩
  · intro fuel hf
    obtain ⟨n, rfl⟩ : ∃ n, fuel = n + 2 := ⟨fuel - 2, by omega⟩
    exact ⟨.bool oe, by simp [buildCodec, Schema.prim, Schema.type, regLookup, buildKind, GoType.strip]⟩
  · intro w hw fuel hf
    obtain ⟨n, rfl⟩ : ∃ n, fuel = n + 2 := ⟨fuel - 2, by omega⟩
    rcases hw with rfl | rfl | rfl
    · exact ⟨.int 64 oe, by simp [buildCodec, Schema.prim, Schema.type, regLookup, buildKind, GoType.strip, buildLong]⟩
    · exact ⟨.int 32 oe, by simp [buildCodec, Schema.prim, Schema.type, regLookup, buildKind, GoType.strip, buildLong]⟩
    · exact ⟨.int 16 oe, by simp [buildCodec, Schema.prim, Schema.type, regLookup, buildKind, GoType.strip, buildLong]⟩
  · intro fuel hf
    obtain ⟨n, rfl⟩ : ∃ n, fuel = n + 2 := ⟨fuel - 2, by omega⟩
    exact ⟨.f32double oe, by simp [buildCodec, Schema.prim, Schema.type, regLookup, buildKind, GoType.strip]⟩
  · intro fuel hf
    obtain ⟨n, rfl⟩ : ∃ n, fuel = n + 2 := ⟨fuel - 2, by omega⟩
    exact ⟨.double oe, by simp [buildCodec, Schema.prim, Schema.type, regLookup, buildKind, GoType.strip]⟩
  · intro fuel hf
    obtain ⟨n, rfl⟩ : ∃ n, fuel = n + 2 := ⟨fuel - 2, by omega⟩
    exact ⟨.string oe, by simp [buildCodec, Schema.prim, Schema.type, regLookup, buildKind, GoType.strip]⟩
  · intro fuel hf
    obtain ⟨n, rfl⟩ : ∃ n, fuel = n + 2 := ⟨fuel - 2, by omega⟩
    exact ⟨.bytes oe, by simp [buildCodec, Schema.prim, Schema.type, regLookup, buildKind, GoType.strip]⟩

/-! ### the supported fragment -/

mutual
/-- The fragment of Go types for which `codec_builds` is proved: bool, int16/int32/int64 (and int),
float32/float64, string, []byte, slices, string-keyed maps, pointers and structs of such types, where
in every struct the JSON names of the included fields are distinct (excluded fields may have any
type). Not in the fragment: int8 (no codec for it), Go arrays (schema but no codec), named and
registered types (see C20), unsupported kinds. -/
def GoType.Supported : GoType → Prop
  | .bool | .float32 | .float64 | .string => True
  | .int w => w = 64 ∨ w = 32 ∨ w = 16
  | .slice e => e = .uint 8 ∨ e.Supported
  | .map k v => k = .string ∧ v.Supported
  | .ptr e => e.Supported
  | .struct _ _ fs => ((fs.map nameForField).filter (· != "-")).Nodup ∧ GoField.SupportedList fs
  | _ => False
def GoField.SupportedList : List GoField → Prop
  | [] => True
  | .mk n e j b t :: fs => (nameForField (.mk n e j b t) = "-" ∨ t.Supported) ∧ GoField.SupportedList fs
end

theorem supportedList_mem {fs : List GoField} (h : GoField.SupportedList fs) {f : GoField} (hf : f ∈ fs)
    (hn : nameForField f ≠ "-") : f.type.Supported := by
  induction fs with
  | nil => cases hf
  | cons g gs ih =>
    obtain ⟨n, e, j, b, t⟩ := g
    simp only [GoField.SupportedList] at h
    cases hf with
    | head => rcases h.1 with h' | h'
              · exact absurd h' hn
              · exact h'
    | tail _ h' => exact ih h.2 h'

theorem supported_shape {t : GoType} (h : t.Supported) :
    (∀ n, t ≠ .ref n) ∧ t.strip = t ∧ (∀ w, t ≠ .uint w) := by
  cases t <;> simp only [GoType.Supported] at h <;>
    first | exact ⟨fun n hn => (by cases hn), rfl, fun w hw => (by cases hw)⟩

theorem supported_not_byte (env : TEnv) {t : GoType} (h : t.Supported) : isByteKind env t = false := by
  cases t <;> simp only [GoType.Supported] at h <;> rfl

theorem fieldsOf_mem {rec : GoType → Gen Schema} {fs : List GoField} {r : List SchemaField} (h : FieldsOf rec fs r)
    {sf : SchemaField} (hsf : sf ∈ r) :
    ∃ f s, f ∈ fs ∧ nameForField f ≠ "-" ∧ rec f.type = .ok s ∧
      sf = .mk (nameForField f) (omitWrap (omitEmptyTag f.jsonTag) s) := by
  induction h with
  | nil => cases hsf
  | skip _ _ ih =>
    obtain ⟨f, s, h1, h2⟩ := ih hsf
    exact ⟨f, s, List.mem_cons_of_mem _ h1, h2⟩
  | @keep f fs r s hn hr _ ih =>
    cases hsf with
    | head => exact ⟨f, s, List.mem_cons_self, hn, hr, rfl⟩
    | tail _ h' =>
      obtain ⟨f', s', h1, h2⟩ := ih h'
      exact ⟨f', s', List.mem_cons_of_mem _ h1, h2⟩

/-- with distinct JSON names every included field is found under its own name -/
theorem lookup_of_nodup (fs : List GoField) (hnd : ((fs.map nameForField).filter (· != "-")).Nodup)
    (f : GoField) (hf : f ∈ fs) (hn : nameForField f ≠ "-") :
    ∃ i, lookupField (nameForField f) fs 0 none = some (i, f) := by
  obtain ⟨pre, post, rfl⟩ := List.append_of_mem hf
  refine ⟨0 + pre.length, lookupField_last pre post f 0 none hn ?_⟩
  intro g hg heq
  have hne : (nameForField f != "-") = true := by simpa using hn
  simp only [List.map_append, List.map_cons, List.filter_append, List.filter_cons, hne, if_true] at hnd
  have h2 := (List.nodup_append.mp hnd).2.1
  have h3 := (List.nodup_cons.mp h2).1
  apply h3
  rw [List.mem_filter]
  exact ⟨List.mem_map.mpr ⟨g, hg, heq⟩, hne⟩

theorem buildFields_fwd (reg : Reg) (gfs : List GoField) (sfs : List SchemaField)
    (h : ∀ sf ∈ sfs, ∃ N, ∀ fuel, N ≤ fuel → ∃ c,
      (match lookupField sf.name gfs 0 none with
        | some (_, gf) => buildCodec reg fuel sf.type (some gf.type) (omitEmptyTag gf.jsonTag)
        | none => buildCodec reg fuel sf.type none false) = .ok c) :
    ∃ N, ∀ fuel, N ≤ fuel → ∃ r, buildFields reg fuel sfs (some gfs) = .ok r := by
  induction sfs with
  | nil => exact ⟨1, fun fuel hf => by
      obtain ⟨n, rfl⟩ : ∃ n, fuel = n + 1 := ⟨fuel - 1, by omega⟩
      exact ⟨_, rfl⟩⟩
  | cons sf sfs ih =>
    obtain ⟨N1, h1⟩ := h sf List.mem_cons_self
    obtain ⟨N2, h2⟩ := ih (fun sf' hs => h sf' (List.mem_cons_of_mem _ hs))
    refine ⟨max N1 N2 + 1, fun fuel hf => ?_⟩
    obtain ⟨n, rfl⟩ : ∃ n, fuel = n + 1 := ⟨fuel - 1, by omega⟩
    obtain ⟨c, hc⟩ := h1 n (by omega)
    obtain ⟨⟨cs, ts⟩, hr⟩ := h2 n (by omega)
    simp only [buildFields, hr]
    cases hl : lookupField sf.name gfs 0 none with
    | none => simp only [hl] at hc ⊢; rw [hc]; exact ⟨_, rfl⟩
    | some r => obtain ⟨i, gf⟩ := r; simp only [hl] at hc ⊢; rw [hc]; exact ⟨_, rfl⟩

/-- what is shown for every supported type: the codec for its generated schema builds (`A`), and when
that schema is a union also the codec for its non-null branch against the same Go type (`B`, needed
below pointers) -/
def BuildsFor (reg : Reg) (T : GoType) (S : Schema) : Prop :=
  (∃ N, ∀ oe, BuildsFrom reg N S (some T) oe) ∧
  (S.type = "union" → ∀ x, S.union = [.prim "null", x] → ∃ N, ∀ oe, BuildsFrom reg N x (some T) oe)

def scalarSchema : GoType → Schema
  | .bool => .prim "boolean"
  | .int _ => .prim "long"
  | .float32 | .float64 => .prim "double"
  | _ => .prim "string"

theorem gen_scalar_inv (sreg : SReg) (env : TEnv) (fuel : Nat) (ps : List GoType) (t : GoType) (S : Schema)
    (ht : t = .bool ∨ (∃ w, t = .int w) ∨ t = .float32 ∨ t = .float64 ∨ t = .string)
    (h : schemaForType sreg env fuel ps t = .ok S) : S = scalarSchema t := by
  cases fuel with
  | zero => simp [schemaForType] at h
  | succ m =>
    rcases ht with rfl | ⟨w, rfl⟩ | rfl | rfl | rfl <;>
      (simp [schemaForType_succ, genStep, genResolved, sregLookup, GoType.strip, GoType.composite, genKind] at h
       exact h.symm)

theorem buildsFor_prim (reg : Reg) (T : GoType) (t : String) (ht : t ≠ "union")
    (h : ∀ oe, BuildsFrom reg 2 (.prim t) (some T) oe) : BuildsFor reg T (.prim t) :=
  ⟨⟨2, h⟩, fun hu => absurd hu ht⟩

theorem buildsFor_ptr {reg : Reg} {e : GoType} {u : Schema} (hok : u.UnionsOk) (hnn : u.type ≠ "null")
    (ih : BuildsFor reg e u) : BuildsFor reg (.ptr e) (ptrWrap u) := by
  obtain ⟨⟨NA, ihA⟩, ihB⟩ := ih
  by_cases hun : u.type = "union"
  · rw [ptrWrap_stays' u (Or.inl hun)]
    obtain ⟨tu, ou, bru⟩ := u
    obtain ⟨x, hx, hx1, hx2⟩ := unionsOk_top hok hun
    have hx' : (Schema.mk tu ou bru).union = [.prim "null", x] := hx
    obtain ⟨NB, hB⟩ := ihB hun x hx'
    refine ⟨⟨NB + 1 + 3, fun oe => buildsFrom_union hun hx' (buildsFrom_ptr hx1 hx2 (hB false))⟩, ?_⟩
    intro _ y hy
    have : y = x := by rw [hx'] at hy; simpa using hy.symm
    subst this
    exact ⟨NB + 1, fun oe => buildsFrom_ptr hx1 hx2 (hB false)⟩
  · by_cases ham : u.type = "array" ∨ u.type = "map"
    · rw [ptrWrap_stays' u (Or.inr ham)]
      exact ⟨⟨NA + 1, fun oe => buildsFrom_ptr hun hnn (ihA false)⟩, fun hu' => absurd hu' hun⟩
    · have ham' : u.type ≠ "array" ∧ u.type ≠ "map" := by
        constructor <;> intro h' <;> exact ham (by simp [h'])
      rw [ptrWrap_plain' u hun ham'.1 ham'.2]
      refine ⟨⟨NA + 1 + 3, fun oe =>
        buildsFrom_union (nullable_type u) (nullable_union u) (buildsFrom_ptr hun hnn (ihA false))⟩, ?_⟩
      intro _ y hy
      have := nullable_inj hy; subst this
      exact ⟨NA + 1, fun oe => buildsFrom_ptr hun hnn (ihA false)⟩

/-- the codec of a struct field for its (possibly `omitempty`-wrapped) schema -/
theorem buildsFor_field {reg : Reg} {t : GoType} {u : Schema} (oe : Bool) (ih : BuildsFor reg t u) :
    ∃ N, BuildsFrom reg N (omitWrap oe u) (some t) oe := by
  obtain ⟨⟨NA, ihA⟩, _⟩ := ih
  unfold omitWrap
  split
  · exact ⟨NA + 3, buildsFrom_union (nullable_type u) (nullable_union u) (ihA oe)⟩
  · exact ⟨NA, ihA oe⟩

theorem codec_builds_aux (reg : Reg) (sreg : SReg) (env : TEnv) (hflat : RegSchemasFlat sreg) :
    ∀ d T, T.depth < d → ∀ m ps S, T.Supported → schemaForType sreg env m ps T = .ok S → BuildsFor reg T S := by
  intro d
  induction d with
  | zero => intro T hd; omega
  | succ d ih =>
    intro T hd m ps S hT h
    cases T <;> simp only [GoType.Supported] at hT
    case bool =>
      have := gen_scalar_inv sreg env m ps _ S (Or.inl rfl) h; subst this
      exact buildsFor_prim reg _ _ (by decide) (fun oe => (buildsFrom_scalar reg oe).1)
    case int w =>
      have := gen_scalar_inv sreg env m ps _ S (Or.inr (Or.inl ⟨w, rfl⟩)) h; subst this
      exact buildsFor_prim reg _ _ (by decide) (fun oe => (buildsFrom_scalar reg oe).2.1 w hT)
    case float32 =>
      have := gen_scalar_inv sreg env m ps _ S (Or.inr (Or.inr (Or.inl rfl))) h; subst this
      exact buildsFor_prim reg _ _ (by decide) (fun oe => (buildsFrom_scalar reg oe).2.2.1)
    case float64 =>
      have := gen_scalar_inv sreg env m ps _ S (Or.inr (Or.inr (Or.inr (Or.inl rfl)))) h; subst this
      exact buildsFor_prim reg _ _ (by decide) (fun oe => (buildsFrom_scalar reg oe).2.2.2.1)
    case string =>
      have := gen_scalar_inv sreg env m ps _ S (Or.inr (Or.inr (Or.inr (Or.inr rfl)))) h; subst this
      exact buildsFor_prim reg _ _ (by decide) (fun oe => (buildsFrom_scalar reg oe).2.2.2.2.1)
    case slice e =>
      rcases hT with rfl | he
      · -- []byte
        obtain ⟨m', hm'⟩ := gen_composite_inv sreg env m ps _ S rfl rfl (by intro n hn; cases hn) h
        have hb : isByteKind env (.uint 8) = true := rfl
        simp only [GoType.strip, genKind_slice, hb, if_true] at hm'
        cases hm'
        exact buildsFor_prim reg _ _ (by decide) (fun oe => (buildsFrom_scalar reg oe).2.2.2.2.2)
      · obtain ⟨m', u, hu, rfl⟩ := gen_slice_inv sreg env m ps e S (supported_not_byte env he) h
        obtain ⟨⟨N, hA⟩, _⟩ := ih e (by simp only [GoType.depth] at hd; omega) m' _ u he hu
        exact ⟨⟨N + 2, fun oe => buildsFrom_array (hA false)⟩, fun hu' => absurd hu' (by show "array" ≠ "union"; decide)⟩
    case map k v =>
      obtain ⟨rfl, hv⟩ := hT
      obtain ⟨m', u, hu, rfl⟩ := gen_map_inv sreg env m ps _ v S h
      obtain ⟨⟨N, hA⟩, _⟩ := ih v (by simp only [GoType.depth] at hd; omega) m' _ u hv hu
      exact ⟨⟨N + 2, fun oe => buildsFrom_map (hA false)⟩, fun hu' => absurd hu' (by show "map" ≠ "union"; decide)⟩
    case ptr e =>
      obtain ⟨m', u, hu, rfl⟩ := gen_ptr_inv sreg env m ps e S h
      have hfl := gen_unionsOk sreg env hflat m' _ e u hu
      exact buildsFor_ptr hfl.1 hfl.2 (ih e (by simp only [GoType.depth] at hd; omega) m' _ u hT hu)
    case struct name pkg fs =>
      obtain ⟨m', sfs, hfo, rfl⟩ := gen_struct_inv sreg env m ps name pkg fs S h
      refine ⟨?_, fun hu' => absurd hu' (by show "record" ≠ "union"; decide)⟩
      have hfields : ∀ sf ∈ sfs, ∃ N, ∀ fuel, N ≤ fuel → ∃ c,
          (match lookupField sf.name fs 0 none with
            | some (_, gf) => buildCodec reg fuel sf.type (some gf.type) (omitEmptyTag gf.jsonTag)
            | none => buildCodec reg fuel sf.type none false) = .ok c := by
        intro sf hsf
        obtain ⟨f, s, hf, hn, hr, rfl⟩ := fieldsOf_mem hfo hsf
        obtain ⟨i, hl⟩ := lookup_of_nodup fs hT.1 f hf hn
        simp only [SchemaField.name, SchemaField.type, hl]
        have hsup := supportedList_mem hT.2 hf hn
        have hdep : f.type.depth < d := by
          have := GoField.depth_le_depthList hf
          simp only [GoType.depth] at hd; omega
        exact buildsFor_field (omitEmptyTag f.jsonTag) (ih f.type hdep m' _ s hsup hr)
      obtain ⟨N, hN⟩ := buildFields_fwd reg fs sfs hfields
      exact ⟨N + 2, fun oe => buildsFrom_record hN⟩

end Avro
