import AvroModel.File
import AvroModel.Lemmas.Bytes
/-!
Lemmas about the container-reader model (`AvroModel/File.lean`) and the vocabulary in which the
C07 / C08 theorems are stated: blocks, frames, valid bodies, headers a writer produces.
-/
namespace Avro.File
open Avro

/-! ### `binary.ReadVarint` on what `binary.AppendVarint` wrote, and on its proper prefixes -/

theorem readUvarintAux_ge10 : ∀ (bs : Bytes) (i x : Nat) (r : Nat × Bytes), 10 ≤ i → readUvarintAux i x bs ≠ .ok r := by
  intro bs
  induction bs with
  | nil => intro i x r _; simp [readUvarintAux]
  | cons b tl ih =>
    intro i x r hi
    simp only [readUvarintAux]
    split
    · have : i > 9 ∨ (i = 9 ∧ b.toNat > 1) := by omega
      simp [this]
    · exact ih _ _ r (by omega)

/-- Whenever the library's own `uvarint` succeeds, `binary.ReadUvarint` returns the same. -/
theorem ioUvarintAux_of_read : ∀ (bs : Bytes) (i x : Nat) (r : Nat × Bytes),
    readUvarintAux i x bs = .ok r → ioUvarintAux i x bs = .ok r := by
  intro bs
  induction bs with
  | nil => intro i x r h; simp [readUvarintAux] at h
  | cons b tl ih =>
    intro i x r h
    have hi : ¬ i ≥ 10 := fun hi => readUvarintAux_ge10 (b :: tl) i x r hi h
    simp only [readUvarintAux] at h
    simp only [ioUvarintAux, hi, if_false]
    by_cases hb : b.toNat < 128
    · simp only [hb, if_true] at h ⊢
      by_cases hc : i > 9 ∨ (i = 9 ∧ b.toNat > 1)
      · simp [hc] at h
      · simp only [hc, if_false] at h
        have hc' : ¬ (i = 9 ∧ b.toNat > 1) := fun h' => hc (Or.inr h')
        simp only [hc', if_false]
        have := Except.ok.inj h; subst this; rfl
    · simp only [hb, if_false] at h ⊢
      exact ih _ _ r h

theorem ioVarint_write (v : Int) (hv : inRange 64 v) (rest : Bytes) :
    ioVarint (writeVarint v ++ rest) = .ok (v, rest) := by
  have h := readUvarint_put (zigzag_lt hv) rest
  unfold readUvarint at h
  unfold ioVarint writeVarint
  rw [ioUvarintAux_of_read _ _ _ _ h]
  simp [unzig_zigzag]

/-- every byte of `putUvarint n` but the last carries the continuation bit -/
theorem putUvarint_take_cont (n : Nat) : ∀ (j : Nat), j < (putUvarint n).length →
    ∀ b ∈ (putUvarint n).take j, 128 ≤ b.toNat := by
  induction n using Nat.strongRecOn with
  | _ n ih =>
    intro j hj b hb
    by_cases h : n < 128
    · rw [putUvarint_lt h] at hj hb
      have : j = 0 := by simpa using hj
      subst this; simp at hb
    · rw [putUvarint_ge h] at hj hb
      cases j with
      | zero => simp at hb
      | succ j =>
        simp only [List.take_succ_cons, List.mem_cons] at hb
        rcases hb with rfl | hb
        · rw [toUInt8_toNat (by omega)]; omega
        · exact ih (n / 128) (by omega) j (by simpa using hj) b hb

theorem ioUvarintAux_cont : ∀ (bs : Bytes) (i x : Nat), (∀ b ∈ bs, 128 ≤ b.toNat) → i + bs.length < 10 →
    ioUvarintAux i x bs = .error (if i = 0 ∧ bs = [] then .eof else .unexpectedEOF) := by
  intro bs
  induction bs with
  | nil =>
    intro i x _ hi
    have : ¬ i ≥ 10 := by simp at hi; omega
    by_cases h0 : i = 0 <;> simp [ioUvarintAux, this, h0]
  | cons b tl ih =>
    intro i x h hi
    have hb := h b (by simp)
    have h10 : ¬ i ≥ 10 := by simp at hi; omega
    have hb' : ¬ b.toNat < 128 := by omega
    simp only [ioUvarintAux, h10, hb', if_false]
    rw [ih _ _ (fun c hc => h c (by simp [hc])) (by simp at hi ⊢; omega)]
    simp

theorem writeVarint_length_le (v : Int) (hv : inRange 64 v) : (writeVarint v).length ≤ 10 := by
  unfold writeVarint
  exact putUvarint_length_le _ 10 (Nat.lt_of_lt_of_le (zigzag_lt hv) (by decide)) (by omega)

theorem writeVarint_length_pos (v : Int) : 0 < (writeVarint v).length := putUvarint_length_pos _

/-- A proper prefix of a varint: clean `io.EOF` only for the empty prefix, `io.ErrUnexpectedEOF` otherwise. -/
theorem ioVarint_take (v : Int) (hv : inRange 64 v) (j : Nat) (hj : j < (writeVarint v).length) :
    ioVarint ((writeVarint v).take j) = .error (if j = 0 then .eof else .unexpectedEOF) := by
  have hlen := writeVarint_length_le v hv
  unfold writeVarint at hj hlen ⊢
  have hc := putUvarint_take_cont (zigzag v) j hj
  have hl : ((putUvarint (zigzag v)).take j).length = j := by simp; omega
  unfold ioVarint
  rw [ioUvarintAux_cont _ 0 0 hc (by omega)]
  by_cases h0 : j = 0
  · subst h0; simp
  · have : (putUvarint (zigzag v)).take j ≠ [] := by
      intro h; rw [h] at hl; simp at hl; omega
    simp [this, h0]

/-! ### `io.ReadFull` -/

theorem readFull_append (p rest : Bytes) : readFull p.length (p ++ rest) = .ok (p, rest) := by
  unfold readFull
  cases p with
  | nil => simp
  | cons a p => simp

theorem readFull_take (p : Bytes) (j : Nat) (hj : j < p.length) :
    readFull p.length (p.take j) = .error (if j = 0 then .eof else .unexpectedEOF) := by
  unfold readFull
  have h0 : ¬ p.length = 0 := by omega
  by_cases hj0 : j = 0
  · subst hj0; simp [h0]
  · have hl : (p.take j).length = j := by rw [List.length_take]; omega
    have h1 : ¬ j = 0 := hj0
    simp only [hl, h0, h1, hj, if_false, if_true]

theorem readFull_ok_length {n : Nat} {bs a r : Bytes} (h : readFull n bs = .ok (a, r)) :
    a.length = n ∧ bs = a ++ r := by
  unfold readFull at h
  split at h
  · cases h; simp [*]
  · split at h
    · cases h
    · split at h
      · cases h
      · cases h; constructor
        · simp; omega
        · simp

/-! ### `readN`: chunked reading behaves like one exact read -/

theorem readFull_le {n : Nat} {bs : Bytes} (h0 : 0 < n) (h : n ≤ bs.length) : readFull n bs = .ok (bs.take n, bs.drop n) := by
  unfold readFull
  have h1 : ¬ n = 0 := by omega
  have h2 : ¬ bs.length = 0 := by omega
  have h3 : ¬ bs.length < n := by omega
  simp only [h1, h2, h3, if_false]

theorem readFull_short {n : Nat} {bs : Bytes} (h : bs.length < n) : ∃ e, readFull n bs = .error e := by
  unfold readFull
  have h1 : ¬ n = 0 := by omega
  simp only [h1, if_false]
  split
  · exact ⟨_, rfl⟩
  · exact ⟨_, rfl⟩

/-- enough input: the chunks add up to exactly the first `n` bytes -/
theorem readN_le : ∀ (n : Nat) (bs : Bytes), n ≤ bs.length → readN n bs = .ok (bs.take n, bs.drop n) := by
  intro n
  induction n using Nat.strongRecOn with
  | _ n ih =>
    intro bs h
    rw [readN]
    by_cases h0 : n = 0
    · subst h0; simp
    · have hc : 0 < chunk := by decide
      have hw : 0 < min n chunk := by omega
      simp only [h0, if_false]
      rw [readFull_le hw (by omega)]
      simp only
      rw [ih (n - min n chunk) (by omega) (bs.drop (min n chunk)) (by simp; omega)]
      simp only [List.drop_drop]
      have e1 : min n chunk + (n - min n chunk) = n := by omega
      rw [← List.take_add, e1]

/-- input shorter than declared: an error (from the first chunk that cannot be filled) -/
theorem readN_short : ∀ (n : Nat) (bs : Bytes), bs.length < n → ∃ e, readN n bs = .error e := by
  intro n
  induction n using Nat.strongRecOn with
  | _ n ih =>
    intro bs h
    rw [readN]
    have h0 : ¬ n = 0 := by omega
    have hc : 0 < chunk := by decide
    simp only [h0, if_false]
    by_cases hs : bs.length < min n chunk
    · obtain ⟨e, he⟩ := readFull_short hs
      rw [he]; exact ⟨e, rfl⟩
    · rw [readFull_le (by omega) (by omega)]
      simp only
      obtain ⟨e, he⟩ := ih (n - min n chunk) (by omega) (bs.drop (min n chunk)) (by simp; omega)
      rw [he]; exact ⟨e, rfl⟩

theorem readN_append (p rest : Bytes) : readN p.length (p ++ rest) = .ok (p, rest) := by
  rw [readN_le _ _ (by simp)]; simp

theorem readN_take (p : Bytes) (j : Nat) (hj : j < p.length) : ∃ e, readN p.length (p.take j) = .error e :=
  readN_short _ _ (by rw [List.length_take]; omega)

theorem readN_ok_length {n : Nat} {bs a r : Bytes} (h : readN n bs = .ok (a, r)) : a.length = n ∧ bs = a ++ r := by
  by_cases hl : n ≤ bs.length
  · rw [readN_le _ _ hl] at h
    cases h
    exact ⟨by simp; omega, by simp⟩
  · obtain ⟨e, he⟩ := readN_short n bs (by omega)
    rw [he] at h; cases h

/-! ### Splitting a truncated concatenation -/

theorem take_append_lt {s t : Bytes} {j : Nat} (h : j < s.length) : (s ++ t).take j = s.take j := by
  rw [List.take_append]
  have : j - s.length = 0 := by omega
  simp [this]

theorem take_append_ge {s t : Bytes} {j : Nat} (h : s.length ≤ j) : (s ++ t).take j = s ++ t.take (j - s.length) := by
  rw [List.take_append, List.take_of_length_le h]

/-! ### Step monad -/

@[simp] theorem Step.bind_ok' {β γ : Type} (b : β) (f : β → Step γ) : Step.bind (.ok b) f = f b := rfl
@[simp] theorem Step.bind_err' {β γ : Type} (k : ErrKind) (f : β → Step γ) : Step.bind (.err k : Step β) f = .err k := rfl
@[simp] theorem Step.bind_panic' {β γ : Type} (k : PanicKind) (f : β → Step γ) : Step.bind (.panic k : Step β) f = .panic k := rfl
@[simp] theorem Step.bind_fuel' {β γ : Type} (f : β → Step γ) : Step.bind (.fuel : Step β) f = .fuel := rfl
@[simp] theorem Step.bind_eq {β γ : Type} (s : Step β) (f : β → Step γ) : (s >>= f) = Step.bind s f := rfl
@[simp] theorem Step.pure_eq {β : Type} (b : β) : (pure b : Step β) = .ok b := rfl

/-- A reader `p` *accepts* the segment `s` with result `b`: on `s` followed by anything it returns
`b` and leaves exactly what followed; on every proper prefix of `s` (nothing after it: the file
ends there) it reports an error. -/
def Accepts {β : Type} (p : Bytes → Step (β × Bytes)) (s : Bytes) (b : β) : Prop :=
  (∀ rest, p (s ++ rest) = .ok (b, rest)) ∧ (∀ j, j < s.length → ∃ e, p (s.take j) = .err e)

/-- sequencing: `f` runs `p`, then `q` on what `p` left -/
theorem Accepts.seq {β γ : Type} {p : Bytes → Step (β × Bytes)} {q : β → Bytes → Step (γ × Bytes)}
    {f : Bytes → Step (γ × Bytes)} {s t : Bytes} {b : β} {c : γ}
    (hp : Accepts p s b) (hq : Accepts (q b) t c)
    (hok : ∀ bs x r, p bs = .ok (x, r) → f bs = q x r)
    (herr : ∀ bs e, p bs = .err e → ∃ e', f bs = .err e') :
    Accepts f (s ++ t) c := by
  constructor
  · intro rest
    rw [List.append_assoc, hok _ _ _ (hp.1 (t ++ rest))]
    exact hq.1 rest
  · intro j hj
    by_cases hjs : j < s.length
    · rw [take_append_lt hjs]
      obtain ⟨e, he⟩ := hp.2 j hjs
      exact herr _ _ he
    · rw [take_append_ge (by omega), hok _ _ _ (hp.1 _)]
      exact hq.2 _ (by simp at hj; omega)

/-! ### The header a writer produces -/

/-- a `bytes` datum (keys and values of the header map): zig-zag length, then the bytes -/
def lenPrefixed (b : Bytes) : Bytes := writeVarint b.length ++ b

def entryBytes (kv : Bytes × Bytes) : Bytes := lenPrefixed kv.1 ++ lenPrefixed kv.2

def entriesBytes (es : List (Bytes × Bytes)) : Bytes := (es.map entryBytes).flatten

/-- one map block: the (positive) number of entries, then the entries -/
def metaBlock (es : List (Bytes × Bytes)) : Bytes := writeVarint es.length ++ entriesBytes es

/-- A container header: magic, the metadata map as a sequence of blocks, the terminating zero
count, the 16-byte sync marker. (The library's writer emits one block of two entries.) -/
def mkHeader (blocks : List (List (Bytes × Bytes))) (sync : Bytes) : Bytes :=
  magic ++ ((blocks.map metaBlock).flatten ++ writeVarint 0) ++ sync

/-- the map these blocks denote: a later entry for the same key wins -/
def metaOf (blocks : List (List (Bytes × Bytes))) : Meta := blocks.flatten.reverse

/-- the largest length a zig-zag varint can declare (`math.MaxInt64`) -/
def maxLen : Nat := 2 ^ 63 - 1

def SmallEntry (kv : Bytes × Bytes) : Prop := kv.1.length ≤ maxLen ∧ kv.2.length ≤ maxLen

theorem inRange_of_le_maxLen {n : Nat} (h : n ≤ maxLen) : inRange 64 (n : Int) := by
  apply inRange_of_nat_lt
  have : maxLen < 2 ^ 63 := by decide
  omega

theorem readBytes_accepts (ek : ErrKind) (b : Bytes) (hb : b.length ≤ maxLen) :
    Accepts (readBytes ek) (lenPrefixed b) b := by
  have hr := inRange_of_le_maxLen hb
  have hneg : ¬ ((b.length : Int) < 0) := by omega
  constructor
  · intro rest
    unfold readBytes lenPrefixed
    rw [List.append_assoc, ioVarint_write _ hr]
    simp only [hneg, if_false, Int.toNat_natCast, readN_append]
  · intro j hj
    unfold readBytes lenPrefixed at *
    by_cases hjs : j < (writeVarint (b.length : Int)).length
    · rw [take_append_lt hjs, ioVarint_take _ hr _ hjs]
      exact ⟨ek, rfl⟩
    · rw [take_append_ge (by omega), ioVarint_write _ hr]
      simp only [hneg, if_false, Int.toNat_natCast]
      obtain ⟨e, he⟩ := readN_take b (j - (writeVarint (b.length : Int)).length) (by simp at hj; omega)
      rw [he]
      exact ⟨ek, rfl⟩

theorem readEntries_accepts : ∀ (es : List (Bytes × Bytes)) (m : Meta), (∀ kv ∈ es, SmallEntry kv) →
    Accepts (fun bs => readEntries es.length bs m) (entriesBytes es) (es.reverse ++ m) := by
  intro es
  induction es with
  | nil =>
    intro m _
    constructor
    · intro rest; simp [entriesBytes, readEntries]
    · intro j hj; simp [entriesBytes] at hj
  | cons kv es ih =>
    intro m hs
    have hkv := hs kv (by simp)
    have ih' := ih (kv :: m) (fun x hx => hs x (by simp [hx]))
    have hrev : (kv :: es).reverse ++ m = es.reverse ++ (kv :: m) := by simp
    have hbytes : entriesBytes (kv :: es) = lenPrefixed kv.1 ++ (lenPrefixed kv.2 ++ entriesBytes es) := by
      simp [entriesBytes, entryBytes]
    rw [hrev, hbytes]
    -- key, then (value, then the remaining entries)
    refine Accepts.seq (p := readBytes .metaKey) (q := fun k bs => Step.bind (readBytes .metaVal bs) fun vr => readEntries es.length vr.2 ((k, vr.1) :: m))
      (readBytes_accepts .metaKey kv.1 hkv.1) ?_ ?_ ?_
    · refine Accepts.seq (p := readBytes .metaVal) (q := fun v bs => readEntries es.length bs ((kv.1, v) :: m))
        (readBytes_accepts .metaVal kv.2 hkv.2) ih' ?_ ?_
      · intro bs x r h; simp only [h, Step.bind_ok']
      · intro bs e h; exact ⟨e, by simp only [h, Step.bind_err']⟩
    · intro bs x r h
      simp only [List.length_cons, readEntries, Step.bind_eq, h, Step.bind_ok']
    · intro bs e h
      exact ⟨e, by simp only [List.length_cons, readEntries, Step.bind_eq, h, Step.bind_err']⟩

theorem Accepts.congr {β : Type} {p p' : Bytes → Step (β × Bytes)} {s : Bytes} {b : β}
    (h : ∀ bs, p' bs = p bs) (hp : Accepts p s b) : Accepts p' s b := by
  constructor
  · intro rest; rw [h]; exact hp.1 rest
  · intro j hj; rw [h]; exact hp.2 j hj

/-- `binary.ReadVarint` with every error wrapped as `ek` -/
def varintP (ek : ErrKind) (bs : Bytes) : Step (Int × Bytes) :=
  match ioVarint bs with
  | .ok x => .ok x
  | .error _ => .err ek

theorem varintP_accepts (ek : ErrKind) (v : Int) (hv : inRange 64 v) : Accepts (varintP ek) (writeVarint v) v := by
  constructor
  · intro rest; simp [varintP, ioVarint_write v hv]
  · intro j hj; exact ⟨ek, by simp [varintP, ioVarint_take v hv j hj]⟩

theorem varintP_ok {ek : ErrKind} {bs : Bytes} {x : Int} {r : Bytes} (h : varintP ek bs = .ok (x, r)) :
    ioVarint bs = .ok (x, r) := by
  unfold varintP at h; split at h
  · rename_i y hy; cases h; exact hy
  · cases h

theorem varintP_err {ek : ErrKind} {bs : Bytes} {e : ErrKind} (h : varintP ek bs = .err e) :
    ∃ e', ioVarint bs = .error e' := by
  unfold varintP at h; split at h
  · cases h
  · rename_i e' he'; exact ⟨e', he'⟩

/-- Well-formed metadata blocks: non-empty, every key and value of allocatable size. -/
def GoodMetaBlocks (blocks : List (List (Bytes × Bytes))) : Prop :=
  ∀ es ∈ blocks, es ≠ [] ∧ es.length ≤ maxLen ∧ ∀ kv ∈ es, SmallEntry kv

theorem readMeta_accepts : ∀ (blocks : List (List (Bytes × Bytes))) (m : Meta) (fuel : Nat),
    GoodMetaBlocks blocks → blocks.length < fuel →
    Accepts (fun bs => readMeta fuel bs m) ((blocks.map metaBlock).flatten ++ writeVarint 0) (blocks.flatten.reverse ++ m) := by
  intro blocks
  induction blocks with
  | nil =>
    intro m fuel _ hf
    obtain ⟨fuel, rfl⟩ : ∃ f, fuel = f + 1 := ⟨fuel - 1, by simp at hf; omega⟩
    have h0 : inRange 64 (0 : Int) := by decide
    constructor
    · intro rest; simp [readMeta, ioVarint_write 0 h0]
    · intro j hj
      simp only [List.map_nil, List.flatten_nil, List.nil_append] at hj ⊢
      exact ⟨.metaCount, by simp [readMeta, ioVarint_take 0 h0 j hj]⟩
  | cons es blocks ih =>
    intro m fuel hg hf
    obtain ⟨fuel, rfl⟩ : ∃ f, fuel = f + 1 := ⟨fuel - 1, by simp at hf; omega⟩
    obtain ⟨hne, hlen, hsmall⟩ := hg es (by simp)
    have hg' : GoodMetaBlocks blocks := fun x hx => hg x (by simp [hx])
    have ih' := ih (es.reverse ++ m) fuel hg' (by simp at hf; omega)
    have hr := inRange_of_le_maxLen hlen
    have hpos : 0 < es.length := by cases es with | nil => exact absurd rfl hne | cons _ _ => simp
    have hbytes : ((es :: blocks).map metaBlock).flatten ++ writeVarint 0 =
        writeVarint (es.length : Int) ++ (entriesBytes es ++ ((blocks.map metaBlock).flatten ++ writeVarint 0)) := by
      simp [metaBlock]
    have hres : (es :: blocks).flatten.reverse ++ m = blocks.flatten.reverse ++ (es.reverse ++ m) := by simp
    rw [hbytes, hres]
    refine Accepts.seq (p := varintP .metaCount)
      (q := fun c bs => if c = 0 then .ok (m, bs) else if c < 0 then .err .metaNegCount
        else Step.bind (readEntries c.toNat bs m) fun mr => readMeta fuel mr.2 mr.1)
      (varintP_accepts .metaCount _ hr) ?_ ?_ ?_
    · -- count = es.length > 0: the entries, then the rest of the map
      have hc0 : ¬ ((es.length : Int) = 0) := by omega
      have hcn : ¬ ((es.length : Int) < 0) := by omega
      apply Accepts.congr (p := fun bs => Step.bind (readEntries es.length bs m) fun mr => readMeta fuel mr.2 mr.1)
      · intro bs; simp only [hc0, hcn, if_false, Int.toNat_natCast]
      · refine Accepts.seq (p := fun bs => readEntries es.length bs m) (q := fun m' bs => readMeta fuel bs m')
          (readEntries_accepts es m hsmall) ih' ?_ ?_
        · intro bs x r h; simp only [h, Step.bind_ok']
        · intro bs e h; exact ⟨e, by simp only [h, Step.bind_err']⟩
    · intro bs x r h
      have h' := varintP_ok h
      simp only [readMeta, h', Step.bind_eq]
    · intro bs e h
      obtain ⟨e', he'⟩ := varintP_err h
      exact ⟨.metaCount, by simp only [readMeta, he']⟩

theorem readFileHeader_accepts (blocks : List (List (Bytes × Bytes))) (sync : Bytes) (fuel : Nat)
    (hg : GoodMetaBlocks blocks) (hf : blocks.length < fuel) (hs : sync.length = 16) :
    Accepts (readFileHeader fuel) (mkHeader blocks sync) { «meta» := metaOf blocks, sync := sync } := by
  have hm := readMeta_accepts blocks [] fuel hg hf
  simp only [List.append_nil] at hm
  have hmagic : magic.length = 4 := rfl
  constructor
  · intro rest
    unfold readFileHeader mkHeader
    have h1 : readFull 4 (magic ++ ((blocks.map metaBlock).flatten ++ writeVarint 0) ++ sync ++ rest) =
        .ok (magic, ((blocks.map metaBlock).flatten ++ writeVarint 0) ++ (sync ++ rest)) := by
      rw [← hmagic]; simp only [List.append_assoc]; exact readFull_append _ _
    rw [h1]
    have hm1 : ∀ rest, readMeta fuel (((blocks.map metaBlock).flatten ++ writeVarint 0) ++ rest) [] = .ok (blocks.flatten.reverse, rest) := hm.1
    simp only [ne_eq, not_true_eq_false, if_false, Step.bind_eq, hm1 (sync ++ rest), Step.bind_ok']
    rw [← hs, readFull_append]; rfl
  · intro j hj
    unfold readFileHeader mkHeader at *
    by_cases hj4 : j < magic.length
    · rw [List.append_assoc, take_append_lt hj4]
      have := readFull_take magic j hj4
      rw [hmagic] at this
      exact ⟨.magicRead, by simp only [this]⟩
    · rw [List.append_assoc, take_append_ge (by omega)]
      have h1 : ∀ X : Bytes, readFull 4 (magic ++ X) = .ok (magic, X) := by
        intro X; rw [← hmagic]; exact readFull_append _ _
      rw [h1]
      simp only [ne_eq, not_true_eq_false, if_false, Step.bind_eq]
      generalize hM : (blocks.map metaBlock).flatten ++ writeVarint 0 = M at *
      by_cases hjm : j - magic.length < M.length
      · rw [take_append_lt hjm]
        obtain ⟨e, he⟩ := hm.2 _ hjm
        have he' : readMeta fuel (M.take (j - magic.length)) [] = .err e := he
        exact ⟨e, by simp only [he', Step.bind_err']⟩
      · have hm1 : ∀ rest, readMeta fuel (M ++ rest) [] = .ok (blocks.flatten.reverse, rest) := hm.1
        rw [take_append_ge (by omega), hm1, Step.bind_ok']
        have hlt : j - magic.length - M.length < sync.length := by
          simp only [List.length_append] at hj; omega
        have := readFull_take sync _ hlt
        rw [hs] at this
        exact ⟨.headerSync, by simp only [this]⟩

/-! ### Blocks -/

section
variable {α ε : Type}

/-- A data block as a writer lays it out: the records (value and encoding) it declares, bytes that
may follow the last record inside the block (none in a file produced by a writer; the reader
ignores them), and the payload as stored (the compressed form of the block data). -/
structure Blk (α : Type) where
  recs : List (α × Bytes)
  junk : Bytes
  payload : Bytes

def Blk.vals (b : Blk α) : List α := b.recs.map (·.1)
def Blk.data (b : Blk α) : Bytes := (b.recs.map (·.2)).flatten ++ b.junk

/-- count, payload length, payload -/
def frameHead (b : Blk α) : Bytes :=
  writeVarint b.recs.length ++ (writeVarint b.payload.length ++ b.payload)

/-- one block on the wire: count, payload length, payload, sync marker -/
def frame (sync : Bytes) (b : Blk α) : Bytes := frameHead b ++ sync

def body (sync : Bytes) (bl : List (Blk α)) : Bytes := (bl.map (frame sync)).flatten

/-- The block decompresses to its data, every declared record decodes exactly (whatever follows
it), and the declared numbers are representable / allocatable. -/
structure GoodBlk (decomp : Bytes → Step Bytes) (decode : Bytes → Outcome (α × Bytes)) (b : Blk α) : Prop where
  decomp : decomp b.payload = .ok b.data
  exact : ∀ ve ∈ b.recs, ∀ rest, decode (ve.2 ++ rest) = .ok (ve.1, rest)
  small : b.payload.length ≤ maxLen
  count : b.recs.length < 2 ^ 63

/-- The callback protocol on its own: hand over `vs` (global indices from `idx`) until the callback
returns an error; the record it failed on has been handed over. -/
def handOver (cb : Nat → Option ε) : List α → Nat → List α × Option ε
  | [], _ => ([], none)
  | v :: vs, idx =>
    match cb idx with
    | some e => ([v], some e)
    | none => (v :: (handOver cb vs (idx + 1)).1, (handOver cb vs (idx + 1)).2)

/-- continue with `k` (told how many records were handed over) unless the callback failed -/
def thenOut (h : List α × Option ε) (k : Nat → Out α ε) : Out α ε :=
  match h.2 with
  | some e => ⟨h.1, .cb e⟩
  | none => ⟨h.1 ++ (k h.1.length).delivered, (k h.1.length).res⟩

theorem handOver_none (cb : Nat → Option ε) (hcb : ∀ i, cb i = none) : ∀ (vs : List α) (idx : Nat),
    handOver cb vs idx = (vs, none) := by
  intro vs
  induction vs with
  | nil => intro idx; rfl
  | cons v vs ih => intro idx; simp [handOver, hcb, ih]

/-- no failure on the indices of `vs`: everything is handed over -/
theorem handOver_clear (cb : Nat → Option ε) : ∀ (vs : List α) (idx : Nat),
    (∀ j, idx ≤ j → j < idx + vs.length → cb j = none) → handOver cb vs idx = (vs, none) := by
  intro vs
  induction vs with
  | nil => intro idx _; rfl
  | cons v vs ih =>
    intro idx h
    have h0 := h idx (by omega) (by simp)
    have := ih (idx + 1) (fun j h1 h2 => h j (by omega) (by simp; omega))
    simp [handOver, h0, this]

/-- first failure at global index `i`: records `idx .. i` are handed over, the error is `e` -/
theorem handOver_fail (cb : Nat → Option ε) (i : Nat) (e : ε) (hi : cb i = some e) : ∀ (vs : List α) (idx : Nat),
    idx ≤ i → i < idx + vs.length → (∀ j, idx ≤ j → j < i → cb j = none) →
    handOver cb vs idx = (vs.take (i - idx + 1), some e) := by
  intro vs
  induction vs with
  | nil => intro idx h1 h2 _; simp at h2; omega
  | cons v vs ih =>
    intro idx h1 h2 h
    by_cases heq : idx = i
    · subst heq; simp [handOver, hi]
    · have h0 := h idx (by omega) (by omega)
      have := ih (idx + 1) (by omega) (by simp at h2; omega) (fun j a b => h j (by omega) b)
      have e1 : i - idx + 1 = (i - (idx + 1) + 1) + 1 := by omega
      simp [handOver, h0, this, e1]

/-! ### One iteration of the block loop -/

/-- count, length and payload present: the head of the iteration yields them and leaves the rest -/
theorem blockHead_raw (c : Int) (p X : Bytes) (hc : inRange 64 c) (hp : p.length ≤ maxLen) :
    blockHead (writeVarint c ++ (writeVarint p.length ++ p) ++ X) = .ok (some (c, p, X)) := by
  have hr := inRange_of_le_maxLen hp
  have hneg : ¬ ((p.length : Int) < 0) := by omega
  unfold blockHead
  simp only [List.append_assoc]
  rw [ioVarint_write _ hc]
  simp only
  rw [ioVarint_write _ hr]
  simp only [hneg, if_false, Int.toNat_natCast, readN_append]

/-- the file ends exactly before a block: the clean end -/
theorem blockHead_nil : blockHead [] = .ok none := by
  simp [blockHead, ioVarint, ioUvarintAux]

/-- the file ends inside count, length or payload: an error -/
theorem blockHead_take (c : Int) (p : Bytes) (hc : inRange 64 c) (hp : p.length ≤ maxLen) (j : Nat)
    (h0 : 0 < j) (hj : j < (writeVarint c ++ (writeVarint p.length ++ p)).length) :
    ∃ e, blockHead ((writeVarint c ++ (writeVarint p.length ++ p)).take j) = .err e := by
  have hr := inRange_of_le_maxLen hp
  have hneg : ¬ ((p.length : Int) < 0) := by omega
  unfold blockHead
  by_cases h1 : j < (writeVarint c).length
  · rw [take_append_lt h1, ioVarint_take _ hc _ h1]
    have : ¬ j = 0 := by omega
    simp only [this, if_false]
    exact ⟨_, rfl⟩
  · rw [take_append_ge (by omega), ioVarint_write _ hc]
    simp only
    by_cases h2 : j - (writeVarint c).length < (writeVarint (p.length : Int)).length
    · rw [take_append_lt h2, ioVarint_take _ hr _ h2]
      exact ⟨_, rfl⟩
    · rw [take_append_ge (by omega), ioVarint_write _ hr]
      simp only [hneg, if_false, Int.toNat_natCast]
      obtain ⟨e, he⟩ := readN_take p (j - (writeVarint c).length - (writeVarint (p.length : Int)).length)
        (by simp only [List.length_append] at hj; omega)
      rw [he]
      exact ⟨_, rfl⟩

/-- the record loop on a block whose records decode exactly -/
theorem deliver_good (decode : Bytes → Outcome (α × Bytes)) (cb : Nat → Option ε) : ∀ (recs : List (α × Bytes)) (junk : Bytes) (idx : Nat),
    (∀ ve ∈ recs, ∀ rest, decode (ve.2 ++ rest) = .ok (ve.1, rest)) →
    deliver decode cb recs.length ((recs.map (·.2)).flatten ++ junk) idx =
      ((handOver cb (recs.map (·.1)) idx).1, (handOver cb (recs.map (·.1)) idx).2.map Res.cb) := by
  intro recs
  induction recs with
  | nil => intro junk idx _; simp [deliver, handOver]
  | cons ve recs ih =>
    intro junk idx h
    have h1 := h ve (by simp) ((recs.map (·.2)).flatten ++ junk)
    have ih' := ih junk (idx + 1) (fun x hx => h x (by simp [hx]))
    simp only [List.length_cons, List.map_cons, List.flatten_cons, List.append_assoc, deliver, h1, handOver]
    cases hc : cb idx with
    | some e => simp
    | none => simp [ih']

/-- Second half of the iteration on a good block followed by the sync marker. -/
theorem blockTail_good (cfg : Cfg α ε) (next : Bytes → Nat → Out α ε) (b : Blk α) (X : Bytes) (idx : Nat)
    (hb : GoodBlk cfg.decomp cfg.decode b) (hs : cfg.sync.length = 16) :
    blockTail cfg next (b.recs.length : Int) b.payload (cfg.sync ++ X) idx =
      thenOut (handOver cfg.cb b.vals idx) (fun n => next X (idx + n)) := by
  unfold blockTail
  rw [hb.decomp]
  simp only [Int.toNat_natCast, Blk.data]
  rw [deliver_good cfg.decode cfg.cb b.recs b.junk idx hb.exact]
  unfold thenOut Blk.vals
  cases h : (handOver cfg.cb (b.recs.map (·.1)) idx).2 with
  | some e => simp
  | none =>
    simp only [Option.map_none]
    rw [← hs, readFull_append]
    simp

/-- the sync marker is cut short (the file ends inside it): the records were delivered, then an error -/
theorem blockTail_cut (cfg : Cfg α ε) (next : Bytes → Nat → Out α ε) (b : Blk α) (j idx : Nat)
    (hb : GoodBlk cfg.decomp cfg.decode b) (hs : cfg.sync.length = 16) (hj : j < 16)
    (hcb : ∀ i, cfg.cb i = none) :
    blockTail cfg next (b.recs.length : Int) b.payload (cfg.sync.take j) idx = ⟨b.vals, .err .syncRead⟩ := by
  unfold blockTail
  rw [hb.decomp]
  simp only [Int.toNat_natCast, Blk.data]
  rw [deliver_good cfg.decode cfg.cb b.recs b.junk idx hb.exact, handOver_none cfg.cb hcb]
  simp only [Option.map_none]
  rw [← hs, readFull_take _ _ (by omega)]
  rfl

theorem readBlocks_nil (cfg : Cfg α ε) (fuel idx : Nat) : readBlocks cfg (fuel + 1) [] idx = ⟨[], .ok⟩ := by
  simp [readBlocks, blockHead_nil]

/-- One whole good block, then `X`. -/
theorem readBlocks_frame (cfg : Cfg α ε) (fuel idx : Nat) (b : Blk α) (X : Bytes)
    (hb : GoodBlk cfg.decomp cfg.decode b) (hs : cfg.sync.length = 16) :
    readBlocks cfg (fuel + 1) (frame cfg.sync b ++ X) idx =
      thenOut (handOver cfg.cb b.vals idx) (fun n => readBlocks cfg fuel X (idx + n)) := by
  have hc : inRange 64 (b.recs.length : Int) := inRange_of_nat_lt hb.count
  have : frame cfg.sync b ++ X =
      writeVarint (b.recs.length : Int) ++ (writeVarint (b.payload.length : Int) ++ b.payload) ++ (cfg.sync ++ X) := by
    simp [frame, frameHead]
  rw [this, readBlocks, blockHead_raw _ _ _ hc hb.small]
  exact blockTail_good cfg _ b X idx hb hs

/-- a raw block (any count, any payload) followed by `X`: the head parses, the rest is `blockTail` -/
theorem readBlocks_raw (cfg : Cfg α ε) (fuel idx : Nat) (c : Int) (p X : Bytes) (hc : inRange 64 c) (hp : p.length ≤ maxLen) :
    readBlocks cfg (fuel + 1) (writeVarint c ++ (writeVarint p.length ++ p) ++ X) idx =
      blockTail cfg (readBlocks cfg fuel) c p X idx := by
  rw [readBlocks, blockHead_raw _ _ _ hc hp]

def allVals (bl : List (Blk α)) : List α := bl.flatMap Blk.vals

/-- A run of good blocks on which the callback does not fail, followed by `X`. -/
theorem readBlocks_body_clear (cfg : Cfg α ε) (hs : cfg.sync.length = 16) : ∀ (bl : List (Blk α)) (fuel idx : Nat) (X : Bytes),
    (∀ b ∈ bl, GoodBlk cfg.decomp cfg.decode b) →
    (∀ j, idx ≤ j → j < idx + (allVals bl).length → cfg.cb j = none) →
    readBlocks cfg (fuel + bl.length) (body cfg.sync bl ++ X) idx =
      ⟨allVals bl ++ (readBlocks cfg fuel X (idx + (allVals bl).length)).delivered,
       (readBlocks cfg fuel X (idx + (allVals bl).length)).res⟩ := by
  intro bl
  induction bl with
  | nil => intro fuel idx X _ _; simp [body, allVals]
  | cons b bl ih =>
    intro fuel idx X hg hcb
    have hb := hg b (by simp)
    have e1 : fuel + (b :: bl).length = (fuel + bl.length) + 1 := by simp; omega
    have e2 : body cfg.sync (b :: bl) ++ X = frame cfg.sync b ++ (body cfg.sync bl ++ X) := by simp [body]
    have hlen : (allVals (b :: bl)).length = b.vals.length + (allVals bl).length := by simp [allVals]
    rw [e1, e2, readBlocks_frame cfg _ idx b _ hb hs,
      handOver_clear cfg.cb b.vals idx (fun j h1 h2 => hcb j h1 (by omega))]
    simp only [thenOut]
    rw [ih fuel (idx + b.vals.length) X (fun x hx => hg x (by simp [hx])) (fun j h1 h2 => hcb j (by omega) (by omega))]
    have e3 : idx + b.vals.length + (allVals bl).length = idx + (allVals (b :: bl)).length := by omega
    rw [e3]
    simp [allVals]

/-- A run of good blocks during which the callback fails for the first time at global index `i`. -/
theorem readBlocks_body_fail (cfg : Cfg α ε) (hs : cfg.sync.length = 16) (i : Nat) (e : ε) (hi : cfg.cb i = some e) :
    ∀ (bl : List (Blk α)) (fuel idx : Nat) (X : Bytes),
    (∀ b ∈ bl, GoodBlk cfg.decomp cfg.decode b) →
    idx ≤ i → i < idx + (allVals bl).length → (∀ j, idx ≤ j → j < i → cfg.cb j = none) →
    readBlocks cfg (fuel + bl.length) (body cfg.sync bl ++ X) idx = ⟨(allVals bl).take (i - idx + 1), .cb e⟩ := by
  intro bl
  induction bl with
  | nil => intro fuel idx X _ h1 h2 _; simp [allVals] at h2; omega
  | cons b bl ih =>
    intro fuel idx X hg h1 h2 hcb
    have hb := hg b (by simp)
    have e1 : fuel + (b :: bl).length = (fuel + bl.length) + 1 := by simp; omega
    have e2 : body cfg.sync (b :: bl) ++ X = frame cfg.sync b ++ (body cfg.sync bl ++ X) := by simp [body]
    have hlen : (allVals (b :: bl)).length = b.vals.length + (allVals bl).length := by simp [allVals]
    have hall : allVals (b :: bl) = b.vals ++ allVals bl := by simp [allVals]
    rw [e1, e2, readBlocks_frame cfg _ idx b _ hb hs]
    by_cases hin : i < idx + b.vals.length
    · rw [handOver_fail cfg.cb i e hi b.vals idx h1 hin hcb]
      simp only [thenOut]
      rw [hall, List.take_append_of_le_length (by omega)]
    · have ht : List.take (i - idx + 1) b.vals = b.vals := List.take_of_length_le (by omega)
      have e3 : i - idx + 1 - b.vals.length = i - (idx + b.vals.length) + 1 := by omega
      have hR : (allVals (b :: bl)).take (i - idx + 1) = b.vals ++ (allVals bl).take (i - (idx + b.vals.length) + 1) := by
        rw [hall, List.take_append, ht, e3]
      rw [hR, handOver_clear cfg.cb b.vals idx (fun j a c => hcb j a (by omega))]
      simp only [thenOut]
      rw [ih fuel (idx + b.vals.length) X (fun x hx => hg x (by simp [hx])) (by omega) (by omega)
        (fun j a c => hcb j (by omega) c)]

/-! ### A body cut after `k` bytes -/

/-- What reading the first `k` bytes of `body sync bl` has to give (`k` relative to the start of the
body): the records handed over and whether the result is success. -/
def cutOut (sync : Bytes) : List (Blk α) → Nat → List α × Bool
  | [], _ => ([], true)
  | b :: bl, k =>
    if k = 0 then ([], true)
    else if k < (frameHead b).length then ([], false)
    else if k < (frame sync b).length then (b.vals, false)
    else (b.vals ++ (cutOut sync bl (k - (frame sync b).length)).1, (cutOut sync bl (k - (frame sync b).length)).2)

theorem frameHead_length_pos (b : Blk α) : 0 < (frameHead b).length := by
  have := writeVarint_length_pos (b.recs.length : Int)
  simp only [frameHead, List.length_append]; omega

theorem readBlocks_cut (cfg : Cfg α ε) (hs : cfg.sync.length = 16) (hcb : ∀ i, cfg.cb i = none) :
    ∀ (bl : List (Blk α)) (fuel idx k : Nat), (∀ b ∈ bl, GoodBlk cfg.decomp cfg.decode b) → bl.length < fuel →
    (readBlocks cfg fuel ((body cfg.sync bl).take k) idx).delivered = (cutOut cfg.sync bl k).1 ∧
    (if (cutOut cfg.sync bl k).2 then (readBlocks cfg fuel ((body cfg.sync bl).take k) idx).res = .ok
     else ∃ e, (readBlocks cfg fuel ((body cfg.sync bl).take k) idx).res = .err e) := by
  intro bl
  induction bl with
  | nil =>
    intro fuel idx k _ hf
    obtain ⟨f, rfl⟩ : ∃ f, fuel = f + 1 := ⟨fuel - 1, by simp at hf; omega⟩
    simp [body, readBlocks_nil, cutOut]
  | cons b bl ih =>
    intro fuel idx k hg hf
    obtain ⟨f, rfl⟩ : ∃ f, fuel = f + 1 := ⟨fuel - 1, by simp at hf; omega⟩
    have hb := hg b (by simp)
    have hc : inRange 64 (b.recs.length : Int) := inRange_of_nat_lt hb.count
    have e2 : body cfg.sync (b :: bl) = frame cfg.sync b ++ body cfg.sync bl := by simp [body]
    have hfl : (frame cfg.sync b).length = (frameHead b).length + 16 := by simp [frame, hs]
    have hpos := frameHead_length_pos b
    rw [e2]
    by_cases h0 : k = 0
    · subst h0; simp [readBlocks_nil, cutOut]
    by_cases h1 : k < (frameHead b).length
    · -- inside count, length or payload
      have ht : (frame cfg.sync b ++ body cfg.sync bl).take k = (frameHead b).take k := by
        rw [frame, List.append_assoc, take_append_lt h1]
      obtain ⟨e, he⟩ := blockHead_take _ _ hc hb.small k (by omega) h1
      have he' : blockHead ((frameHead b).take k) = .err e := he
      rw [ht]
      simp only [cutOut, h0, h1, if_true, if_false, readBlocks, he']
      exact ⟨trivial, by simp⟩
    by_cases h2 : k < (frame cfg.sync b).length
    · -- payload complete, sync marker cut short
      have ht : (frame cfg.sync b ++ body cfg.sync bl).take k =
          writeVarint (b.recs.length : Int) ++ (writeVarint (b.payload.length : Int) ++ b.payload) ++ cfg.sync.take (k - (frameHead b).length) := by
        rw [take_append_lt h2, frame, take_append_ge (by omega)]; rfl
      rw [ht, readBlocks_raw cfg _ idx _ _ _ hc hb.small, blockTail_cut cfg _ b _ idx hb hs (by omega) hcb]
      simp [cutOut, h0, h1, h2]
    · -- the whole block is there
      have ht : (frame cfg.sync b ++ body cfg.sync bl).take k = frame cfg.sync b ++ (body cfg.sync bl).take (k - (frame cfg.sync b).length) :=
        take_append_ge (by omega)
      have ih' := ih f (idx + b.vals.length) (k - (frame cfg.sync b).length) (fun x hx => hg x (by simp [hx])) (by simp at hf; omega)
      rw [ht, readBlocks_frame cfg _ idx b _ hb hs, handOver_none cfg.cb hcb]
      simp only [thenOut, cutOut, h0, h1, h2, if_false]
      exact ⟨by rw [ih'.1], ih'.2⟩

theorem cutOut_prefix (sync : Bytes) : ∀ (bl : List (Blk α)) (k : Nat), (cutOut sync bl k).1 <+: allVals bl := by
  intro bl
  induction bl with
  | nil => intro k; simp [cutOut, allVals]
  | cons b bl ih =>
    intro k
    have hall : allVals (b :: bl) = b.vals ++ allVals bl := by simp [allVals]
    rw [hall]
    simp only [cutOut]
    split
    · exact List.nil_prefix
    · split
      · exact List.nil_prefix
      · split
        · exact List.prefix_append _ _
        · exact List.prefix_append_right_inj _ |>.mpr (ih _)

/-- Records of the blocks whose payload ends at or before absolute file position `k`;
`off` is the absolute position where the first block of `bl` starts. -/
def completeVals (sync : Bytes) : Nat → List (Blk α) → Nat → List α
  | _, [], _ => []
  | off, b :: bl, k =>
    (if off + (frameHead b).length ≤ k then b.vals else []) ++ completeVals sync (off + (frame sync b).length) bl k

/-- The positions at which a writer can have stopped cleanly: the end of the header and the end of every block. -/
def boundaries (sync : Bytes) : Nat → List (Blk α) → List Nat
  | off, [] => [off]
  | off, b :: bl => off :: boundaries sync (off + (frame sync b).length) bl

theorem completeVals_before (sync : Bytes) : ∀ (bl : List (Blk α)) (off k : Nat), k ≤ off → completeVals sync off bl k = [] := by
  intro bl
  induction bl with
  | nil => intro off k _; rfl
  | cons b bl ih =>
    intro off k h
    have := frameHead_length_pos b
    have h1 : ¬ off + (frameHead b).length ≤ k := by omega
    simp [completeVals, h1, ih _ _ (show k ≤ off + (frame sync b).length by omega)]

theorem boundaries_ge (sync : Bytes) : ∀ (bl : List (Blk α)) (off x : Nat), x ∈ boundaries sync off bl → off ≤ x := by
  intro bl
  induction bl with
  | nil => intro off x h; simp [boundaries] at h; omega
  | cons b bl ih =>
    intro off x h
    simp only [boundaries, List.mem_cons] at h
    rcases h with rfl | h
    · omega
    · have := ih _ _ h; omega

/-- the relative, recursive description and the absolute one agree -/
theorem cutOut_eq (sync : Bytes) (hs : sync.length = 16) : ∀ (bl : List (Blk α)) (off k : Nat), off ≤ k → k ≤ off + (body sync bl).length →
    (cutOut sync bl (k - off)).1 = completeVals sync off bl k ∧
    ((cutOut sync bl (k - off)).2 = true ↔ k ∈ boundaries sync off bl) := by
  intro bl
  induction bl with
  | nil =>
    intro off k h1 h2
    simp [body] at h2
    simp [cutOut, completeVals, boundaries]; omega
  | cons b bl ih =>
    intro off k h1 h2
    have hpos := frameHead_length_pos b
    have hfl : (frame sync b).length = (frameHead b).length + 16 := by simp [frame, hs]
    have e2 : (body sync (b :: bl)).length = (frame sync b).length + (body sync bl).length := by simp [body]
    simp only [cutOut, completeVals, boundaries, List.mem_cons]
    by_cases h0 : k - off = 0
    · have hk : k = off := by omega
      subst hk
      have hn : ¬ k + (frameHead b).length ≤ k := by omega
      simp [hn, completeVals_before sync bl (k + (frame sync b).length) k (by omega)]
    have hne : k ≠ off := by omega
    by_cases h3 : k - off < (frameHead b).length
    · have hn : ¬ off + (frameHead b).length ≤ k := by omega
      have hnb : k ∉ boundaries sync (off + (frame sync b).length) bl := fun h => by
        have := boundaries_ge sync bl _ _ h; omega
      simp [h0, h3, hn, hne, hnb, completeVals_before sync bl (off + (frame sync b).length) k (by omega)]
    by_cases h4 : k - off < (frame sync b).length
    · have hy : off + (frameHead b).length ≤ k := by omega
      have hnb : k ∉ boundaries sync (off + (frame sync b).length) bl := fun h => by
        have := boundaries_ge sync bl _ _ h; omega
      simp [h0, h3, h4, hy, hne, hnb, completeVals_before sync bl (off + (frame sync b).length) k (by omega)]
    · have hy : off + (frameHead b).length ≤ k := by omega
      have ih' := ih (off + (frame sync b).length) k (by omega) (by omega)
      have e3 : k - off - (frame sync b).length = k - (off + (frame sync b).length) := by omega
      simp only [h0, h3, h4, hy, if_true, if_false, e3, hne, false_or]
      exact ⟨by rw [ih'.1], ih'.2⟩

/-! ### Whole files -/

/-- what the block loop is run with once the header `H` selected codec `sel` and decoder `rc` -/
def cfgOf (X : Ext α) (sel : CodecSel) (rc : RecCodec α) (H : Header) (cb : Nat → Option ε) : Cfg α ε :=
  { decomp := decompress X sel, decode := rc.decode, sync := H.sync, cb := cb }

/-- `hdr` is a header the reader accepts as `H`, which selects codec `sel` and whose schema builds
the record decoder `rc`. -/
structure ValidHeader (X : Ext α) (fuel : Nat) (hdr : Bytes) (H : Header) (sel : CodecSel) (rc : RecCodec α) : Prop where
  header : Accepts (readFileHeader fuel) hdr H
  sync16 : H.sync.length = 16
  codec : selectCodec H.meta = some sel
  schema : ∃ js, metaGet H.meta kSchema = some js ∧ X.build js = some rc

/-- A valid container file `hdr ++ body H.sync bl`: a valid header followed by frames of good blocks. -/
structure ValidFile (X : Ext α) (fuel : Nat) (hdr : Bytes) (H : Header) (sel : CodecSel) (rc : RecCodec α)
    (bl : List (Blk α)) : Prop extends ValidHeader X fuel hdr H sel rc where
  blocks : ∀ b ∈ bl, GoodBlk (decompress X sel) rc.decode b
  fuel : bl.length < fuel

theorem readFile_header {X : Ext α} {fuel : Nat} {hdr : Bytes} {H : Header} {sel : CodecSel} {rc : RecCodec α}
    (hv : ValidHeader X fuel hdr H sel rc) (cb : Nat → Option ε) (rest : Bytes) :
    readFile X fuel cb (hdr ++ rest) = readBlocks (cfgOf X sel rc H cb) fuel rest 0 := by
  obtain ⟨js, h1, h2⟩ := hv.schema
  unfold readFile
  rw [hv.header.1 rest]
  simp only [hv.codec, h1, h2]
  rfl

theorem readFile_header_cut {X : Ext α} {fuel : Nat} {hdr : Bytes} {H : Header} {sel : CodecSel} {rc : RecCodec α}
    (hv : ValidHeader X fuel hdr H sel rc) (cb : Nat → Option ε) (j : Nat) (hj : j < hdr.length) :
    ∃ e, readFile X fuel cb (hdr.take j) = ⟨[], .err e⟩ := by
  obtain ⟨e, he⟩ := hv.header.2 j hj
  exact ⟨e, by unfold readFile; rw [he]⟩

/-! ### Panics -/

/-- the record decoder returns a value or an error (what C03/C06 establish for the codec model) -/
def Tame (decode : Bytes → Outcome (α × Bytes)) : Prop := ∀ bs, (∃ r, decode bs = .ok r) ∨ decode bs = .err

theorem readBytes_no_panic (ek : ErrKind) (bs : Bytes) (k : PanicKind) : readBytes ek bs ≠ .panic k := by
  unfold readBytes
  split
  · simp
  · split
    · simp
    · split <;> simp

theorem readEntries_no_panic : ∀ (n : Nat) (bs : Bytes) (m : Meta) (k : PanicKind), readEntries n bs m ≠ .panic k := by
  intro n
  induction n with
  | zero => intro bs m k; simp [readEntries]
  | succ n ih =>
    intro bs m k
    simp only [readEntries, Step.bind_eq]
    cases h1 : readBytes .metaKey bs with
    | ok x =>
      simp only [Step.bind_ok']
      cases h2 : readBytes .metaVal x.2 with
      | ok y => simp only [Step.bind_ok']; exact ih _ _ _
      | err e => simp
      | panic k' => exact absurd h2 (readBytes_no_panic _ _ _)
      | fuel => simp
    | err e => simp
    | panic k' => exact absurd h1 (readBytes_no_panic _ _ _)
    | fuel => simp

theorem readMeta_no_panic : ∀ (fuel : Nat) (bs : Bytes) (m : Meta) (k : PanicKind), readMeta fuel bs m ≠ .panic k := by
  intro fuel
  induction fuel with
  | zero => intro bs m k; simp [readMeta]
  | succ fuel ih =>
    intro bs m k
    simp only [readMeta]
    split
    · simp
    · split
      · simp
      · split
        · simp
        · simp only [Step.bind_eq]
          cases h1 : readEntries _ _ m with
          | ok x => simp only [Step.bind_ok']; exact ih _ _ _
          | err e => simp
          | panic k' => exact absurd h1 (readEntries_no_panic _ _ _ _)
          | fuel => simp

theorem readFileHeader_no_panic (fuel : Nat) (bs : Bytes) (k : PanicKind) : readFileHeader fuel bs ≠ .panic k := by
  unfold readFileHeader
  split
  · simp
  · split
    · simp
    · simp only [Step.bind_eq]
      cases h1 : readMeta fuel _ [] with
      | ok x => simp only [Step.bind_ok']; split <;> simp
      | err e => simp
      | panic k' => exact absurd h1 (readMeta_no_panic _ _ _ _)
      | fuel => simp

/-- `decompress` never panics: the length guard protects the two slice expressions. -/
theorem decompress_no_panic (X : Ext α) (sel : CodecSel) (c : Bytes) (k : PanicKind) : decompress X sel c ≠ .panic k := by
  cases sel with
  | null => simp [decompress]
  | deflate => simp only [decompress]; split <;> simp
  | snappy =>
    simp only [decompress]
    split
    · simp
    · rename_i h
      have : 4 ≤ c.length := by omega
      simp only [this, if_true]
      split
      · simp
      · split <;> simp

theorem blockHead_no_panic (bs : Bytes) (k : PanicKind) : blockHead bs ≠ .panic k := by
  unfold blockHead
  split
  · simp
  · simp
  · split
    · simp
    · split
      · simp
      · split <;> simp

theorem deliver_panic (decode : Bytes → Outcome (α × Bytes)) (cb : Nat → Option ε) (ht : Tame decode) :
    ∀ (n : Nat) (buf : Bytes) (idx : Nat) (k : PanicKind), (deliver decode cb n buf idx).2 ≠ some (.panic k) := by
  intro n
  induction n with
  | zero => intro buf idx k; simp [deliver]
  | succ n ih =>
    intro buf idx k
    simp only [deliver]
    rcases ht buf with ⟨r, hr⟩ | hr
    · rw [hr]
      cases hc : cb idx with
      | some e => simp
      | none => exact ih _ _ _
    · rw [hr]; simp

theorem blockTail_no_panic (cfg : Cfg α ε) (hd : ∀ c k, cfg.decomp c ≠ .panic k) (ht : Tame cfg.decode)
    (next : Bytes → Nat → Out α ε) (hn : ∀ bs idx k, (next bs idx).res ≠ .panic k)
    (count : Int) (comp r3 : Bytes) (idx : Nat) (k : PanicKind) :
    (blockTail cfg next count comp r3 idx).res ≠ .panic k := by
  unfold blockTail
  split
  · simp
  · rename_i k' hk'; exact absurd hk' (hd _ _)
  · simp
  · split
    · rename_i data _ _ ds res hdl
      have := deliver_panic cfg.decode cfg.cb ht count.toNat data idx k
      rw [hdl] at this
      intro h; simp only at h; subst h; exact this rfl
    · split
      · simp
      · split
        · simp
        · exact hn _ _ _

theorem readBlocks_no_panic (cfg : Cfg α ε) (hd : ∀ c k, cfg.decomp c ≠ .panic k) (ht : Tame cfg.decode) :
    ∀ (fuel : Nat) (bs : Bytes) (idx : Nat) (k : PanicKind), (readBlocks cfg fuel bs idx).res ≠ .panic k := by
  intro fuel
  induction fuel with
  | zero => intro bs idx k; simp [readBlocks]
  | succ fuel ih =>
    intro bs idx k
    simp only [readBlocks]
    split
    · simp
    · rename_i k' hk'; exact absurd hk' (blockHead_no_panic _ _)
    · simp
    · simp
    · exact blockTail_no_panic cfg hd ht _ ih _ _ _ _ _

end

/-! ### The step budget `length + 1` is always enough -/

theorem ioUvarintAux_length : ∀ (bs : Bytes) (i x n : Nat) (r : Bytes), ioUvarintAux i x bs = .ok (n, r) → r.length < bs.length := by
  intro bs
  induction bs with
  | nil => intro i x n r h; simp only [ioUvarintAux] at h; split at h <;> (try split at h) <;> cases h
  | cons b tl ih =>
    intro i x n r h
    simp only [ioUvarintAux] at h
    split at h
    · cases h
    · split at h
      · split at h
        · cases h
        · cases h; simp
      · have := ih _ _ _ _ h; simp; omega

theorem ioVarint_length {bs : Bytes} {v : Int} {r : Bytes} (h : ioVarint bs = .ok (v, r)) : r.length < bs.length := by
  unfold ioVarint at h
  split at h
  · rename_i n rest hn; cases h; exact ioUvarintAux_length _ _ _ _ _ hn
  · cases h

theorem readFull_length {n : Nat} {bs a r : Bytes} (h : readFull n bs = .ok (a, r)) : r.length ≤ bs.length := by
  have := (readFull_ok_length h).2
  rw [this]; simp

theorem readN_length {n : Nat} {bs a r : Bytes} (h : readN n bs = .ok (a, r)) : r.length ≤ bs.length := by
  have := (readN_ok_length h).2
  rw [this]; simp

theorem readBytes_ne_fuel (ek : ErrKind) (bs : Bytes) : readBytes ek bs ≠ .fuel := by
  unfold readBytes
  split
  · simp
  · split
    · simp
    · split <;> simp

theorem readBytes_length {ek : ErrKind} {bs v r : Bytes} (h : readBytes ek bs = .ok (v, r)) : r.length < bs.length := by
  unfold readBytes at h
  split at h
  · cases h
  · rename_i l r1 hv
    have h1 := ioVarint_length hv
    split at h
    · cases h
    · split at h
      · rename_i v' r' hf
        have := readN_length hf
        simp only [Step.ok.injEq, Prod.mk.injEq] at h
        obtain ⟨_, rfl⟩ := h
        omega
      · cases h

theorem readEntries_fuel : ∀ (n : Nat) (bs : Bytes) (m : Meta), readEntries n bs m ≠ .fuel ∧
    ∀ m' r, readEntries n bs m = .ok (m', r) → r.length ≤ bs.length := by
  intro n
  induction n with
  | zero => intro bs m; simp [readEntries]
  | succ n ih =>
    intro bs m
    simp only [readEntries, Step.bind_eq]
    cases h1 : readBytes .metaKey bs with
    | ok x =>
      have l1 := readBytes_length (show readBytes .metaKey bs = .ok (x.1, x.2) from h1)
      simp only [Step.bind_ok']
      cases h2 : readBytes .metaVal x.2 with
      | ok y =>
        have l2 := readBytes_length (show readBytes .metaVal x.2 = .ok (y.1, y.2) from h2)
        simp only [Step.bind_ok']
        have := ih y.2 ((x.1, y.1) :: m)
        exact ⟨this.1, fun m' r h => by have := this.2 m' r h; omega⟩
      | err e => simp
      | panic k => simp
      | fuel => exact absurd h2 (readBytes_ne_fuel _ _)
    | err e => simp
    | panic k => simp
    | fuel => exact absurd h1 (readBytes_ne_fuel _ _)

theorem readMeta_fuel : ∀ (fuel : Nat) (bs : Bytes) (m : Meta), bs.length < fuel → readMeta fuel bs m ≠ .fuel ∧
    ∀ m' r, readMeta fuel bs m = .ok (m', r) → r.length ≤ bs.length := by
  intro fuel
  induction fuel with
  | zero => intro bs m h; omega
  | succ fuel ih =>
    intro bs m hf
    simp only [readMeta]
    split
    · simp
    · rename_i c r hv
      have l1 := ioVarint_length hv
      split
      · exact ⟨by simp, fun m' r' h => by cases h; omega⟩
      · split
        · simp
        · simp only [Step.bind_eq]
          cases h1 : readEntries c.toNat r m with
          | ok x =>
            have l2 := (readEntries_fuel c.toNat r m).2 x.1 x.2 h1
            simp only [Step.bind_ok']
            have := ih x.2 x.1 (by omega)
            exact ⟨this.1, fun m' r' h => by have := this.2 m' r' h; omega⟩
          | err e => simp
          | panic k => simp
          | fuel => exact absurd h1 (readEntries_fuel _ _ _).1

theorem readFileHeader_fuel (fuel : Nat) (bs : Bytes) (hf : bs.length < fuel) : readFileHeader fuel bs ≠ .fuel ∧
    ∀ H r, readFileHeader fuel bs = .ok (H, r) → r.length ≤ bs.length := by
  unfold readFileHeader
  split
  · simp
  · rename_i mg r hm
    have l1 := readFull_length hm
    split
    · simp
    · simp only [Step.bind_eq]
      cases h1 : readMeta fuel r [] with
      | ok x =>
        have l2 := (readMeta_fuel fuel r [] (by omega)).2 x.1 x.2 h1
        simp only [Step.bind_ok']
        split
        · simp
        · rename_i s r'' hs
          have l3 := readFull_length hs
          exact ⟨by simp, fun H r' h => by simp only [Step.pure_eq, Step.ok.injEq, Prod.mk.injEq] at h; obtain ⟨_, rfl⟩ := h; omega⟩
      | err e => simp
      | panic k => simp
      | fuel => exact absurd h1 (readMeta_fuel fuel r [] (by omega)).1

theorem blockHead_fuel (bs : Bytes) : blockHead bs ≠ .fuel ∧
    ∀ c comp r3, blockHead bs = .ok (some (c, comp, r3)) → r3.length < bs.length := by
  unfold blockHead
  split
  · simp
  · simp
  · rename_i c r1 h1
    have l1 := ioVarint_length h1
    split
    · simp
    · rename_i l r2 h2
      have l2 := ioVarint_length h2
      split
      · simp
      · split
        · simp
        · rename_i comp r3 hf
          have l3 := readN_length hf
          exact ⟨by simp, fun c' comp' r3' h => by
            simp only [Step.ok.injEq, Option.some.injEq, Prod.mk.injEq] at h
            obtain ⟨_, _, rfl⟩ := h; omega⟩

theorem decompress_ne_fuel {α : Type} (X : Ext α) (sel : CodecSel) (c : Bytes) : decompress X sel c ≠ .fuel := by
  cases sel with
  | null => simp [decompress]
  | deflate => simp only [decompress]; split <;> simp
  | snappy =>
    simp only [decompress]
    split
    · simp
    · split
      · split
        · simp
        · split <;> simp
      · simp

section
variable {α ε : Type}

theorem deliver_ne_fuel (decode : Bytes → Outcome (α × Bytes)) (cb : Nat → Option ε) :
    ∀ (n : Nat) (buf : Bytes) (idx : Nat), (deliver decode cb n buf idx).2 ≠ some .fuel := by
  intro n
  induction n with
  | zero => intro buf idx; simp [deliver]
  | succ n ih =>
    intro buf idx
    simp only [deliver]
    split
    · split
      · simp
      · exact ih _ _
    all_goals simp

theorem readBlocks_fuel (cfg : Cfg α ε) (hd : ∀ c, cfg.decomp c ≠ .fuel) :
    ∀ (fuel : Nat) (bs : Bytes) (idx : Nat), bs.length < fuel → (readBlocks cfg fuel bs idx).res ≠ .fuel := by
  intro fuel
  induction fuel with
  | zero => intro bs idx h; omega
  | succ fuel ih =>
    intro bs idx hf
    simp only [readBlocks]
    split
    · simp
    · simp
    · rename_i h; exact absurd h (blockHead_fuel bs).1
    · simp
    · rename_i count comp r3 hh
      have l1 := (blockHead_fuel bs).2 _ _ _ hh
      unfold blockTail
      split
      · simp
      · simp
      · rename_i h; exact absurd h (hd _)
      · split
        · rename_i data _ _ ds res hdl
          have := deliver_ne_fuel cfg.decode cfg.cb count.toNat data idx
          rw [hdl] at this
          intro h; simp only at h; subst h; exact this rfl
        · split
          · simp
          · rename_i sig r4 hs
            have l2 := readFull_length hs
            split
            · simp
            · exact ih r4 _ (by omega)

/-- **fuel is enough**: with a step budget above the input length the model never runs out of steps. -/
theorem fuel_enough (X : Ext α) (fuel : Nat) (cb : Nat → Option ε) (bs : Bytes) (hf : bs.length < fuel) :
    (readFile X fuel cb bs).res ≠ .fuel := by
  unfold readFile
  split
  · simp
  · simp
  · rename_i h; exact absurd h (readFileHeader_fuel fuel bs hf).1
  · rename_i H rest hh
    have l1 := (readFileHeader_fuel fuel bs hf).2 H rest hh
    split
    · simp
    · split
      · simp
      · split
        · simp
        · exact readBlocks_fuel _ (fun c => decompress_ne_fuel X _ c) fuel rest 0 (by omega)

end

end Avro.File
