import AvroModel.Lemmas.Outcome
import AvroModel.Lemmas.Bytes
import AvroModel.CodecFor
import AvroModel.Lemmas.WireInv
/-!
Skipping consumes exactly the bytes of a datum (C04), for every codec the library can build for
the datum's schema, every datum, every writer plan (multi-block and size-prefixed collections
included), every step budget: the result is the exact remainder, or the budget ran out.
-/
namespace Avro

/-- `o` is the expected result `x`, or the step budget was exhausted (never a wrong answer) -/
def OkOrFuel {α : Type} (o : Outcome α) (x : α) : Prop := o = .ok x ∨ o = .fuel

theorem OkOrFuel.ok {α : Type} (x : α) : OkOrFuel (.ok x) x := Or.inl rfl
theorem OkOrFuel.fuel {α : Type} (x : α) : OkOrFuel (.fuel) x := Or.inr rfl

theorem OkOrFuel.bind {α β : Type} {o : Outcome α} {a : α} {f : α → Outcome β} {b : β}
    (h1 : OkOrFuel o a) (h2 : OkOrFuel (f a) b) : OkOrFuel (o.bind f) b := by
  rcases h1 with h | h
  · rw [h]; exact h2
  · rw [h]; exact Or.inr rfl

theorem OkOrFuel.of_eq {α : Type} {o : Outcome α} {x : α} (h : o = .ok x) : OkOrFuel o x := Or.inl h

/-! primitives on what the specification writes -/

theorem next_append (a rest : Bytes) : next (a.length : Int) (a ++ rest) = .ok (a, rest) := by
  unfold next
  have h1 : ¬ ((a.length : Int) < 0 ∨ (a.length : Int) > ((a ++ rest).length : Nat)) := by
    simp only [List.length_append]; omega
  have h2 : (0 : Int) ≤ a.length ∧ (a.length : Int).toNat ≤ (a ++ rest).length := by
    simp only [List.length_append]; omega
  rw [if_neg h1, if_pos h2]
  simp

theorem skipN_append (a rest : Bytes) : skipN (a.length : Int) (a ++ rest) = .ok rest := by
  unfold skipN; rw [next_append]

theorem skipN_append' (a rest : Bytes) (n : Int) (h : n = a.length) : skipN n (a ++ rest) = .ok rest := by
  subst h; exact skipN_append a rest

theorem rdVarint_write (v : Int) (hv : inRange 64 v) (rest : Bytes) :
    rdVarint (writeVarint v ++ rest) = .ok (v, rest) := by
  unfold rdVarint; rw [readVarint_writeVarint v hv]

theorem skipVar_write (v : Int) (hv : inRange 64 v) (rest : Bytes) :
    skipVar (writeVarint v ++ rest) = .ok rest := by
  unfold skipVar; rw [readVarint_writeVarint v hv]

theorem skipLen_encBytes (bs : Bytes) (h : bs.length < 2 ^ 63) (rest : Bytes) :
    skipLen (encBytes bs ++ rest) = .ok rest := by
  unfold skipLen encBytes
  rw [List.append_assoc, readVarint_writeVarint _ (inRange_of_nat_lt h)]
  exact skipN_append bs rest

theorem inRange_32_64 {i : Int} (h : inRange 32 i) : inRange 64 i := by
  unfold inRange at *; omega

theorem writeVarint_zero : writeVarint 0 = [0] := by simp [writeVarint, zigzag, putUvarint]
theorem writeVarint_one : writeVarint 1 = [2] := by simp [writeVarint, zigzag, putUvarint]

theorem putLE_length' (k n : Nat) : (putLE k n).length = k := by
  induction k generalizing n with
  | zero => rfl
  | succ k ih => simp [putLE, ih]

/-- an entry of an array (`keyed = false`) or map (`keyed = true`) block: a datum of schema `s`,
preceded by its key for maps -/
def EntryOK (keyed : Bool) (s : ASchema) (e : Bytes) : Prop :=
  ∃ p v d, encode p s v = some d ∧
    ((keyed = false ∧ e = d) ∨ (keyed = true ∧ ∃ k : Bytes, k.length < 2 ^ 63 ∧ e = encBytes k ++ d))

variable (env : Env)

structure SkipExactAt (n : Nat) : Prop where
  skip : ∀ c s p v bs rest, CodecFor c s → encode p s v = some bs →
    OkOrFuel (skip env n c (bs ++ rest)) rest
  skipFields : ∀ cs ss ps vs bs rest, CodecsFor cs ss → encodeFields ps ss vs = some bs →
    OkOrFuel (skipFields env n cs (bs ++ rest)) rest
  skipItems : ∀ keyed item s (es : List Bytes) rest, CodecFor item s → (∀ e ∈ es, EntryOK keyed s e) →
    OkOrFuel (skipItems env n keyed item es.length (es.flatten ++ rest)) rest
  skipBlocks : ∀ keyed item s bl (es : List Bytes) bs rest, CodecFor item s → (∀ e ∈ es, EntryOK keyed s e) →
    encBlocks bl es = some bs → OkOrFuel (skipBlocks env n keyed item (bs ++ rest)) rest

theorem CodecsFor.length_eq {cs ss} (h : CodecsFor cs ss) : cs.length = ss.length := by
  induction cs generalizing ss with
  | nil => cases h; rfl
  | cons c cs ih => cases h with | cons _ h2 => simp [ih h2]

theorem CodecsFor.get {cs ss} (h : CodecsFor cs ss) : ∀ {i : Nat} {b : ASchema}, ss[i]? = some b → ∃ c, cs[i]? = some c ∧ CodecFor c b := by
  induction cs generalizing ss with
  | nil => cases h; intro i b hb; simp at hb
  | cons c cs ih =>
    cases h with
    | cons h1 h2 =>
      intro i b hb
      cases i with
      | zero => simp at hb; subst hb; exact ⟨c, by simp, h1⟩
      | succ i => simp at hb; obtain ⟨c', hc', hf⟩ := ih h2 hb; exact ⟨c', by simpa using hc', hf⟩

theorem entries_unkeyed {s : ASchema} {vs : List Value} {encs : List Bytes}
    (h : All2 (fun v e => ∃ p, encode p s v = some e) vs encs) : ∀ e ∈ encs, EntryOK false s e := by
  induction h with
  | nil => intro e he; simp at he
  | cons hr _ ih =>
    intro e he
    simp only [List.mem_cons] at he
    rcases he with rfl | he
    · obtain ⟨p, hp⟩ := hr; exact ⟨p, _, _, hp, Or.inl ⟨rfl, rfl⟩⟩
    · exact ih e he

theorem entries_keyed {s : ASchema} {vs : List Value} {encs : List Bytes}
    (h : All2 (fun v e => ∃ p, encode p s v = some e) vs encs) : ∀ (ks : List Bytes), (∀ k ∈ ks, k.length < 2 ^ 63) →
    ∀ e ∈ List.zipWith (fun k e => encBytes k ++ e) ks encs, EntryOK true s e := by
  induction h with
  | nil => intro ks _ e he; simp at he
  | cons hr _ ih =>
    intro ks hks e he
    cases ks with
    | nil => simp at he
    | cons k ks =>
      simp only [List.zipWith_cons_cons, List.mem_cons] at he
      rcases he with rfl | he
      · obtain ⟨p, hp⟩ := hr
        exact ⟨p, _, _, hp, Or.inr ⟨rfl, k, hks k (by simp), rfl⟩⟩
      · exact ih ks (fun k' hk' => hks k' (by simp [hk'])) e he

theorem rdByte_cons (b : UInt8) (r : Bytes) : rdByte (b :: r) = .ok (b, r) := rfl

theorem skipExactAt : ∀ n, SkipExactAt env n := by
  intro n
  induction n with
  | zero =>
    constructor <;> intros <;> exact Or.inr (by simp [skip, skipFields, skipItems, skipBlocks])
  | succ n ih =>
    have hskip := ih.skip
    constructor
    · -- skip
      intro c s p v bs rest hc he
      cases hc with
      | null => obtain ⟨rfl, rfl⟩ := encode_null_inv he; simp only [skip]; exact .ok _
      | bool =>
        obtain ⟨b, rfl, rfl⟩ := encode_boolean_inv he; simp only [skip]
        exact .of_eq (skipN_append' (writeBool b) rest 1 (by cases b <;> rfl))
      | intI =>
        obtain ⟨i, rfl, hr, rfl⟩ := encode_int_inv he; simp only [skip]
        exact .of_eq (skipVar_write _ (inRange_32_64 hr) rest)
      | intL =>
        obtain ⟨i, rfl, hr, rfl⟩ := encode_long_inv he; simp only [skip]
        exact .of_eq (skipVar_write _ hr rest)
      | float =>
        obtain ⟨b, rfl, _, rfl⟩ := encode_float_inv he; simp only [skip]
        exact .of_eq (skipN_append' _ rest 4 (by simp [putLE_length']))
      | double =>
        obtain ⟨b, rfl, _, rfl⟩ := encode_double_inv he; simp only [skip]
        exact .of_eq (skipN_append' _ rest 8 (by simp [putLE_length']))
      | f32double =>
        obtain ⟨b, rfl, _, rfl⟩ := encode_double_inv he; simp only [skip]
        exact .of_eq (skipN_append' _ rest 8 (by simp [putLE_length']))
      | bytes =>
        obtain ⟨b, rfl, hl, rfl⟩ := encode_bytes_inv he; simp only [skip]
        exact .of_eq (skipLen_encBytes _ hl rest)
      | string =>
        obtain ⟨b, rfl, hl, rfl⟩ := encode_string_inv he; simp only [skip]
        exact .of_eq (skipLen_encBytes _ hl rest)
      | fixed =>
        obtain ⟨rfl, hl⟩ := encode_fixed_inv he; simp only [skip]
        exact .of_eq (skipN_append' _ rest _ (by omega))
      | array hitem =>
        obtain ⟨bl, subs, vs, encs, rfl, rfl, hi, hb⟩ := encode_array_inv he
        simp only [skip]
        exact ih.skipBlocks false _ _ bl encs bs rest hitem (entries_unkeyed (encodeItems_inv hi)) hb
      | map hval =>
        obtain ⟨bl, subs, ks, vs, encs, rfl, rfl, _, hks, hi, hb⟩ := encode_map_inv he
        simp only [skip]
        exact ih.skipBlocks true _ _ bl _ bs rest hval (entries_keyed (encodeItems_inv hi) ks hks) hb
      | pointer hc' => simp only [skip]; exact hskip _ _ _ _ _ _ hc' he
      | record hcs _ =>
        obtain ⟨bl, subs, vs, rfl, rfl, hf⟩ := encode_record_inv he
        simp only [skip]; exact ih.skipFields _ _ _ _ _ _ hcs hf
      | @union cs ss hcs =>
        obtain ⟨bl, idx, v', b, p', e, rfl, rfl, hb, he', hi, rfl⟩ := encode_union_inv he
        obtain ⟨c', hc', hf⟩ := hcs.get hb
        have hlen : idx < _ := (List.getElem?_eq_some_iff.mp hc').1
        simp only [skip, Outcome.bind_eq]
        rw [List.append_assoc, rdVarint_write _ (inRange_of_nat_lt hi)]
        simp only [Outcome.bind_ok']
        have hr : ¬ ((idx : Int) < 0 ∨ (idx : Int) ≥ (cs.length : Nat)) := by omega
        rw [if_neg hr]
        simp only [Int.toNat_natCast, hc']
        exact hskip _ _ _ _ _ _ hf he'
      | unionOne0 hc' =>
        obtain ⟨bl, idx, v', b, p', e, rfl, rfl, hb, he', hi, rfl⟩ := encode_union_inv he
        simp only [skip, Outcome.bind_eq, Outcome.pure_eq]
        match idx, hb with
        | 0, hb =>
          simp at hb; subst hb
          show OkOrFuel (Outcome.bind (rdByte (writeVarint (0 : Nat) ++ e ++ rest)) _) rest
          have : writeVarint ((0 : Nat) : Int) = [0] := writeVarint_zero
          rw [this]
          simp only [List.cons_append, List.nil_append, rdByte_cons, Outcome.bind_ok']
          simp
          exact hskip _ _ _ _ _ _ hc' he'
        | 1, hb =>
          simp at hb; subst hb
          obtain ⟨_, rfl⟩ := encode_null_inv he'
          show OkOrFuel (Outcome.bind (rdByte (writeVarint (1 : Nat) ++ [] ++ rest)) _) rest
          have : writeVarint ((1 : Nat) : Int) = [2] := writeVarint_one
          rw [this]
          simp only [List.append_nil, List.cons_append, List.nil_append, rdByte_cons, Outcome.bind_ok']
          exact .of_eq (by simp)
        | k + 2, hb => simp at hb
      | unionOne1 hc' =>
        obtain ⟨bl, idx, v', b, p', e, rfl, rfl, hb, he', hi, rfl⟩ := encode_union_inv he
        simp only [skip, Outcome.bind_eq, Outcome.pure_eq]
        match idx, hb with
        | 0, hb =>
          simp at hb; subst hb
          obtain ⟨_, rfl⟩ := encode_null_inv he'
          show OkOrFuel (Outcome.bind (rdByte (writeVarint (0 : Nat) ++ [] ++ rest)) _) rest
          have : writeVarint ((0 : Nat) : Int) = [0] := writeVarint_zero
          rw [this]
          simp only [List.append_nil, List.cons_append, List.nil_append, rdByte_cons, Outcome.bind_ok']
          exact .of_eq (by simp)
        | 1, hb =>
          simp at hb; subst hb
          show OkOrFuel (Outcome.bind (rdByte (writeVarint (1 : Nat) ++ e ++ rest)) _) rest
          have : writeVarint ((1 : Nat) : Int) = [2] := writeVarint_one
          rw [this]
          simp only [List.cons_append, List.nil_append, rdByte_cons, Outcome.bind_ok']
          simp
          exact hskip _ _ _ _ _ _ hc' he'
        | k + 2, hb => simp at hb
      | unionNullString0 =>
        obtain ⟨bl, idx, v', b, p', e, rfl, rfl, hb, he', hi, rfl⟩ := encode_union_inv he
        simp only [skip, Outcome.bind_eq, Outcome.pure_eq]
        match idx, hb with
        | 0, hb =>
          simp at hb; subst hb
          obtain ⟨sb, rfl, hl, rfl⟩ := encode_string_inv he'
          show OkOrFuel (Outcome.bind (rdByte (writeVarint (0 : Nat) ++ encBytes sb ++ rest)) _) rest
          have : writeVarint ((0 : Nat) : Int) = [0] := writeVarint_zero
          rw [this]
          simp only [List.cons_append, List.nil_append, rdByte_cons, Outcome.bind_ok']
          simp
          exact .of_eq (skipLen_encBytes _ hl rest)
        | 1, hb =>
          simp at hb; subst hb
          obtain ⟨_, rfl⟩ := encode_null_inv he'
          show OkOrFuel (Outcome.bind (rdByte (writeVarint (1 : Nat) ++ [] ++ rest)) _) rest
          have : writeVarint ((1 : Nat) : Int) = [2] := writeVarint_one
          rw [this]
          simp only [List.append_nil, List.cons_append, List.nil_append, rdByte_cons, Outcome.bind_ok']
          exact .of_eq (by simp)
        | k + 2, hb => simp at hb
      | unionNullString1 =>
        obtain ⟨bl, idx, v', b, p', e, rfl, rfl, hb, he', hi, rfl⟩ := encode_union_inv he
        simp only [skip, Outcome.bind_eq, Outcome.pure_eq]
        match idx, hb with
        | 0, hb =>
          simp at hb; subst hb
          obtain ⟨_, rfl⟩ := encode_null_inv he'
          show OkOrFuel (Outcome.bind (rdByte (writeVarint (0 : Nat) ++ [] ++ rest)) _) rest
          have : writeVarint ((0 : Nat) : Int) = [0] := writeVarint_zero
          rw [this]
          simp only [List.append_nil, List.cons_append, List.nil_append, rdByte_cons, Outcome.bind_ok']
          exact .of_eq (by simp)
        | 1, hb =>
          simp at hb; subst hb
          obtain ⟨sb, rfl, hl, rfl⟩ := encode_string_inv he'
          show OkOrFuel (Outcome.bind (rdByte (writeVarint (1 : Nat) ++ encBytes sb ++ rest)) _) rest
          have : writeVarint ((1 : Nat) : Int) = [2] := writeVarint_one
          rw [this]
          simp only [List.cons_append, List.nil_append, rdByte_cons, Outcome.bind_ok']
          simp
          exact .of_eq (skipLen_encBytes _ hl rest)
        | k + 2, hb => simp at hb
      | timeString =>
        obtain ⟨b, rfl, hl, rfl⟩ := encode_string_inv he; simp only [skip]
        exact .of_eq (skipLen_encBytes _ hl rest)
      | timeLong =>
        obtain ⟨i, rfl, hr, rfl⟩ := encode_long_inv he; simp only [skip]
        exact .of_eq (skipVar_write _ hr rest)
      | date =>
        obtain ⟨i, rfl, hr, rfl⟩ := encode_int_inv he; simp only [skip]
        exact .of_eq (skipVar_write _ (inRange_32_64 hr) rest)
      | nullInt =>
        obtain ⟨i, rfl, hr, rfl⟩ := encode_long_inv he; simp only [skip]
        exact .of_eq (skipVar_write _ hr rest)
      | nullIntI =>
        obtain ⟨i, rfl, hr, rfl⟩ := encode_int_inv he; simp only [skip]
        exact .of_eq (skipVar_write _ (inRange_32_64 hr) rest)
      | nullBool =>
        obtain ⟨b, rfl, rfl⟩ := encode_boolean_inv he; simp only [skip]
        exact .of_eq (skipN_append' (writeBool b) rest 1 (by cases b <;> rfl))
      | nullDouble =>
        obtain ⟨b, rfl, _, rfl⟩ := encode_double_inv he; simp only [skip]
        exact .of_eq (skipN_append' _ rest 8 (by simp [putLE_length']))
      | nullFloat =>
        obtain ⟨b, rfl, _, rfl⟩ := encode_float_inv he; simp only [skip]
        exact .of_eq (skipN_append' _ rest 4 (by simp [putLE_length']))
      | nullString =>
        obtain ⟨b, rfl, hl, rfl⟩ := encode_string_inv he; simp only [skip]
        exact .of_eq (skipLen_encBytes _ hl rest)
      | nullTime =>
        obtain ⟨b, rfl, hl, rfl⟩ := encode_string_inv he; simp only [skip]
        exact .of_eq (skipLen_encBytes _ hl rest)
    · -- skipFields
      intro cs ss ps vs bs rest hcs he
      cases hcs with
      | nil =>
        obtain ⟨rfl, rfl, rfl⟩ := encodeFields_nil_inv he
        simp only [skipFields]; exact .ok _
      | cons h1 h2 =>
        obtain ⟨p, ps', v, vs', a, b, rfl, rfl, ha, hb, rfl⟩ := encodeFields_cons_inv he
        simp only [skipFields, Outcome.bind_eq]
        rw [List.append_assoc]
        exact OkOrFuel.bind (hskip _ _ _ _ _ _ h1 ha) (ih.skipFields _ _ _ _ _ _ h2 hb)
    · -- skipItems
      intro keyed item s es rest hitem hes
      cases es with
      | nil => simp only [List.length_nil, skipItems]; exact .ok _
      | cons e es =>
        obtain ⟨p, v, d, hd, hk⟩ := hes e (by simp)
        have hes' : ∀ e' ∈ es, EntryOK keyed s e' := fun e' he' => hes e' (by simp [he'])
        simp only [List.length_cons, skipItems, Outcome.bind_eq, Outcome.pure_eq, List.flatten_cons]
        rcases hk with ⟨hkf, rfl⟩ | ⟨hkt, k, hkl, rfl⟩
        · subst hkf
          simp only [Bool.false_eq_true, if_false, Outcome.bind_ok', List.append_assoc]
          exact OkOrFuel.bind (hskip _ _ _ _ _ _ hitem hd) (ih.skipItems _ _ _ _ _ hitem hes')
        · subst hkt
          simp only [if_true, List.append_assoc]
          rw [skipLen_encBytes k hkl]
          simp only [Outcome.bind_ok']
          exact OkOrFuel.bind (hskip _ _ _ _ _ _ hitem hd) (ih.skipItems _ _ _ _ _ hitem hes')
    · -- skipBlocks
      intro keyed item s bl es bs rest hitem hes hb
      cases bl with
      | nil =>
        obtain ⟨rfl, rfl⟩ := encBlocks_nil_inv hb
        simp only [skipBlocks, Outcome.bind_eq, Outcome.pure_eq]
        rw [rdVarint_write 0 (by unfold inRange; omega)]
        simp only [Outcome.bind_ok', if_true]
        exact .ok _
      | cons blk bl =>
        obtain ⟨m, sized⟩ := blk
        obtain ⟨rest', hm0, hml, hm63, hbody63, hrest, rfl⟩ := encBlocks_cons_inv hb
        have htake : ∀ e ∈ es.take m, EntryOK keyed s e := fun e he => hes e (List.mem_of_mem_take he)
        have hdrop : ∀ e ∈ es.drop m, EntryOK keyed s e := fun e he => hes e (List.mem_of_mem_drop he)
        simp only [skipBlocks, Outcome.bind_eq, Outcome.pure_eq]
        cases sized with
        | true =>
          simp only [if_true, List.append_assoc]
          rw [rdVarint_write (-(m : Int)) (by unfold inRange; omega)]
          simp only [Outcome.bind_ok']
          have h1 : ¬ (-(m : Int) = 0) := by omega
          have h2 : (-(m : Int) < 0) := by omega
          rw [if_neg h1, if_pos h2]
          rw [rdVarint_write _ (inRange_of_nat_lt hbody63)]
          simp only [Outcome.bind_ok']
          rw [skipN_append]
          simp only [Outcome.bind_ok']
          exact ih.skipBlocks _ _ _ _ _ _ _ hitem hdrop hrest
        | false =>
          simp only [Bool.false_eq_true, if_false, List.append_assoc]
          rw [rdVarint_write (m : Int) (inRange_of_nat_lt hm63)]
          simp only [Outcome.bind_ok']
          have h1 : ¬ ((m : Int) = 0) := by omega
          have h2 : ¬ ((m : Int) < 0) := by omega
          rw [if_neg h1, if_neg h2]
          have hlen : (es.take m).length = m := by simp; omega
          have := ih.skipItems keyed item s (es.take m) (rest' ++ rest) hitem htake
          rw [hlen] at this
          simp only [Int.toNat_natCast]
          exact OkOrFuel.bind this (ih.skipBlocks _ _ _ _ _ _ _ hitem hdrop hrest)

end Avro
