import AvroModel.Sem
import AvroModel.Lemmas.Outcome
/-!
Budget monotonicity of the encoder model `write / writeItems / writeEntries / writeFields` and of
the semantic functions `toAvro / toAvroItems / toAvroFields`, `ofAvro` (`Sem.lean`): a result other
than the out-of-budget value (`none`, resp. `.illtyped`) is the result for every larger budget.
-/
namespace Avro

/-- `o'` (larger budget) refines `o`: they agree unless `o` is `none` -/
def OptLe {α : Type} (o o' : Option α) : Prop := o ≠ Option.none → o' = o

theorem OptLe.refl {α : Type} (o : Option α) : OptLe o o := fun _ => rfl
theorem OptLe.of_none {α : Type} (o : Option α) : OptLe Option.none o := fun h => absurd rfl h

theorem OptLe.map {α β : Type} {o o' : Option α} (f : α → β) (h : OptLe o o') : OptLe (o.map f) (o'.map f) := by
  cases o with
  | none => exact OptLe.of_none _
  | some a => rw [h (by simp)]; exact OptLe.refl _

theorem OptLe.cases {α : Type} {o o' : Option α} (h : OptLe o o') :
    o = Option.none ∨ ∃ a, o = some a ∧ o' = some a := by
  cases o with
  | none => exact Or.inl rfl
  | some a => exact Or.inr ⟨a, rfl, h (by simp)⟩

/-- `OptLe (F o) (F o')` for a `match` `F` on one option that sends `none` to `none` -/
macro "optle1 " h:term : tactic => `(tactic| (
  rcases OptLe.cases $h with e | ⟨a, e, e'⟩
  · simp only [e]; exact OptLe.of_none _
  · simp only [e, e']; exact OptLe.refl _))

/-- the same for a `match` on two options that is `none` unless both are `some` -/
macro "optle2 " h1:term ", " h2:term : tactic => `(tactic| (
  rcases OptLe.cases $h1 with e | ⟨a, e, e'⟩
  · simp only [e]; exact OptLe.of_none _
  · rcases OptLe.cases $h2 with f | ⟨b, f, f'⟩
    · simp only [e, f]; exact OptLe.of_none _
    · simp only [e, e', f, f']; exact OptLe.refl _))

variable (env : Env)

structure WMonoAt (n m : Nat) : Prop where
  write : ∀ c g, OptLe (write env n c g) (write env m c g)
  writeItems : ∀ c vs, OptLe (writeItems env n c vs) (writeItems env m c vs)
  writeEntries : ∀ c ks vs, OptLe (writeEntries env n c ks vs) (writeEntries env m c ks vs)
  writeFields : ∀ cs ts fs, OptLe (writeFields env n cs ts fs) (writeFields env m cs ts fs)

theorem wMonoAt_zero (m : Nat) : WMonoAt env 0 m := by
  constructor <;> intros <;> simp only [write, writeItems, writeEntries, writeFields] <;> exact OptLe.of_none _

theorem wMonoAt_succ {n m : Nat} (ih : WMonoAt env n m) : WMonoAt env (n + 1) (m + 1) := by
  constructor
  · intro c g
    cases c
    case unionOne c' nn =>
      simp only [write]
      split
      · exact OptLe.refl _
      · optle1 ih.write c' g
    case pointer c' =>
      cases g <;> try (simp only [write]; exact OptLe.refl _)
      case ptr t =>
        cases t <;> simp only [write]
        · exact OptLe.refl _
        · exact ih.write _ _
    case array item oe =>
      cases g <;> simp only [write] <;> try exact OptLe.refl _
      rename_i items
      split
      · exact OptLe.refl _
      · optle1 ih.writeItems item items
    case map val oe =>
      cases g <;> simp only [write] <;> try exact OptLe.refl _
      rename_i isNil ks vs
      split
      · exact OptLe.refl _
      · optle1 ih.writeEntries val ks vs
    case record z cs ts =>
      cases g <;> simp only [write] <;> try exact OptLe.refl _
      exact ih.writeFields _ _ _
    all_goals (cases g <;> simp only [write] <;> exact OptLe.refl _)
  · intro c vs
    cases vs with
    | nil => simp only [writeItems]; exact OptLe.refl _
    | cons v vs =>
      simp only [writeItems]
      optle2 ih.write c v, ih.writeItems c vs
  · intro c ks vs
    cases ks <;> cases vs <;> simp only [writeEntries] <;> try exact OptLe.refl _
    rename_i k ks v vs
    optle2 ih.write c v, ih.writeEntries c ks vs
  · intro cs ts fs
    rcases cs with _ | ⟨c, cs⟩
    · simp only [writeFields]; exact OptLe.refl _
    · rcases ts with _ | ⟨t, ts⟩
      · simp only [writeFields]; exact OptLe.refl _
      · cases t <;> simp only [writeFields] <;> try exact OptLe.refl _
        split
        · exact OptLe.refl _
        · rename_i v hv
          optle2 ih.write c v, ih.writeFields cs ts fs

theorem wMonoAt : ∀ n k, WMonoAt env n (n + k)
  | 0, k => wMonoAt_zero env _
  | n + 1, k => by
    have := wMonoAt_succ env (wMonoAt n k)
    rwa [show n + k + 1 = n + 1 + k by omega] at this

theorem wMonoAt_le {n m : Nat} (h : n ≤ m) : WMonoAt env n m := by
  obtain ⟨k, rfl⟩ := Nat.exists_eq_add_of_le h
  exact wMonoAt env n k

/-- a successful `write` is the result for every larger budget -/
theorem write_mono {n m : Nat} (h : n ≤ m) {c : Codec} {g : GoVal} {b : Bytes}
    (hw : write env n c g = some b) : write env m c g = some b := by
  rw [(wMonoAt_le env h).write c g (by rw [hw]; simp), hw]

theorem writeItems_mono {n m : Nat} (h : n ≤ m) {c : Codec} {vs : List GoVal} {b : Bytes}
    (hw : writeItems env n c vs = some b) : writeItems env m c vs = some b := by
  rw [(wMonoAt_le env h).writeItems c vs (by rw [hw]; simp), hw]

theorem writeEntries_mono {n m : Nat} (h : n ≤ m) {c : Codec} {ks : List Bytes} {vs : List GoVal} {b : Bytes}
    (hw : writeEntries env n c ks vs = some b) : writeEntries env m c ks vs = some b := by
  rw [(wMonoAt_le env h).writeEntries c ks vs (by rw [hw]; simp), hw]

theorem writeFields_mono {n m : Nat} (h : n ≤ m) {cs : List Codec} {ts : List (Option Nat)} {fs : List GoVal}
    {b : Bytes} (hw : writeFields env n cs ts fs = some b) : writeFields env m cs ts fs = some b := by
  rw [(wMonoAt_le env h).writeFields cs ts fs (by rw [hw]; simp), hw]

end Avro
