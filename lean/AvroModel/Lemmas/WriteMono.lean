import AvroModel.Sem
import AvroModel.Lemmas.Outcome
import AvroModel.Lemmas.ReadSpec
/-!
Budget monotonicity of the encoder model `write / writeItems / writeEntries / writeFields` and of
the semantic functions `toAvro / toAvroItems / toAvroFields`, `ofAvro` (`Sem.lean`): a result other
than the out-of-budget value (`none`, resp. `.illtyped`) is the result for every larger budget.
-/
namespace Avro

/-- `o'` (larger budget) refines `o`: they agree unless `o` is `none` -/
def OptLe {α : Type} (o o' : Option α) : Prop := o ≠ Option.none → o' = o

theorem OptLe.refl {α : Type} (o : Option α) : OptLe o o := fun _ => rfl
theorem OptLe.of_none {α : Type} (o : Option α) : OptLe Option.none o := fun h => absurd rfl h

theorem OptLe.map {α β : Type} {o o' : Option α} (f : α → β) (h : OptLe o o') : OptLe (o.map f) (o'.map f) := by
  cases o with
  | none => exact OptLe.of_none _
  | some a => rw [h (by simp)]; exact OptLe.refl _

theorem OptLe.cases {α : Type} {o o' : Option α} (h : OptLe o o') :
    o = Option.none ∨ ∃ a, o = some a ∧ o' = some a := by
  cases o with
  | none => exact Or.inl rfl
  | some a => exact Or.inr ⟨a, rfl, h (by simp)⟩

/-- `OptLe (F o) (F o')` for a `match` `F` on one option that sends `none` to `none` -/
macro "optle1 " h:term : tactic => `(tactic| (
  rcases OptLe.cases $h with e | ⟨a, e, e'⟩
  · simp only [e]; exact OptLe.of_none _
  · simp only [e, e']; exact OptLe.refl _))

/-- the same for a `match` on two options that is `none` unless both are `some` -/
macro "optle2 " h1:term ", " h2:term : tactic => `(tactic| (
  rcases OptLe.cases $h1 with e | ⟨a, e, e'⟩
  · simp only [e]; exact OptLe.of_none _
  · rcases OptLe.cases $h2 with f | ⟨b, f, f'⟩
    · simp only [e, f]; exact OptLe.of_none _
    · simp only [e, e', f, f']; exact OptLe.refl _))

variable (env : Env)

structure WMonoAt (n m : Nat) : Prop where
  write : ∀ c g, OptLe (write env n c g) (write env m c g)
  writeItems : ∀ c vs, OptLe (writeItems env n c vs) (writeItems env m c vs)
  writeEntries : ∀ c ks vs, OptLe (writeEntries env n c ks vs) (writeEntries env m c ks vs)
  writeFields : ∀ cs ts fs, OptLe (writeFields env n cs ts fs) (writeFields env m cs ts fs)

theorem wMonoAt_zero (m : Nat) : WMonoAt env 0 m := by
  constructor <;> intros <;> simp only [write, writeItems, writeEntries, writeFields] <;> exact OptLe.of_none _

theorem wMonoAt_succ {n m : Nat} (ih : WMonoAt env n m) : WMonoAt env (n + 1) (m + 1) := by
  constructor
  · intro c g
    cases c
    case unionOne c' nn =>
      simp only [write]
      split
      · exact OptLe.refl _
      · optle1 ih.write c' g
    case pointer c' =>
      cases g <;> try (simp only [write]; exact OptLe.refl _)
      case ptr t =>
        cases t <;> simp only [write]
        · exact OptLe.refl _
        · exact ih.write _ _
    case array item oe =>
      cases g <;> simp only [write] <;> try exact OptLe.refl _
      rename_i items
      split
      · exact OptLe.refl _
      · optle1 ih.writeItems item items
    case map val oe =>
      cases g <;> simp only [write] <;> try exact OptLe.refl _
      rename_i isNil ks vs
      split
      · exact OptLe.refl _
      · optle1 ih.writeEntries val ks vs
    case record z cs ts =>
      cases g <;> simp only [write] <;> try exact OptLe.refl _
      exact ih.writeFields _ _ _
    all_goals (cases g <;> simp only [write] <;> exact OptLe.refl _)
  · intro c vs
    cases vs with
    | nil => simp only [writeItems]; exact OptLe.refl _
    | cons v vs =>
      simp only [writeItems]
      optle2 ih.write c v, ih.writeItems c vs
  · intro c ks vs
    cases ks <;> cases vs <;> simp only [writeEntries] <;> try exact OptLe.refl _
    rename_i k ks v vs
    optle2 ih.write c v, ih.writeEntries c ks vs
  · intro cs ts fs
    rcases cs with _ | ⟨c, cs⟩
    · simp only [writeFields]; exact OptLe.refl _
    · rcases ts with _ | ⟨t, ts⟩
      · simp only [writeFields]; exact OptLe.refl _
      · cases t <;> simp only [writeFields] <;> try exact OptLe.refl _
        split
        · exact OptLe.refl _
        · rename_i v hv
          optle2 ih.write c v, ih.writeFields cs ts fs

theorem wMonoAt : ∀ n k, WMonoAt env n (n + k)
  | 0, k => wMonoAt_zero env _
  | n + 1, k => by
    have := wMonoAt_succ env (wMonoAt n k)
    rwa [show n + k + 1 = n + 1 + k by omega] at this

theorem wMonoAt_le {n m : Nat} (h : n ≤ m) : WMonoAt env n m := by
  obtain ⟨k, rfl⟩ := Nat.exists_eq_add_of_le h
  exact wMonoAt env n k

/-- a successful `write` is the result for every larger budget -/
theorem write_mono {n m : Nat} (h : n ≤ m) {c : Codec} {g : GoVal} {b : Bytes}
    (hw : write env n c g = some b) : write env m c g = some b := by
  rw [(wMonoAt_le env h).write c g (by rw [hw]; simp), hw]

theorem writeItems_mono {n m : Nat} (h : n ≤ m) {c : Codec} {vs : List GoVal} {b : Bytes}
    (hw : writeItems env n c vs = some b) : writeItems env m c vs = some b := by
  rw [(wMonoAt_le env h).writeItems c vs (by rw [hw]; simp), hw]

theorem writeEntries_mono {n m : Nat} (h : n ≤ m) {c : Codec} {ks : List Bytes} {vs : List GoVal} {b : Bytes}
    (hw : writeEntries env n c ks vs = some b) : writeEntries env m c ks vs = some b := by
  rw [(wMonoAt_le env h).writeEntries c ks vs (by rw [hw]; simp), hw]

theorem writeFields_mono {n m : Nat} (h : n ≤ m) {cs : List Codec} {ts : List (Option Nat)} {fs : List GoVal}
    {b : Bytes} (hw : writeFields env n cs ts fs = some b) : writeFields env m cs ts fs = some b := by
  rw [(wMonoAt_le env h).writeFields cs ts fs (by rw [hw]; simp), hw]

/-! ### `toAvro` -/

structure TMonoAt (nullp : Codec → GoVal → Bool) (n m : Nat) : Prop where
  toAvro : ∀ c g, OptLe (toAvro env nullp n c g) (toAvro env nullp m c g)
  toAvroItems : ∀ c gs, OptLe (toAvroItems env nullp n c gs) (toAvroItems env nullp m c gs)
  toAvroFields : ∀ cs ts fs, OptLe (toAvroFields env nullp n cs ts fs) (toAvroFields env nullp m cs ts fs)

variable (nullp : Codec → GoVal → Bool)

theorem tMonoAt_zero (m : Nat) : TMonoAt env nullp 0 m := by
  constructor <;> intros <;> simp only [toAvro, toAvroItems, toAvroFields] <;> exact OptLe.of_none _

theorem tMonoAt_succ {n m : Nat} (ih : TMonoAt env nullp n m) : TMonoAt env nullp (n + 1) (m + 1) := by
  constructor
  · intro c g
    cases c
    case unionOne c' nn =>
      simp only [toAvro]
      split
      · exact OptLe.refl _
      · exact OptLe.map _ (ih.toAvro c' g)
    case pointer c' =>
      cases g <;> try (simp only [toAvro]; exact OptLe.refl _)
      case ptr t =>
        cases t <;> simp only [toAvro]
        · exact OptLe.refl _
        · exact ih.toAvro _ _
    case array item oe =>
      cases g <;> simp only [toAvro] <;> try exact OptLe.refl _
      exact OptLe.map _ (ih.toAvroItems _ _)
    case map val oe =>
      cases g <;> simp only [toAvro] <;> try exact OptLe.refl _
      exact OptLe.map _ (ih.toAvroItems _ _)
    case record z cs ts =>
      cases g <;> simp only [toAvro] <;> try exact OptLe.refl _
      exact OptLe.map _ (ih.toAvroFields _ _ _)
    all_goals (cases g <;> simp only [toAvro] <;> exact OptLe.refl _)
  · intro c gs
    cases gs with
    | nil => simp only [toAvroItems]; exact OptLe.refl _
    | cons g gs =>
      simp only [toAvroItems]
      optle2 ih.toAvro c g, ih.toAvroItems c gs
  · intro cs ts fs
    rcases cs with _ | ⟨c, cs⟩
    · simp only [toAvroFields]; exact OptLe.refl _
    · rcases ts with _ | ⟨t, ts⟩
      · simp only [toAvroFields]; exact OptLe.refl _
      · cases t <;> simp only [toAvroFields] <;> try exact OptLe.refl _
        split
        · exact OptLe.refl _
        · rename_i v hv
          optle2 ih.toAvro c v, ih.toAvroFields cs ts fs

theorem tMonoAt : ∀ n k, TMonoAt env nullp n (n + k)
  | 0, k => tMonoAt_zero env nullp _
  | n + 1, k => by
    have := tMonoAt_succ env nullp (tMonoAt n k)
    rwa [show n + k + 1 = n + 1 + k by omega] at this

theorem tMonoAt_le {n m : Nat} (h : n ≤ m) : TMonoAt env nullp n m := by
  obtain ⟨k, rfl⟩ := Nat.exists_eq_add_of_le h
  exact tMonoAt env nullp n k

/-- a defined `toAvro` is the result for every larger budget -/
theorem toAvro_mono {n m : Nat} (h : n ≤ m) {c : Codec} {g : GoVal} {v : Value}
    (hw : toAvro env nullp n c g = some v) : toAvro env nullp m c g = some v := by
  rw [(tMonoAt_le env nullp h).toAvro c g (by rw [hw]; simp), hw]

/-! ### `ofAvro` -/

/-- `f'` (larger budget) refines `f`: they agree unless `f` is `.illtyped` (which is also the
out-of-budget value) -/
def FitLe {α : Type} (f f' : Fit α) : Prop := f ≠ .illtyped → f' = f

theorem FitLe.refl {α : Type} (f : Fit α) : FitLe f f := fun _ => rfl
theorem FitLe.of_illtyped {α : Type} (f : Fit α) : FitLe .illtyped f := fun h => absurd rfl h

theorem FitLe.bind {α β : Type} {f f' : Fit α} {k k' : α → Fit β}
    (h1 : FitLe f f') (h2 : ∀ a, FitLe (k a) (k' a)) : FitLe (Fit.bind f k) (Fit.bind f' k') := by
  cases f with
  | illtyped => exact FitLe.of_illtyped _
  | ok a => rw [h1 (by simp)]; exact h2 a
  | misfit => rw [h1 (by simp)]; exact FitLe.refl _

theorem mapFit_le {f f' : Value → Fit GoVal} (h : ∀ v, FitLe (f v) (f' v)) :
    ∀ vs, FitLe (mapFit f vs) (mapFit f' vs)
  | [] => FitLe.refl _
  | v :: vs => by
    simp only [mapFit, Fit.bind_eq, Fit.pure_eq]
    refine FitLe.bind (h v) (fun _ => ?_)
    refine FitLe.bind (mapFit_le h vs) (fun _ => FitLe.refl _)

theorem fieldsFit_le {f f' : Codec → Value → GoVal → Fit GoVal} (h : ∀ c v g, FitLe (f c v g) (f' c v g)) :
    ∀ cs ts vs fs, FitLe (fieldsFit f cs ts vs fs) (fieldsFit f' cs ts vs fs) := by
  intro cs ts vs fs
  fun_induction fieldsFit f cs ts vs fs <;> simp only [fieldsFit, Fit.bind_eq]
  case case1 => exact FitLe.refl _
  case case2 ih => exact ih
  case case3 => exact FitLe.of_illtyped _
  case case4 hcur ih => simp only [hcur]; exact FitLe.bind (h _ _ _) (fun g => ih g)
  case case5 => exact FitLe.refl _

theorem ofAvro_le_succ {n m : Nat} (ih : ∀ c v dst, FitLe (ofAvro env n c v dst) (ofAvro env m c v dst)) :
    ∀ c v dst, FitLe (ofAvro env (n + 1) c v dst) (ofAvro env (m + 1) c v dst) := by
  intro c v dst
  cases c
  case pointer c' =>
    simp only [ofAvro, Fit.bind_eq, Fit.pure_eq]
    split
    · exact FitLe.bind (ih _ _ _) (fun _ => FitLe.refl _)
    · exact FitLe.bind (ih _ _ _) (fun _ => FitLe.refl _)
    · exact FitLe.refl _
  case nullw k => simp only [ofAvro]; exact FitLe.refl _
  all_goals (cases v <;> simp only [ofAvro, Fit.bind_eq, Fit.pure_eq] <;> try exact FitLe.refl _)
  all_goals (repeat' (first
    | exact FitLe.refl _
    | exact ih _ _ _
    | (apply mapFit_le; intro _)
    | exact fieldsFit_le ih _ _ _ _
    | (refine FitLe.bind ?_ (fun _ => ?_))
    | split))

theorem ofAvro_le : ∀ n k c v dst, FitLe (ofAvro env n c v dst) (ofAvro env (n + k) c v dst)
  | 0, k => by intro c v dst; simp only [ofAvro]; exact FitLe.of_illtyped _
  | n + 1, k => by
    have := ofAvro_le_succ env (ofAvro_le n k)
    rwa [show n + k + 1 = n + 1 + k by omega] at this

/-- a result of `ofAvro` other than `.illtyped` is the result for every larger budget -/
theorem ofAvro_mono {n m : Nat} (h : n ≤ m) {c : Codec} {v : Value} {dst : GoVal}
    (hr : ofAvro env n c v dst ≠ .illtyped) : ofAvro env m c v dst = ofAvro env n c v dst := by
  obtain ⟨k, rfl⟩ := Nat.exists_eq_add_of_le h
  exact ofAvro_le env n k c v dst hr

end Avro
