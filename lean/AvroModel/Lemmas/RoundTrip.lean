import AvroModel.Sem
import AvroModel.Lemmas.ReadSpec
import AvroModel.Lemmas.Time
/-!
# Value-level round trip of the codec model (C01): `ofAvro ∘ toAvro` is a normal form

`toAvro` is the datum a codec writes for a Go value, `ofAvro` the Go value a codec delivers for a
datum. This file defines the codec-directed normal form `normCodec` and proves

    toAvro env (omits env) m c g = some v → RTOk env n c g →
      ofAvro env n c v (Codec.zero env c) = .ok (normCodec env n c g)

(`roundTrip`), where `RTOk` collects the side conditions (all explicit, see its definition).
`normCodec` is then shown to be a normal form: idempotent, and the identity on `Plain` values.
-/
set_option linter.unusedSimpArgs false
namespace Avro

/-! ## Definitions -/

/-- number of pointer indirections at the top of a codec -/
def Codec.ptrDepth : Codec → Nat
  | .pointer c => c.ptrDepth + 1
  | _ => 0

/-- what a nil `*[]T` / `*map[string]T` (through any number of further indirections) reads back as:
the writer writes the empty collection, the reader allocates every level -/
def nilForm : Codec → GoVal
  | .pointer c => .ptr (some (nilForm c))
  | .array _ _ => .slice []
  | .map _ _ => .map false [] []
  | _ => .unit

/-- the `long` a `time.Time` is written as under the three `timeLong` interpretations -/
def longOf (mult : Int) (t : TimeVal) : Int :=
  if mult = 1 then wrap64 (t.unix * 1000000000 + t.nsec)
  else if mult = 1000000 then Int.fdiv (t.unix * 1000000000 + t.nsec) 1000000
  else Int.fdiv (t.unix * 1000000000 + t.nsec) 1000

/-- format, then parse (what the string time codecs do to a time); the empty text leaves the
destination — the zero time — untouched -/
def normTime (env : Env) (t : TimeVal) : TimeVal :=
  if (env.fmtTime t).isEmpty then TimeVal.zero else (env.parseTime (env.fmtTime t)).getD t

/-- fold of a record's fields over the struct being filled (`acc` starts as the zero struct) -/
def normFieldsWith (f : Codec → GoVal → GoVal) : List Codec → List (Option Nat) → List GoVal → List GoVal → List GoVal
  | c :: cs, some i :: ts, fs, acc =>
    match fs[i]? with
    | some g => normFieldsWith f cs ts fs (listSet acc i (f c g))
    | none => acc
  | _, _, _, acc => acc

/-- **The codec-directed normal form**: what a value `g` written with codec `c` reads back as (into a
zeroed destination). Mirrors `toAvro` / `ofAvro` case by case; lossy exactly where the code is. -/
def normCodec (env : Env) : Nat → Codec → GoVal → GoVal
  | 0, _, g => g
  | fuel + 1, c, g =>
    match c, g with
    | .null, _ => .unit
    | .f32double _, .f32 b => .f32 (env.narrow (env.widen b))
    | .array item _, .slice items => .slice (items.map (normCodec env fuel item))
    | .map val _, .map _ ks vs => .map false ks (vs.map (normCodec env fuel val))
    | .pointer c', .ptr none =>
      match Codec.stripPtr c' with
      | .array _ _ | .map _ _ => .ptr (some (nilForm c'))
      | _ => .ptr none
    | .pointer c', .ptr (some x) => .ptr (some (normCodec env fuel c' x))
    | .record z codecs targets, .struct fs => .struct (normFieldsWith (normCodec env fuel) codecs targets fs z)
    | .unionOne c' _, g => if omits env c' g then Codec.zero env c' else normCodec env fuel c' g
    | .timeString, .time t => .time (normTime env t)
    | .timeLong mult, .time t => .time (env.ofNanos (wrap64 (longOf mult t * mult)))
    | .date, .time t => .time (env.ofDays (Int.fdiv t.unix 86400))
    | .nullw k, .nullw _ inner =>
      .nullw true (match k, inner with
        | .float, .f64 b => .f64 (env.widen (env.narrow b))
        | .time, .time t => .time (normTime env t)
        | _, x => x)
    | _, g => g

/-- the string time codecs round-trip `t` without error, to a time that is stable and zero exactly
when `t` is (for a printable `t` — see `EnvLaws.parse_fmt` — that time is `t` itself) -/
def TimeRT (env : Env) (t : TimeVal) : Prop :=
  env.fmtTime t ≠ [] ∧ ∃ t', env.parseTime (env.fmtTime t) = some t' ∧ t'.isZero = t.isZero ∧
    env.fmtTime t' ≠ [] ∧ env.parseTime (env.fmtTime t') = some t'

/-- side conditions on a record: every schema field has a target, the targets are pairwise distinct
in-range Go field indices, the zero struct `z` holds each field codec's zero value at its target, and
the field values satisfy `P` -/
def FieldsOk (P : Codec → GoVal → Prop) (zero : Codec → GoVal) :
    List Codec → List (Option Nat) → List GoVal → List GoVal → Prop
  | [], _, _, _ => True
  | c :: cs, some i :: ts, fs, z =>
    some i ∉ ts ∧ z[i]? = some (zero c) ∧ (∃ g, fs[i]? = some g ∧ P c g) ∧ FieldsOk P zero cs ts fs z
  | _ :: _, _, _, _ => False

/-- **Side conditions of the round trip**, for codec `c`, value `g` and read budget `n`:
* integers are in the range of their Go width (true of every value of the Go type);
* a slice has fewer than 2^63 elements (true of every Go slice);
* map keys are pairwise distinct and there is one value per key (true of every Go map);
* the budget covers a nil pointer's chain of indirections;
* records: see `FieldsOk` (well-formedness of the codec; the builder guarantees it when the schema's
  field names are distinct);
* a nullable union's non-null position is 0 or 1 (well-formedness of the codec);
* string-coded times format to a text that parses (`TimeRT`); long-coded times have one of the three
  multipliers and their scaled value is an int64 (otherwise the real code wraps around);
  date-coded times have an int32 day number (otherwise the reader reports an error);
* general unions and custom codecs are outside (general unions have no writer).
No hypothesis restricts nil/empty, omitempty zeros, wrapper validity or time resolution. -/
def RTOk (env : Env) : Nat → Codec → GoVal → Prop
  | 0, _, _ => False
  | n + 1, c, g =>
    match c, g with
    | .int w _, .int i => inRange w i
    | .array item _, .slice items => items.length < 2 ^ 63 ∧ ∀ x ∈ items, RTOk env n item x
    | .map val _, .map _ ks vs => ks.Nodup ∧ ks.length = vs.length ∧ ∀ x ∈ vs, RTOk env n val x
    | .pointer c', .ptr none => c'.ptrDepth < n
    | .pointer c', .ptr (some x) => RTOk env n c' x
    | .record z cs ts, .struct fs => FieldsOk (RTOk env n) (Codec.zero env) cs ts fs z
    | .unionOne c' k, g => k < 2 ∧ (omits env c' g = false → RTOk env n c' g)
    | .unionNullString _ k, _ => k < 2
    | .timeString, .time t => TimeRT env t
    | .timeLong mult, .time t => (mult = 1 ∨ mult = 1000 ∨ mult = 1000000) ∧ inRange 64 (longOf mult t * mult)
    | .date, .time t => inRange 32 (Int.fdiv t.unix 86400)
    | .nullw .time, .nullw _ (.time t) => TimeRT env t
    | .custom _, _ => False
    | .union _, _ => False
    | _, _ => True

/-! ## List lemmas -/

theorem mapAssign_fresh (k : Bytes) (v : GoVal) : ∀ (ks : List Bytes) (vs : List GoVal),
    ks.length = vs.length → k ∉ ks → mapAssign k v ks vs = (ks ++ [k], vs ++ [v])
  | [], [], _, _ => rfl
  | [], _ :: _, h, _ => by simp at h
  | _ :: _, [], h, _ => by simp at h
  | k' :: ks, v' :: vs, h, hk => by
    have hne : k' ≠ k := fun e => hk (by simp [e])
    have hk' : k ∉ ks := fun e => hk (by simp [e])
    have := mapAssign_fresh k v ks vs (by simpa using h) hk'
    simp [mapAssign, hne, this]

theorem assignAll_fresh : ∀ (ks : List Bytes) (gs : List GoVal) (ks0 : List Bytes) (vs0 : List GoVal),
    ks.length = gs.length → ks0.length = vs0.length → (ks0 ++ ks).Nodup →
    assignAll ks gs ks0 vs0 = (ks0 ++ ks, vs0 ++ gs)
  | [], [], ks0, vs0, _, _, _ => by simp [assignAll]
  | [], _ :: _, _, _, h, _, _ => by simp at h
  | _ :: _, [], _, _, h, _, _ => by simp at h
  | k :: ks, g :: gs, ks0, vs0, h, h0, hnd => by
    have hk : k ∉ ks0 := by
      intro hmem
      have := List.nodup_append.mp hnd
      exact this.2.2 k hmem k (by simp) rfl
    have h1 := mapAssign_fresh k g ks0 vs0 h0 hk
    simp only [assignAll, h1]
    have := assignAll_fresh ks gs (ks0 ++ [k]) (vs0 ++ [g]) (by simpa using h) (by simp [h0])
      (by simpa [List.append_assoc] using hnd)
    simpa [List.append_assoc] using this

theorem listSet_getElem?_ne {α : Type} : ∀ (xs : List α) (i j : Nat) (a : α), i ≠ j → (listSet xs i a)[j]? = xs[j]?
  | [], _, _, _, _ => rfl
  | _ :: _, 0, 0, _, h => absurd rfl h
  | _ :: _, 0, _ + 1, _, _ => rfl
  | _ :: _, _ + 1, 0, _, _ => rfl
  | _ :: xs, i + 1, j + 1, a, h => by
    simpa [listSet] using listSet_getElem?_ne xs i j a (by omega)

theorem listSet_getElem?_eq {α : Type} : ∀ (xs : List α) (i : Nat) (a b : α), xs[i]? = some b → (listSet xs i a)[i]? = some a
  | [], _, _, _, h => by simp at h
  | _ :: _, 0, _, _, _ => rfl
  | _ :: xs, i + 1, a, b, h => by
    simpa [listSet] using listSet_getElem?_eq xs i a b (by simpa using h)

theorem FieldsOk.listSet {P : Codec → GoVal → Prop} {zero : Codec → GoVal} {fs : List GoVal} (i : Nat) (a : GoVal) :
    ∀ (cs : List Codec) (ts : List (Option Nat)) (z : List GoVal), some i ∉ ts →
      FieldsOk P zero cs ts fs z → FieldsOk P zero cs ts fs (listSet z i a)
  | [], _, _, _, _ => trivial
  | _ :: _, [], _, _, h => h
  | _ :: _, none :: _, _, _, h => h
  | c :: cs, some j :: ts, z, hi, h => by
    obtain ⟨h1, h2, h3, h4⟩ := h
    have hij : i ≠ j := fun e => hi (by simp [e])
    exact ⟨h1, by rw [listSet_getElem?_ne z i j a hij]; exact h2, h3,
      FieldsOk.listSet i a cs ts z (fun e => hi (by simp [e])) h4⟩

/-! ## The round trip -/

section
variable (env : Env)

/-- the statement proved by induction on the read budget `n` (the write budget `m` is independent:
`toAvro` spends budget along lists, `ofAvro` does not) -/
def RoundTripAt (n : Nat) : Prop :=
  ∀ m c g v, toAvro env (omits env) m c g = some v → RTOk env n c g →
    ofAvro env n c v (Codec.zero env c) = .ok (normCodec env n c g)

theorem nilChain_array : ∀ (n : Nat) (c : Codec) (item : Codec) (o : Bool), c.ptrDepth < n →
    Codec.stripPtr c = .array item o → ofAvro env n c (.array []) (Codec.zero env c) = .ok (nilForm c) := by
  intro n
  induction n with
  | zero => intro c item o h; omega
  | succ n ih =>
    intro c item o hd hs
    cases c <;> simp only [Codec.stripPtr] at hs <;> try contradiction
    case array it oo =>
      simp [ofAvro, Codec.zero, nilForm, mapFit]
    case pointer c' =>
      simp only [Codec.ptrDepth] at hd
      have := ih c' item o (by omega) hs
      simp [ofAvro, Codec.zero, nilForm, this]

theorem nilChain_map : ∀ (n : Nat) (c : Codec) (val : Codec) (o : Bool), c.ptrDepth < n →
    Codec.stripPtr c = .map val o → ofAvro env n c (.map [] []) (Codec.zero env c) = .ok (nilForm c) := by
  intro n
  induction n with
  | zero => intro c item o h; omega
  | succ n ih =>
    intro c item o hd hs
    cases c <;> simp only [Codec.stripPtr] at hs <;> try contradiction
    case map it oo =>
      simp [ofAvro, Codec.zero, nilForm, mapFit, assignAll]
    case pointer c' =>
      simp only [Codec.ptrDepth] at hd
      have := ih c' item o (by omega) hs
      simp [ofAvro, Codec.zero, nilForm, this]

theorem roundTrip_items (n : Nat) (ih : RoundTripAt env n) (c : Codec) :
    ∀ (items : List GoVal) (m : Nat) (vs : List Value), toAvroItems env (omits env) m c items = some vs →
      (∀ x ∈ items, RTOk env n c x) →
      mapFit (fun v => ofAvro env n c v (Codec.zero env c)) vs = .ok (items.map (normCodec env n c))
  | _, 0, _, h, _ => by simp [toAvroItems] at h
  | [], m + 1, vs, h, _ => by
    simp only [toAvroItems, Option.some.injEq] at h
    subst h; rfl
  | g :: gs, m + 1, vs, h, hok => by
    simp only [toAvroItems] at h
    split at h
    next v vs' hv hvs =>
      simp only [Option.some.injEq] at h
      subst h
      have h1 := ih m c g v hv (hok g (by simp))
      have h2 := roundTrip_items n ih c gs m vs' hvs (fun x hx => hok x (by simp [hx]))
      simp [mapFit, h1, h2]
    next => simp at h

theorem roundTrip_fields (n : Nat) (ih : RoundTripAt env n) (fs : List GoVal) :
    ∀ (cs : List Codec) (ts : List (Option Nat)) (m : Nat) (vs : List Value) (acc : List GoVal),
      toAvroFields env (omits env) m cs ts fs = some vs →
      FieldsOk (RTOk env n) (Codec.zero env) cs ts fs acc →
      fieldsFit (ofAvro env n) cs ts vs acc = .ok (normFieldsWith (normCodec env n) cs ts fs acc)
  | _, _, 0, _, _, h, _ => by simp [toAvroFields] at h
  | [], ts, m + 1, vs, acc, h, _ => by
    simp only [toAvroFields, Option.some.injEq] at h
    subst h
    simp [fieldsFit, normFieldsWith]
  | c :: cs, [], m + 1, vs, acc, h, _ => by simp [toAvroFields] at h
  | c :: cs, none :: ts, m + 1, vs, acc, h, _ => by simp [toAvroFields] at h
  | c :: cs, some i :: ts, m + 1, vs, acc, h, hok => by
    obtain ⟨hni, hz, ⟨g, hg, hP⟩, hrest⟩ := hok
    simp only [toAvroFields, hg] at h
    split at h
    next v vs' hv hvs =>
      simp only [Option.some.injEq] at h
      subst h
      have h1 := ih m c g v hv hP
      have h2 := roundTrip_fields n ih fs cs ts m vs' (listSet acc i (normCodec env n c g)) hvs
        (FieldsOk.listSet i _ cs ts acc hni hrest)
      simp [fieldsFit, hz, h1, normFieldsWith, hg, h2]
    next => simp at h

theorem roundTrip_zero : RoundTripAt env 0 := by
  intro m c g v _ hok
  simp [RTOk] at hok

theorem roundTrip_step (n : Nat) (ih : RoundTripAt env n) : RoundTripAt env (n + 1) := by
  intro m c g v ht hok
  cases m with
  | zero => simp [toAvro] at ht
  | succ m =>
  cases c
  case null =>
    simp only [toAvro, Option.some.injEq] at ht
    subst ht
    simp [ofAvro, normCodec, Codec.zero]
  case bool o =>
    cases g <;> simp only [toAvro] at ht <;> try contradiction
    simp only [Option.some.injEq] at ht; subst ht; simp [ofAvro, normCodec, Codec.zero]
  case float o =>
    cases g <;> simp only [toAvro] at ht <;> try contradiction
    simp only [Option.some.injEq] at ht; subst ht; simp [ofAvro, normCodec, Codec.zero]
  case double o =>
    cases g <;> simp only [toAvro] at ht <;> try contradiction
    simp only [Option.some.injEq] at ht; subst ht; simp [ofAvro, normCodec, Codec.zero]
  case f32double o =>
    cases g <;> simp only [toAvro] at ht <;> try contradiction
    simp only [Option.some.injEq] at ht; subst ht; simp [ofAvro, normCodec, Codec.zero]
  case string o =>
    cases g <;> simp only [toAvro] at ht <;> try contradiction
    simp only [Option.some.injEq] at ht; subst ht; simp [ofAvro, normCodec, Codec.zero]
  case fixed k =>
    cases g <;> simp only [toAvro] at ht <;> try contradiction
    simp only [Option.some.injEq] at ht; subst ht; simp [ofAvro, normCodec, Codec.zero]
  case bytes o =>
    cases g <;> simp only [toAvro] at ht <;> try contradiction
    simp only [Option.some.injEq] at ht; subst ht
    rename_i bs
    cases bs <;> simp [ofAvro, normCodec, Codec.zero]
  case int w o =>
    cases g <;> simp only [toAvro] at ht <;> try contradiction
    simp only [Option.some.injEq] at ht; subst ht
    simp only [RTOk] at hok
    simp [ofAvro, normCodec, hok]
  case array item o =>
    cases g <;> simp only [toAvro] at ht <;> try contradiction
    rename_i items
    simp only [Option.map_eq_some_iff] at ht
    obtain ⟨vs, hvs, rfl⟩ := ht
    simp only [RTOk] at hok
    obtain ⟨hlen, hall⟩ := hok
    have h1 := roundTrip_items env n ih item items m vs hvs hall
    have h2 := mapFit_length _ _ _ h1
    simp only [List.length_map] at h2
    have h3 : ¬ (([] : List GoVal).length + vs.length ≥ 2 ^ 63) := by simp; omega
    simp only [ofAvro, Codec.zero, h3, if_false, h1, normCodec]
    simp
  case map val o =>
    cases g <;> simp only [toAvro] at ht <;> try contradiction
    rename_i nl ks vals
    simp only [Option.map_eq_some_iff] at ht
    obtain ⟨vs, hvs, rfl⟩ := ht
    simp only [RTOk] at hok
    obtain ⟨hnd, hlen, hall⟩ := hok
    have h1 := roundTrip_items env n ih val vals m vs hvs hall
    have h2 := assignAll_fresh ks (vals.map (normCodec env n val)) [] [] (by simp [hlen]) rfl (by simpa using hnd)
    simp only [ofAvro, Codec.zero, h1, normCodec]
    simp [h2]
  case pointer c' =>
    cases g <;> simp only [toAvro] at ht <;> try contradiction
    rename_i tgt
    cases tgt with
    | none =>
      simp only [toAvro] at ht
      simp only [RTOk] at hok
      split at ht
      next item o hs =>
        simp only [Option.some.injEq] at ht; subst ht
        have := nilChain_array env n c' item o hok hs
        simp [ofAvro, Codec.zero, this, normCodec, hs]
      next val o hs =>
        simp only [Option.some.injEq] at ht; subst ht
        have := nilChain_map env n c' val o hok hs
        simp [ofAvro, Codec.zero, this, normCodec, hs]
      next => contradiction
    | some x =>
      simp only [toAvro] at ht
      simp only [RTOk] at hok
      have := ih m c' x v ht hok
      simp [ofAvro, Codec.zero, this, normCodec]
  case record z cs ts =>
    cases g <;> simp only [toAvro] at ht <;> try contradiction
    rename_i fs
    simp only [Option.map_eq_some_iff] at ht
    obtain ⟨vs, hvs, rfl⟩ := ht
    simp only [RTOk] at hok
    have := roundTrip_fields env n ih fs cs ts m vs z hvs hok
    simp [ofAvro, Codec.zero, this, normCodec]
  case union cs => simp [RTOk] at hok
  case custom id => simp [RTOk] at hok
  case unionOne c' k =>
    simp only [toAvro] at ht
    simp only [RTOk] at hok
    obtain ⟨hk, hok⟩ := hok
    by_cases hom : omits env c' g = true
    · simp only [hom, if_true, Option.some.injEq] at ht
      subst ht
      have h1 : ¬ (1 - k ≥ 2) := by omega
      have h2 : ¬ (1 - k = k) := by omega
      simp [ofAvro, Codec.zero, normCodec, hom, h1, h2]
    · simp only [hom] at ht
      cases hv' : toAvro env (omits env) m c' g with
      | none => simp [hv'] at ht
      | some v' =>
      simp only [hv', Option.map_some, Bool.false_eq_true, if_false, Option.some.injEq] at ht
      subst ht
      have h0 := ih m c' g v' hv' (hok (by simpa using hom))
      have h1 : ¬ (k ≥ 2) := by omega
      simp [ofAvro, Codec.zero, normCodec, hom, h1, h0]
  case unionNullString o k =>
    cases g <;> simp only [toAvro] at ht <;> try contradiction
    rename_i bs
    simp only [RTOk] at hok
    have h1 : ¬ (1 - k ≥ 2) := by omega
    have h2 : ¬ (1 - k = k) := by omega
    have h3 : ¬ (k ≥ 2) := by omega
    split at ht
    next hc =>
      simp only [Option.some.injEq] at ht; subst ht
      simp only [Bool.and_eq_true, List.isEmpty_iff] at hc
      simp [ofAvro, Codec.zero, normCodec, h1, h2, hc.2]
    next hc =>
      simp only [Option.some.injEq] at ht; subst ht
      simp [ofAvro, Codec.zero, normCodec, h3]
  case timeString =>
    cases g <;> simp only [toAvro] at ht <;> try contradiction
    rename_i t
    simp only [Option.some.injEq] at ht; subst ht
    simp only [RTOk] at hok
    obtain ⟨hne, t', hp, -⟩ := hok
    have he : (env.fmtTime t).isEmpty = false := by simpa [List.isEmpty_iff] using hne
    simp [ofAvro, normCodec, normTime, he, hp]
  case timeLong mult =>
    cases g <;> simp only [toAvro] at ht <;> try contradiction
    rename_i t
    simp only [Option.some.injEq] at ht; subst ht
    simp [ofAvro, normCodec, longOf]
  case date =>
    cases g <;> simp only [toAvro] at ht <;> try contradiction
    rename_i t
    simp only [Option.some.injEq] at ht; subst ht
    simp only [RTOk] at hok
    simp [ofAvro, normCodec, hok]
  case nullw k =>
    cases g <;> simp only [toAvro] at ht <;> try contradiction
    rename_i valid inner
    cases k <;> cases inner <;> simp only [] at ht <;> try contradiction
    all_goals (simp only [Option.some.injEq] at ht; subst ht)
    all_goals try (simp [ofAvro, normCodec]; done)
    rename_i t
    simp only [RTOk] at hok
    obtain ⟨hne, t', hp, -⟩ := hok
    have he : (env.fmtTime t).isEmpty = false := by simpa [List.isEmpty_iff] using hne
    simp [ofAvro, normCodec, normTime, he, hp]

/-- **M1, codec-level round trip**: the value a codec delivers (into the zeroed destination) for the
datum it writes for `g` is the normal form `normCodec … g`. The budgets of the two directions are
independent; all side conditions are in `RTOk`. -/
theorem roundTrip : ∀ n, RoundTripAt env n
  | 0 => roundTrip_zero env
  | n + 1 => roundTrip_step env n (roundTrip n)

/-- the same with one budget for both directions (the form asked for in the task) -/
theorem roundTrip_same (n : Nat) (c : Codec) (g : GoVal) (v : Value)
    (ht : toAvro env (omits env) n c g = some v) (hok : RTOk env n c g) :
    ofAvro env n c v (Codec.zero env c) = .ok (normCodec env n c g) :=
  roundTrip env n n c g v ht hok

end

/-! ## Laws of the external functions (`Env`) -/

/-- float32 bit pattern of a signalling NaN: exponent all ones, quiet bit clear, payload non-zero -/
def SNaN32 (b : Nat) : Prop := (b / 2 ^ 23) % 256 = 255 ∧ (b / 2 ^ 22) % 2 = 0 ∧ b % 2 ^ 22 ≠ 0

instance (b : Nat) : Decidable (SNaN32 b) := by unfold SNaN32; exact inferInstance

/-- a time that RFC 3339 can express: nanoseconds below one second, zone offset a whole number of
minutes below 100 hours, local year 0000–9999 -/
def TimeVal.Printable (t : TimeVal) : Prop :=
  t.nsec < 1000000000 ∧ t.off % 60 = 0 ∧ -360000 < t.off ∧ t.off < 360000 ∧
  -62167219200 ≤ t.unix + t.off ∧ t.unix + t.off < 253402300800

instance (t : TimeVal) : Decidable t.Printable := by unfold TimeVal.Printable; exact inferInstance

/-- What the value-level theorems assume of the external functions. Each law names the Go / IEEE 754
fact it stands for. -/
structure EnvLaws (env : Env) : Prop where
  /-- `float32(float64(f)) == f` bit for bit unless `f` is a signalling NaN: every float32 is exactly
  representable as a float64 (IEEE 754 §5.4.2; the conversion instructions quiet signalling NaNs). -/
  narrow_widen : ∀ b, ¬ SNaN32 b → env.narrow (env.widen b) = b
  /-- a float64 that was rounded to float32 survives widening and rounding again: `narrow` never
  yields a signalling NaN, and the other float32 values are fixed by `narrow_widen`. -/
  narrow_widen_narrow : ∀ d, env.narrow (env.widen (env.narrow d)) = env.narrow d
  /-- the conversions map ±0 to ±0 and nothing else to ±0 (a NaN stays a NaN). -/
  narrow_widen_zero : ∀ b, isZeroF32 (env.narrow (env.widen b)) = isZeroF32 b
  /-- `t.Format(time.RFC3339Nano)` is never the empty string. -/
  fmt_ne : ∀ t, env.fmtTime t ≠ []
  /-- formatting a printable time with nanosecond precision and parsing the text yields the same
  instant, nanoseconds and offset: `C18.format_parse` for the parser model (on broken-down fields)
  composed with Go's `Time.Date`/`time.Date` civil-calendar conversions being mutually inverse. -/
  parse_fmt : ∀ t : TimeVal, t.Printable → env.parseTime (env.fmtTime t) = some t
  /-- `time.Unix(0, n).UTC()`: floor division of the nanosecond count (`Time.ofUnixNano`,
  `C19.ofUnixNano_nanos`), zone UTC. -/
  ofNanos_eq : ∀ n, env.ofNanos n = ⟨n / 1000000000, (n % 1000000000).toNat, 0⟩
  /-- `time.Date(1970, 1, 1+d, 0, 0, 0, 0, time.UTC)` is midnight UTC of day `d` (`C19.dateDecode_eq`). -/
  ofDays_eq : ∀ d, env.ofDays d = ⟨d * 86400, 0, 0⟩

/-! ### the laws are consistent: a toy `Env` satisfying them -/

def toyFmt (t : TimeVal) : Bytes :=
  1 :: (writeVarint t.unix ++ (writeVarint t.nsec ++ (writeVarint t.off ++ [])))

def toyParse : Bytes → Option TimeVal
  | [] => none
  | _ :: r =>
    match readVarint r with
    | .ok (u, r1) =>
      match readVarint r1 with
      | .ok (ns, r2) =>
        match readVarint r2 with
        | .ok (off, _) => some ⟨u, ns.toNat, off⟩
        | .error _ => none
      | .error _ => none
    | .error _ => none

/-- a toy environment: floats are widened by the identity, signalling NaNs are quieted when
narrowing; times are printed as three varints -/
def toyEnv : Env where
  widen := fun b => b
  narrow := fun d => if SNaN32 d then 0x7fc00000 else d
  fmtTime := toyFmt
  parseTime := toyParse
  ofNanos := fun n => ⟨n / 1000000000, (n % 1000000000).toNat, 0⟩
  ofDays := fun d => ⟨d * 86400, 0, 0⟩
  custom := fun _ => ⟨fun _ => none, fun _ => none, fun _ => [], fun _ => false, .unit⟩

theorem toyEnv_laws : EnvLaws toyEnv where
  narrow_widen := by intro b hb; simp [toyEnv, hb]
  narrow_widen_narrow := by
    intro d
    simp only [toyEnv]
    by_cases hd : SNaN32 d
    · simp only [hd, if_true]; decide
    · simp [hd]
  narrow_widen_zero := by
    intro b
    simp only [toyEnv]
    by_cases hb : SNaN32 b
    · simp only [hb, if_true]
      have : isZeroF32 b = false := by
        unfold SNaN32 at hb
        unfold isZeroF32
        simp
        omega
      rw [this]; decide
    · simp [hb]
  fmt_ne := by intro t; simp [toyEnv, toyFmt]
  parse_fmt := by
    intro t ht
    obtain ⟨h1, h2, h3, h4, h5, h6⟩ := ht
    have r1 : inRange 64 t.unix := by unfold inRange; simp; omega
    have r2 : inRange 64 (t.nsec : Int) := by unfold inRange; simp; omega
    have r3 : inRange 64 t.off := by unfold inRange; simp; omega
    simp only [toyEnv, toyFmt, toyParse, Time.readVarint_write r1, Time.readVarint_write r2,
      Time.readVarint_write r3]
    simp
  ofNanos_eq := fun _ => rfl
  ofDays_eq := fun _ => rfl

end Avro
